(* C01 — struct forms, the induction, and the partial round-trip theorem. *)
From Coq Require Import List String ZArith Bool Ascii Arith Lia.
From Cog Require Import Model.GoSem Model.GoSemSpec08 Model.GoSemSpec01 Proofs.GoSemEqualsProofs
  Model.GoSemSpec01F Proofs.GoSemC01Json Proofs.GoSemC01Unfold Proofs.GoSemC01Sem.
Import ListNotations.
Local Open Scope list_scope.
Local Open Scope string_scope.

(* what a reference denotes satisfies union_ok *)
Lemma via_union_ok ctx p n pt :
  ctx_supported ctx = true ->
  match resolve ctx (TRef attrs0 p n) with
  | None => PUnm "reference cycle"
  | Some (TRef _ _ _) => PUnm "dangling reference"
  | Some rt => if t_nullable rt then PUnm "nullable object type"
               else if is_concrete_scalar rt then PUnm "reference to a constant"
               else PTy rt
  end = PTy pt ->
  union_ok ctx pt = true.
Proof.
  intros Hc H. pose proof (via_resolve _ _ _ _ H) as R.
  assert (Hr : is_ref pt = false).
  { rewrite R in H. destruct pt; try reflexivity; discriminate. }
  unfold resolve in R.
  destruct (resolve_fuel_obj _ _ _ _ R Hr) as [->|[o [Ho ->]]]; [discriminate|].
  pose proof (ctx_supported_obj _ _ Hc Ho) as S. unfold object_supported in S.
  apply andb_true_iff in S. destruct S as [_ S]. exact S.
Qed.

Lemma payload_union_ok ctx t pt :
  ctx_supported ctx = true -> is_ref t = true -> payload_type ctx t = PTy pt -> union_ok ctx pt = true.
Proof. intros Hc Hr Hp. destruct t; try discriminate. simpl in Hp. eapply via_union_ok; eauto. Qed.

Lemma is_ref_reflike t : is_ref t = true -> is_reflike t = true.
Proof. destruct t; try discriminate; reflexivity. Qed.

Section Main2.
  Variable ctx : schemas.
  Hypothesis Hc : ctx_supported ctx = true.
  Notation P := (P ctx).
  Notation good := (good ctx).

  (* the value a (possibly pointer) struct type holds, and its encoding *)
  Lemma struct_encode t a dh fs fvs : is_ref t = true -> payload_type ctx t = PTy (TStruct a dh fs) ->
    encode ctx t (if is_ptr t then GPtr (GStruct fvs) else GStruct fvs) =
    match union_scalars (TStruct a dh fs), union_refs (TStruct a dh fs) with
    | None, None => JObj (enc_fields ctx fs fvs)
    | _, _ => enc_union ctx fs fvs
    end.
  Proof.
    intros Hr Hp. destruct (is_ptr t).
    - change (encode ctx t (GPtr (GStruct fvs))) with (encode ctx (non_null t) (GStruct fvs)).
      apply encode_struct. unfold payload_or_self.
      rewrite payload_non_null_ref, Hp by (apply is_ref_reflike; auto). reflexivity.
    - apply encode_struct. unfold payload_or_self. rewrite Hp. reflexivity.
  Qed.

  Lemma struct_not_empty t a dh fs (v : gval) x :
    payload_type ctx t = PTy (TStruct a dh fs) ->
    nilable ctx t = true -> is_empty_value (if is_ptr t then GPtr v else v) = true -> is_empty_collection x = true.
  Proof.
    intros Hp Hn. rewrite nilable_eq, Hp in Hn. simpl in Hn. rewrite orb_false_r in Hn. rewrite Hn. discriminate.
  Qed.

  Lemma P_plain ms : Forall P (map snd ms) ->
    forall src t a dh fs, ty_supported ctx t = true -> payload_type ctx t = PTy (TStruct a dh fs) ->
      union_scalars (TStruct a dh fs) = None -> union_refs (TStruct a dh fs) = None ->
      strict_ok ctx (JObj ms) t = true -> rtsF ctx src (JObj ms) t = true -> json_wf (JObj ms) = true ->
      exists v, decode ctx (JObj ms) t = DSet v /\ good (JObj ms) t v /\
                exists v', strict_val ctx src (JObj ms) t = SOk v'.
  Proof.
    intros HK src t a dh fs Hs Hp Hus Hur Hok Hr W.
    pose proof (payload_supported _ _ _ Hc Hs Hp) as Hsf. simpl in Hsf.
    rewrite strict_ok_unfold, Hp in Hok by discriminate. unfold sok_body in Hok. rewrite Hus, Hur in Hok.
    rewrite rtsF_unfold, Hp in Hr by discriminate. unfold rts_body in Hr. rewrite Hus, Hur in Hr.
    apply andb_true_iff in Hr. destruct Hr as [Hr Hrs]. apply andb_true_iff in Hr. destruct Hr as [Href _].
    pose proof (pl_decode ctx fs ms Hok Hrs W HK Hsf) as D0.
    set (fvs := map (fun f => (f_name f, FV ctx ms f)) fs) in *.
    exists (if is_ptr t then GPtr (GStruct fvs) else GStruct fvs). split; [|split].
    - rewrite decode_unfold, Hp by discriminate. unfold dec_body. rewrite Hus, Hur, D0. unfold wrapd.
      destruct (is_ptr t); reflexivity.
    - unfold GoSemC01Sem.good. rewrite (struct_encode t a dh fs fvs Href Hp), Hus, Hur.
      unfold fvs. rewrite enc_fields_efl. split; [|split].
      + rewrite strict_ok_unfold, Hp by discriminate. unfold sok_body. rewrite Hus, Hur.
        apply pl_sok; auto.
      + apply pl_rel; auto.
      + intros _. apply (struct_not_empty t a dh fs); auto.
    - rewrite strict_val_unfold, Hp, Href. simpl negb. cbv iota. cbv zeta.
      unfold sv_struct_body. rewrite Hus, Hur.
      destruct (pl_strict ctx fs ms Hok Hrs W HK Hsf) as [v' ->]. eauto.
  Qed.

  (* ====================================================================== *)
  (* union of references                                                    *)
  (* ====================================================================== *)
  Lemma last_member_afind k (l : list (string * json)) : NoDup (map fst l) -> last_member k l = afind k l.
  Proof.
    unfold last_member. intros N.
    assert (G : forall acc, fold_left (fun acc kv => if seqb (fst kv) k then Some (snd kv) else acc) l acc
                            = match afind k l with Some x => Some x | None => acc end).
    { induction l as [|[k0 x] r IH]; simpl; intros acc; auto. inversion N; subst.
      rewrite IH by assumption. unfold seqb. destruct (String.eqb k0 k) eqn:E; auto.
      apply String.eqb_eq in E. subst k0. apply afind_none in H1. rewrite H1. reflexivity. }
    rewrite G. destruct (afind k l); reflexivity.
  Qed.

  Lemma select_jstr (d : disj) x y : jstr_of x = jstr_of y -> select_branch d (Some x) = select_branch d (Some y).
  Proof. unfold select_branch. destruct x, y; simpl; intros H; try discriminate; try reflexivity. inversion H. reflexivity. Qed.

  Lemma enc_union_pick f V : is_nil V = false -> forall bs, NoDup (map (fun g => f_name g) bs) -> In f bs ->
    enc_union ctx bs (map (fun g => (f_name g, if seqb (f_name g) (f_name f) then V else GNil)) bs)
    = encode ctx (f_type f) V.
  Proof.
    intros HV. induction bs as [|g r IH]; simpl; intros N H; [tauto|]. inversion N; subst.
    change (enc_union ctx (g :: r) ((f_name g, if seqb (f_name g) (f_name f) then V else GNil) ::
                                     map (fun g0 => (f_name g0, if seqb (f_name g0) (f_name f) then V else GNil)) r)
            = encode ctx (f_type f) V).
    rewrite enc_union_cons. destruct H as [->|H].
    - rewrite seqb_refl, HV. reflexivity.
    - destruct (seqb (f_name g) (f_name f)) eqn:E.
      + apply seqb_eq in E. exfalso. apply H2. rewrite E. apply (in_map (fun g => f_name g)). exact H.
      + simpl. apply IH; auto.
  Qed.

  Lemma P_urefs ms : Forall P (map snd ms) ->
    forall src t a dh fs d, ty_supported ctx t = true -> payload_type ctx t = PTy (TStruct a dh fs) ->
      union_scalars (TStruct a dh fs) = None -> union_refs (TStruct a dh fs) = Some d ->
      strict_ok ctx (JObj ms) t = true -> rtsF ctx src (JObj ms) t = true -> json_wf (JObj ms) = true ->
      exists v, decode ctx (JObj ms) t = DSet v /\ good (JObj ms) t v /\
                exists v', strict_val ctx src (JObj ms) t = SOk v'.
  Proof.
    intros HK src t a dh fs d Hs Hp Hus Hur Hok Hr W.
    pose proof (payload_supported _ _ _ Hc Hs Hp) as Hsf. simpl in Hsf.
    rewrite strict_ok_unfold, Hp in Hok by discriminate. unfold sok_body in Hok. rewrite Hus, Hur in Hok.
    rewrite rtsF_unfold, Hp in Hr by discriminate. unfold rts_body in Hr. rewrite Hus, Hur in Hr.
    apply andb_true_iff in Hr. destruct Hr as [Hr Hrs]. apply andb_true_iff in Hr. destruct Hr as [Href Hnf].
    apply str_nodup_NoDup in Hnf.
    pose proof (payload_union_ok _ _ _ Hc Href Hp) as U. unfold union_ok in U. rewrite Hus, Hur in U.
    unfold sok_urefs in Hok. unfold rts_urefs in Hrs.
    destruct (select_branch d (last_member (d_disc d) ms)) as [n|] eqn:Sel; try discriminate.
    destruct (field_by_ref_name fs n) as [f|] eqn:Fb; try discriminate.
    assert (Hf : In f fs) by (unfold field_by_ref_name in Fb; apply find_some in Fb; tauto).
    rewrite forallb_forall in U. specialize (U f Hf).
    rewrite forallb_forall in Hsf. pose proof (Hsf f Hf) as Hsft.
    destruct (payload_type ctx (f_type f)) as [bpt|] eqn:Hbp; try discriminate.
    destruct bpt as [| | | |a' dh' bfs| | | | | |]; try discriminate.
    assert (Hfr : is_ref (f_type f) = true /\ t_nullable (f_type f) = true /\ dh' = []).
    { destruct (f_type f); try discriminate. rewrite Hbp in U.
      apply andb_true_iff in U. destruct U as [U1 U2]. apply andb_true_iff in U1. destruct U1 as [U1 _].
      destruct dh'; try discriminate. auto. }
    destruct Hfr as [Hfref [Hfnull ->]].
    pose proof (payload_supported _ _ _ Hc Hsft Hbp) as Hsb. simpl in Hsb.
    apply andb_true_iff in Hrs. destruct Hrs as [Hrs Hdisc].
    destruct (wf_obj _ W) as [Nd _].
    pose proof (pl_decode ctx bfs ms Hok Hrs W HK Hsb) as D0.
    pose proof (pl_rel ctx bfs ms Hok Hrs W HK Hsb) as R0.
    pose proof (pl_sok ctx bfs ms Hok Hrs W HK Hsb) as S0.
    set (bfvs := map (fun f => (f_name f, FV ctx ms f)) bfs) in *.
    set (E := efl ctx (FV ctx ms) bfs) in *.
    set (fvs := map (fun g => (f_name g, if seqb (f_name g) (f_name f) then GPtr (GStruct bfvs) else GNil)) fs).
    assert (Enc : encode ctx (f_type f) (GPtr (GStruct bfvs)) = JObj E).
    { pose proof (struct_encode (f_type f) a' [] bfs bfvs Hfref Hbp) as X.
      rewrite (is_ref_is_ptr _ Hfref), Hfnull in X. rewrite X. simpl. unfold bfvs, E. rewrite enc_fields_efl. reflexivity. }
    exists (if is_ptr t then GPtr (GStruct fvs) else GStruct fvs). split; [|split].
    - rewrite decode_unfold, Hp by discriminate. unfold dec_body. rewrite Hus, Hur. unfold dec_urefs.
      rewrite Sel, Fb, Hbp, D0. unfold wrapd, set_field. fold fvs. destruct (is_ptr t); reflexivity.
    - unfold GoSemC01Sem.good. rewrite (struct_encode t a dh fs fvs Href Hp), Hus, Hur.
      unfold fvs. rewrite (enc_union_pick f (GPtr (GStruct bfvs)) eq_refl fs Hnf Hf), Enc.
      split; [|split]; auto.
      + rewrite strict_ok_unfold, Hp by discriminate. unfold sok_body. rewrite Hus, Hur. unfold sok_urefs.
        assert (Sel' : select_branch d (last_member (d_disc d) E) = Some n).
        { inversion R0 as [ | | | | | ms1 ms2 Hnd Hmem Hkeys]; subst.
          rewrite (last_member_afind _ _ Hnd). rewrite (last_member_afind _ _ Nd) in Sel, Hdisc.
          destruct (afind (d_disc d) ms) as [xd|] eqn:A; [|discriminate].
          apply afind_in in A. destruct (Hmem _ _ A) as [[yd [Hy Rxy]]|[-> _]]; [|discriminate].
          rewrite (in_afind _ _ _ Hnd Hy). rewrite <- Sel. apply select_jstr. symmetry. apply rel_jstr; auto. }
        rewrite Sel', Fb, Hbp. exact S0.
      + intros _. apply (struct_not_empty t a dh fs); auto.
    - rewrite strict_val_unfold, Hp, Href. simpl negb. cbv iota. cbv zeta.
      unfold sv_struct_body. rewrite Hus, Hur. unfold sv_urefs. rewrite Sel, Fb, Hbp.
      destruct (pl_strict ctx bfs ms Hok Hrs W HK Hsb) as [v' ->]. eauto.
  Qed.

  (* ====================================================================== *)
  (* union of scalars                                                       *)
  (* ====================================================================== *)
  Definition ushape (f : field) : bool :=
    match f_type f with TScalar _ _ _ _ | TArray _ _ | TMap _ _ _ => true | _ => false end.

  Lemma ushape_simple f : ushape f = true -> simple_ty (non_null (f_type f)) = true.
  Proof. unfold ushape. destruct (f_type f); try discriminate; reflexivity. Qed.

  Lemma decode_simple_bt j bt : j <> JNull -> simple_ty bt = true -> is_ptr bt = false ->
    decode ctx j bt = dec_simple ctx j bt.
  Proof.
    intros Hj Hst Hptr. rewrite decode_unfold by assumption.
    rewrite payload_self by (destruct bt; try discriminate; reflexivity).
    rewrite dec_body_simple by assumption. unfold wrapd. rewrite Hptr. reflexivity.
  Qed.

  Lemma branch_enc f v : ushape f = true -> is_nil v = false ->
    exists t', encode ctx (f_type f) (branch_val f v) = encode ctx t' v /\
               non_null (payload_or_self ctx t') = non_null (non_null (f_type f)) /\
               is_nil (branch_val f v) = false.
  Proof.
    unfold ushape, branch_val. intros Hu Hv. destruct (f_type f) eqn:Ft; try discriminate.
    - exists (TArray a t). repeat split; auto. 
    - exists (TMap a t1 t2). repeat split; auto.
    - exists (non_null (TScalar a k value cs)). repeat split; auto.
  Qed.

  Lemma coll_fits_sok j bt : coll_match bt j = true -> coll_fits ctx j bt = sok_simple ctx j bt.
  Proof. destruct bt; try discriminate; destruct j; try discriminate; reflexivity. Qed.

  Lemma union_try j t : j <> JNull -> json_wf j = true -> Forall P (kids j) -> forall fs bs,
    (forall f, In f bs -> ushape f = true /\ ty_supported ctx (f_type f) = true /\
                          rts_simple ctx t j RField (non_null (f_type f)) = true /\
                          coll_fits ctx j (non_null (f_type f)) = true) ->
    existsb (fun f => sok_simple ctx j (non_null (f_type f))) bs = true ->
    exists f v, In f bs /\ sok_simple ctx j (non_null (f_type f)) = true /\
      sgood ctx j (non_null (f_type f)) v /\
      dec_union ctx j fs bs = DSet (set_field fs (f_name f) (branch_val f v)) /\
      exists v', sv_union ctx j fs bs = SOk v'.
  Proof.
    intros Hj W HK fs. induction bs as [|g r IH]; intros HB Hex; [discriminate|].
    destruct (HB g (or_introl eq_refl)) as [Hu [Hsg [Hrg Hcg]]].
    pose proof (ushape_simple _ Hu) as Hst.
    pose proof (supported_non_null _ _ Hsg) as Hsb.
    pose proof (is_ptr_non_null (f_type g)) as Hptr.
    destruct (sok_simple ctx j (non_null (f_type g))) eqn:Sg.
    - destruct (simple_dec ctx j Hj W HK t RField _ Hsb Hst Hrg Sg) as [v [D G]].
      exists g, v. split; [left; reflexivity|]. split; auto. split; auto. split.
      + simpl. rewrite D. reflexivity.
      + simpl. rewrite (decode_simple_bt j _ Hj Hst Hptr), D. eauto.
    - assert (Cm : coll_match (non_null (f_type g)) j = false).
      { destruct (coll_match (non_null (f_type g)) j) eqn:Cm; auto.
        rewrite (coll_fits_sok _ _ Cm) in Hcg. congruence. }
      pose proof (simple_err ctx j t RField _ Hj W Hsb Hst Hrg Sg Cm) as D.
      simpl in Hex. rewrite Sg in Hex. simpl in Hex.
      destruct (IH (fun f Hf => HB f (or_intror Hf)) Hex) as [f [v [Hf [Sf [G [D1 [v' D2]]]]]]].
      exists f, v. split; [right; auto|]. split; auto. split; auto. split.
      + simpl. rewrite D. exact D1.
      + simpl. rewrite (decode_simple_bt j _ Hj Hst Hptr), D. eauto.
  Qed.

  Lemma P_uscalars j : j <> JNull -> Forall P (kids j) ->
    forall src t a dh fs du, ty_supported ctx t = true -> payload_type ctx t = PTy (TStruct a dh fs) ->
      union_scalars (TStruct a dh fs) = Some du ->
      strict_ok ctx j t = true -> rtsF ctx src j t = true -> json_wf j = true ->
      exists v, decode ctx j t = DSet v /\ good j t v /\ exists v', strict_val ctx src j t = SOk v'.
  Proof.
    intros Hj HK src t a dh fs du Hs Hp Hus Hok Hr W.
    pose proof (payload_supported _ _ _ Hc Hs Hp) as Hsf. simpl in Hsf.
    rewrite strict_ok_unfold, Hp in Hok by assumption. unfold sok_body in Hok. rewrite Hus in Hok.
    rewrite rtsF_unfold, Hp in Hr by assumption. unfold rts_body in Hr. rewrite Hus in Hr.
    apply andb_true_iff in Hr. destruct Hr as [Hr Hrs]. apply andb_true_iff in Hr. destruct Hr as [Href Hnf].
    apply str_nodup_NoDup in Hnf.
    pose proof (payload_union_ok _ _ _ Hc Href Hp) as U. unfold union_ok in U. rewrite Hus in U.
    destruct (union_refs (TStruct a dh fs)) eqn:Hur; try discriminate.
    rewrite forallb_forall in U, Hsf, Hrs.
    assert (HB : forall f, In f fs -> ushape f = true /\ ty_supported ctx (f_type f) = true /\
                          rts_simple ctx t j RField (non_null (f_type f)) = true /\
                          coll_fits ctx j (non_null (f_type f)) = true).
    { intros f Hf. specialize (U f Hf). specialize (Hrs f Hf). apply andb_true_iff in Hrs.
      split; [|split; [apply Hsf; auto|exact Hrs]].
      unfold ushape. destruct (f_type f); try discriminate; reflexivity. }
    destruct (union_try j t Hj W HK fs fs HB Hok) as [f [v [Hf [Sf [[Nv [En _]] [D [v' Sv]]]]]]].
    destruct (HB f Hf) as [Hu _].
    destruct (branch_enc f v Hu Nv) as [t' [Eq [Ht' Nb]]].
    destruct (En t' Ht') as [E1 E2].
    set (fvs := map (fun g => (f_name g, if seqb (f_name g) (f_name f) then branch_val f v else GNil)) fs).
    exists (if is_ptr t then GPtr (GStruct fvs) else GStruct fvs). split; [|split].
    - rewrite decode_unfold, Hp by assumption. unfold dec_body. rewrite Hus, D.
      unfold wrapd, set_field. fold fvs. destruct (is_ptr t); reflexivity.
    - unfold GoSemC01Sem.good. rewrite (struct_encode t a dh fs fvs Href Hp), Hus.
      unfold fvs. rewrite (enc_union_pick f (branch_val f v) Nb fs Hnf Hf), Eq.
      split; [|split]; auto.
      + rewrite strict_ok_unfold, Hp by (eapply rel_nonnull; eauto). unfold sok_body. rewrite Hus.
        apply existsb_exists. exists f. auto.
      + intros _. apply (struct_not_empty t a dh fs); auto.
    - rewrite strict_val_unfold, Hp, Href. simpl negb. cbv iota. cbv zeta.
      unfold sv_struct_body. rewrite Hus, Sv. eauto.
  Qed.

  (* ====================================================================== *)
  (* the induction                                                          *)
  (* ====================================================================== *)
  Lemma P_step j : j <> JNull -> Forall P (kids j) -> P j.
  Proof.
    intros Hj HK src t Hs Hok Hr W _.
    destruct (supported_payload _ _ Hs) as [pt Hp].
    destruct (simple_ty pt) eqn:St; [eapply P_simple; eauto|].
    pose proof Hok as Hok'. rewrite strict_ok_unfold, Hp in Hok' by assumption.
    destruct pt; try discriminate St; try (simpl in Hok'; discriminate).
    unfold sok_body in Hok'.
    destruct (union_scalars (TStruct a dh fs)) as [du|] eqn:Hus; [eapply P_uscalars; eauto|].
    destruct (union_refs (TStruct a dh fs)) as [d|] eqn:Hur.
    - destruct j; try (simpl in Hok'; discriminate). eapply P_urefs; eauto.
    - destruct j; try (simpl in Hok'; discriminate). eapply P_plain; eauto.
  Qed.

  Theorem P_all : forall j, P j.
  Proof.
    induction j using json_ind'.
    - apply P_null.
    - apply P_step; [discriminate|constructor].
    - apply P_step; [discriminate|constructor].
    - apply P_step; [discriminate|constructor].
    - apply P_step; [discriminate|exact H].
    - apply P_step; [discriminate|]. simpl. apply Forall_map. exact H.
  Qed.
End Main2.

Theorem roundtrip_partialF ctx p n d :
  ctx_supported ctx = true -> json_wf d = true -> ir_valid_object ctx p n d = true ->
  roundtrip_safeF ctx p n d = true -> roundtrip_holds ctx p n d = true.
Proof.
  intros Hc W Hv Hr. unfold ir_valid_object, strict_ok_object in Hv.
  assert (Hd : d <> JNull) by (destruct d; [discriminate|congruence..]).
  assert (Hok : strict_ok ctx d (TRef attrs0 p n) = true) by (destruct d; auto; congruence).
  assert (Hs : ty_supported ctx (TRef attrs0 p n) = true).
  { rewrite strict_ok_unfold in Hok by assumption.
    change (match payload_type ctx (TRef attrs0 p n) with PTy _ => true | PUnm _ => false end = true).
    destruct (payload_type ctx (TRef attrs0 p n)); [reflexivity|discriminate]. }
  destruct (P_all ctx Hc d RField (TRef attrs0 p n) Hs Hok Hr W) as [v [D [[G1 [G2 _]] [v' S]]]]; [congruence|].
  unfold roundtrip_holds, decode_object, strict_object. rewrite D, S.
  unfold ir_valid_object, strict_ok_object, encode_object.
  pose proof (rel_nonnull _ _ G2 Hd) as Ne.
  apply andb_true_iff. split.
  - destruct (encode ctx (TRef attrs0 p n) v); auto; congruence.
  - apply rel_eq_mod_null; auto.
Qed.
Print Assumptions roundtrip_partialF.
