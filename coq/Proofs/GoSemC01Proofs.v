(* C01 — proofs about the round trip decode / encode of the generated Go types.
   Witnesses 1-5 are exactly the statements Props/C01.v asks for.
   go_roundtrip_nf_partial AS STATED in Props/C01.v is FALSE (counterexamples: Proofs/GoSemC01Cex.v);
   go_roundtrip_nf_partial_weak is the theorem with the corrected exclusion predicate
   roundtrip_safeF (Model/GoSemSpec01F.v) in place of roundtrip_safe. *)
From Coq Require Import List String ZArith Bool Ascii Arith Lia.
From Cog Require Import Model.GoSem Model.GoSemSpec08 Model.GoSemSpec01
  Model.GoSemSpec01F Proofs.GoSemC01Cex Proofs.GoSemC01Sem2 Proofs.GoSemC01Rts.
Import ListNotations.
Local Open Scope list_scope.
Local Open Scope string_scope.

Module W01.
  Definition meta0 : smeta := {| m_kind := "" ; m_variant := "" ; m_identifier := "" |}.
  Definition tstr : ty := TScalar attrs0 KString DNil [].
  Definition tint : ty := TScalar attrs0 KInt64 DNil [].
  Definition nullable0 : attrs := {| nullable := true; dflt := DNil; hints := [] |}.
  Definition mk (objs : list (string * ty)) : schemas :=
    [mkSchema "p" meta0 "" ty_zero (map (fun nt => (fst nt, mkObject (fst nt) [] (snd nt) "p" (fst nt))) objs)].

  (* 1: optional empty array *)
  Definition ctx1 : schemas :=
    mk [("Root", TStruct attrs0 [] [mkField "id" [] tstr true;
                                    mkField "tags" [] (TArray nullable0 tstr) false])].
  Definition d1 : json := JObj [("id", JStr "abc"); ("tags", JArr [])].

  (* 2: date-time *)
  Definition tdt : ty :=
    TScalar {| nullable := false; dflt := DNil; hints := [("string_format_datetime", DBool true)] |} KString DNil [].
  Definition ctx2 : schemas := mk [("Root", TStruct attrs0 [] [mkField "when" [] tdt true])].
  Definition d2 : json := JObj [("when", JStr "2020-01-01T00:00:00.000Z")].

  (* 3: integer literal *)
  Definition ctx3 : schemas := mk [("Root", TStruct attrs0 [] [mkField "n" [] tint true])].
  Definition d3 : json := JObj [("n", JNum 10 (-1))].

  (* 4: nested maps *)
  Definition ctx4 : schemas :=
    mk [("S", TStruct attrs0 [] [mkField "x" [] tint true]);
        ("Root", TStruct attrs0 [] [mkField "m" [] (TMap attrs0 tstr (TMap attrs0 tstr (TRef attrs0 "p" "S"))) true])].
  Definition d4 : json := JObj [("m", JObj [("a", JObj [("b", JObj [("x", JNum 1 0)])])])].

  (* 5: non-vacuity *)
  Definition ctx5 : schemas :=
    mk [("S", TStruct attrs0 [] [mkField "x" [] tint true; mkField "y" [] (TScalar nullable0 KString DNil []) false]);
        ("Root", TStruct attrs0 []
           [mkField "s" [] (TRef attrs0 "p" "S") true;
            mkField "tags" [] (TArray attrs0 tstr) true;
            mkField "m" [] (TMap attrs0 tstr tint) false;
            mkField "f" [] (TScalar attrs0 KFloat64 DNil []) true])].
  Definition d5 : json :=
    JObj [("f", JNum 15 (-1)); ("tags", JArr [JStr "a"; JStr "b"]);
          ("s", JObj [("x", JNum 7 0); ("y", JNull)]); ("m", JObj [("k", JNum 1 0)])].
End W01.

Lemma go_roundtrip_nf_refuted :
  ~ (forall ctx p n d, ctx_supported ctx = true -> struct_object ctx p n = true -> json_wf d = true ->
       ir_valid_object ctx p n d = true -> roundtrip_holds ctx p n d = true).
Proof.
  intro H. specialize (H W01.ctx1 "p" "Root" W01.d1).
  assert (X : roundtrip_holds W01.ctx1 "p" "Root" W01.d1 = true) by (apply H; vm_compute; reflexivity).
  vm_compute in X. discriminate.
Qed.

Lemma go_roundtrip_nf_refuted_datetime : exists ctx p n d, ctx_supported ctx = true /\ struct_object ctx p n = true /\
  json_wf d = true /\ ir_valid_object ctx p n d = true /\ roundtrip_holds ctx p n d = false.
Proof. exists W01.ctx2, "p", "Root", W01.d2. repeat split; vm_compute; reflexivity. Qed.

Lemma go_roundtrip_nf_refuted_integer_literal : exists ctx p n d, ctx_supported ctx = true /\ struct_object ctx p n = true /\
  json_wf d = true /\ ir_valid_object ctx p n d = true /\ roundtrip_holds ctx p n d = false.
Proof. exists W01.ctx3, "p", "Root", W01.d3. repeat split; vm_compute; reflexivity. Qed.

Lemma go_roundtrip_nf_refuted_nested_maps : exists ctx p n d, ctx_supported ctx = true /\ struct_object ctx p n = true /\
  json_wf d = true /\ ir_valid_object ctx p n d = true /\ roundtrip_holds ctx p n d = false.
Proof. exists W01.ctx4, "p", "Root", W01.d4. repeat split; vm_compute; reflexivity. Qed.

Lemma c01_nonvacuous : exists ctx p n d, ctx_supported ctx = true /\ struct_object ctx p n = true /\ json_wf d = true /\
  ir_valid_object ctx p n d = true /\ roundtrip_safe ctx p n d = true /\ json_depth d >= 2.
Proof. exists W01.ctx5, "p", "Root", W01.d5. repeat split; try (vm_compute; reflexivity); vm_compute; lia. Qed.

Example c01_nonvacuous_holds : roundtrip_holds W01.ctx5 "p" "Root" W01.d5 = true.
Proof. vm_compute. reflexivity. Qed.

(* ---------- the partial theorem, with the corrected exclusion predicate ---------- *)
Theorem go_roundtrip_nf_partial_weak : forall ctx p n d, ctx_supported ctx = true -> struct_object ctx p n = true ->
  json_wf d = true -> ir_valid_object ctx p n d = true -> roundtrip_safeF ctx p n d = true ->
  roundtrip_holds ctx p n d = true.
Proof. intros ctx p n d Hc _ W Hv Hr. apply roundtrip_partialF; assumption. Qed.

(* the corrected predicate is STRONGER than the one of Model/GoSemSpec01.v: the weak theorem is the statement of
   Props/C01.v under a stronger hypothesis *)
Theorem roundtrip_safeF_implies_safe : forall ctx p n d,
  roundtrip_safeF ctx p n d = true -> roundtrip_safe ctx p n d = true.
Proof. exact roundtrip_safeF_safe. Qed.

(* the statement of Props/C01.v with the first exclusion predicate (GoSemC01Cex.rts_old) is refuted
   (GoSemC01Cex.cex1: optional non-nullable string holding "") *)
Theorem go_roundtrip_nf_partial_refuted :
  ~ (forall ctx p n d, ctx_supported ctx = true -> struct_object ctx p n = true ->
       json_wf d = true -> ir_valid_object ctx p n d = true -> roundtrip_safe_old ctx p n d = true ->
       roundtrip_holds ctx p n d = true).
Proof.
  intro H. specialize (H X01.c1 "p" "Root" X01.d1).
  assert (X : roundtrip_holds X01.c1 "p" "Root" X01.d1 = true) by (apply H; vm_compute; reflexivity).
  vm_compute in X. discriminate.
Qed.

(* non-vacuity of the weak theorem: nested struct, array, map, null member; and both union forms *)
Module W01b.
  Import W01.
  Definition ctx6 : schemas :=
    mk [("A", TStruct attrs0 [] [mkField "type" [] tstr true; mkField "x" [] tint true]);
        ("B", TStruct attrs0 [] [mkField "type" [] tstr true; mkField "y" [] (TScalar nullable0 KString DNil []) false]);
        ("AB", TStruct attrs0 [("disjunction_of_refs",
                                mkDisj [TRef attrs0 "p" "A"; TRef attrs0 "p" "B"] "type" [("a", "A"); ("b", "B")])]
                 [mkField "A" [] (TRef nullable0 "p" "A") false; mkField "B" [] (TRef nullable0 "p" "B") false]);
        ("SU", TStruct attrs0 [("disjunction_of_scalars", mkDisj [] "" [])]
                 [mkField "String" [] (TScalar nullable0 KString DNil []) false;
                  mkField "Int64" [] (TScalar nullable0 KInt64 DNil []) false;
                  mkField "ArrayOfString" [] (TArray attrs0 tstr) false]);
        ("Root", TStruct attrs0 []
           [mkField "ab" [] (TRef attrs0 "p" "AB") true;
            mkField "us" [] (TArray attrs0 (TRef attrs0 "p" "SU")) true;
            mkField "any" [] (TScalar attrs0 KAny DNil []) false;
            mkField "opt" [] (TRef nullable0 "p" "AB") false])].
  Definition d6 : json :=
    JObj [("us", JArr [JStr "s"; JNum 3 0; JArr [JStr "t"]]);
          ("any", JObj [("z", JNum 10 (-1)); ("a", JArr [JNull])]);
          ("ab", JObj [("y", JNull); ("type", JStr "b")]);
          ("opt", JNull)].
End W01b.

Example c01_nonvacuous_weak : exists ctx p n d, ctx_supported ctx = true /\ struct_object ctx p n = true /\ json_wf d = true /\
  ir_valid_object ctx p n d = true /\ roundtrip_safeF ctx p n d = true /\ json_depth d >= 2.
Proof. exists W01.ctx5, "p", "Root", W01.d5. repeat split; try (vm_compute; reflexivity); vm_compute; lia. Qed.

Example c01_nonvacuous_unions : ctx_supported W01b.ctx6 = true /\ json_wf W01b.d6 = true /\
  ir_valid_object W01b.ctx6 "p" "Root" W01b.d6 = true /\ roundtrip_safeF W01b.ctx6 "p" "Root" W01b.d6 = true /\
  roundtrip_holds W01b.ctx6 "p" "Root" W01b.d6 = true.
Proof. repeat split; vm_compute; reflexivity. Qed.

Print Assumptions go_roundtrip_nf_refuted.
Print Assumptions go_roundtrip_nf_refuted_datetime.
Print Assumptions go_roundtrip_nf_refuted_integer_literal.
Print Assumptions go_roundtrip_nf_refuted_nested_maps.
Print Assumptions c01_nonvacuous.
Print Assumptions go_roundtrip_nf_partial_weak.
Print Assumptions go_roundtrip_nf_partial_refuted.

(* Certifies that rts_old IS the current Model/GoSemSpec01.v rts, i.e. that go_roundtrip_nf_partial_refuted refutes
   the statement of Props/C01.v as it stands.  DELETE this lemma when rts is replaced by rtsF. *)
Lemma roundtrip_safe_old_is_current : roundtrip_safe_old = roundtrip_safe.
Proof. reflexivity. Qed.
