(* Theorems ACROSS the Go compiler-pass chain for the OpenAPI and CUE front-ends, on the plain fragment
   (Model/FrontEndChainSpecX.v); the JSON Schema counterparts are in Proofs/FrontEndChain.v.
     src_valid_doc "openapi" ==(FrontEndOA.v)==        ir_accepts_n_doc (parse_ctx_oa s)
     src_valid_doc "cue"     ==(FrontEndCueProofs.v)== ir_accepts_c_doc (parse_ctx_cue s)
                             --(FrontEndChainXAccept.v)--> ir_accepts_doc
                             --(FrontEndChainXPasses.v, FrontEndChainXAccept.v)--> ir_valid_object (process chain_go ...)
                             --(GoSemC01Proofs.v)--> roundtrip_holds.
   X1 chain_go_plain_explicit_oa   X2 chain_go_preserves_acceptance_fwd_oa   X3 src_valid_roundtrip_plain_oa
   X4 chain_go_plain_explicit_cue  X5 chain_go_preserves_acceptance_fwd_cue  X6 src_valid_roundtrip_plain_cue
   X7 chain_plain_oa_nonvacuous, chain_plain_cue_nonvacuous (+ chain_plain_cue_bytes_unsupported). *)
From Coq Require Import List String ZArith Bool Ascii Lia.
From Cog Require Import Model.IR Model.Json Model.GoSemBase Model.GoSemDecode Model.GoSemValidate Model.GoSemStrict
  Model.GoSem Model.GoSemSpec08 Model.GoSemSpec01 Model.GoSemSpec01F Model.Src Model.FrontEnd Model.FrontEndSpec
  Model.FrontEndSpecOA Model.FrontEndCue Model.FrontEndSpecCue
  Model.Passes Model.PassesChain Model.Process Gen.Chains_gen Model.FrontEndChainSpec Model.FrontEndChainSpecX.
From Cog Require Import Proofs.FrontEndChainPasses Proofs.FrontEndChainAccept Proofs.FrontEndChain
  Proofs.FrontEndChainXPasses Proofs.FrontEndChainXAccept Proofs.FrontEndLemmas Proofs.FrontEndOA Proofs.FrontEndCueProofs
  Proofs.GoSemC01Proofs.
Import ListNotations.
Local Open Scope string_scope.
Local Open Scope list_scope.

(* ---------- plain implies leafy ---------- *)
Lemma fx_ty_plain_leafy : forall t, ty_plain_x t = true -> ty_leafy t = true.
Proof.
  induction t; simpl; intro H; try discriminate; try reflexivity.
  - apply andb_true_iff in H. destruct H as [_ H]. apply IHt. exact H.
  - apply andb_true_iff in H. destruct H as [H H2]. apply andb_true_iff in H. destruct H as [_ H1].
    rewrite (IHt1 H1), (IHt2 H2). reflexivity.
Qed.
Lemma fx_obj_plain_leafy ko : obj_plain_x ko = true -> obj_leafy ko = true.
Proof.
  unfold obj_plain_x, obj_leafy. intro H. apply andb_true_iff in H. destruct H as [H1 H2]. rewrite H1. cbn [andb].
  destruct (o_type (snd ko)); try discriminate.
  apply andb_true_iff in H2. destruct H2 as [_ H2]. revert H2. apply fc_forallb_impl. intros f _. apply fx_ty_plain_leafy.
Qed.
Lemma fx_ety_plain_leafy t : ety_plain_x t = true -> ety_leafy_x t = true.
Proof.
  unfold ety_plain_x, ety_leafy_x. intro H. apply orb_true_iff in H. destruct H as [H|H].
  - rewrite (fx_ty_plain_leafy _ H). reflexivity.
  - rewrite H. apply orb_true_r.
Qed.
Lemma fx_ctx_plain_leafy ctx : ctx_plain_x ctx = true -> ctx_leafy_x ctx = true.
Proof.
  unfold ctx_plain_x, ctx_leafy_x. apply fc_forallb_impl. intros s _ H. unfold schema_plain_x in H. unfold schema_leafy_x.
  apply andb_true_iff in H. destruct H as [H H3]. apply andb_true_iff in H. destruct H as [H1 H2].
  rewrite H1, (fx_ety_plain_leafy _ H3), andb_true_r. cbn [andb].
  revert H2. apply fc_forallb_impl. intros ko _. apply fx_obj_plain_leafy.
Qed.

(* on the IR: chain_go is computed on ctx_plain_x, acceptance goes through *)
Theorem chain_go_plain_x ctx : ctx_plain_x ctx = true -> process chain_go ctx = Ok (nrfn_only ctx).
Proof. intro H. apply chain_go_leafy_x. apply fx_ctx_plain_leafy. exact H. Qed.

(* ====================================================================================================
   OpenAPI
   ==================================================================================================== *)
Lemma fx_oa_ty_plain pkg : forall t, sty_plain t = true -> ty_plain_x (oa_ty pkg t) = true.
Proof.
  induction t; simpl; intro H; try discriminate; try reflexivity.
  - destruct (seqb w "int32"); reflexivity.
  - destruct (seqb w "float32"); reflexivity.
  - apply IHt. exact H.
  - apply IHt. exact H.
Qed.

Definition fx_oa_mkobj (pkg : string) (d : string * src_ty) : string * object :=
  (fst d, mkObject (fst d) [] (oa_ty pkg (snd d)) pkg (fst d)).

Lemma fx_oa_parse_ctx_eq s : oa_schema_supported s = true ->
  parse_ctx_oa s = [mkSchema (src_pkg s) meta0 "" (TBad attrs0 "") (sort_objs (map (fx_oa_mkobj (src_pkg s)) (src_defs s)))].
Proof. intro H. unfold parse_ctx_oa, parse_openapi. rewrite H. reflexivity. Qed.

Lemma fx_chain_plain_oa_parts s : chain_plain_oa s = true ->
  src_wf_oa s = true /\ oa_schema_supported s = true /\ str_nodup (map fst (src_defs s)) = true /\
  forall d, In d (src_defs s) -> sdef_plain (snd d) = true.
Proof.
  unfold chain_plain_oa. intro H. apply andb_true_iff in H. destruct H as [W P].
  assert (oa_schema_supported s = true) as J.
  { unfold src_wf_oa in W. apply andb_true_iff in W. exact (proj1 W). }
  repeat split; try assumption.
  - unfold oa_schema_supported in J. apply andb_true_iff in J. destruct J as [J _].
    unfold defs_closed in J. apply andb_true_iff in J. exact (proj1 J).
  - apply forallb_forall. exact P.
Qed.

Lemma fx_oa_sdef_obj_plain pkg d : sdef_plain (snd d) = true -> obj_plain_x (fx_oa_mkobj pkg d) = true.
Proof.
  destruct d as [k t]. cbn [snd]. intro H. unfold obj_plain_x, fx_oa_mkobj. cbn [fst snd o_name o_type].
  unfold seqb. rewrite String.eqb_refl. cbn [andb].
  destruct t; try discriminate. destruct fs as [|f fs]; [discriminate|].
  cbn [sdef_plain] in H. cbn [oa_ty]. cbn [attrs_plain attrs0 nullable dflt negb dyn_is_nil andb].
  rewrite fc_forallb_sort_fields, fc_forallb_map. revert H. apply fc_forallb_impl.
  intros g _ Hg. unfold sfield_plain in Hg. apply andb_true_iff in Hg. destruct Hg as [Hg Hp].
  apply andb_true_iff in Hg. destruct Hg as [Hn _]. apply negb_true_iff in Hn. cbn [f_type]. rewrite Hn.
  cbn [andb]. unfold with_nullable. apply fx_oa_ty_plain. exact Hp.
Qed.

Theorem chain_plain_oa_ctx_plain s : chain_plain_oa s = true -> ctx_plain_x (parse_ctx_oa s) = true.
Proof.
  intro H. destruct (fx_chain_plain_oa_parts s H) as [_ [J [N P]]].
  rewrite (fx_oa_parse_ctx_eq s J). unfold ctx_plain_x. cbn [forallb]. rewrite andb_true_r.
  unfold schema_plain_x. cbn [s_objects s_entrytype]. apply andb_true_iff. split; [apply andb_true_iff; split|reflexivity].
  - rewrite fc_nodup_sort_objs, map_map. cbn [fx_oa_mkobj fst]. exact N.
  - rewrite fc_forallb_sort_objs, fc_forallb_map. apply forallb_forall. intros d Hd.
    apply fx_oa_sdef_obj_plain. apply P. exact Hd.
Qed.

(* ---------- X1 ---------- *)
Theorem chain_go_plain_explicit_oa s : chain_plain_oa s = true ->
  process chain_go (parse_ctx_oa s) = Ok (nrfn_only (parse_ctx_oa s)).
Proof. intro H. apply chain_go_plain_x. apply chain_plain_oa_ctx_plain. exact H. Qed.

Theorem chain_go_plain_total_oa s : chain_plain_oa s = true -> exists out, process chain_go (parse_ctx_oa s) = Ok out.
Proof. intro H. exists (nrfn_only (parse_ctx_oa s)). apply chain_go_plain_explicit_oa. exact H. Qed.

(* ---------- X2 ---------- *)
Theorem chain_go_preserves_acceptance_fwd_oa s tname d out :
  chain_plain_oa s = true -> process chain_go (parse_ctx_oa s) = Ok out ->
  ir_accepts_n_doc (parse_ctx_oa s) (src_pkg s) tname d = true ->
  ir_valid_object out (src_pkg s) tname d = true.
Proof.
  intros H P A. rewrite (chain_go_plain_explicit_oa s H) in P. inversion P; subst out.
  pose proof (chain_plain_oa_ctx_plain s H) as C.
  apply fx_accepts_doc_fwd; [exact C|]. apply fx_n_doc_to_ir; assumption.
Qed.

(* ---------- X3 ---------- *)
Theorem src_valid_roundtrip_plain_oa s tname d out :
  chain_plain_oa s = true -> json_wf d = true -> json_ints_int64 d = true ->
  process chain_go (parse_ctx_oa s) = Ok out -> ctx_supported out = true ->
  str_in tname (map fst (src_defs s)) = true ->
  src_valid_doc "openapi" s tname d = true ->
  roundtrip_safeF out (src_pkg s) tname d = true ->
  roundtrip_holds out (src_pkg s) tname d = true.
Proof.
  intros H WF HI P CS IN SV RS.
  destruct (fx_chain_plain_oa_parts s H) as [W _].
  pose proof (parse_openapi_preserves_acceptance_partial_strong s tname d W WF HI IN) as AG.
  unfold oa_acceptance_agrees in AG. apply eqb_prop in AG. rewrite SV in AG. symmetry in AG.
  pose proof (chain_go_preserves_acceptance_fwd_oa s tname d out H P AG) as IV.
  apply go_roundtrip_nf_partial_weak; try assumption.
  rewrite (chain_go_plain_explicit_oa s H) in P. inversion P; subst out.
  pose proof (chain_plain_oa_ctx_plain s H) as C.
  apply (fx_struct_object_out _ C _ _ d). apply fx_n_doc_to_ir; assumption.
Qed.

(* ====================================================================================================
   CUE
   ==================================================================================================== *)
Lemma fx_cue_int_kind_plain w : kind_plain_x (cue_int_kind w) = true.
Proof. unfold cue_int_kind. repeat match goal with |- context [if ?c then _ else _] => destruct c end; reflexivity. Qed.

Lemma fx_cue_int_plain w ge gt le lt : ty_plain_x (cue_int w ge gt le lt) = true.
Proof.
  unfold cue_int. cbn [ty_plain_x attrs_plain attrs0 nullable dflt negb dyn_is_nil andb]. rewrite andb_true_r.
  destruct (is_unsigned w).
  - destruct (is_some le || is_some lt)%bool; [reflexivity|apply fx_cue_int_kind_plain].
  - destruct ((is_some ge || is_some gt) && (is_some le || is_some lt))%bool; [|apply fx_cue_int_kind_plain].
    destruct (match ge with Some a => Z.leb 0 a | None => match gt with Some a => Z.leb 0 a | None => false end end); reflexivity.
Qed.

Lemma fx_cue_ty_plain pkg : forall t, sty_plain t = true -> ty_plain_x (cue_ty pkg t) = true.
Proof.
  induction t; intro H; try discriminate; try reflexivity.
  - apply fx_cue_int_plain.
  - cbn [cue_ty]. destruct (seqb w "float32"); reflexivity.
  - cbn [cue_ty ty_plain_x]. cbn [sty_plain] in H. rewrite (IHt H). reflexivity.
  - cbn [cue_ty ty_plain_x]. cbn [sty_plain] in H. rewrite (IHt H). reflexivity.
Qed.

Lemma fx_chain_plain_cue_parts s : chain_plain_cue s = true ->
  src_wf_cue s = true /\ cue_schema_supported s = true /\ str_nodup (map fst (src_defs s)) = true /\
  forall d, In d (src_defs s) -> sdef_plain (snd d) = true.
Proof.
  unfold chain_plain_cue. intro H. apply andb_true_iff in H. destruct H as [W P].
  destruct (cue_wf_parts s W) as [J [N _]].
  repeat split; try assumption. apply forallb_forall. exact P.
Qed.

(* the first-touch order has no repetition *)
Lemma fx_nodup_snoc seen n : str_nodup seen = true -> str_in n seen = false -> str_nodup (seen ++ [n]) = true.
Proof.
  induction seen as [|x r IH]; simpl; intros H E; [reflexivity|].
  apply andb_true_iff in H. destruct H as [H1 H2]. apply orb_false_iff in E. destruct E as [E1 E2].
  rewrite (IH H2 E2), andb_true_r. apply negb_true_iff. apply negb_true_iff in H1.
  rewrite fc_str_in_app, H1. simpl. rewrite String.eqb_sym, E1. reflexivity.
Qed.
Lemma fx_cue_visit_nodup defs : forall fuel todo seen, str_nodup seen = true -> str_nodup (cue_visit defs fuel todo seen) = true.
Proof.
  induction fuel as [|f IH]; intros todo seen H; simpl; [exact H|].
  destruct todo as [|n r]; [exact H|].
  destruct (str_in n seen) eqn:E; [apply IH; exact H|].
  destruct (src_lookup defs n); apply IH; [|exact H]. apply fx_nodup_snoc; assumption.
Qed.
Lemma fx_cue_order_nodup s : str_nodup (cue_order s) = true.
Proof. unfold cue_order. apply fx_cue_visit_nodup. reflexivity. Qed.

Lemma fx_cue_objs_str_in s k order :
  str_in k (map fst (flat_map (cue_objf s) order)) = true -> str_in k order = true.
Proof.
  induction order as [|n r IH]; [auto|]. cbn [flat_map str_in]. unfold cue_objf at 1.
  destruct (src_lookup (src_defs s) n); cbn [app map fst str_in]; intro H.
  - apply orb_true_iff in H. destruct H as [H|H]; [rewrite H; reflexivity|]. rewrite (IH H). apply orb_true_r.
  - rewrite (IH H). apply orb_true_r.
Qed.
Lemma fx_cue_objs_nodup s order : str_nodup order = true -> str_nodup (map fst (flat_map (cue_objf s) order)) = true.
Proof.
  induction order as [|n r IH]; [auto|]. cbn [flat_map str_nodup]. intro H. apply andb_true_iff in H. destruct H as [H1 H2].
  unfold cue_objf at 1. destruct (src_lookup (src_defs s) n); cbn [app map fst str_nodup]; [|exact (IH H2)].
  rewrite (IH H2), andb_true_r. apply negb_true_iff. apply negb_true_iff in H1.
  destruct (str_in n (map fst (flat_map (cue_objf s) r))) eqn:E; [|reflexivity].
  rewrite (fx_cue_objs_str_in _ _ _ E) in H1. discriminate.
Qed.

Lemma fx_cue_sdef_obj_plain pkg n t : sdef_plain t = true -> obj_plain_x (n, cue_obj pkg n t) = true.
Proof.
  intro H. unfold obj_plain_x, cue_obj. cbn [fst snd o_name o_type].
  unfold seqb. rewrite String.eqb_refl. cbn [andb].
  destruct t; try discriminate. destruct fs as [|f fs]; [discriminate|].
  cbn [sdef_plain] in H. cbn [cue_ty]. cbn [attrs_plain attrs0 nullable dflt negb dyn_is_nil andb].
  rewrite fc_forallb_map. revert H. apply fc_forallb_impl.
  intros g _ Hg. unfold sfield_plain in Hg. apply andb_true_iff in Hg. destruct Hg as [Hg Hp].
  apply andb_true_iff in Hg. destruct Hg as [Hn _]. apply negb_true_iff in Hn. cbn [f_type]. rewrite Hn.
  apply fx_cue_ty_plain. exact Hp.
Qed.

Lemma fx_cue_objs_plain s order : (forall d, In d (src_defs s) -> sdef_plain (snd d) = true) ->
  forallb obj_plain_x (flat_map (cue_objf s) order) = true.
Proof.
  intro P. induction order as [|n r IH]; [reflexivity|]. cbn [flat_map]. unfold cue_objf at 1.
  destruct (src_lookup (src_defs s) n) as [t|] eqn:L; cbn [app forallb]; [|exact IH].
  rewrite IH, andb_true_r. apply fx_cue_sdef_obj_plain. exact (P _ (src_lookup_some_in _ _ _ L)).
Qed.

Theorem chain_plain_cue_ctx_plain s : chain_plain_cue s = true -> ctx_plain_x (parse_ctx_cue s) = true.
Proof.
  intro H. destruct (fx_chain_plain_cue_parts s H) as [_ [J [N P]]].
  rewrite (cue_parse_ctx_eq s J). unfold ctx_plain_x. cbn [forallb]. rewrite andb_true_r.
  unfold schema_plain_x. cbn [s_objects s_entrytype]. apply andb_true_iff. split; [apply andb_true_iff; split|reflexivity].
  - apply fx_cue_objs_nodup. apply fx_cue_order_nodup.
  - apply fx_cue_objs_plain. exact P.
Qed.

(* ---------- X4 ---------- *)
Theorem chain_go_plain_explicit_cue s : chain_plain_cue s = true ->
  process chain_go (parse_ctx_cue s) = Ok (nrfn_only (parse_ctx_cue s)).
Proof. intro H. apply chain_go_plain_x. apply chain_plain_cue_ctx_plain. exact H. Qed.

Theorem chain_go_plain_total_cue s : chain_plain_cue s = true -> exists out, process chain_go (parse_ctx_cue s) = Ok out.
Proof. intro H. exists (nrfn_only (parse_ctx_cue s)). apply chain_go_plain_explicit_cue. exact H. Qed.

(* ---------- X5 ---------- *)
Theorem chain_go_preserves_acceptance_fwd_cue s tname d out :
  chain_plain_cue s = true -> process chain_go (parse_ctx_cue s) = Ok out ->
  ir_accepts_c_doc (parse_ctx_cue s) (src_pkg s) tname d = true ->
  ir_valid_object out (src_pkg s) tname d = true.
Proof.
  intros H P A. rewrite (chain_go_plain_explicit_cue s H) in P. inversion P; subst out.
  apply fx_accepts_doc_fwd; [apply chain_plain_cue_ctx_plain; exact H|]. apply fx_c_doc_to_ir. exact A.
Qed.

(* ---------- X6 ---------- *)
Theorem src_valid_roundtrip_plain_cue s tname d out :
  chain_plain_cue s = true -> json_wf d = true ->
  process chain_go (parse_ctx_cue s) = Ok out -> ctx_supported out = true ->
  str_in tname (map fst (src_defs s)) = true ->
  src_valid_doc "cue" s tname d = true ->
  roundtrip_safeF out (src_pkg s) tname d = true ->
  roundtrip_holds out (src_pkg s) tname d = true.
Proof.
  intros H WF P CS IN SV RS.
  destruct (fx_chain_plain_cue_parts s H) as [W _].
  pose proof (parse_cue_preserves_acceptance_partial_strong s tname d W WF IN) as AG.
  unfold cue_acceptance_agrees in AG. apply eqb_prop in AG. rewrite SV in AG. symmetry in AG.
  pose proof (chain_go_preserves_acceptance_fwd_cue s tname d out H P AG) as IV.
  apply go_roundtrip_nf_partial_weak; try assumption.
  rewrite (chain_go_plain_explicit_cue s H) in P. inversion P; subst out.
  apply (fx_struct_object_out _ (chain_plain_cue_ctx_plain s H) _ _ d). apply fx_c_doc_to_ir. exact AG.
Qed.

(* ====================================================================================================
   X7: non-vacuity
   ==================================================================================================== *)
Definition sPlainOA : src_schema :=
  mkSrc "p" "Root"
    [("Root", SStruct [mkSField "inner" (SRef "Inner") true false false;
                       mkSField "count" (SInt "int32" (Some 1%Z) None (Some 10%Z) None) true false false;
                       mkSField "label" (SString None None) false false false;
                       mkSField "items" (SArray (SString None None)) true false false;
                       mkSField "tags" (SMap SBool) true false false;
                       mkSField "ratio" (SFloat "float32" None None None None) true false false]);
     ("Inner", SStruct [mkSField "x" SBool true false false])].
Definition dPlainOA : json :=
  JObj [("inner", JObj [("x", JBool true)]); ("count", JNum 3 0); ("label", JStr "hi");
        ("items", JArr [JStr "a"; JStr "b"]); ("tags", JObj [("k", JBool false)]); ("ratio", JNum 5 (-1))].
Definition outPlainOA : schemas := nrfn_only (parse_ctx_oa sPlainOA).

Lemma chain_plain_oa_nonvacuous :
  chain_plain_oa sPlainOA = true /\ json_wf dPlainOA = true /\ json_ints_int64 dPlainOA = true /\
  process chain_go (parse_ctx_oa sPlainOA) = Ok outPlainOA /\ ctx_supported outPlainOA = true /\
  str_in "Root" (map fst (src_defs sPlainOA)) = true /\ src_valid_doc "openapi" sPlainOA "Root" dPlainOA = true /\
  roundtrip_safeF outPlainOA (src_pkg sPlainOA) "Root" dPlainOA = true /\
  ir_accepts_n_doc (parse_ctx_oa sPlainOA) (src_pkg sPlainOA) "Root" dPlainOA = true /\
  ir_valid_object outPlainOA (src_pkg sPlainOA) "Root" dPlainOA = true /\
  roundtrip_holds outPlainOA (src_pkg sPlainOA) "Root" dPlainOA = true.
Proof. vm_compute. repeat split; reflexivity. Qed.

(* the bounded int32 keeps its width and the optional member is the only type the chain changes *)
Example chain_plain_oa_out_count :
  ir_field outPlainOA "p" "Root" "count" =
  Some (mkField "count" [] (TScalar attrs0 KInt32 DNil [cstr ">=" (DInt "int64" 1); cstr "<=" (DInt "int64" 10)]) true).
Proof. vm_compute. reflexivity. Qed.
Example chain_plain_oa_out_label :
  ir_field outPlainOA "p" "Root" "label" =
  Some (mkField "label" [] (TScalar {| nullable := true ; dflt := DNil ; hints := [] |} KString DNil []) false).
Proof. vm_compute. reflexivity. Qed.

Definition sPlainCue : src_schema :=
  mkSrc "p" "Root"
    [("Root", SStruct [mkSField "inner" (SRef "Inner") true false false;
                       mkSField "small" (SInt "uint8" None None (Some 50%Z) None) true false false;
                       mkSField "label" (SString None None) false false false;
                       mkSField "items" (SArray (SString None None)) true false false;
                       mkSField "tags" (SMap SBool) true false false;
                       mkSField "ratio" (SFloat "float32" None None None None) true false false]);
     ("Inner", SStruct [mkSField "x" SBool true false false])].
Definition dPlainCue : json :=
  JObj [("inner", JObj [("x", JBool true)]); ("small", JNum 3 0); ("label", JStr "hi");
        ("items", JArr [JStr "a"; JStr "b"]); ("tags", JObj [("k", JBool false)]); ("ratio", JNum 5 (-1))].
Definition outPlainCue : schemas := nrfn_only (parse_ctx_cue sPlainCue).

Lemma chain_plain_cue_nonvacuous :
  chain_plain_cue sPlainCue = true /\ json_wf dPlainCue = true /\
  process chain_go (parse_ctx_cue sPlainCue) = Ok outPlainCue /\ ctx_supported outPlainCue = true /\
  str_in "Root" (map fst (src_defs sPlainCue)) = true /\ src_valid_doc "cue" sPlainCue "Root" dPlainCue = true /\
  roundtrip_safeF outPlainCue (src_pkg sPlainCue) "Root" dPlainCue = true /\
  ir_accepts_c_doc (parse_ctx_cue sPlainCue) (src_pkg sPlainCue) "Root" dPlainCue = true /\
  ir_valid_object outPlainCue (src_pkg sPlainCue) "Root" dPlainCue = true /\
  roundtrip_holds outPlainCue (src_pkg sPlainCue) "Root" dPlainCue = true.
Proof. vm_compute. repeat split; reflexivity. Qed.

(* `uint8 & <=50` is read back as uint64 with the bound kept (Model/FrontEndCue.v cue_int) *)
Example chain_plain_cue_out_small :
  ir_field outPlainCue "p" "Root" "small" =
  Some (mkField "small" [] (TScalar attrs0 KUint64 DNil [cstr "<=" (DInt "int64" 50)]) true).
Proof. vm_compute. reflexivity. Qed.

(* inside the fragment but outside ctx_supported (Model/GoSem.v ty_supported): an array of uint8 is Go's []byte, which
   encoding/json reads and writes as a base64 string; the hypothesis ctx_supported out of X6 excludes it *)
Definition sBytesCue : src_schema :=
  mkSrc "p" "Root" [("Root", SStruct [mkSField "raw" (SArray (SInt "uint8" None None None None)) true false false])].
Lemma chain_plain_cue_bytes_unsupported :
  chain_plain_cue sBytesCue = true /\
  process chain_go (parse_ctx_cue sBytesCue) = Ok (nrfn_only (parse_ctx_cue sBytesCue)) /\
  ctx_supported (nrfn_only (parse_ctx_cue sBytesCue)) = false.
Proof. vm_compute. repeat split; reflexivity. Qed.

Print Assumptions chain_go_leafy_x.
Print Assumptions fx_accepts_doc_fwd.
Print Assumptions chain_go_plain_explicit_oa.
Print Assumptions chain_go_preserves_acceptance_fwd_oa.
Print Assumptions src_valid_roundtrip_plain_oa.
Print Assumptions chain_plain_oa_nonvacuous.
Print Assumptions chain_go_plain_explicit_cue.
Print Assumptions chain_go_preserves_acceptance_fwd_cue.
Print Assumptions src_valid_roundtrip_plain_cue.
Print Assumptions chain_plain_cue_nonvacuous.
