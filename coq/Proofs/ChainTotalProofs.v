(* C04 over the language-chain pass models: which passes are total, and for the others the
   decidable condition under which they neither panic nor exhaust the stack, with witnesses of
   the crash outside it.  (Model: Go panic = Panic, unbounded recursion = OutOfFuel.)
   WHAT IS HERE
   - Section Outcome: outcome classes W closed under bind (is_ok', ok_or_err') through mapM, visit_disj (vis_all),
     visit_schema, visit_schema_st, visit_schemas_disj0;
   - total_chain_passes, dwctd_total, doaste_total (always Ok);
   - dwnto_no_panic (no `null | null`), prefix_enum_values_no_panic, sanitize_no_panic with the per-member EXACT
     conditions pev_member_exact / senm_member_exact;
   - flatten_no_crash, undiscriminated_no_crash, dtt_no_crash under unions_resolve (reference cycles overflow:
     reference_cycle_overflows); dataquery_identification_no_panic; a witness for every excluded crash. *)
From Coq Require Import List String Bool Ascii Lia.
From Cog Require Import Model.IR Model.Names Model.Passes Model.PassesChain Model.Process Model.NF
     Proofs.TyInd Proofs.ChainLemmas Proofs.PassLemmas.
Import ListNotations.
Local Open Scope list_scope.

Definition is_ok' {A} (r : res A) : bool := match r with Ok _ => true | _ => false end.
Definition ok_or_err' {A} (r : res A) : bool := match r with Ok _ | Err _ => true | _ => false end.

(* ---------- outcome classes closed under Ok and bind ---------- *)
Section Outcome.
  Variable W : forall A, res A -> bool.
  Hypothesis W_ok : forall A (x : A), W A (Ok x) = true.
  Hypothesis W_bind : forall A B (r : res A) (k : A -> res B),
      W A r = true -> (forall x, r = Ok x -> W B (k x) = true) -> W B (bind r k) = true.

  Lemma W_mapM {A B} (f : A -> res B) l : (forall x, In x l -> W B (f x) = true) -> W (list B) (mapM f l) = true.
  Proof.
    induction l as [|x r IH]; intros H; [apply W_ok|]. simpl.
    apply W_bind; [apply H; left; reflexivity|]. intros y _.
    apply W_bind; [apply IH; intros z Hz; apply H; right; assumption|]. intros ys _. apply W_ok.
  Qed.

  (* the positions visit_disj reaches: unions are handed to the callback, not entered *)
  Fixpoint vis_all (p : ty -> bool) (t : ty) : bool :=
    match t with
    | TArray _ v => vis_all p v
    | TMap _ i v => vis_all p i && vis_all p v
    | TStruct _ _ fs => forallb (fun f => vis_all p (f_type f)) fs
    | TInter _ bs => forallb (vis_all p) bs
    | TDisj _ _ => p t
    | _ => true
    end.

  Section Visit.
    Variable S : Type.
    Variable on_disj : S -> ty -> res (ty * S).
    Variable safe : ty -> bool.
    Hypothesis on_disj_safe : forall st a d, safe (TDisj a d) = true -> W _ (on_disj st (TDisj a d)) = true.

    Lemma W_visit_disj : forall t st, vis_all safe t = true -> W _ (visit_disj on_disj st t) = true.
    Proof.
      induction t as [a d IH|a v IH|a vs IH|a i v IHi IHv|a dh fs IHd IHf|a pk n|a pk n v|a k v cs|a bs IH|a v|a k]
        using ty_ind'; intros st Hs; try (simpl; apply W_ok).
      - simpl. apply on_disj_safe. exact Hs.
      - simpl. apply W_bind; [apply IH; exact Hs|]. intros r _. apply W_ok.
      - simpl in *. apply andb_true_iff in Hs. destruct Hs as [Hi Hv].
        apply W_bind; [apply IHi; exact Hi|]. intros ri _. apply W_bind; [apply IHv; exact Hv|]. intros r _. apply W_ok.
      - rewrite visit_struct_eq. apply W_bind; [|intros r _; apply W_ok]. simpl in Hs.
        revert st. induction fs as [|f r IHr]; intros st; [apply W_ok|]. simpl.
        simpl in Hs. apply andb_true_iff in Hs. destruct Hs as [Hf Hr]. inversion IHf as [|? ? Hf1 Hr1]; subst.
        apply W_bind; [apply Hf1; exact Hf|]. intros r1 _.
        apply W_bind; [apply IHr; assumption|]. intros r2 _. apply W_ok.
      - rewrite visit_inter_eq. apply W_bind; [|intros r _; apply W_ok]. simpl in Hs.
        revert st. induction bs as [|b r IHr]; intros st; [apply W_ok|]. simpl.
        simpl in Hs. apply andb_true_iff in Hs. destruct Hs as [Hb Hr]. inversion IH as [|? ? Hb1 Hr1]; subst.
        apply W_bind; [apply Hb1; exact Hb|]. intros r1 _.
        apply W_bind; [apply IHr; assumption|]. intros r2 _. apply W_ok.
    Qed.
  End Visit.

  Definition schema_types (s : schema) : list ty := s_entrytype s :: map (fun ko => o_type (snd ko)) (s_objects s).

  Lemma W_visit_schema (ft : ty -> res ty) (fo : object -> res object) s :
    W _ (ft (s_entrytype s)) = true -> (forall ko, In ko (s_objects s) -> W _ (fo (snd ko)) = true) ->
    W _ (visit_schema ft fo s) = true.
  Proof.
    intros He Ho. rewrite visit_schema_eq. apply W_bind; [exact He|]. intros et _.
    apply W_bind; [|intros objs _; apply W_ok].
    generalize (@nil (string * object)) as acc. revert Ho. generalize (s_objects s) as l.
    induction l as [|[k o] r IH]; intros Ho acc; [apply W_ok|]. simpl.
    apply W_bind; [exact (Ho (k, o) (or_introl eq_refl))|]. intros o' _. apply IH. intros ko Hko. apply Ho. right; assumption.
  Qed.

  Lemma W_visit_schema_st {S} (init : S) (on_type : S -> ty -> res (ty * S)) news s :
    (forall st t, In t (schema_types s) -> W _ (on_type st t) = true) ->
    W _ (visit_schema_st init on_type news s) = true.
  Proof.
    intros H. rewrite visit_schema_st_eq. apply W_bind; [apply H; left; reflexivity|]. intros r _.
    apply W_bind; [|intros r2 _; apply W_ok].
    assert (forall ko, In ko (s_objects s) -> forall st, W _ (on_type st (o_type (snd ko))) = true) as Ho.
    { intros ko Hko st. apply H. right. apply in_map_iff. exists ko. split; [reflexivity|assumption]. }
    clear H. generalize (@nil (string * object)) as acc. generalize (snd r) as st. revert Ho. generalize (s_objects s) as l.
    induction l as [|[k o] l' IH]; intros Ho st acc; [apply W_ok|]. simpl.
    apply W_bind; [exact (Ho (k, o) (or_introl eq_refl) st)|]. intros r1 _. apply IH. intros ko Hko. apply Ho. right; assumption.
  Qed.

  (* a stateless union pass succeeds (in the class W) if its callback does at every visited union *)
  Lemma W_visit_schemas_disj0 (f : schema -> ty -> res ty) (safe : schema -> ty -> bool) ss :
    (forall s a d, safe s (TDisj a d) = true -> W _ (f s (TDisj a d)) = true) ->
    (forall s t, In s ss -> In t (schema_types s) -> vis_all (safe s) t = true) ->
    W _ (visit_schemas_disj0 f ss) = true.
  Proof.
    intros Hf Hs. unfold visit_schemas_disj0. apply W_mapM. intros s Hin.
    assert (forall t, In t (schema_types s) -> W _ (visit_disj0 (f s) t) = true) as Ht.
    { intros t Hint. unfold visit_disj0. apply W_bind; [|intros r _; apply W_ok].
      apply (W_visit_disj unit _ (safe s)); [|apply Hs; assumption].
      intros st a d Hsafe. apply W_bind; [apply Hf; assumption|]. intros d' _. apply W_ok. }
    apply W_visit_schema; [apply Ht; left; reflexivity|].
    intros ko Hko. apply W_bind; [|intros t _; apply W_ok]. apply Ht. right. apply in_map_iff. exists ko. split; [reflexivity|assumption].
  Qed.
End Outcome.

Lemma is_ok_bind : forall A B (r : res A) (k : A -> res B),
  is_ok' r = true -> (forall x, r = Ok x -> is_ok' (k x) = true) -> is_ok' (bind r k) = true.
Proof. intros A B r k Hr Hk. destruct r; try discriminate. simpl. apply Hk. reflexivity. Qed.
Lemma ok_or_err_bind : forall A B (r : res A) (k : A -> res B),
  ok_or_err' r = true -> (forall x, r = Ok x -> ok_or_err' (k x) = true) -> ok_or_err' (bind r k) = true.
Proof. intros A B r k Hr Hk. destruct r; try discriminate; [|reflexivity]. simpl. apply Hk. reflexivity. Qed.
Definition Wok : forall A, res A -> bool := @is_ok'.
Definition Woe : forall A, res A -> bool := @ok_or_err'.
Lemma Wok_ok A (x : A) : Wok A (Ok x) = true. Proof. reflexivity. Qed.
Lemma Woe_ok A (x : A) : Woe A (Ok x) = true. Proof. reflexivity. Qed.

(* =====================================================================================
   total passes: they return schemas whatever the input
   ===================================================================================== *)
Theorem total_chain_passes p ss :
  match p with
  | PAnonymousStructsToNamed | PNotRequiredFieldAsNullableType | PAnonymousEnumToExplicitType
  | PRenameNumericEnumValues => is_ok' (run_pass p ss) = true
  | _ => True
  end.
Proof. destruct p; exact I || reflexivity. Qed.

Theorem dwctd_total ss : is_ok' (disjunction_with_constant_to_default ss) = true.
Proof.
  unfold disjunction_with_constant_to_default.
  apply (W_visit_schemas_disj0 Wok Wok_ok is_ok_bind _ (fun _ _ => true)).
  - intros s a d _. unfold dwctd_disj.
    destruct (d_branches d) as [|[] [|[] [|? ?]]]; try reflexivity.
    destruct (negb (skind_eqb k k0)); [reflexivity|]. destruct (Bool.eqb _ _); [reflexivity|].
    destruct (negb (dyn_is_nil value)); reflexivity.
  - intros s t _ _. induction t as [a d IH|a v IH|a vs IH|a i v IHi IHv|a dh fs IHd IHf|a pk n|a pk n v|a k v cs|a bs IH|a v|a k]
      using ty_ind'; simpl; try reflexivity; try assumption.
    + rewrite IHi, IHv. reflexivity.
    + apply forallb_forall. rewrite Forall_forall in IHf. assumption.
    + apply forallb_forall. rewrite Forall_forall in IH. assumption.
Qed.

Theorem doaste_total ss : is_ok' (disjunction_of_anonymous_structs_to_explicit ss) = true.
Proof.
  unfold disjunction_of_anonymous_structs_to_explicit. apply (W_mapM Wok Wok_ok is_ok_bind). intros s _.
  apply (W_visit_schema_st Wok Wok_ok is_ok_bind). intros st t _. reflexivity.
Qed.

(* =====================================================================================
   DisjunctionWithNullToOptional: the only failure is the index panic on `null | null`
   ===================================================================================== *)
Definition not_null_null (t : ty) : bool :=
  match t with
  | TDisj _ d => match d_branches d with [x; y] => negb (is_null x && is_null y) | _ => true end
  | _ => true
  end.
Definition no_null_null (ss : schemas) : bool :=
  forallb (fun s => forallb (vis_all not_null_null) (schema_types s)) ss.

Theorem dwnto_no_panic ss : no_null_null ss = true -> is_ok' (disjunction_with_null_to_optional ss) = true.
Proof.
  intros H. unfold disjunction_with_null_to_optional.
  apply (W_visit_schemas_disj0 Wok Wok_ok is_ok_bind _ (fun _ => not_null_null)).
  - intros s a d Hs. unfold dwnto_disj, not_null_null in *.
    destruct (d_branches d) as [|x [|y [|z r]]]; try reflexivity. simpl.
    destruct (is_null x), (is_null y); simpl in *; try reflexivity. discriminate.
  - intros s t Hin Ht. unfold no_null_null in H. rewrite forallb_forall in H. specialize (H s Hin).
    rewrite forallb_forall in H. apply H. assumption.
Qed.

Local Open Scope string_scope.
Definition tm0 := {| m_kind := "" ; m_variant := "" ; m_identifier := "" |}.
Definition tNull := TScalar A0 KNull DNil [].
Example dwnto_panics_on_null_null :
  disjunction_with_null_to_optional
    [mkSchema "p" tm0 "" ty_zero [("O", mkObject "O" [] (TDisj A0 (mkDisj [tNull; tNull] "" [])) "p" "O")]]
  = Panic "index out of range [0] with length 0".
Proof. vm_compute. reflexivity. Qed.

(* =====================================================================================
   enum member names: the exact per-member conditions
   ===================================================================================== *)
Definition is_dstr (d : dyn) : bool := match d with DStr _ => true | _ => false end.
(* PrefixEnumValues: a scalar member type; a string value when the kind is string; a non-empty
   name when the kind is int64 (unless it is the empty string constant, renamed None) *)
Definition pev_safe (v : enumval) : bool :=
  match ev_type v with
  | TScalar _ k _ _ =>
      if skind_eqb k KString then is_dstr (ev_value v)
      else if skind_eqb k KInt64 then negb (seqb (ev_name v) "") else true
  | _ => false
  end.
Lemma pev_member_exact v : is_ok' (pev_member_name v) = pev_safe v.
Proof.
  unfold pev_member_name, pev_safe, member_kind.
  destruct (ev_type v) as [a d|a v1|a vs|a i v1|a dh fs|a pk n|a pk n v1|a k v1 cs|a bs|a v1|a k]; try reflexivity. simpl.
  destruct (skind_eqb k KString) eqn:Es.
  - destruct (ev_value v); try reflexivity. simpl. destruct (seqb s ""); [reflexivity|].
    assert (skind_eqb k KInt64 = false) as Hk.
    { unfold skind_eqb in *. apply seqb_eq in Es. rewrite Es. reflexivity. }
    rewrite Hk. reflexivity.
  - simpl. destruct (skind_eqb k KInt64); simpl; [|reflexivity].
    destruct (ev_name v); simpl; [reflexivity|]. destruct (is_char a0 45); reflexivity.
Qed.

Definition pev_safe_schemas (ss : schemas) : bool :=
  forallb (fun o => forallb pev_safe (enum_members o)) (objects_of ss).

Lemma is_ok_map_objects_res f s :
  (forall ko, In ko (s_objects s) -> is_ok' (f (snd ko)) = true) -> is_ok' (map_objects_res f s) = true.
Proof.
  intros H. unfold map_objects_res. apply is_ok_bind; [|reflexivity].
  generalize (@nil (string * object)) as acc. revert H. generalize (s_objects s) as l.
  induction l as [|[k o] r IH]; intros H acc; [reflexivity|].
  apply is_ok_bind; [exact (H (k, o) (or_introl eq_refl))|]. intros o' _. apply IH. intros ko Hko. apply H. right; assumption.
Qed.

Theorem prefix_enum_values_no_panic ss : pev_safe_schemas ss = true -> is_ok' (prefix_enum_values ss) = true.
Proof.
  intros H. unfold prefix_enum_values. apply (W_mapM Wok Wok_ok is_ok_bind). intros s Hs.
  apply is_ok_map_objects_res. intros [k o] Hko. simpl.
  unfold pev_safe_schemas in H. rewrite forallb_forall in H.
  assert (In o (objects_of ss)) as Ho by (apply in_objects_of; exists s, k; split; assumption).
  specialize (H o Ho). unfold enum_members in H. unfold pev_object.
  destruct (o_type o) as [a d|a v1|a vs|a i v1|a dh fs|a pk n|a pk n v1|a kk v1 cs|a bs|a v1|a kk]; try reflexivity.
  apply is_ok_bind; [|reflexivity]. apply (W_mapM Wok Wok_ok is_ok_bind). intros v Hv.
  rewrite forallb_forall in H. specialize (H v Hv). rewrite <- pev_member_exact in H.
  apply is_ok_bind; [exact H|reflexivity].
Qed.

(* SanitizeEnumMemberNames: a scalar member type and a name that is not empty once the empty
   string constant has been renamed None *)
Definition senm_safe (v : enumval) : bool :=
  match ev_type v with
  | TScalar _ k _ _ =>
      if skind_eqb k KString && seqb (ev_name v) ""
      then match ev_value v with DStr s => seqb s "" | _ => false end
      else negb (seqb (ev_name v) "")
  | _ => false
  end.
Lemma negative_name_first n : exists c, first_char (negative_name n) = Some c.
Proof.
  unfold negative_name.
  change (String.append "negative" (tail_str n)) with (String "n" (String.append "egative" (tail_str n))).
  unfold upper_camel_case, lower_camel_case. simpl. eexists. reflexivity.
Qed.
Lemma senm_member_exact v : is_ok' (senm_member v) = senm_safe v.
Proof.
  unfold senm_member, senm_safe, member_kind.
  destruct (ev_type v) as [a d|a v1|a vs|a i v1|a dh fs|a pk n|a pk n v1|a k v1 cs|a bs|a v1|a k]; try reflexivity.
  cbn [bind].
  assert (forall (et : ty) (val : dyn) (n1 : string), is_ok' (match first_char n1 with
            | None => Panic "index out of range [0] with length 0"
            | Some c =>
                let n2 := if is_char c 45 then negative_name n1 else n1 in
                match first_char n2 with
                | None => Panic "index out of range [0] with length 0"
                | Some c2 =>
                    let n3 := if is_char c2 43 then upper_camel_case (String.append "positive" (tail_str n2)) else n2 in
                    Ok (mkEnumVal et n3 val)
                end
            end) = negb (seqb n1 "")) as G.
  { intros et val n1. destruct n1 as [|c r]; [reflexivity|]. cbn [first_char]. cbv zeta.
    destruct (is_char c 45).
    - destruct (negative_name_first (String c r)) as [c2 ->]. reflexivity.
    - reflexivity. }
  destruct (skind_eqb k KString && seqb (ev_name v) "") eqn:Ec.
  - destruct (ev_value v); try reflexivity. cbn [bind]. rewrite G.
    apply andb_true_iff in Ec. destruct Ec as [_ En]. apply seqb_eq in En. rewrite En.
    destruct (seqb s ""); reflexivity.
  - cbn [bind]. apply G.
Qed.

Definition p_senm_unsafe (_ : bool) (t : ty) : bool :=
  match t with TEnum _ vs => negb (forallb senm_safe vs) | _ => false end.
Definition senm_safe_schemas (ss : schemas) : bool :=
  forallb (fun s => forallb (fun t => negb (any_sub p_senm_unsafe false t)) (schema_types s)) ss.

Lemma senm_ty_ok : forall t inter, any_sub p_senm_unsafe inter t = false -> is_ok' (senm_ty t) = true.
Proof.
  induction t as [a d IH|a v IH|a vs IH|a i v IHi IHv|a dh fs IHd IHf|a pk n|a pk n v|a k v cs|a bs IH|a v|a k]
    using ty_ind'; intros inter H; try reflexivity; simpl in H.
  - change (senm_ty (TDisj a d)) with
        (do bs <- (fix go (l : list ty) : res (list ty) :=
                     match l with [] => Ok [] | b :: r => do b' <- senm_ty b ; do r' <- go r ; Ok (b' :: r') end) (d_branches d) ;
         Ok (TDisj a (mkDisj bs (d_disc d) (d_mapping d)))).
    apply is_ok_bind; [|reflexivity]. revert H. induction (d_branches d) as [|b r IHr]; intros H; [reflexivity|].
    inversion IH as [|? ? Hb Hr]; subst. simpl in H. apply orb_false_iff in H. destruct H as [H1 H2].
    apply is_ok_bind; [exact (Hb inter H1)|]. intros b' _. apply is_ok_bind; [apply IHr; assumption|reflexivity].
  - simpl. apply is_ok_bind; [exact (IH inter H)|reflexivity].
  - rewrite orb_false_r in H. apply negb_false_iff in H. simpl. apply is_ok_bind; [|reflexivity].
    apply (W_mapM Wok Wok_ok is_ok_bind). intros v Hv. rewrite forallb_forall in H. specialize (H v Hv).
    rewrite <- senm_member_exact in H. exact H.
  - apply orb_false_iff in H. destruct H as [H1 H2]. simpl.
    apply is_ok_bind; [exact (IHi inter H1)|]. intros i' _. apply is_ok_bind; [exact (IHv inter H2)|reflexivity].
  - change (senm_ty (TStruct a dh fs)) with
        (do fs' <- (fix go (l : list field) : res (list field) :=
                      match l with
                      | [] => Ok []
                      | f :: r => do t' <- senm_ty (f_type f) ; do r' <- go r ;
                                  Ok (mkField (f_name f) (f_comments f) t' (f_required f) :: r')
                      end) fs ;
         Ok (TStruct a dh fs')).
    apply is_ok_bind; [|reflexivity]. revert H. induction fs as [|f r IHr]; intros H; [reflexivity|].
    inversion IHf as [|? ? Hf Hr]; subst. simpl in H. apply orb_false_iff in H. destruct H as [H1 H2].
    apply is_ok_bind; [exact (Hf inter H1)|]. intros t' _. apply is_ok_bind; [apply IHr; assumption|reflexivity].
  - change (senm_ty (TInter a bs)) with
        (do bs' <- (fix go (l : list ty) : res (list ty) :=
                      match l with [] => Ok [] | b :: r => do b' <- senm_ty b ; do r' <- go r ; Ok (b' :: r') end) bs ;
         Ok (TInter a bs')).
    apply is_ok_bind; [|reflexivity]. revert H. induction bs as [|b r IHr]; intros H; [reflexivity|].
    inversion IH as [|? ? Hb Hr]; subst. simpl in H. apply orb_false_iff in H. destruct H as [H1 H2].
    apply is_ok_bind; [exact (Hb true H1)|]. intros b' _. apply is_ok_bind; [apply IHr; assumption|reflexivity].
Qed.

Theorem sanitize_no_panic ss : senm_safe_schemas ss = true -> is_ok' (sanitize_enum_member_names ss) = true.
Proof.
  intros H. unfold sanitize_enum_member_names. apply (W_mapM Wok Wok_ok is_ok_bind). intros s Hs.
  unfold senm_safe_schemas in H. rewrite forallb_forall in H. specialize (H s Hs). rewrite forallb_forall in H.
  apply (W_visit_schema Wok Wok_ok is_ok_bind).
  - apply senm_ty_ok with (inter := false). apply negb_true_iff. apply H. left; reflexivity.
  - intros ko Hko. apply is_ok_bind; [|reflexivity]. apply senm_ty_ok with (inter := false). apply negb_true_iff. apply H.
    right. apply in_map_iff. exists ko. split; [reflexivity|assumption].
Qed.

Example enum_member_panics :
  prefix_enum_values [mkSchema "p" tm0 "" ty_zero
     [("E", mkObject "E" [] (TEnum A0 [mkEnumVal (TScalar A0 KInt64 DNil []) "" (DInt "int64" 1%Z)]) "p" "E")]]
  = Panic "index out of range [0] with length 0" /\
  sanitize_enum_member_names [mkSchema "p" tm0 "" ty_zero
     [("E", mkObject "E" [] (TEnum A0 [mkEnumVal (TScalar A0 KString DNil []) "" (DStr "x")]) "p" "E")]]
  = Panic "index out of range [0] with length 0".
Proof. split; vm_compute; reflexivity. Qed.

(* =====================================================================================
   the passes that follow references: their only failure mode besides an error is the stack
   overflow on a reference cycle.  Condition: the branches of every visited union resolve.
   ===================================================================================== *)
Definition branches_resolve (s : schema) (t : ty) : bool :=
  match t with TDisj _ d => forallb (fun b => is_ok' (resolve s b)) (d_branches d) | _ => true end.
Definition unions_resolve (ss : schemas) : bool :=
  forallb (fun s => forallb (vis_all (branches_resolve s)) (schema_types s)) ss.

Lemma unions_resolve_at ss s t : unions_resolve ss = true -> In s ss -> In t (schema_types s) -> vis_all (branches_resolve s) t = true.
Proof.
  unfold unions_resolve. intros H Hs Ht. rewrite forallb_forall in H. specialize (H s Hs).
  rewrite forallb_forall in H. apply H. assumption.
Qed.

Lemma single_type_scalars_ok s bs :
  forallb (fun b => is_ok' (resolve s b)) bs = true -> is_ok' (single_type_scalars s bs) = true.
Proof.
  intros H. unfold single_type_scalars. destruct bs as [|b0 r0]; [reflexivity|].
  simpl in H. apply andb_true_iff in H. destruct H as [H0 Hr0].
  apply is_ok_bind; [exact H0|]. intros r1 _.
  destruct r1 as [[a d|a v|a vs|a i v|a dh fs|a pk n|a pk n v|a k v cs|a bs|a v|a k]|]; try reflexivity.
  apply is_ok_bind; [exact H0|]. intros r2 _.
  destruct r2 as [[a1 d1|a1 v1|a1 vs1|a1 i1 v1|a1 dh1 fs1|a1 pk1 n1|a1 pk1 n1 v1|a1 k1 v1 cs1|a1 bs1|a1 v1|a1 k1]|]; try reflexivity.
  destruct (skind_eqb k1 k); [|reflexivity].
  revert Hr0. induction r0 as [|b r IH]; intros Hr0; [reflexivity|].
  simpl in Hr0. apply andb_true_iff in Hr0. destruct Hr0 as [Hb Hr].
  apply is_ok_bind; [exact Hb|]. intros r3 _.
  destruct r3 as [[a2 d2|a2 v2|a2 vs2|a2 i2 v2|a2 dh2 fs2|a2 pk2 n2|a2 pk2 n2 v2|a2 k2 v2 cs2|a2 bs2|a2 v2|a2 k2]|]; try reflexivity.
  destruct (skind_eqb k2 k); [apply IH; assumption|reflexivity].
Qed.

Theorem flatten_no_crash ss : unions_resolve ss = true -> is_ok' (flatten_disjunctions ss) = true.
Proof.
  intros H. unfold flatten_disjunctions.
  apply (W_visit_schemas_disj0 Wok Wok_ok is_ok_bind _ branches_resolve); [|intros s t Hs Ht; eapply unions_resolve_at; eassumption].
  intros s a d Hs. unfold fd_disj. apply is_ok_bind; [|reflexivity]. simpl in Hs.
  generalize 0 as i. generalize (@nil string, @nil ty) as st. revert Hs. generalize (d_branches d) as l.
  induction l as [|b r IH]; intros Hs st i; [reflexivity|]. simpl in Hs. apply andb_true_iff in Hs. destruct Hs as [Hb Hr].
  cbn beta iota. destruct (negb (is_ref b)); [apply IH; assumption|].
  apply is_ok_bind; [exact Hb|]. intros r1 _. destruct r1 as [[]|]; apply IH; assumption.
Qed.

Theorem undiscriminated_no_crash ss : unions_resolve ss = true -> is_ok' (undiscriminated_disjunction_to_any ss) = true.
Proof.
  intros H. unfold undiscriminated_disjunction_to_any.
  apply (W_visit_schemas_disj0 Wok Wok_ok is_ok_bind _ branches_resolve); [|intros s t Hs Ht; eapply unions_resolve_at; eassumption].
  intros s a d Hs. unfold udta_disj. apply is_ok_bind; [apply single_type_scalars_ok; exact Hs|].
  intros [k|] _; [reflexivity|]. destruct (has_only_scalar_or_array_or_map (d_branches d)); [reflexivity|].
  destruct (_ && _); reflexivity.
Qed.

(* DisjunctionToType may return its "discriminator not set" errors, nothing worse *)
Theorem dtt_no_crash ss : unions_resolve ss = true -> ok_or_err' (disjunction_to_type ss) = true.
Proof.
  intros H. unfold disjunction_to_type. apply (W_mapM Woe Woe_ok ok_or_err_bind). intros s Hs.
  apply (W_visit_schema_st Woe Woe_ok ok_or_err_bind). intros st t Ht.
  apply (W_visit_disj Woe Woe_ok ok_or_err_bind _ _ (branches_resolve s)); [|eapply unions_resolve_at; eassumption].
  intros st0 a d Hsafe. unfold dtt_disj. apply ok_or_err_bind.
  - pose proof (single_type_scalars_ok s (d_branches d) Hsafe) as Hk. destruct (single_type_scalars s (d_branches d)); try discriminate. reflexivity.
  - intros [k|] _; [reflexivity|].
    match goal with |- context [objs_has st0 ?n] => destruct (objs_has st0 n) end; [reflexivity|].
    apply ok_or_err_bind; [|reflexivity].
    destruct (has_only_refs (d_branches d)); [|reflexivity].
    destruct (seqb (d_disc d) ""); [reflexivity|]. destruct (d_mapping d); reflexivity.
Qed.

Example reference_cycle_overflows :
  let w := [mkSchema "p" tm0 "" ty_zero
              [("A", mkObject "A" [] (TRef A0 "p" "A") "p" "A");
               ("O", mkObject "O" [] (TDisj A0 (mkDisj [TRef A0 "p" "A"; TScalar A0 KString DNil []] "" [])) "p" "O")]] in
  unions_resolve w = false /\ flatten_disjunctions w = OutOfFuel /\
  undiscriminated_disjunction_to_any w = OutOfFuel /\ disjunction_to_type w = OutOfFuel.
Proof. repeat split; vm_compute; reflexivity. Qed.

(* =====================================================================================
   DataqueryIdentification: panics only when common.DataQuery exists and is not a struct
   ===================================================================================== *)
Definition dataquery_base_ok (ss : schemas) : bool :=
  match locate_object ss "common" "DataQuery" with Some c => is_struct (o_type c) | None => true end.

Theorem dataquery_identification_no_panic ss :
  dataquery_base_ok ss = true -> is_ok' (dataquery_identification ss) = true.
Proof.
  unfold dataquery_base_ok, dataquery_identification.
  destruct (locate_object ss "common" "DataQuery") as [common|]; [|reflexivity]. intros Hc.
  apply (W_mapM Wok Wok_ok is_ok_bind). intros s _. unfold dqi_schema.
  assert (forall o, is_ok' (dqi_object common o) = true) as Ho.
  { intros o. unfold dqi_object. destruct (o_type o); try reflexivity.
    destruct (alist_has (hints a) "implements_variant"); [reflexivity|].
    destruct (o_type common); try discriminate. destruct (forallb _ fs0); reflexivity. }
  apply is_ok_bind.
  - match goal with |- is_ok' (?f (s_objects s) [] []) = true =>
      assert (forall l acc vs, is_ok' (f l acc vs) = true) as G; [|apply G] end.
    induction l as [|[k o] r IH]; intros acc vs; [reflexivity|]. cbn beta iota.
    destruct (seqb (self_str o) (self_str common)); [apply IH|].
    apply is_ok_bind; [apply Ho|]. intros x _. apply IH.
  - intros [objs vs] _. destruct (s_entry s); [destruct vs as [|v [|v2 r]]|]; reflexivity.
Qed.

Example dataquery_identification_panics :
  dataquery_identification
    [mkSchema "common" tm0 "" ty_zero
       [("DataQuery", mkObject "DataQuery" [] (TScalar A0 KString DNil []) "common" "DataQuery");
        ("S", mkObject "S" [] (TStruct A0 [] []) "common" "S")]]
  = Panic "invalid memory address or nil pointer dereference".
Proof. vm_compute. reflexivity. Qed.
