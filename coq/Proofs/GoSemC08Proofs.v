(* C08 — the lemmas Props/C08.v is closed with.
   Parts: GoSemC08Wit.v (witnesses, refutations), GoSemC08Val.v (Validate vs `violations`),
   GoSemC08Unf.v (unfolding equations), GoSemC08Strict.v (strict decoder vs `strict_ok`).

   FOUR of the statements first written in Props/C08.v are false for the definitions as they are
   (counterexamples W8.ctxD/E/F/G in GoSemC08Wit.v, lemmas `*_refuted` below).  Their strongest
   proved variants carry the suffix `_weak`; the extra hypotheses are
     ctx_named ctx = true         no struct field of an object type is named ""          (Model/GoSemSpec08F.v)
     ctx_cdirect ctx = true       every constant reference names an enum object directly (Model/GoSemSpec08F.v)
     ctx_unions_flat ctx = true   array / map branches of scalar unions hold scalars      (Model/GoSemSpec08F.v)
     is_unmodelled (strict_object ctx p n d) = false                                      (Model/GoSem.v). *)
From Coq Require Import List String ZArith Bool.
From Cog Require Import Model.GoSem Model.GoSemSpec08 Model.GoSemSpec08F Model.GoSemSpec01.
From Cog Require Export Proofs.GoSemC08Wit Proofs.GoSemC08Val Proofs.GoSemC08Strict.
Import ListNotations.
Local Open Scope string_scope.

(* ---------- proved exactly as stated in Props/C08.v ---------- *)
Lemma validate_iff_refuted :
  ~ (forall ctx p n v,
       (ctx_supported ctx = true /\ struct_object ctx p n = true /\ wt ctx (TRef attrs0 p n) v = true) ->
       (validate_object ctx p n v = [] <-> violations_object ctx p n v = [])).
Proof. exact GoSemC08Wit.validate_iff_refuted. Qed.

Lemma strict_iff_refuted :
  ~ (forall ctx p n d, ctx_supported ctx = true -> struct_object ctx p n = true ->
       ((exists v, strict_object ctx p n d = GOk v) <-> strict_ok_object ctx p n d = true)).
Proof. exact GoSemC08Wit.strict_iff_refuted. Qed.

Lemma c08_nonvacuous :
  exists ctx p n v,
    (ctx_supported ctx = true /\ struct_object ctx p n = true /\ wt ctx (TRef attrs0 p n) v = true) /\
    ctx_alias_free ctx = true /\ violations_object ctx p n v <> [].
Proof. exact GoSemC08Wit.c08_nonvacuous. Qed.

(* ---------- false as first stated ---------- *)
Lemma validate_reports_only_violations_refuted :
  ~ (forall ctx p n v q,
       (ctx_supported ctx = true /\ struct_object ctx p n = true /\ wt ctx (TRef attrs0 p n) v = true) ->
       In q (validate_object ctx p n v) -> In q (violations_object ctx p n v)).
Proof. exact GoSemC08Wit.validate_reports_only_violations_refuted. Qed.

Lemma validate_iff_partial_refuted :
  ~ (forall ctx p n v,
       (ctx_supported ctx = true /\ struct_object ctx p n = true /\ wt ctx (TRef attrs0 p n) v = true) ->
       ctx_alias_free ctx = true -> validate_object ctx p n v = violations_object ctx p n v).
Proof. exact GoSemC08Wit.validate_iff_partial_refuted. Qed.

Lemma strict_accepts_only_ok_partial_refuted :
  ~ (forall ctx p n d v, ctx_supported ctx = true -> struct_object ctx p n = true ->
       json_wf d = true -> json_null_free d = true ->
       strict_object ctx p n d = GOk v -> strict_ok_object ctx p n d = true).
Proof. exact GoSemC08Wit.strict_accepts_only_ok_partial_refuted. Qed.

Lemma strict_rejects_only_bad_partial_refuted :
  ~ (forall ctx p n d, ctx_supported ctx = true -> struct_object ctx p n = true ->
       json_wf d = true -> json_null_free d = true -> roundtrip_safe ctx p n d = true ->
       strict_ok_object ctx p n d = true -> exists v, strict_object ctx p n d = GOk v).
Proof. exact GoSemC08Wit.strict_rejects_only_bad_partial_refuted. Qed.

(* ---------- the strongest proved variants ---------- *)
Lemma validate_reports_only_violations_weak : forall ctx p n v q,
  (ctx_supported ctx = true /\ struct_object ctx p n = true /\ wt ctx (TRef attrs0 p n) v = true) ->
  ctx_named ctx = true ->
  In q (validate_object ctx p n v) -> In q (violations_object ctx p n v).
Proof. exact GoSemC08Val.validate_reports_only_violations_weak. Qed.

Lemma validate_iff_partial_weak : forall ctx p n v,
  (ctx_supported ctx = true /\ struct_object ctx p n = true /\ wt ctx (TRef attrs0 p n) v = true) ->
  ctx_alias_free ctx = true -> ctx_named ctx = true -> ctx_cdirect ctx = true ->
  validate_object ctx p n v = violations_object ctx p n v.
Proof. exact GoSemC08Val.validate_iff_partial_weak. Qed.

Lemma strict_accepts_only_ok_partial_weak : forall ctx p n d v,
  ctx_supported ctx = true -> struct_object ctx p n = true ->
  json_wf d = true -> json_null_free d = true -> ctx_unions_flat ctx = true ->
  strict_object ctx p n d = GOk v -> strict_ok_object ctx p n d = true.
Proof. exact GoSemC08Strict.strict_accepts_only_ok_partial_weak. Qed.

Lemma strict_rejects_only_bad_partial_weak : forall ctx p n d,
  ctx_supported ctx = true -> struct_object ctx p n = true ->
  json_wf d = true -> json_null_free d = true -> roundtrip_safe ctx p n d = true ->
  strict_ok_object ctx p n d = true ->
  is_unmodelled (strict_object ctx p n d) = false ->
  exists v, strict_object ctx p n d = GOk v.
Proof. exact GoSemC08Strict.strict_rejects_only_bad_partial_weak. Qed.

(* ---------- the hypotheses of the weak variants are jointly satisfiable ---------- *)
Lemma c08_nonvacuous_weak :
  exists ctx p n v,
    (ctx_supported ctx = true /\ struct_object ctx p n = true /\ wt ctx (TRef attrs0 p n) v = true) /\
    ctx_alias_free ctx = true /\ ctx_named ctx = true /\ ctx_cdirect ctx = true /\
    violations_object ctx p n v <> [].
Proof.
  exists W8.ctxC, "p", "Root", W8.vC. repeat split; try (vm_compute; reflexivity).
  vm_compute. discriminate.
Qed.

Lemma c08_strict_nonvacuous :
  exists ctx p n d v,
    ctx_supported ctx = true /\ struct_object ctx p n = true /\ json_wf d = true /\ json_null_free d = true /\
    ctx_unions_flat ctx = true /\ roundtrip_safe ctx p n d = true /\ strict_ok_object ctx p n d = true /\
    is_unmodelled (strict_object ctx p n d) = false /\ strict_object ctx p n d = GOk v.
Proof.
  exists W8.ctxC, "p", "Root", W8.dC. eexists. repeat split; vm_compute; reflexivity.
Qed.

Print Assumptions validate_iff_refuted.
Print Assumptions strict_iff_refuted.
Print Assumptions c08_nonvacuous.
Print Assumptions validate_reports_only_violations_refuted.
Print Assumptions validate_iff_partial_refuted.
Print Assumptions strict_accepts_only_ok_partial_refuted.
Print Assumptions strict_rejects_only_bad_partial_refuted.
Print Assumptions validate_reports_only_violations_weak.
Print Assumptions validate_iff_partial_weak.
Print Assumptions strict_accepts_only_ok_partial_weak.
Print Assumptions strict_rejects_only_bad_partial_weak.
Print Assumptions c08_nonvacuous_weak.
Print Assumptions c08_strict_nonvacuous.
