(* C06 for the last pass of the PHP chain when it DOES inline something: InlineObjectsWithTypes replaces a reference
   (with its own nullability, default and hints) by the type of the object it designates.
   - Section IowtNF: a substitution-style lemma for [iowt_ty] over [any_sub]/[any_below], generic in the node
     predicate assumed of the input and the one concluded of the result;
   - its instances for the five PHP normal-form predicates;
   - [inline_objects_keeps_nf]: the pass keeps the PHP normal form under [iowt_refs_safe] (order-independent case)
     and [iowt_nf_safe] (no optional field refers directly to an inlined non-nullable type, no union branch to an
     inlined null, inlined types are neither structs nor enums);
   - [tame_php_inl] / [php_chain_nf_inl]: the PHP chain theorem past "nothing to inline", with witnesses. *)
From Coq Require Import List String Bool Ascii Lia.
From Cog Require Import Model.IR Model.Names Model.Passes Model.PassesChain Model.Process Model.NF Model.Refs
     Proofs.TyInd Proofs.PassLemmas Proofs.ChainLemmas Proofs.ChainNFProofs Proofs.ChainPresProofs
     Proofs.ChainPhpJavaProofs Proofs.ChainRefsProofs Proofs.ChainRefsProofs2 Gen.Chains_gen.
Import ListNotations.
Local Open Scope list_scope.

(* what lies strictly below a node, with the allOf flag of [any_sub] *)
Definition anyb (p : bool -> ty -> bool) (i : bool) (t : ty) : bool :=
  match t with
  | TDisj _ d => existsb (any_sub p i) (d_branches d)
  | TArray _ v => any_sub p i v
  | TMap _ x v => any_sub p i x || any_sub p i v
  | TStruct _ _ fs => existsb (fun f => any_sub p i (f_type f)) fs
  | TInter _ bs => existsb (any_sub p true) bs
  | _ => false
  end.
Lemma any_sub_anyb p i t : any_sub p i t = p i t || anyb p i t.
Proof. destruct t; reflexivity. Qed.
Lemma any_below_anyb p t : any_below p t = anyb p false t.
Proof.
  unfold any_below. destruct t as [a d|a v|a vs|a i v|a dh fs|a pk n|a pk n v|a k v cs|a bs|a v|a k]; simpl; try reflexivity.
  - rewrite existsb_map_eq. reflexivity.
  - rewrite orb_false_r. reflexivity.
  - rewrite orb_false_r. reflexivity.
  - rewrite existsb_map_eq. reflexivity.
  - rewrite existsb_map_eq. reflexivity.
Qed.

Section IowtNF.
  Variable L : string -> ty -> option ty.
  Variable V : string -> option ty.
  Variables p_in p_out : bool -> ty -> bool.
  Hypothesis HLV : forall key partial r0, L key partial = Some r0 -> V key = Some r0.
  Hypothesis Hview : forall key r0 i, V key = Some r0 -> any_sub p_out i r0 = false.

  (* a node and what the pass makes of it, one level deep *)
  Definition hd (t t' : ty) : Prop :=
    match t with
    | TRef a p n => t' = t \/ V (ref_str p n) = Some t'
    | TDisj a d => exists bs', t' = TDisj a (mkDisj bs' (d_disc d) (d_mapping d))
    | TArray a v => exists v', t' = TArray a v'
    | TMap a i v => exists i' v', t' = TMap a i' v'
    | TStruct a dh fs => exists fs', t' = TStruct a dh fs'
    | TInter a bs => exists bs', t' = TInter a bs'
    | _ => t' = t
    end.
  Definition hdf (f f' : field) : Prop := f_name f' = f_name f /\ f_required f' = f_required f /\ hd (f_type f) (f_type f').

  Hypothesis Hsame : forall i t, p_in i t = false -> p_out i t = false.
  Hypothesis Hdisj : forall i a d bs', Forall2 hd (d_branches d) bs' -> p_in i (TDisj a d) = false ->
    p_out i (TDisj a (mkDisj bs' (d_disc d) (d_mapping d))) = false.
  Hypothesis Harr : forall i a v v', hd v v' -> p_in i (TArray a v) = false -> p_out i (TArray a v') = false.
  Hypothesis Hmap : forall i a x v x' v', hd x x' -> hd v v' -> p_in i (TMap a x v) = false -> p_out i (TMap a x' v') = false.
  Hypothesis Hstruct : forall i a dh fs fs', Forall2 hdf fs fs' -> p_in i (TStruct a dh fs) = false -> p_out i (TStruct a dh fs') = false.
  Hypothesis Hinter : forall i a bs bs', Forall2 hd bs bs' -> p_in i (TInter a bs) = false -> p_out i (TInter a bs') = false.

  Lemma iowt_hd t ctx : hd t (iowt_ty L ctx t).
  Proof.
    destruct t as [a d|a v|a vs|a i v|a dh fs|a pk n|a pk n v|a k v cs|a bs|a v|a k]; try reflexivity;
      try (simpl; eexists; reflexivity); try (simpl; eexists; eexists; reflexivity).
    rewrite iowt_ref. simpl. destruct (L (ref_str pk n) (ctx (TRef a pk n))) as [r0|] eqn:E; [right; eapply HLV; exact E|left; reflexivity].
  Qed.

  Definition nf_step (t : ty) : Prop := forall ctx i,
    (anyb p_in i t = false -> is_ref t = false -> anyb p_out i (iowt_ty L ctx t) = false) /\
    (any_sub p_in i t = false -> any_sub p_out i (iowt_ty L ctx t) = false).

  Lemma nf_step_of_below t :
    (forall ctx i, anyb p_in i t = false -> is_ref t = false -> anyb p_out i (iowt_ty L ctx t) = false) ->
    (forall ctx i, is_ref t = false -> p_in i t = false -> p_out i (iowt_ty L ctx t) = false) ->
    is_ref t = false -> nf_step t.
  Proof.
    intros Hb Hp Hr ctx i. split; [apply Hb|]. intros H. rewrite any_sub_anyb in H. apply orb_false_iff in H. destruct H as [H1 H2].
    rewrite any_sub_anyb. rewrite (Hp ctx i Hr H1), (Hb ctx i H2 Hr). reflexivity.
  Qed.

  Lemma iowt_ty_nf : forall t, nf_step t.
  Proof.
    induction t as [a d IH|a v IH|a vs IH|a x v IHi IHv|a dh fs IHd IHf|a pk n|a pk n v|a k v cs|a bs IH|a v|a k] using ty_ind';
      try (apply nf_step_of_below; [intros ctx i H _; reflexivity|intros ctx i _ H; apply Hsame; exact H|reflexivity]).
    - (* disjunction *)
      assert (forall ctx, exists bs', iowt_ty L ctx (TDisj a d) = TDisj a (mkDisj bs' (d_disc d) (d_mapping d)) /\
                Forall2 (fun b b' => hd b b' /\ forall i, any_sub p_in i b = false -> any_sub p_out i b' = false) (d_branches d) bs') as G.
      { intros ctx. simpl.
        match goal with |- exists bs', TDisj a (mkDisj (?g [] (d_branches d)) _ _) = _ /\ _ =>
          assert (forall l done, Forall nf_step l ->
                    Forall2 (fun b b' => hd b b' /\ forall i, any_sub p_in i b = false -> any_sub p_out i b' = false) l (g done l)) as GG end.
        { induction l as [|b r IHl]; intros done HF; [constructor|]. inversion HF as [|? ? Hb Hr]; subst. cbn beta iota.
          constructor; [split; [apply iowt_hd|intros i; apply Hb]|apply IHl; exact Hr]. }
        eexists. split; [reflexivity|apply GG; exact IH]. }
      apply nf_step_of_below; [| |reflexivity].
      + intros ctx i H _. destruct (G ctx) as [bs' [E HF]]. rewrite E. simpl in *.
        apply existsb_false_iff. intros b' Hb'. destruct (Forall2_in_r _ _ _ HF b' Hb') as [b [Hb [_ Hc]]].
        apply Hc. apply (proj1 (existsb_false_iff _ _) H b Hb).
      + intros ctx i _ H. destruct (G ctx) as [bs' [E HF]]. rewrite E. apply Hdisj; [|exact H].
        clear -HF. induction HF as [|b b' r r' [Hh _] _ IHF]; constructor; assumption.
    - (* array *)
      apply nf_step_of_below; [| |reflexivity].
      + intros ctx i H _. simpl in *. apply IH. exact H.
      + intros ctx i _ H. simpl. eapply Harr; [apply iowt_hd|exact H].
    - (* map *)
      apply nf_step_of_below; [| |reflexivity].
      + intros ctx i H _. simpl in *. apply orb_false_iff in H. destruct H as [H1 H2].
        rewrite (proj2 (IHi _ i) H1), (proj2 (IHv _ i) H2). reflexivity.
      + intros ctx i _ H. simpl. eapply Hmap; [apply iowt_hd|apply iowt_hd|exact H].
    - (* struct *)
      assert (forall ctx, exists fs', iowt_ty L ctx (TStruct a dh fs) = TStruct a dh fs' /\
                Forall2 (fun f f' => hdf f f' /\ forall i, any_sub p_in i (f_type f) = false -> any_sub p_out i (f_type f') = false) fs fs') as G.
      { intros ctx. simpl.
        match goal with |- exists fs', TStruct a dh (?g [] fs) = _ /\ _ =>
          assert (forall l done, Forall (fun f => nf_step (f_type f)) l ->
                    Forall2 (fun f f' => hdf f f' /\ forall i, any_sub p_in i (f_type f) = false -> any_sub p_out i (f_type f') = false) l (g done l)) as GG end.
        { induction l as [|f r IHl]; intros done HF; [constructor|]. inversion HF as [|? ? Hf Hr]; subst. cbn beta iota zeta.
          constructor; [|apply IHl; exact Hr]. split; [split; [reflexivity|split; [reflexivity|apply iowt_hd]]|intros i; apply Hf]. }
        eexists. split; [reflexivity|apply GG; exact IHf]. }
      apply nf_step_of_below; [| |reflexivity].
      + intros ctx i H _. destruct (G ctx) as [fs' [E HF]]. rewrite E. simpl in *.
        apply existsb_false_iff. intros f' Hf'. destruct (Forall2_in_r _ _ _ HF f' Hf') as [f [Hf [_ Hc]]].
        apply Hc. apply (proj1 (existsb_false_iff _ _) H f Hf).
      + intros ctx i _ H. destruct (G ctx) as [fs' [E HF]]. rewrite E. apply (Hstruct i a dh fs fs'); [|exact H].
        clear -HF. induction HF as [|f f' r r' [Hh _] _ IHF]; constructor; assumption.
    - (* reference *)
      intros ctx i. rewrite iowt_ref. destruct (L (ref_str pk n) (ctx (TRef a pk n))) as [r0|] eqn:E.
      + pose proof (Hview _ _ i (HLV _ _ _ E)) as Hv. split; [discriminate|intros _; exact Hv].
      + split; [discriminate|]. intros H. simpl in *. rewrite orb_false_r in *. apply Hsame. exact H.
    - (* intersection *)
      assert (forall ctx, exists bs', iowt_ty L ctx (TInter a bs) = TInter a bs' /\
                Forall2 (fun b b' => hd b b' /\ forall i, any_sub p_in i b = false -> any_sub p_out i b' = false) bs bs') as G.
      { intros ctx. simpl.
        match goal with |- exists bs', TInter a (?g [] bs) = _ /\ _ =>
          assert (forall l done, Forall nf_step l ->
                    Forall2 (fun b b' => hd b b' /\ forall i, any_sub p_in i b = false -> any_sub p_out i b' = false) l (g done l)) as GG end.
        { induction l as [|b r IHl]; intros done HF; [constructor|]. inversion HF as [|? ? Hb Hr]; subst. cbn beta iota.
          constructor; [split; [apply iowt_hd|intros i; apply Hb]|apply IHl; exact Hr]. }
        eexists. split; [reflexivity|apply GG; exact IH]. }
      apply nf_step_of_below; [| |reflexivity].
      + intros ctx i H _. destruct (G ctx) as [bs' [E HF]]. rewrite E. simpl in *.
        apply existsb_false_iff. intros b' Hb'. destruct (Forall2_in_r _ _ _ HF b' Hb') as [b [Hb [_ Hc]]].
        apply Hc. apply (proj1 (existsb_false_iff _ _) H b Hb).
      + intros ctx i _ H. destruct (G ctx) as [bs' [E HF]]. rewrite E. apply (Hinter i a bs bs'); [|exact H].
        clear -HF. induction HF as [|b b' r r' [Hh _] _ IHF]; constructor; assumption.
  Qed.

  (* the two forms used on object types *)
  Lemma iowt_ty_sub t ctx : any_sub p_in false t = false -> any_sub p_out false (iowt_ty L ctx t) = false.
  Proof. apply (proj2 (iowt_ty_nf t ctx false)). Qed.
  Lemma iowt_ty_below t ctx : any_below p_in t = false -> any_below p_out (iowt_ty L ctx t) = false.
  Proof.
    rewrite !any_below_anyb. intros H. destruct (is_ref t) eqn:Er; [|apply (proj1 (iowt_ty_nf t ctx false)); assumption].
    destruct t; try discriminate. rewrite iowt_ref. destruct (L _ _) as [r0|] eqn:E; [|reflexivity].
    pose proof (Hview _ _ false (HLV _ _ _ E)) as Hv. rewrite any_sub_anyb in Hv. apply orb_false_iff in Hv. exact (proj2 Hv).
  Qed.
End IowtNF.

(* ---------- the five PHP predicates ---------- *)
Definition p_inlopt (V : string -> option ty) (_ : bool) (t : ty) : bool :=
  match t with
  | TStruct _ _ fs =>
      existsb (fun f => negb (f_required f) &&
                        match f_type f with
                        | TRef _ p n => match V (ref_str p n) with Some r0 => negb (nullable (ty_attrs r0)) | None => false end
                        | _ => false
                        end) fs
  | _ => false
  end.
Definition p_inlnull (V : string -> option ty) (_ : bool) (t : ty) : bool :=
  match t with
  | TDisj _ d =>
      existsb (fun b => match b with
                        | TRef _ p n => match V (ref_str p n) with Some r0 => is_null r0 | None => false end
                        | _ => false
                        end) (d_branches d)
  | _ => false
  end.

Section Inst.
  Variable L : string -> ty -> option ty.
  Variable V : string -> option ty.
  Hypothesis HLV : forall key partial r0, L key partial = Some r0 -> V key = Some r0.

  Lemma inst_struct : (forall key r0, V key = Some r0 -> is_struct r0 = false /\ any_below p_struct r0 = false) ->
    forall t ctx, any_below p_struct t = false -> any_below p_struct (iowt_ty L ctx t) = false.
  Proof.
    intros Hv. apply (iowt_ty_below L V p_struct p_struct HLV).
    - intros key r0 i HV. destruct (Hv key r0 HV) as [H1 H2]. destruct i; [apply any_sub_inter_false; reflexivity|].
      rewrite any_sub_anyb, <- any_below_anyb, H2. unfold p_struct. rewrite H1. reflexivity.
    - intros i t H; exact H.
    - intros i a d bs' _ _. unfold p_struct. simpl. apply andb_false_r.
    - intros i a v v' _ _. unfold p_struct. simpl. apply andb_false_r.
    - intros i a x v x' v' _ _ _. unfold p_struct. simpl. apply andb_false_r.
    - intros i a dh fs fs' _ H. exact H.
    - intros i a bs bs' _ _. unfold p_struct. simpl. apply andb_false_r.
  Qed.
  Lemma inst_enum : (forall key r0, V key = Some r0 -> is_enum r0 = false /\ any_below p_enum r0 = false) ->
    forall t ctx, any_below p_enum t = false -> any_below p_enum (iowt_ty L ctx t) = false.
  Proof.
    intros Hv. apply (iowt_ty_below L V p_enum p_enum HLV).
    - intros key r0 i HV. destruct (Hv key r0 HV) as [H1 H2].
      rewrite (any_sub_inter_irrel p_enum (fun _ _ _ => eq_refl) r0 i false).
      rewrite any_sub_anyb, <- any_below_anyb, H2. unfold p_enum. rewrite H1. reflexivity.
    - intros i t H; exact H.
    - reflexivity.
    - reflexivity.
    - reflexivity.
    - reflexivity.
    - reflexivity.
  Qed.
  Lemma inst_php : (forall key r0, V key = Some r0 -> any_sub p_php false r0 = false) ->
    forall t ctx, any_sub p_php false t = false -> any_sub p_php false (iowt_ty L ctx t) = false.
  Proof.
    intros Hv. apply (iowt_ty_sub L V p_php p_php HLV).
    - intros key r0 i HV. rewrite (any_sub_inter_irrel p_php (fun _ _ _ => eq_refl) r0 i false). eapply Hv; exact HV.
    - intros i t H; exact H.
    - reflexivity.
    - reflexivity.
    - reflexivity.
    - reflexivity.
    - reflexivity.
  Qed.
  Lemma inst_optnn : (forall key r0, V key = Some r0 -> any_sub p_optnn false r0 = false) ->
    forall t ctx, any_sub (por p_optnn (p_inlopt V)) false t = false -> any_sub p_optnn false (iowt_ty L ctx t) = false.
  Proof.
    intros Hv. apply (iowt_ty_sub L V (por p_optnn (p_inlopt V)) p_optnn HLV).
    - intros key r0 i HV. rewrite (any_sub_inter_irrel p_optnn (fun _ _ _ => eq_refl) r0 i false). eapply Hv; exact HV.
    - intros i t H. unfold por in H. apply orb_false_iff in H. exact (proj1 H).
    - reflexivity.
    - reflexivity.
    - reflexivity.
    - intros i a dh fs fs' HF H. unfold por in H. apply orb_false_iff in H. destruct H as [H1 H2]. simpl in *.
      induction HF as [|f f' r r' [_ [Hreq Hh]] _ IHF]; [reflexivity|]. simpl in *.
      apply orb_false_iff in H1, H2. destruct H1 as [H1 H1r], H2 as [H2 H2r]. rewrite (IHF H1r H2r), orb_false_r.
      rewrite Hreq. destruct (f_required f); [reflexivity|]. simpl in *.
      destruct (f_type f) as [a1 d1|a1 v1|a1 vs1|a1 i1 v1|a1 dh1 fs1|a1 pk1 n1|a1 pk1 n1 v1|a1 k1 v1 cs1|a1 bs1|a1 v1|a1 k1];
        simpl in Hh; try (rewrite Hh; exact H1);
        try (destruct Hh as [y Hy]; rewrite Hy; exact H1); try (destruct Hh as [y [z Hy]]; rewrite Hy; exact H1).
      destruct Hh as [Hh|Hh]; [rewrite Hh; exact H1|]. rewrite Hh in H2. exact H2.
    - reflexivity.
  Qed.
  Lemma inst_hasnull : (forall key r0, V key = Some r0 -> any_sub p_hasnull false r0 = false) ->
    forall t ctx, any_sub (por p_hasnull (p_inlnull V)) false t = false -> any_sub p_hasnull false (iowt_ty L ctx t) = false.
  Proof.
    intros Hv. apply (iowt_ty_sub L V (por p_hasnull (p_inlnull V)) p_hasnull HLV).
    - intros key r0 i HV. rewrite (any_sub_inter_irrel p_hasnull (fun _ _ _ => eq_refl) r0 i false). eapply Hv; exact HV.
    - intros i t H. unfold por in H. apply orb_false_iff in H. exact (proj1 H).
    - intros i a d bs' HF H. unfold por in H. apply orb_false_iff in H. destruct H as [H1 H2]. simpl in *.
      induction HF as [|b b' r r' Hh _ IHF]; [reflexivity|]. simpl in *.
      apply orb_false_iff in H1, H2. destruct H1 as [H1 H1r], H2 as [H2 H2r]. rewrite (IHF H1r H2r), orb_false_r.
      destruct b as [a1 d1|a1 v1|a1 vs1|a1 i1 v1|a1 dh1 fs1|a1 pk1 n1|a1 pk1 n1 v1|a1 k1 v1 cs1|a1 bs1|a1 v1|a1 k1];
        simpl in Hh; try (rewrite Hh; exact H1);
        try (destruct Hh as [y Hy]; rewrite Hy; reflexivity); try (destruct Hh as [y [z Hy]]; rewrite Hy; reflexivity).
      destruct Hh as [Hh|Hh]; [rewrite Hh; reflexivity|]. rewrite Hh in H2. exact H2.
    - reflexivity.
    - reflexivity.
    - reflexivity.
    - reflexivity.
  Qed.
End Inst.

(* ---------- the pass ---------- *)
Definition Vis (il : list (string * origin)) (ss : schemas) (key : string) : option ty :=
  match alist_find il key with None => None | Some og => view_type ss og end.

(* inlined types are neither structs nor enums (the kinds the PHP chain asks for are scalar, array, map, disjunction);
   no optional field refers DIRECTLY to an inlined type that is not nullable (the field would get that type in place
   of its nullable reference); no union branch refers directly to an inlined null *)
Definition iowt_nf_safe (kinds : list string) (ss : schemas) : bool :=
  match iowt_collect kinds ss with
  | Ok il =>
      forallb (fun kv => match view_type ss (snd kv) with
                         | Some t => negb (is_struct t) && negb (is_enum t)
                         | None => true
                         end) il &&
      forallb (fun o => negb (any_sub (p_inlopt (Vis il ss)) false (o_type o)) &&
                        negb (any_sub (p_inlnull (Vis il ss)) false (o_type o))) (objects_of ss)
  | _ => true
  end.

Lemma iowt_safe_hyps kinds ss il : iowt_refs_safe kinds ss = true -> iowt_collect kinds ss = Ok il ->
  (forall key og, In (key, og) il -> exists t, view_type ss og = Some t /\ forall r, In r (all_refs t) -> kfree il r) /\
  (forall s, In s ss -> forall r, In r (hid_refs (s_entrytype s)) -> kfree il r) /\
  (forall s ko, In s ss -> In ko (s_objects s) -> forall r, In r (hid_refs (o_type (snd ko))) -> kfree il r) /\
  (forall s, In s ss -> NoDup (map fst (s_objects s))).
Proof.
  intros Hsafe Hc. unfold iowt_refs_safe in Hsafe. rewrite Hc in Hsafe.
  apply andb_true_iff in Hsafe. destruct Hsafe as [S1 S2]. rewrite forallb_forall in S1, S2.
  split; [|split; [|split]].
  - intros key og Hin. specialize (S1 (key, og) Hin). cbn [snd] in S1. destruct (view_type ss og) as [t|]; [|discriminate].
    exists t. split; [reflexivity|]. intros r Hr. rewrite forallb_forall in S1. apply negb_true_iff. exact (S1 r Hr).
  - intros s Hs r Hr. specialize (S2 s Hs). repeat (apply andb_true_iff in S2; destruct S2 as [S2 ?]).
    rewrite forallb_forall in S2. apply negb_true_iff. exact (S2 r Hr).
  - intros s ko Hs Hko r Hr. specialize (S2 s Hs). repeat (apply andb_true_iff in S2; destruct S2 as [S2 ?]).
    rewrite forallb_forall in H2. specialize (H2 ko Hko). rewrite forallb_forall in H2. apply negb_true_iff. exact (H2 r Hr).
  - intros s Hs. specialize (S2 s Hs). repeat (apply andb_true_iff in S2; destruct S2 as [S2 ?]). apply nodupb_NoDup. assumption.
Qed.

Lemma view_object ss og t : view_type ss og = Some t -> exists o, In o (objects_of ss) /\ t = o_type o.
Proof.
  unfold view_type. destruct (nth_error ss (fst og)) as [s|] eqn:En; [|discriminate].
  destruct (objs_get (s_objects s) (snd og)) as [o|] eqn:Eg; [|discriminate]. intros E. inversion E; subst.
  exists o. split; [|reflexivity]. apply in_objects_of. exists s, (snd og). split; [eapply nth_error_In; exact En|apply objs_get_in; exact Eg].
Qed.

Theorem inline_objects_keeps_nf kinds ss out :
  iowt_refs_safe kinds ss = true -> iowt_nf_safe kinds ss = true ->
  all_clean_below p_struct ss -> all_clean p_optnn ss -> all_clean_below p_enum ss -> all_clean p_hasnull ss -> all_clean p_php ss ->
  inline_objects_with_types kinds ss = Ok out ->
  all_clean_below p_struct out /\ all_clean p_optnn out /\ all_clean_below p_enum out /\ all_clean p_hasnull out /\ all_clean p_php out.
Proof.
  intros Hsafe Hnf CS CO CE CN CP H. unfold inline_objects_with_types in H.
  destruct (iowt_collect kinds ss) as [il| | |] eqn:Hc; simpl in H; try discriminate. inversion H; subst. clear H.
  destruct (iowt_safe_hyps _ _ _ Hsafe Hc) as [HC [HHe [HHo HK]]].
  unfold iowt_nf_safe in Hnf. rewrite Hc in Hnf. apply andb_true_iff in Hnf. destruct Hnf as [N1 N2]. rewrite forallb_forall in N1, N2.
  pose proof (iowt_visit_rel il ss HC HHe HHo HK) as HF.
  (* facts about what is inlined *)
  assert (forall key r0, Vis il ss key = Some r0 ->
            exists o, In o (objects_of ss) /\ r0 = o_type o /\ is_struct r0 = false /\ is_enum r0 = false) as HV.
  { intros key r0 Hv. unfold Vis in Hv. destruct (alist_find il key) as [og|] eqn:Ef; [|discriminate].
    apply alist_find_in in Ef. specialize (N1 (key, og) Ef). cbn [snd] in N1. rewrite Hv in N1.
    apply andb_true_iff in N1. destruct N1 as [A B]. apply negb_true_iff in A, B.
    destruct (view_object _ _ _ Hv) as [o [Ho E]]. exists o. repeat split; assumption. }
  (* every object of the result *)
  assert (forall o', In o' (objects_of (map (fun s => set_objects s (filter (fun ko => negb (alist_has il (self_str (snd ko)))) (s_objects s))) (iowt_visit il ss))) ->
            exists s k0, In s ss /\ idesc il ss s k0 o') as Hdesc.
  { intros o' Ho'. apply in_objects_of in Ho'. destruct Ho' as [s'' [k0 [Hs'' Hin]]]. apply in_map_iff in Hs''. destruct Hs'' as [s' [<- Hs']].
    cbn [s_objects set_objects] in Hin. apply filter_In in Hin. destruct Hin as [Hin _].
    destruct (Forall2_in_r _ _ _ HF s' Hs') as [s [Hs [_ [_ [_ [_ Hd]]]]]]. exists s, k0. split; [exact Hs|apply Hd; exact Hin]. }
  assert (forall o', In o' (objects_of (map (fun s => set_objects s (filter (fun ko => negb (alist_has il (self_str (snd ko)))) (s_objects s))) (iowt_visit il ss))) ->
            any_below p_struct (o_type o') = false /\ any_sub p_optnn false (o_type o') = false /\ any_below p_enum (o_type o') = false /\
            any_sub p_hasnull false (o_type o') = false /\ any_sub p_php false (o_type o') = false) as Hall.
  { intros o' Ho'. destruct (Hdesc o' Ho') as [s [k0 [Hs [k [o [cur [i [Hko [Hinv [Hn [E _]]]]]]]]]]]. subst o'. cbn [o_type set_otype].
    assert (In o (objects_of ss)) as Ho by (apply in_objects_of; exists s, k; split; assumption).
    destruct (is_org il (i, k)) eqn:Eo.
    - rewrite (proj2 (obj_result il ss HC HHo HK cur i s k o Hinv Hn Hko) Eo).
      repeat split; [apply CS|apply CO|apply CE|apply CN|apply CP]; exact Ho.
    - assert (forall key partial r0, iowt_lookup il cur (Some (i, k)) key partial = Some r0 -> Vis il ss key = Some r0) as HLV.
      { intros key partial r0 HL0. pose proof (eq_trans (eq_sym (lookup_notself il cur _ key partial Eo)) HL0) as HL. clear HL0.
        unfold iowt_lookup in HL. unfold Vis.
        destruct (alist_find il key) as [og|] eqn:Ef; [|discriminate]. rewrite <- (Hinv key og (alist_find_in _ _ _ Ef)). exact HL. }
      specialize (N2 o Ho). apply andb_true_iff in N2. destruct N2 as [N2a N2b]. apply negb_true_iff in N2a, N2b.
      split; [|split; [|split; [|split]]].
      + apply (inst_struct _ _ HLV); [|apply CS; exact Ho]. intros key r0 Hv. destruct (HV key r0 Hv) as [o0 [Ho0 [E0 [A _]]]].
        split; [exact A|subst r0; apply CS; exact Ho0].
      + apply (inst_optnn _ _ HLV).
        * intros key r0 Hv. destruct (HV key r0 Hv) as [o0 [Ho0 [E0 _]]]. subst r0. apply CO. exact Ho0.
        * rewrite any_sub_or. rewrite (CO o Ho), N2a. reflexivity.
      + apply (inst_enum _ _ HLV); [|apply CE; exact Ho]. intros key r0 Hv. destruct (HV key r0 Hv) as [o0 [Ho0 [E0 [_ B]]]].
        split; [exact B|subst r0; apply CE; exact Ho0].
      + apply (inst_hasnull _ _ HLV).
        * intros key r0 Hv. destruct (HV key r0 Hv) as [o0 [Ho0 [E0 _]]]. subst r0. apply CN. exact Ho0.
        * rewrite any_sub_or. rewrite (CN o Ho), N2b. reflexivity.
      + apply (inst_php _ _ HLV); [|apply CP; exact Ho].
        intros key r0 Hv. destruct (HV key r0 Hv) as [o0 [Ho0 [E0 _]]]. subst r0. apply CP. exact Ho0. }
  repeat split; intros o' Ho'; destruct (Hall o' Ho') as [A [B [C [D E]]]]; assumption.
Qed.

(* ---------- the PHP chain, past "nothing to inline" ---------- *)
Definition tame_php_inl (ss : schemas) : bool :=
  tame_php_core ss &&
  match process (removelast chain_php) ss with
  | Ok mid => iowt_nothing php_inline_kinds mid || (iowt_refs_safe php_inline_kinds mid && iowt_nf_safe php_inline_kinds mid)
  | _ => true
  end.

Theorem php_chain_nf_inl ss out :
  tame_php_inl ss = true -> process chain_php ss = Ok out -> nf_violations "php" out = [].
Proof.
  intros Ht H. unfold tame_php_inl in Ht. apply andb_true_iff in Ht. destruct Ht as [Hcore Hlast].
  destruct (process (removelast chain_php) ss) as [mid| | |] eqn:Emid.
  - apply orb_true_iff in Hlast. destruct Hlast as [Hnoop|Hinl].
    + apply (php_chain_nf ss out); [|exact H]. unfold tame_php. rewrite Hcore, Emid. exact Hnoop.
    + apply andb_true_iff in Hinl. destruct Hinl as [I1 I2].
      assert (chain_php = removelast chain_php ++ [PInlineObjectsWithTypes php_inline_kinds]) as Esplit by reflexivity.
      rewrite Esplit, process_app, Emid in H. simpl in H.
      destruct (inline_objects_with_types php_inline_kinds mid) as [out'| | |] eqn:Ei; simpl in H; try discriminate. inversion H; subst.
      destruct (php_core_invariants _ _ Hcore Emid) as [_ [S [O [A [N G]]]]].
      destruct (inline_objects_keeps_nf _ _ _ I1 I2 S O A N G Ei) as [S' [O' [A' [N' G']]]].
      apply nf_php_of_invariants; assumption.
  - assert (chain_php = removelast chain_php ++ [PInlineObjectsWithTypes php_inline_kinds]) as Esplit by reflexivity.
    rewrite Esplit, process_app, Emid in H. discriminate.
  - assert (chain_php = removelast chain_php ++ [PInlineObjectsWithTypes php_inline_kinds]) as Esplit by reflexivity.
    rewrite Esplit, process_app, Emid in H. discriminate.
  - assert (chain_php = removelast chain_php ++ [PInlineObjectsWithTypes php_inline_kinds]) as Esplit by reflexivity.
    rewrite Esplit, process_app, Emid in H. discriminate.
Qed.

(* ---------- non-vacuity and the failing case ---------- *)
Local Open Scope string_scope.
(* a REQUIRED field refers to an alias of an array: the array is inlined, the alias removed, the normal form kept;
   with an OPTIONAL field referring to an alias of a (non-nullable) scalar the condition fails, and so does the claim *)
Definition w_inlined_required : schemas :=
  [mkSchema "p" wm0 "" ty_zero
    [("Alias", mkObject "Alias" [] (TArray A0 (xSc KString)) "p" "Alias");
     ("Obj", mkObject "Obj" [] (TStruct A0 [] [mkField "f" [] (TRef A0 "p" "Alias") true;
                                               mkField "g" [] (xSc KInt64) false]) "p" "Obj")]].
Example php_chain_nf_inl_nonvacuous :
  (tame_php_inl w_inlined_required = true /\ tame_php w_inlined_required = false /\
   In "optional-field-not-nullable" (nf_violations "php" w_inlined_required) /\
   exists out, process chain_php w_inlined_required = Ok out /\ nf_violations "php" out = [] /\
               List.length (objects_of out) < List.length (objects_of w_inlined_required)) /\
  (tame_php_core w_inlined_reference = true /\ tame_php_inl w_inlined_reference = false /\
   exists out, process chain_php w_inlined_reference = Ok out /\ In "optional-field-not-nullable" (nf_violations "php" out)).
Proof.
  split.
  - split; [vm_compute; reflexivity|]. split; [vm_compute; reflexivity|]. split; [vm_compute; tauto|].
    eexists. split; [vm_compute; reflexivity|]. split; vm_compute; reflexivity.
  - split; [vm_compute; reflexivity|]. split; [vm_compute; reflexivity|]. eexists. split; [vm_compute; reflexivity|vm_compute; tauto].
Qed.
Local Close Scope string_scope.
