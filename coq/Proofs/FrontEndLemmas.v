(* C01 front-end: shared lemmas (lookup through the sorted object / field lists) and the field-facts theorem. *)
From Coq Require Import List String ZArith Bool Ascii Arith Lia.
From Cog Require Import Model.IR Model.Json Model.GoSemBase Model.GoSemValidate Model.Src Model.FrontEnd Model.FrontEndSpec.
Import ListNotations.
Local Open Scope list_scope.
Local Open Scope string_scope.

Lemma fe_seqb_eq a b : seqb a b = true -> a = b.
Proof. apply String.eqb_eq. Qed.
Lemma fe_seqb_refl a : seqb a a = true.
Proof. apply String.eqb_refl. Qed.

Lemma str_leb_false_neq a b : str_leb a b = false -> seqb a b = false.
Proof.
  unfold str_leb, seqb. intro H. destruct (String.eqb a b) eqn:E; auto.
  apply String.eqb_eq in E. subst b.
  pose proof (String.compare_antisym a a) as C.
  destruct (String.compare a a); simpl in C; discriminate.
Qed.

(* ---------- insertion sorts keep lookups ---------- *)
Lemma objs_get_insert o l k :
  objs_get (insert_obj o l) k = if seqb (fst o) k then Some (snd o) else objs_get l k.
Proof.
  induction l as [|g r IH]; simpl.
  - destruct o as [ko oo]. simpl. reflexivity.
  - destruct (str_leb (fst o) (fst g)) eqn:L.
    + destruct o as [ko oo]. simpl. reflexivity.
    + apply str_leb_false_neq in L. destruct g as [kg og]. simpl in *. rewrite IH.
      destruct (seqb kg k) eqn:G; auto.
      apply fe_seqb_eq in G. subst kg. rewrite L. reflexivity.
Qed.

Lemma objs_get_sort l k : objs_get (sort_objs l) k = objs_get l k.
Proof.
  induction l as [|[ko oo] r IH]; simpl; auto.
  rewrite objs_get_insert. simpl. rewrite IH. reflexivity.
Qed.

Lemma find_insert_field f l n :
  find (fun g => seqb (f_name g) n) (insert_field f l) =
  if seqb (f_name f) n then Some f else find (fun g => seqb (f_name g) n) l.
Proof.
  induction l as [|g r IH]; simpl.
  - reflexivity.
  - destruct (str_leb (f_name f) (f_name g)) eqn:L.
    + simpl. reflexivity.
    + apply str_leb_false_neq in L. simpl. rewrite IH.
      destruct (seqb (f_name g) n) eqn:G; auto.
      apply fe_seqb_eq in G. subst n. rewrite L. reflexivity.
Qed.

Lemma find_sort_fields l n :
  find (fun g => seqb (f_name g) n) (sort_fields l) = find (fun g => seqb (f_name g) n) l.
Proof.
  induction l as [|f r IH]; simpl; auto.
  rewrite find_insert_field. rewrite IH. reflexivity.
Qed.

Lemma forallb_insert_field p f l : forallb p (insert_field f l) = (p f && forallb p l)%bool.
Proof.
  induction l as [|g r IH]; simpl; auto.
  destruct (str_leb (f_name f) (f_name g)); simpl; auto.
  rewrite IH. destruct (p f), (p g); reflexivity.
Qed.
Lemma forallb_sort_fields p l : forallb p (sort_fields l) = forallb p l.
Proof.
  induction l as [|f r IH]; simpl; auto. rewrite forallb_insert_field, IH. reflexivity.
Qed.

Lemma length_insert_obj o l : List.length (insert_obj o l) = S (List.length l).
Proof. induction l as [|g r IH]; simpl; auto. destruct (str_leb (fst o) (fst g)); simpl; auto. Qed.
Lemma length_sort_objs l : List.length (sort_objs l) = List.length l.
Proof. induction l as [|g r IH]; simpl; auto. rewrite length_insert_obj, IH. reflexivity. Qed.

(* ---------- the parsed context ---------- *)
Definition mkobj (pkg : string) (d : string * src_ty) : string * object :=
  (fst d, mkObject (fst d) [] (js_ty pkg (snd d)) pkg (fst d)).
Definition obj_of (pkg n : string) (t : src_ty) : object := mkObject n [] (js_ty pkg t) pkg n.

Lemma parse_ctx_eq s : js_schema_supported s = true ->
  parse_ctx s = [mkSchema (src_pkg s) meta0 (src_root s) (TRef attrs0 (src_pkg s) (src_root s))
                   (sort_objs (map (mkobj (src_pkg s)) (filter (fun d => str_in (fst d) (reachable s)) (src_defs s))))].
Proof. intro H. unfold parse_ctx, parse_jsonschema. rewrite H. reflexivity. Qed.

Lemma objs_get_filter pkg live defs k :
  objs_get (map (mkobj pkg) (filter (fun d => str_in (fst d) live) defs)) k =
  if str_in k live then option_map (obj_of pkg k) (src_lookup defs k) else None.
Proof.
  induction defs as [|[k' t] r IH]; simpl.
  - destruct (str_in k live); reflexivity.
  - destruct (str_in k' live) eqn:L; simpl.
    + destruct (seqb k' k) eqn:E.
      * apply fe_seqb_eq in E. subst k'. rewrite L. reflexivity.
      * exact IH.
    + destruct (seqb k' k) eqn:E.
      * apply fe_seqb_eq in E. subst k'. rewrite L. rewrite L in IH. exact IH.
      * exact IH.
Qed.

Lemma locate_parse s n : js_schema_supported s = true ->
  locate_object (parse_ctx s) (src_pkg s) n =
  if str_in n (reachable s) then option_map (obj_of (src_pkg s) n) (src_lookup (src_defs s) n) else None.
Proof.
  intro H. rewrite (parse_ctx_eq s H). unfold locate_object, locate. simpl.
  rewrite fe_seqb_refl. simpl. rewrite objs_get_sort. apply objs_get_filter.
Qed.

Lemma str_in_In k l : str_in k l = true <-> In k l.
Proof.
  induction l as [|x r IH]; simpl.
  - split; [discriminate | tauto].
  - rewrite orb_true_iff, IH. split; intros [A|A]; auto; left.
    + apply String.eqb_eq in A. auto.
    + subst. apply String.eqb_refl.
Qed.

Lemma src_lookup_in defs k t : str_nodup (map fst defs) = true -> In (k, t) defs -> src_lookup defs k = Some t.
Proof.
  induction defs as [|[k' t'] r IH]; simpl; intros N I; [tauto|].
  apply andb_true_iff in N. destruct N as [N1 N2].
  destruct I as [I|I].
  - inversion I. subst. rewrite fe_seqb_refl. reflexivity.
  - destruct (seqb k' k) eqn:E.
    + apply fe_seqb_eq in E. subst k'.
      assert (X : str_in k (map fst r) = true) by (apply str_in_In; apply (in_map fst) in I; exact I).
      rewrite X in N1. discriminate.
    + auto.
Qed.

Lemma src_lookup_some_in defs k t : src_lookup defs k = Some t -> In (k, t) defs.
Proof.
  induction defs as [|[k' t'] r IH]; simpl; intro H; [discriminate|].
  destruct (seqb k' k) eqn:E.
  - apply fe_seqb_eq in E. inversion H. subst. auto.
  - auto.
Qed.

Lemma find_sfield_in (fs : list sfield) f :
  str_nodup (map sf_name fs) = true -> In f fs -> find (fun g => seqb (sf_name g) (sf_name f)) fs = Some f.
Proof.
  induction fs as [|g r IH]; simpl; intros N I; [tauto|].
  apply andb_true_iff in N. destruct N as [N1 N2].
  destruct I as [I|I].
  - subst. rewrite fe_seqb_refl. reflexivity.
  - destruct (seqb (sf_name g) (sf_name f)) eqn:E.
    + apply fe_seqb_eq in E.
      assert (X : str_in (sf_name g) (map sf_name r) = true).
      { apply str_in_In. rewrite E. apply in_map. exact I. }
      rewrite X in N1. discriminate.
    + auto.
Qed.

Lemma find_map_field (F : sfield -> field) (fs : list sfield) n :
  (forall f, f_name (F f) = sf_name f) ->
  find (fun g => seqb (f_name g) n) (map F fs) = option_map F (find (fun f => seqb (sf_name f) n) fs).
Proof.
  intro HF. induction fs as [|g r IH]; simpl; auto.
  rewrite HF. destruct (seqb (sf_name g) n); simpl; auto.
Qed.

(* the IR field made of a member *)
Definition js_field (pkg : string) (f : sfield) : field :=
  let base := js_ty pkg (sf_type f) in
  let ft :=
    if sf_null f then
      if sf_nullta f then
        match js_plain (sf_type f) with
        | Some p => mk_disj [p; t_null]
        | None => mk_disj [base; t_null]
        end
      else
        match sf_type f with
        | SUnion _ =>
            match base with
            | TDisj a d => TDisj a (mkDisj (d_branches d ++ [t_null]) (d_disc d) (d_mapping d))
            | _ => mk_disj [base; t_null]
            end
        | _ => mk_disj [base; t_null]
        end
    else base in
  mkField (sf_name f) [] ft (sf_req f).

Lemma js_ty_struct pkg f fs :
  js_ty pkg (SStruct (f :: fs)) = TStruct attrs0 [] (sort_fields (map (js_field pkg) (f :: fs))).
Proof. reflexivity. Qed.

Lemma js_ty_not_null pkg t : is_null (js_ty pkg t) = false.
Proof.
  destruct t; simpl; try reflexivity.
  - destruct v; reflexivity.
  - destruct fs; reflexivity.
Qed.

Lemma src_wf_parts s : src_wf s = true ->
  js_schema_supported s = true /\ str_nodup (map fst (src_defs s)) = true /\
  (forall k t, In (k, t) (src_defs s) ->
     js_supported t = true /\ ty_wf (src_defs s) t = true /\ str_in k (reachable s) = true /\
     forallb (fun n => str_in n (map fst (src_defs s))) (refs_of t) = true).
Proof.
  unfold src_wf. intro H. apply andb_true_iff in H. destruct H as [H H3].
  apply andb_true_iff in H. destruct H as [H1 H2]. split; auto.
  pose proof H1 as H1'. unfold js_schema_supported in H1.
  apply andb_true_iff in H1. destruct H1 as [H1 H5]. apply andb_true_iff in H1. destruct H1 as [H1 H4].
  unfold defs_closed in H1. apply andb_true_iff in H1. destruct H1 as [H0 H1]. split; auto.
  intros k t I. rewrite forallb_forall in H1, H2, H3, H5.
  repeat split.
  - apply (H5 _ I).
  - apply (H2 _ I).
  - apply (H3 _ I).
  - apply (H1 _ I).
Qed.

(* ---------- reflexivity of the by-value comparison on the constraints the front-end makes ---------- *)
Lemma num_eqb_refl m e : num_eqb m e m e = true.
Proof. unfold num_eqb. destruct (num_norm m e). rewrite !Z.eqb_refl. reflexivity. Qed.

Lemma dyn_eqv_dflo m e : dyn_eqv (dflo m e) (dflo m e) = true.
Proof.
  unfold dflo, dyn_eqv. rewrite fe_seqb_refl. simpl.
  destruct (parse_dec (dec_string m e)) as [[a b]|].
  - apply num_eqb_refl.
  - apply fe_seqb_refl.
Qed.

Lemma constraint_eqv_flo op m e : constraint_eqv (cstr op (dflo m e)) (cstr op (dflo m e)) = true.
Proof. unfold constraint_eqv, cstr. cbn [c_op c_args leqv]. rewrite fe_seqb_refl, dyn_eqv_dflo. reflexivity. Qed.
Lemma constraint_eqv_int op g n : constraint_eqv (cstr op (DInt g n)) (cstr op (DInt g n)) = true.
Proof.
  unfold constraint_eqv, cstr. cbn [c_op c_args leqv dyn_eqv dyn_eqb]. rewrite !fe_seqb_refl, Z.eqb_refl. reflexivity.
Qed.

Lemma constraints_eqv_bounds a b c d : constraints_eqv (js_bounds a b c d) (js_bounds a b c d) = true.
Proof.
  unfold constraints_eqv, js_bounds, opt_list.
  destruct a, b, c, d; cbn [app leqv]; rewrite ?constraint_eqv_flo; reflexivity.
Qed.
Lemma constraints_eqv_lengths a b : constraints_eqv (js_lengths a b) (js_lengths a b) = true.
Proof.
  unfold constraints_eqv, js_lengths, opt_list.
  destruct a, b; cbn [app leqv]; rewrite ?constraint_eqv_int; reflexivity.
Qed.
Lemma constraints_eqv_src t : constraints_eqv (src_constraints t) (src_constraints t) = true.
Proof.
  destruct t; try reflexivity; simpl.
  - apply constraints_eqv_bounds.
  - apply constraints_eqv_bounds.
  - apply constraints_eqv_lengths.
Qed.
