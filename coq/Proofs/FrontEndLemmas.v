(* C01 front-end: shared lemmas (lookup through the sorted object / field lists) and the field-facts theorem. *)
From Coq Require Import List String ZArith Bool Ascii Arith Lia.
From Cog Require Import Model.IR Model.Json Model.GoSemBase Model.GoSemValidate Model.Src Model.FrontEnd Model.FrontEndSpec.
Import ListNotations.
Local Open Scope list_scope.
Local Open Scope string_scope.

Lemma fe_seqb_eq a b : seqb a b = true -> a = b.
Proof. apply String.eqb_eq. Qed.
Lemma fe_seqb_refl a : seqb a a = true.
Proof. apply String.eqb_refl. Qed.

Lemma str_leb_false_neq a b : str_leb a b = false -> seqb a b = false.
Proof.
  unfold str_leb, seqb. intro H. destruct (String.eqb a b) eqn:E; auto.
  apply String.eqb_eq in E. subst b.
  pose proof (String.compare_antisym a a) as C.
  destruct (String.compare a a); simpl in C; discriminate.
Qed.

(* ---------- insertion sorts keep lookups ---------- *)
Lemma objs_get_insert o l k :
  objs_get (insert_obj o l) k = if seqb (fst o) k then Some (snd o) else objs_get l k.
Proof.
  induction l as [|g r IH]; simpl.
  - destruct o as [ko oo]. simpl. reflexivity.
  - destruct (str_leb (fst o) (fst g)) eqn:L.
    + destruct o as [ko oo]. simpl. reflexivity.
    + apply str_leb_false_neq in L. destruct g as [kg og]. simpl in *. rewrite IH.
      destruct (seqb kg k) eqn:G; auto.
      apply fe_seqb_eq in G. subst kg. rewrite L. reflexivity.
Qed.

Lemma objs_get_sort l k : objs_get (sort_objs l) k = objs_get l k.
Proof.
  induction l as [|[ko oo] r IH]; simpl; auto.
  rewrite objs_get_insert. simpl. rewrite IH. reflexivity.
Qed.

Lemma find_insert_field f l n :
  find (fun g => seqb (f_name g) n) (insert_field f l) =
  if seqb (f_name f) n then Some f else find (fun g => seqb (f_name g) n) l.
Proof.
  induction l as [|g r IH]; simpl.
  - reflexivity.
  - destruct (str_leb (f_name f) (f_name g)) eqn:L.
    + simpl. reflexivity.
    + apply str_leb_false_neq in L. simpl. rewrite IH.
      destruct (seqb (f_name g) n) eqn:G; auto.
      apply fe_seqb_eq in G. subst n. rewrite L. reflexivity.
Qed.

Lemma find_sort_fields l n :
  find (fun g => seqb (f_name g) n) (sort_fields l) = find (fun g => seqb (f_name g) n) l.
Proof.
  induction l as [|f r IH]; simpl; auto.
  rewrite find_insert_field. rewrite IH. reflexivity.
Qed.

Lemma forallb_insert_field p f l : forallb p (insert_field f l) = (p f && forallb p l)%bool.
Proof.
  induction l as [|g r IH]; simpl; auto.
  destruct (str_leb (f_name f) (f_name g)); simpl; auto.
  rewrite IH. destruct (p f), (p g); reflexivity.
Qed.
Lemma forallb_sort_fields p l : forallb p (sort_fields l) = forallb p l.
Proof.
  induction l as [|f r IH]; simpl; auto. rewrite forallb_insert_field, IH. reflexivity.
Qed.

Lemma length_insert_obj o l : List.length (insert_obj o l) = S (List.length l).
Proof. induction l as [|g r IH]; simpl; auto. destruct (str_leb (fst o) (fst g)); simpl; auto. Qed.
Lemma length_sort_objs l : List.length (sort_objs l) = List.length l.
Proof. induction l as [|g r IH]; simpl; auto. rewrite length_insert_obj, IH. reflexivity. Qed.

(* ---------- the parsed context ---------- *)
Definition mkobj (pkg : string) (d : string * src_ty) : string * object :=
  (fst d, mkObject (fst d) [] (js_ty pkg (snd d)) pkg (fst d)).
Definition obj_of (pkg n : string) (t : src_ty) : object := mkObject n [] (js_ty pkg t) pkg n.

Lemma parse_ctx_eq s : js_schema_supported s = true ->
  parse_ctx s = [mkSchema (src_pkg s) meta0 (src_root s) (TRef attrs0 (src_pkg s) (src_root s))
                   (sort_objs (map (mkobj (src_pkg s)) (filter (fun d => str_in (fst d) (reachable s)) (src_defs s))))].
Proof. intro H. unfold parse_ctx, parse_jsonschema. rewrite H. reflexivity. Qed.

Lemma objs_get_filter pkg live defs k :
  objs_get (map (mkobj pkg) (filter (fun d => str_in (fst d) live) defs)) k =
  if str_in k live then option_map (obj_of pkg k) (src_lookup defs k) else None.
Proof.
  induction defs as [|[k' t] r IH]; simpl.
  - destruct (str_in k live); reflexivity.
  - destruct (str_in k' live) eqn:L; simpl.
    + destruct (seqb k' k) eqn:E.
      * apply fe_seqb_eq in E. subst k'. rewrite L. reflexivity.
      * exact IH.
    + destruct (seqb k' k) eqn:E.
      * apply fe_seqb_eq in E. subst k'. rewrite L. rewrite L in IH. exact IH.
      * exact IH.
Qed.

Lemma locate_parse s n : js_schema_supported s = true ->
  locate_object (parse_ctx s) (src_pkg s) n =
  if str_in n (reachable s) then option_map (obj_of (src_pkg s) n) (src_lookup (src_defs s) n) else None.
Proof.
  intro H. rewrite (parse_ctx_eq s H). unfold locate_object, locate. simpl.
  rewrite fe_seqb_refl. simpl. rewrite objs_get_sort. apply objs_get_filter.
Qed.

Lemma str_in_In k l : str_in k l = true <-> In k l.
Proof.
  induction l as [|x r IH]; simpl.
  - split; [discriminate | tauto].
  - rewrite orb_true_iff, IH. split; intros [A|A]; auto; left.
    + apply String.eqb_eq in A. auto.
    + subst. apply String.eqb_refl.
Qed.

Lemma src_lookup_in defs k t : str_nodup (map fst defs) = true -> In (k, t) defs -> src_lookup defs k = Some t.
Proof.
  induction defs as [|[k' t'] r IH]; simpl; intros N I; [tauto|].
  apply andb_true_iff in N. destruct N as [N1 N2].
  destruct I as [I|I].
  - inversion I. subst. rewrite fe_seqb_refl. reflexivity.
  - destruct (seqb k' k) eqn:E.
    + apply fe_seqb_eq in E. subst k'.
      assert (X : str_in k (map fst r) = true) by (apply str_in_In; apply (in_map fst) in I; exact I).
      rewrite X in N1. discriminate.
    + auto.
Qed.

Lemma src_lookup_some_in defs k t : src_lookup defs k = Some t -> In (k, t) defs.
Proof.
  induction defs as [|[k' t'] r IH]; simpl; intro H; [discriminate|].
  destruct (seqb k' k) eqn:E.
  - apply fe_seqb_eq in E. inversion H. subst. auto.
  - auto.
Qed.

Lemma find_sfield_in (fs : list sfield) f :
  str_nodup (map sf_name fs) = true -> In f fs -> find (fun g => seqb (sf_name g) (sf_name f)) fs = Some f.
Proof.
  induction fs as [|g r IH]; simpl; intros N I; [tauto|].
  apply andb_true_iff in N. destruct N as [N1 N2].
  destruct I as [I|I].
  - subst. rewrite fe_seqb_refl. reflexivity.
  - destruct (seqb (sf_name g) (sf_name f)) eqn:E.
    + apply fe_seqb_eq in E.
      assert (X : str_in (sf_name g) (map sf_name r) = true).
      { apply str_in_In. rewrite E. apply in_map. exact I. }
      rewrite X in N1. discriminate.
    + auto.
Qed.

Lemma find_map_field (F : sfield -> field) (fs : list sfield) n :
  (forall f, f_name (F f) = sf_name f) ->
  find (fun g => seqb (f_name g) n) (map F fs) = option_map F (find (fun f => seqb (sf_name f) n) fs).
Proof.
  intro HF. induction fs as [|g r IH]; simpl; auto.
  rewrite HF. destruct (seqb (sf_name g) n); simpl; auto.
Qed.

(* the IR field made of a member *)
Definition js_field (pkg : string) (f : sfield) : field :=
  let base := js_ty pkg (sf_type f) in
  let ft :=
    if sf_null f then
      if sf_nullta f then
        match js_plain (sf_type f) with
        | Some p => mk_disj [p; t_null]
        | None => mk_disj [base; t_null]
        end
      else
        match sf_type f with
        | SUnion _ =>
            match base with
            | TDisj a d => TDisj a (mkDisj (d_branches d ++ [t_null]) (d_disc d) (d_mapping d))
            | _ => mk_disj [base; t_null]
            end
        | _ => mk_disj [base; t_null]
        end
    else base in
  mkField (sf_name f) [] ft (sf_req f).

Lemma js_ty_struct pkg f fs :
  js_ty pkg (SStruct (f :: fs)) = TStruct attrs0 [] (sort_fields (map (js_field pkg) (f :: fs))).
Proof. reflexivity. Qed.

Lemma js_ty_not_null pkg t : is_null (js_ty pkg t) = false.
Proof.
  destruct t; simpl; try reflexivity.
  - destruct v; reflexivity.
  - destruct fs; reflexivity.
Qed.

Lemma src_wf_parts s : src_wf s = true ->
  js_schema_supported s = true /\ str_nodup (map fst (src_defs s)) = true /\
  (forall k t, In (k, t) (src_defs s) ->
     js_supported t = true /\ ty_wf (src_defs s) t = true /\ str_in k (reachable s) = true /\
     forallb (fun n => str_in n (map fst (src_defs s))) (refs_of t) = true).
Proof.
  unfold src_wf. intro H. apply andb_true_iff in H. destruct H as [H H3].
  apply andb_true_iff in H. destruct H as [H1 H2]. split; auto.
  pose proof H1 as H1'. unfold js_schema_supported in H1.
  apply andb_true_iff in H1. destruct H1 as [H1 H5]. apply andb_true_iff in H1. destruct H1 as [H1 H4].
  unfold defs_closed in H1. apply andb_true_iff in H1. destruct H1 as [H0 H1]. split; auto.
  intros k t I. rewrite forallb_forall in H1, H2, H3, H5.
  repeat split.
  - apply (H5 _ I).
  - apply (H2 _ I).
  - apply (H3 _ I).
  - apply (H1 _ I).
Qed.

(* ---------- reflexivity of the by-value comparison on the constraints the front-end makes ---------- *)
Lemma num_eqb_refl m e : num_eqb m e m e = true.
Proof. unfold num_eqb. destruct (num_norm m e). rewrite !Z.eqb_refl. reflexivity. Qed.

Lemma dyn_eqv_dflo m e : dyn_eqv (dflo m e) (dflo m e) = true.
Proof.
  unfold dflo, dyn_eqv. rewrite fe_seqb_refl. simpl.
  destruct (parse_dec (dec_string m e)) as [[a b]|].
  - apply num_eqb_refl.
  - apply fe_seqb_refl.
Qed.

Lemma constraint_eqv_flo op m e : constraint_eqv (cstr op (dflo m e)) (cstr op (dflo m e)) = true.
Proof. unfold constraint_eqv, cstr. cbn [c_op c_args leqv]. rewrite fe_seqb_refl, dyn_eqv_dflo. reflexivity. Qed.
Lemma constraint_eqv_int op g n : constraint_eqv (cstr op (DInt g n)) (cstr op (DInt g n)) = true.
Proof.
  unfold constraint_eqv, cstr. cbn [c_op c_args leqv dyn_eqv dyn_eqb]. rewrite !fe_seqb_refl, Z.eqb_refl. reflexivity.
Qed.

Lemma constraints_eqv_bounds a b c d : constraints_eqv (js_bounds a b c d) (js_bounds a b c d) = true.
Proof.
  unfold constraints_eqv, js_bounds, opt_list.
  destruct a, b, c, d; cbn [app leqv]; rewrite ?constraint_eqv_flo; reflexivity.
Qed.
Lemma constraints_eqv_lengths a b : constraints_eqv (js_lengths a b) (js_lengths a b) = true.
Proof.
  unfold constraints_eqv, js_lengths, opt_list.
  destruct a, b; cbn [app leqv]; rewrite ?constraint_eqv_int; reflexivity.
Qed.
Lemma constraints_eqv_src t : constraints_eqv (src_constraints t) (src_constraints t) = true.
Proof.
  destruct t; try reflexivity; simpl.
  - apply constraints_eqv_bounds.
  - apply constraints_eqv_bounds.
  - apply constraints_eqv_lengths.
Qed.

(* decimal printing / parsing round trip, number normal forms: `Import FEDec.` *)
Module FEDec.
Local Open Scope list_scope.
(* ====================================================================================================
   Decimal printing (Model/FrontEnd.v: nat_string, z_string, dec_string) then parsing (GoSemValidate.parse_dec)
   ==================================================================================================== *)
Local Open Scope Z_scope.

Fixpoint digs (fuel : nat) (z : Z) : list ascii :=
  match fuel with
  | O => []
  | S f => if Z.ltb z 10 then [digit_of (Z.modulo z 10)] else digs f (Z.div z 10) ++ [digit_of (Z.modulo z 10)]
  end.

Lemma str_list_app a b : str_list (a ++ b)%string = str_list a ++ str_list b.
Proof. induction a; simpl; auto. rewrite IHa. reflexivity. Qed.
Lemma str_list_length a : List.length (str_list a) = String.length a.
Proof. induction a; simpl; auto. Qed.

Lemma z_digits_digs : forall f z acc, str_list (z_digits f z acc) = digs f z ++ str_list acc.
Proof.
  induction f as [|f IH]; intros z acc; simpl; auto.
  destruct (Z.ltb z 10); simpl; auto.
  rewrite IH. simpl. rewrite <- app_assoc. reflexivity.
Qed.

Definition is_digit (c : ascii) : bool := match digit_val c with Some _ => true | None => false end.

Lemma digit_of_val d : 0 <= d < 10 -> digit_val (digit_of d) = Some (Z.to_nat d).
Proof.
  intro H. assert (E : d = 0 \/ d = 1 \/ d = 2 \/ d = 3 \/ d = 4 \/ d = 5 \/ d = 6 \/ d = 7 \/ d = 8 \/ d = 9) by lia.
  repeat (destruct E as [E|E]; [subst; reflexivity|]). subst. reflexivity.
Qed.

Local Opaque digit_of.
Lemma is_digit_neq c x : is_digit c = true -> is_digit x = false -> Ascii.eqb c x = false.
Proof. intros H1 H2. destruct (Ascii.eqb_spec c x); auto. subst. congruence. Qed.

Lemma digits_val_app l1 l2 a :
  digits_val (l1 ++ l2) a = match digits_val l1 a with Some v => digits_val l2 v | None => None end.
Proof.
  revert a. induction l1 as [|c r IH]; intro a; simpl; auto.
  destruct (digit_val c); auto.
Qed.

Lemma mod10_range z : 0 <= z mod 10 < 10.
Proof. apply Z.mod_pos_bound. lia. Qed.

Lemma digs_all_digits : forall f z, Forall (fun c => is_digit c = true) (digs f z).
Proof.
  induction f as [|f IH]; intro z; simpl; [constructor|].
  assert (D : is_digit (digit_of (z mod 10)) = true).
  { unfold is_digit. rewrite digit_of_val by apply mod10_range. reflexivity. }
  destruct (Z.ltb z 10).
  - constructor; auto.
  - apply Forall_app. split; auto.
Qed.

Lemma digs_nonempty f z : digs (S f) z <> [].
Proof. simpl. destruct (Z.ltb z 10); [discriminate|]. destruct (digs f (z / 10)); discriminate. Qed.

Lemma digs_length_le : forall f z (k : nat), (0 < k)%nat -> z < 10 ^ Z.of_nat k -> (List.length (digs f z) <= k)%nat.
Proof.
  induction f as [|f IH]; intros z k K H; simpl; [lia|].
  destruct (Z.ltb_spec z 10); simpl; [lia|].
  rewrite app_length. simpl.
  destruct k as [|k]; [lia|]. destruct k as [|k].
  - change (10 ^ Z.of_nat 1) with 10 in H. lia.
  - assert (L : (List.length (digs f (z / 10)) <= S k)%nat).
    { apply IH; [lia|]. apply Z.div_lt_upper_bound; [lia|].
      replace (Z.of_nat (S (S k))) with (Z.succ (Z.of_nat (S k))) in H by lia.
      rewrite Z.pow_succ_r in H by lia. exact H. }
    lia.
Qed.

Lemma digs_val : forall f z a, 0 <= z < 2 ^ Z.of_nat f ->
  digits_val (digs f z) a = Some (a * 10 ^ Z.of_nat (List.length (digs f z)) + z).
Proof.
  induction f as [|f IH]; intros z a H.
  - change (2 ^ Z.of_nat 0) with 1 in H. simpl. f_equal. lia.
  - simpl. destruct (Z.ltb_spec z 10).
    + simpl. rewrite digit_of_val by apply mod10_range. rewrite Z2Nat.id by apply mod10_range.
      rewrite Z.mod_small by lia. change (Z.pow_pos 10 1) with 10. reflexivity.
    + rewrite digits_val_app.
      assert (H2 : 0 <= z / 10 < 2 ^ Z.of_nat f).
      { split; [apply Z.div_pos; lia|]. apply Z.div_lt_upper_bound; [lia|].
        replace (Z.of_nat (S f)) with (Z.succ (Z.of_nat f)) in H by lia. rewrite Z.pow_succ_r in H by lia.
        assert (0 < 2 ^ Z.of_nat f) by (apply Z.pow_pos_nonneg; lia). lia. }
      rewrite (IH _ _ H2). simpl. rewrite digit_of_val by apply mod10_range. rewrite Z2Nat.id by apply mod10_range.
      f_equal. rewrite app_length. simpl.
      replace (Z.of_nat (List.length (digs f (z / 10)) + 1)) with (Z.succ (Z.of_nat (List.length (digs f (z / 10))))) by lia.
      rewrite Z.pow_succ_r by lia. pose proof (Z.div_mod z 10). lia.
Qed.

Definition ndigs (z : Z) : list ascii := digs (S (Z.to_nat (Z.log2_up (z + 1)))) z.
Lemma nat_string_digs z : str_list (nat_string z) = ndigs z.
Proof. unfold nat_string, ndigs. rewrite z_digits_digs. simpl. apply app_nil_r. Qed.

Lemma ndigs_fuel z : 0 <= z -> 0 <= z < 2 ^ Z.of_nat (S (Z.to_nat (Z.log2_up (z + 1)))).
Proof.
  intro H. split; auto.
  rewrite Nat2Z.inj_succ. rewrite Z2Nat.id by apply Z.log2_up_nonneg.
  rewrite Z.pow_succ_r by apply Z.log2_up_nonneg.
  destruct (Z.eq_dec z 0) as [E|E].
  - subst. simpl. lia.
  - assert (X : 1 < z + 1) by lia. pose proof (Z.log2_up_spec (z + 1) X) as [_ Y].
    assert (0 < 2 ^ Z.log2_up (z + 1)) by (apply Z.pow_pos_nonneg; [lia|apply Z.log2_up_nonneg]). lia.
Qed.

Lemma ndigs_val z a : 0 <= z -> digits_val (ndigs z) a = Some (a * 10 ^ Z.of_nat (List.length (ndigs z)) + z).
Proof. intro H. apply digs_val. apply ndigs_fuel. exact H. Qed.
Lemma ndigs_digits z : Forall (fun c => is_digit c = true) (ndigs z).
Proof. apply digs_all_digits. Qed.
Lemma ndigs_nonempty z : ndigs z <> [].
Proof. apply digs_nonempty. Qed.
Lemma ndigs_length_le z (k : nat) : (0 < k)%nat -> z < 10 ^ Z.of_nat k -> (List.length (ndigs z) <= k)%nat.
Proof. apply digs_length_le. Qed.

(* ---------- the pieces of parse_dec on digit lists ---------- *)
Lemma split_at_none x l : Forall (fun c => Ascii.eqb c x = false) l -> split_at x l = (l, None).
Proof.
  induction 1 as [|c r Hc Hr IH]; simpl; auto. rewrite Hc, IH. reflexivity.
Qed.
Lemma split_at_app x l1 l2 : Forall (fun c => Ascii.eqb c x = false) l1 -> split_at x (l1 ++ x :: l2) = (l1, Some l2).
Proof.
  induction 1 as [|c r Hc Hr IH]; simpl.
  - rewrite Ascii.eqb_refl. reflexivity.
  - rewrite Hc, IH. reflexivity.
Qed.
Lemma digits_not x l : is_digit x = false -> Forall (fun c => is_digit c = true) l -> Forall (fun c => Ascii.eqb c x = false) l.
Proof. intros Hx H. eapply Forall_impl; [|exact H]. intros c Hc. apply is_digit_neq; auto. Qed.

Lemma signed_digits l : l <> [] -> Forall (fun c => is_digit c = true) l -> signed l = (false, l).
Proof.
  intros NE H. destruct l as [|c r]; [congruence|]. inversion H; subst.
  unfold signed. rewrite (is_digit_neq c "-"%char), (is_digit_neq c "+"%char); auto.
Qed.

Lemma digits_val_zeros n a : digits_val (repeat "0"%char n) a = Some (a * 10 ^ Z.of_nat n).
Proof.
  revert a. induction n as [|n IH]; intro a.
  - simpl. f_equal. lia.
  - cbn [repeat digits_val]. change (digit_val "0"%char) with (Some 0%nat). cbv iota beta. rewrite IH. f_equal.
    rewrite Nat2Z.inj_succ, Z.pow_succ_r by lia. change (Z.of_nat 0) with 0. ring.
Qed.
Lemma str_list_zeros n : str_list (zeros n) = repeat "0"%char n.
Proof. induction n; simpl; auto. rewrite IHn. reflexivity. Qed.

(* integers: parse (print z) = (z, 0) *)
Lemma parse_z_string z : parse_dec (z_string z) = Some (z, 0).
Proof.
  unfold parse_dec, z_string. destruct (Z.ltb_spec z 0).
  - rewrite str_list_app, nat_string_digs. simpl str_list.
    change (signed (("-"%char :: []) ++ ndigs (- z))) with (true, ndigs (- z)).
    pose proof (ndigs_digits (- z)) as D. pose proof (ndigs_nonempty (- z)) as NE.
    cbv beta iota. rewrite (split_at_none "e"%char) by (apply digits_not; auto).
    cbv beta iota. rewrite (split_at_none "."%char) by (apply digits_not; auto).
    cbv beta iota. rewrite app_nil_r. rewrite ndigs_val by lia.
    destruct (ndigs (- z)) eqn:E; [congruence|]. simpl. f_equal. f_equal. lia.
  - rewrite nat_string_digs.
    pose proof (ndigs_digits z) as D. pose proof (ndigs_nonempty z) as NE.
    rewrite signed_digits by auto.
    cbv beta iota. rewrite (split_at_none "e"%char) by (apply digits_not; auto).
    cbv beta iota. rewrite (split_at_none "."%char) by (apply digits_not; auto).
    cbv beta iota. rewrite app_nil_r. rewrite ndigs_val by lia.
    destruct (ndigs z) eqn:E; [congruence|]. simpl. reflexivity.
Qed.

Definition parse_core (neg : bool) (body : list ascii) : option (Z * Z) :=
  let '(mant, ex) := split_at "e"%char body in
  let '(ip, fp) := split_at "."%char mant in
  let fp := match fp with Some f => f | None => [] end in
  match digits_val (ip ++ fp)%list 0, (ip ++ fp)%list with
  | Some m, _ :: _ =>
      let e0 := (- Z.of_nat (List.length fp))%Z in
      match ex with
      | None => Some (if neg then (- m)%Z else m, e0)
      | Some x =>
          let '(eneg, eb) := signed x in
          match digits_val eb 0, eb with
          | Some ev, _ :: _ => Some (if neg then (- m)%Z else m, (e0 + (if eneg then - ev else ev))%Z)
          | _, _ => None
          end
      end
  | _, _ => None
  end.
Lemma parse_dec_core s : parse_dec s = parse_core (fst (signed (str_list s))) (snd (signed (str_list s))).
Proof. unfold parse_dec, parse_core. destruct (signed (str_list s)). reflexivity. Qed.

(* fractions: parse (print (m, e)) = (m, e) exactly when e < 0 *)
Lemma parse_dec_string_neg m e : e < 0 -> parse_dec (dec_string m e) = Some (m, e).
Proof.
  intro E. unfold dec_string. destruct (Z.leb_spec 0 e); [lia|].
  set (k := Z.to_nat (- e)). set (a := Z.abs m).
  assert (Kp : (0 < k)%nat) by (unfold k; lia).
  assert (KE : Z.of_nat k = - e) by (unfold k; lia).
  assert (P10 : 0 < 10 ^ (- e)) by (apply Z.pow_pos_nonneg; lia).
  set (ipz := a / 10 ^ (- e)). set (fz := a mod 10 ^ (- e)).
  assert (Hip : 0 <= ipz) by (apply Z.div_pos; unfold a; lia).
  assert (Hfz : 0 <= fz < 10 ^ (- e)) by (apply Z.mod_pos_bound; lia).
  assert (Ha : a = ipz * 10 ^ (- e) + fz) by (unfold ipz, fz; pose proof (Z.div_mod a (10 ^ (- e))); lia).
  pose proof (ndigs_digits ipz) as D1. pose proof (ndigs_nonempty ipz) as NE1.
  pose proof (ndigs_digits fz) as DF.
  assert (LF : (List.length (ndigs fz) <= k)%nat) by (apply ndigs_length_le; [exact Kp|rewrite KE; lia]).
  set (D2 := repeat "0"%char (k - List.length (ndigs fz)) ++ ndigs fz).
  assert (DD2 : Forall (fun c => is_digit c = true) D2).
  { unfold D2. apply Forall_app. split; auto. apply Forall_forall. intros c I. apply repeat_spec in I. subst. reflexivity. }
  assert (L2 : List.length D2 = k).
  { unfold D2. rewrite app_length, repeat_length. lia. }
  assert (BODY : str_list (nat_string ipz ++ "." ++ zeros (k - String.length (nat_string fz)) ++ nat_string fz)%string
                 = ndigs ipz ++ "."%char :: D2).
  { rewrite !str_list_app. rewrite !nat_string_digs, str_list_zeros. rewrite <- str_list_length, nat_string_digs. reflexivity. }
  assert (V : digits_val (ndigs ipz ++ D2) 0 = Some a).
  { rewrite digits_val_app, ndigs_val by exact Hip. unfold D2. rewrite digits_val_app, digits_val_zeros.
    rewrite ndigs_val by lia. f_equal. rewrite Ha.
    replace (- e) with (Z.of_nat (k - List.length (ndigs fz)) + Z.of_nat (List.length (ndigs fz))) by lia.
    rewrite Z.pow_add_r by lia. ring. }
  assert (CORE : forall neg : bool, parse_core neg (ndigs ipz ++ "."%char :: D2) = Some (if neg then - a else a, e)).
  { intro neg. unfold parse_core.
    rewrite (split_at_none "e"%char).
    2:{ apply Forall_app. split; [apply digits_not; auto|]. constructor; [reflexivity|apply digits_not; auto]. }
    cbv beta iota. rewrite (split_at_app "."%char) by (apply digits_not; auto).
    cbv beta iota zeta. rewrite V.
    destruct (ndigs ipz ++ D2) eqn:EQ.
    - destruct (ndigs ipz); [congruence|discriminate].
    - rewrite L2. f_equal. f_equal. lia. }
  rewrite parse_dec_core. destruct (Z.ltb_spec m 0).
  - fold k a ipz fz. rewrite str_list_app. rewrite BODY. simpl str_list.
    change (signed (("-"%char :: []) ++ ndigs ipz ++ "."%char :: D2)) with (true, ndigs ipz ++ "."%char :: D2).
    cbn [fst snd]. rewrite (CORE true). f_equal. f_equal. unfold a. lia.
  - fold k a ipz fz. rewrite str_list_app. rewrite BODY. change (str_list "") with (@nil ascii). cbn [app].
    assert (SG : signed (ndigs ipz ++ "."%char :: D2) = (false, ndigs ipz ++ "."%char :: D2)).
    { destruct (ndigs ipz) as [|c r] eqn:EQ; [congruence|]. inversion D1; subst.
      cbn [app]. unfold signed. rewrite (is_digit_neq c "-"%char), (is_digit_neq c "+"%char); auto. }
    rewrite SG. cbn [fst snd]. rewrite (CORE false). f_equal. f_equal. unfold a. lia.
Qed.

(* ---------- comparison is by value ---------- *)
Lemma dec_compare_shift m1 e1 m2 e2 c : c <= e1 -> c <= e2 ->
  dec_compare (m1, e1) (m2, e2) = (m1 * 10 ^ (e1 - c) ?= m2 * 10 ^ (e2 - c)).
Proof.
  intros H1 H2. unfold dec_compare. set (mn := Z.min e1 e2).
  assert (M1 : mn <= e1) by (unfold mn; lia). assert (M2 : mn <= e2) by (unfold mn; lia).
  assert (MC : c <= mn) by (unfold mn; lia).
  replace (e1 - c) with ((e1 - mn) + (mn - c)) by lia. replace (e2 - c) with ((e2 - mn) + (mn - c)) by lia.
  rewrite !Z.pow_add_r by lia. rewrite !Z.mul_assoc.
  assert (P : 0 < 10 ^ (mn - c)) by (apply Z.pow_pos_nonneg; lia).
  apply Zmult_compare_compat_r. lia.
Qed.

Lemma dec_compare_int_form x m e : 0 <= e -> dec_compare x (m * 10 ^ e, 0) = dec_compare x (m, e).
Proof.
  intro H. destruct x as [a f]. set (c := Z.min f 0).
  rewrite (dec_compare_shift a f (m * 10 ^ e) 0 c) by (unfold c; lia).
  rewrite (dec_compare_shift a f m e c) by (unfold c; lia).
  replace (e - c) with (e + (0 - c)) by lia. rewrite Z.pow_add_r by (unfold c; lia). rewrite Z.mul_assoc. reflexivity.
Qed.

(* the round trip, by value: what cstr_holds_json reads off a printed float64 bound *)
Lemma dec_roundtrip m e : exists p, parse_dec (dec_string m e) = Some p /\ forall x, dec_compare x p = dec_compare x (m, e).
Proof.
  destruct (Z.leb_spec 0 e).
  - exists (m * 10 ^ e, 0). split.
    + unfold dec_string. destruct (Z.leb_spec 0 e); [|lia]. apply parse_z_string.
    + intro x. apply dec_compare_int_form. exact H.
  - exists (m, e). split; [apply parse_dec_string_neg; exact H|reflexivity].
Qed.
Lemma dec_roundtrip_nonpos m e : e <= 0 -> parse_dec (dec_string m e) = Some (m, e).
Proof.
  intro H. destruct (Z.eq_dec e 0) as [E|E].
  - subst. unfold dec_string. simpl Z.leb. cbv iota. change (10 ^ 0) with 1. rewrite Z.mul_1_r. apply parse_z_string.
  - apply parse_dec_string_neg. lia.
Qed.

(* ---------- normal forms of numbers (Model/Json.v num_norm) ---------- *)
Lemma strip_zeros_spec : forall f m e, m <> 0 -> Z.abs m < 2 ^ Z.of_nat f ->
  let '(a, b) := strip_zeros f m e in e <= b /\ a * 10 ^ (b - e) = m /\ a mod 10 <> 0.
Proof.
  induction f as [|f IH]; intros m e NZ H.
  - change (2 ^ Z.of_nat 0) with 1 in H. lia.
  - cbn [strip_zeros]. destruct (Z.eqb_spec (m mod 10) 0) as [E|E].
    + destruct (Z.eqb_spec m 0) as [E0|E0]; [congruence|]. cbn [negb andb].
      pose proof (Z.div_mod m 10) as DM. rewrite E in DM.
      assert (Q : m = 10 * (m / 10)) by lia.
      assert (NZ' : m / 10 <> 0) by lia.
      assert (H' : Z.abs (m / 10) < 2 ^ Z.of_nat f).
      { rewrite Nat2Z.inj_succ, Z.pow_succ_r in H by lia. lia. }
      specialize (IH (m / 10) (e + 1) NZ' H'). destruct (strip_zeros f (m / 10) (e + 1)) as [a b].
      destruct IH as [I1 [I2 I3]]. split; [lia|]. split; auto.
      replace (b - e) with (Z.succ (b - (e + 1))) by lia. rewrite Z.pow_succ_r by lia.
      rewrite Q. rewrite <- I2. ring.
    + cbn [andb]. split; [lia|]. split; auto. rewrite Z.sub_diag. change (10 ^ 0) with 1. lia.
Qed.

Lemma num_norm_spec m e : m <> 0 ->
  let '(a, b) := num_norm m e in e <= b /\ a * 10 ^ (b - e) = m /\ a mod 10 <> 0.
Proof.
  intro NZ. unfold num_norm. destruct (Z.eqb_spec m 0); [congruence|].
  apply strip_zeros_spec; auto.
  rewrite Nat2Z.inj_succ. rewrite Z2Nat.id by apply Z.log2_up_nonneg. rewrite Z.pow_succ_r by apply Z.log2_up_nonneg.
  assert (P : 0 < 2 ^ Z.log2_up (Z.abs m)) by (apply Z.pow_pos_nonneg; [lia|apply Z.log2_up_nonneg]).
  destruct (Z.eq_dec (Z.abs m) 1) as [E1|E1].
  - rewrite E1. simpl. lia.
  - assert (X : 1 < Z.abs m) by lia. pose proof (Z.log2_up_spec _ X) as [_ Y]. lia.
Qed.

Lemma pow10_unique : forall (i j : nat) a a', a mod 10 <> 0 -> a' mod 10 <> 0 ->
  a * 10 ^ Z.of_nat i = a' * 10 ^ Z.of_nat j -> i = j /\ a = a'.
Proof.
  induction i as [|i IH]; intros [|j] a a' Ha Ha' E.
  - change (10 ^ Z.of_nat 0) with 1 in E. split; auto. lia.
  - exfalso. rewrite Nat2Z.inj_succ, Z.pow_succ_r in E by lia. change (10 ^ Z.of_nat 0) with 1 in E.
    apply Ha. replace a with ((a' * 10 ^ Z.of_nat j) * 10) by lia. apply Z.mod_mul. lia.
  - exfalso. rewrite Nat2Z.inj_succ, Z.pow_succ_r in E by lia. change (10 ^ Z.of_nat 0) with 1 in E.
    apply Ha'. replace a' with ((a * 10 ^ Z.of_nat i) * 10) by lia. apply Z.mod_mul. lia.
  - rewrite !Nat2Z.inj_succ, !Z.pow_succ_r in E by lia.
    destruct (IH j a a' Ha Ha') as [E1 E2]; [lia|]. split; auto.
Qed.

Lemma num_norm_value m e : 0 <= e -> num_norm (m * 10 ^ e) 0 = num_norm m e.
Proof.
  intro H. destruct (Z.eq_dec m 0) as [E|NZ].
  - subst. reflexivity.
  - assert (P : 0 < 10 ^ e) by (apply Z.pow_pos_nonneg; lia).
    assert (NZ' : m * 10 ^ e <> 0) by (apply Z.neq_mul_0; split; lia).
    pose proof (num_norm_spec (m * 10 ^ e) 0 NZ') as S1. pose proof (num_norm_spec m e NZ) as S2.
    destruct (num_norm (m * 10 ^ e) 0) as [a b]. destruct (num_norm m e) as [a' b'].
    destruct S1 as [B1 [V1 M1]]. destruct S2 as [B2 [V2 M2]].
    rewrite Z.sub_0_r in V1.
    assert (V : a * 10 ^ Z.of_nat (Z.to_nat b) = a' * 10 ^ Z.of_nat (Z.to_nat b')).
    { rewrite !Z2Nat.id by lia. rewrite V1. rewrite <- V2 at 1.
      rewrite <- Z.mul_assoc, <- Z.pow_add_r by lia. f_equal. f_equal. lia. }
    destruct (pow10_unique _ _ _ _ M1 M2 V) as [E1 E2]. subst a'. f_equal. lia.
Qed.
End FEDec.
