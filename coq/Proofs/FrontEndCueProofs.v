(* C01 front-end: acceptance is preserved by the CUE front-end (partial form):
     src_valid "cue" (what CUE says about a document, Model/Src.v) = ir_accepts_c o parse_cue (Model/FrontEndSpecCue.v).
   The proof follows Proofs/FrontEndAccept.v (JSON Schema); what is new is the kind table of bounded integers
   (cue_int_agree, Proofs/FrontEndCueLeaves.v), CUE's disjoint int / float literals, and the object list in
   first-touch order (cue_order) instead of a sorted one. *)
From Coq Require Import List String ZArith Bool Ascii Arith Lia.
From Cog Require Import Model.IR Model.Json Model.GoSemBase Model.GoSemValidate Model.Src Model.FrontEnd Model.FrontEndSpec
  Model.FrontEndCue Model.FrontEndSpecCue Model.FrontEndSpecCue2.
From Cog Require Import Proofs.FrontEndLemmas Proofs.FrontEndAccept Proofs.FrontEndCueLeaves Proofs.FrontEndCueOrder.
Import ListNotations.
Local Open Scope list_scope.
Local Open Scope string_scope.

(* ---------- unfolding src_valid "cue" ---------- *)
Definition CUE := "cue".
Definition cue_sv_simple (defs : list (string * src_ty)) (j : json) (rt : src_ty) : bool :=
  match rt, j with
  | SBool, JBool _ => true
  | SInt w ge gt le lt, JNum m e =>
      (num_is_int_literal m e &&
       match width_range "cue" w with
       | Some (lo, hi) => (Z.leb lo (int_value m e) && Z.leb (int_value m e) hi)%bool
       | None => true end &&
       bounds_ok (zopt ge) (zopt gt) (zopt le) (zopt lt) (m, e))%bool
  | SFloat _ ge gt le lt, JNum m e => (Z.ltb e 0 && bounds_ok ge gt le lt (m, e))%bool
  | SString mn mx, JStr s =>
      (match mn with Some n => Z.leb n (rune_count s) | None => true end &&
       match mx with Some n => Z.leb (rune_count s) n | None => true end)%bool
  | SDateTime, JStr s => match parse_time s with TBadTime => false | _ => true end
  | SAny, _ => true
  | SConst v, _ => json_eq v j
  | SEnum vals, _ => in_list j vals
  | SArray et, JArr l => forallb (fun x => src_valid CUE defs x et) l
  | SMap vt, JObj ms => forallb (fun kv => src_valid CUE defs (snd kv) vt) ms
  | _, _ => false
  end.
Definition cue_sv_struct (defs : list (string * src_ty)) (fs : list sfield) (ms : list (string * json)) : bool :=
  (str_nodup (map fst ms) &&
   forallb (fun kv => match find (fun f => seqb (sf_name f) (fst kv)) fs with
                      | None => false
                      | Some f =>
                          match snd kv with
                          | JNull => (sf_null f ||
                                      match src_resolve defs (S (List.length defs)) (sf_type f) with Some SAny => true | _ => false end)%bool
                          | _ => src_valid CUE defs (snd kv) (sf_type f)
                          end
                      end) ms &&
   forallb (fun f => (negb (sf_req f) || str_in (sf_name f) (map fst ms))%bool) fs)%bool.
Definition cue_sv_body (defs : list (string * src_ty)) (j : json) (t : src_ty) : bool :=
  match src_resolve defs (S (List.length defs)) t with
  | None => false
  | Some rt =>
      match rt with
      | SStruct fs => match j with JObj ms => cue_sv_struct defs fs ms | _ => false end
      | SUnion bs =>
          existsb (fun b => match src_resolve defs (S (List.length defs)) b with Some rb => cue_sv_simple defs j rb | None => false end) bs
      | SDUnion disc names =>
          match j with
          | JObj ms =>
              existsb (fun n => match src_resolve defs (S (List.length defs)) (SRef n) with
                                | Some (SStruct fs) => cue_sv_struct defs fs ms
                                | _ => false end) names
          | _ => false
          end
      | _ => cue_sv_simple defs j rt
      end
  end.
Lemma cue_src_valid_unfold defs j t : src_valid CUE defs j t = cue_sv_body defs j t.
Proof. destruct j; reflexivity. Qed.

(* ---------- the parsed context ---------- *)
Definition cue_obj (pkg n : string) (t : src_ty) : object := mkObject n [] (cue_ty pkg t) pkg n.
Definition cue_objf (s : src_schema) (n : string) : list (string * object) :=
  match src_lookup (src_defs s) n with
  | Some t => [(n, cue_obj (src_pkg s) n t)]
  | None => [] end.

Lemma cue_parse_ctx_eq s : cue_schema_supported s = true ->
  parse_ctx_cue s = [mkSchema (src_pkg s) meta0 "" (TBad attrs0 "") (flat_map (cue_objf s) (cue_order s))].
Proof. intro H. unfold parse_ctx_cue, parse_cue. rewrite H. reflexivity. Qed.

Lemma cue_objs_get s order k :
  objs_get (flat_map (cue_objf s) order) k =
  if str_in k order then option_map (cue_obj (src_pkg s) k) (src_lookup (src_defs s) k) else None.
Proof.
  induction order as [|n r IH]; [reflexivity|].
  cbn [flat_map str_in]. unfold cue_objf at 1.
  destruct (src_lookup (src_defs s) n) as [t|] eqn:L; cbn [app objs_get]; unfold seqb.
  - destruct (String.eqb n k) eqn:E; cbn [orb]; [|exact IH].
    apply String.eqb_eq in E. subst n. rewrite L. reflexivity.
  - destruct (String.eqb n k) eqn:E; cbn [orb]; [|exact IH].
    apply String.eqb_eq in E. subst n. rewrite IH, L. destruct (str_in k r); reflexivity.
Qed.

Lemma cue_locate_parse s n : cue_schema_supported s = true ->
  locate_object (parse_ctx_cue s) (src_pkg s) n =
  if str_in n (cue_order s) then option_map (cue_obj (src_pkg s) n) (src_lookup (src_defs s) n) else None.
Proof.
  intro H. rewrite (cue_parse_ctx_eq s H). unfold locate_object, locate. simpl.
  rewrite cue_seqb_refl. simpl. apply cue_objs_get.
Qed.

Lemma cue_wf_parts s : src_wf_cue s = true ->
  cue_schema_supported s = true /\ str_nodup (map fst (src_defs s)) = true /\
  (forall k t, In (k, t) (src_defs s) ->
     cue_supported t = true /\ ty_wf (src_defs s) t = true /\ cue_bounds_in_width t = true /\
     forallb (fun n => str_in n (map fst (src_defs s))) (refs_of t) = true).
Proof.
  unfold src_wf_cue. intro H. apply andb_true_iff in H. destruct H as [H H3].
  apply andb_true_iff in H. destruct H as [H1 H2]. split; auto.
  unfold cue_schema_supported in H1. apply andb_true_iff in H1. destruct H1 as [H1 H5].
  unfold defs_closed in H1. apply andb_true_iff in H1. destruct H1 as [H0 H1]. split; auto.
  intros k t I. rewrite forallb_forall in H1, H2, H3, H5.
  repeat split.
  - apply (H5 _ I).
  - apply (H2 _ I).
  - apply (H3 _ I).
  - apply (H1 _ I).
Qed.

(* ---------- the types inside a well-formed schema ---------- *)
Definition cue_good (s : src_schema) (t : src_ty) : Prop :=
  cue_supported t = true /\ ty_wf (src_defs s) t = true /\ cue_bounds_in_width t = true /\
  forallb (fun n => str_in n (map fst (src_defs s))) (refs_of t) = true.
Definition cue_nonref (t : src_ty) : bool := match t with SRef _ => false | _ => true end.

(* the IR field made of a member *)
Definition cue_field (pkg : string) (f : sfield) : field :=
  let base := cue_ty pkg (sf_type f) in
  let ft := if sf_null f then
              match sf_type f, base with
              | SUnion _, TDisj a d => TDisj a (mkDisj (d_branches d ++ [t_null]) (d_disc d) (d_mapping d))
              | _, _ => mk_disj [base; t_null]
              end
            else base in
  mkField (sf_name f) [] ft (sf_req f).
Lemma cue_ty_struct pkg f fs : cue_ty pkg (SStruct (f :: fs)) = TStruct attrs0 [] (map (cue_field pkg) (f :: fs)).
Proof. reflexivity. Qed.

Section CueCtx.
  Variable s : src_schema.
  Hypothesis W : src_wf_cue s = true.
  Local Notation defs := (src_defs s).
  Local Notation pkg := (src_pkg s).
  Local Notation ctx := (parse_ctx_cue s).
  Local Notation fuel := (S (List.length (src_defs s))).

  Lemma cue_good_def k t : In (k, t) defs -> cue_good s t.
  Proof.
    intro I. destruct (cue_wf_parts s W) as [_ [_ ALL]]. destruct (ALL k t I) as [A [B [C D]]].
    repeat split; auto.
  Qed.

  Lemma cue_in_order k t : In (k, t) defs -> str_in k (cue_order s) = true.
  Proof.
    intro I. pose proof (cue_order_complete_holds s) as OC.
    unfold cue_order_complete in OC. rewrite forallb_forall in OC. apply (OC _ I).
  Qed.

  Lemma cue_locate_ok m t : src_lookup defs m = Some t -> locate_object ctx pkg m = Some (cue_obj pkg m t).
  Proof.
    intro L. destruct (cue_wf_parts s W) as [SUP _].
    rewrite (cue_locate_parse s m SUP). rewrite (cue_in_order m t (cue_src_lookup_some_in _ _ _ L)). rewrite L. reflexivity.
  Qed.

  Lemma cue_alt_fuel_ge : (2 * List.length defs + 8 <= alt_fuel ctx)%nat.
  Proof.
    destruct (cue_wf_parts s W) as [SUP [ND _]]. rewrite (cue_parse_ctx_eq s SUP).
    unfold alt_fuel, count_objects. cbn [fold_right s_objects].
    assert (L : (List.length (map fst defs) <= List.length (map fst (flat_map (cue_objf s) (cue_order s))))%nat).
    { apply NoDup_incl_length; [apply cue_str_nodup_NoDup; exact ND|].
      intros k I. destruct (cue_lookup_total defs k I) as [t L].
      apply in_map_iff. exists (k, cue_obj pkg k t). split; [reflexivity|].
      apply in_flat_map. exists k. split.
      - apply cue_str_in_In. apply (cue_in_order k t). apply cue_src_lookup_some_in. exact L.
      - unfold cue_objf. rewrite L. left. reflexivity. }
    rewrite !map_length in L. lia.
  Qed.

  Lemma cue_alt_fuel_split : exists N, alt_fuel ctx = S (S N) /\ (List.length defs + 4 <= N)%nat.
  Proof. pose proof cue_alt_fuel_ge as G. exists (alt_fuel ctx - 2)%nat. split; lia. Qed.

  Lemma cue_alts_disj F bs : alternatives ctx (S F) (mk_disj bs) = flat_map (alternatives ctx F) bs.
  Proof. reflexivity. Qed.
  Lemma cue_alts_ref F a p n : alternatives ctx (S F) (TRef a p n) =
    match locate_object ctx p n with Some o => alternatives ctx F (o_type o) | None => [] end.
  Proof. reflexivity. Qed.

  Lemma cue_resolve_good : forall f t rt, cue_good s t -> src_resolve defs f t = Some rt -> cue_good s rt /\ cue_nonref rt = true.
  Proof.
    induction f as [|f IH]; intros t rt G R.
    - destruct t; simpl in R; try discriminate; inversion R; subst; auto.
    - destruct t; simpl in R; try (inversion R; subst; auto; fail).
      destruct (src_lookup defs name) as [t'|] eqn:L; [|discriminate].
      apply (IH t' rt); auto. apply (cue_good_def name). apply cue_src_lookup_some_in. exact L.
  Qed.

  Lemma cue_resolve_alts : forall f t rt, src_resolve defs f t = Some rt ->
    exists k, (k <= f)%nat /\ forall F, alternatives ctx (k + F) (cue_ty pkg t) = alternatives ctx F (cue_ty pkg rt).
  Proof.
    induction f as [|f IH]; intros t rt R.
    - destruct t; simpl in R; try discriminate; inversion R; subst; exists 0%nat; split; auto.
    - destruct t; simpl in R; try (inversion R; subst; exists 0%nat; split; [lia|auto]; fail).
      destruct (src_lookup defs name) as [t'|] eqn:L; [|discriminate].
      destruct (IH t' rt R) as [k [K1 K2]]. exists (S k). split; [lia|].
      intro F. cbn [plus cue_ty]. rewrite cue_alts_ref. rewrite (cue_locate_ok name t' L). cbn [cue_obj o_type]. apply K2.
  Qed.

  (* alias cycles: src_resolve fails within its fuel iff it fails with every fuel (Proofs/FrontEndAccept.v
     resolve_stable), and then the IR side has no alternative at all *)
  Lemma cue_none_alts : forall F t, src_resolve defs F t = None -> alternatives ctx F (cue_ty pkg t) = [].
  Proof.
    induction F as [|F IH]; intros t R; [reflexivity|].
    destruct t; simpl in R; try discriminate.
    cbn [cue_ty]. rewrite cue_alts_ref.
    destruct (src_lookup defs name) as [t'|] eqn:L.
    - rewrite (cue_locate_ok name t' L). cbn [cue_obj o_type]. apply IH. exact R.
    - destruct (cue_wf_parts s W) as [SUP _]. rewrite (cue_locate_parse s name SUP), L.
      destruct (str_in name (cue_order s)); reflexivity.
  Qed.

  Lemma cue_alts_none t F : src_resolve defs fuel t = None -> alternatives ctx F (cue_ty pkg t) = [].
  Proof.
    intro R. apply cue_none_alts. destruct (src_resolve defs F t) as [rt|] eqn:RF; auto.
    apply resolve_stable in RF. congruence.
  Qed.

  (* the alternatives of a resolved (reference-free at the top) type *)
  Definition cue_alts_nr (rt : src_ty) : list ty :=
    match rt with
    | SUnion bs => map (cue_ty pkg) bs
    | SDUnion _ names =>
        flat_map (fun m => match src_lookup defs m with Some t' => [cue_ty pkg t'] | None => [] end) names
    | _ => [cue_ty pkg rt]
    end.

  Lemma cue_alts_simple_branch F b : is_simple_branch b = true -> alternatives ctx (S F) (cue_ty pkg b) = [cue_ty pkg b].
  Proof. destruct b; simpl; intro H; try discriminate; reflexivity. Qed.

  Lemma cue_alts_nonref F rt : cue_good s rt -> cue_nonref rt = true ->
    alternatives ctx (S (S (S F))) (cue_ty pkg rt) = cue_alts_nr rt.
  Proof.
    intros G NR. destruct rt; try discriminate; try reflexivity.
    - destruct v; reflexivity.
    - destruct vals as [|[] ?]; reflexivity.
    - destruct fs; reflexivity.
    - (* union *)
      destruct G as [_ [G _]]. cbn [ty_wf] in G. cbn [cue_ty cue_alts_nr]. rewrite cue_alts_disj.
      induction bs as [|b r IH]; [reflexivity|].
      cbn [forallb] in G. apply andb_true_iff in G. destruct G as [G1 G2].
      cbn [map flat_map]. rewrite (cue_alts_simple_branch (S F) b G1), IH; auto.
    - (* union of definitions *)
      destruct G as [_ [G _]]. cbn [ty_wf] in G. cbn [cue_ty cue_alts_nr]. rewrite cue_alts_disj.
      induction names as [|m r IH]; [reflexivity|].
      cbn [forallb] in G. apply andb_true_iff in G. destruct G as [G1 G2].
      cbn [map flat_map]. rewrite IH by auto. f_equal.
      destruct (src_lookup defs m) as [t'|] eqn:L; [|discriminate].
      rewrite cue_alts_ref. rewrite (cue_locate_ok m t' L). cbn [cue_obj o_type].
      destruct t'; try discriminate. destruct fs; reflexivity.
  Qed.

  Lemma cue_alts_enough t F rt : cue_good s t -> (List.length defs + 4 <= F)%nat -> src_resolve defs fuel t = Some rt ->
    cue_good s rt /\ cue_nonref rt = true /\ alternatives ctx F (cue_ty pkg t) = cue_alts_nr rt.
  Proof.
    intros G HF R.
    destruct (cue_resolve_good _ _ _ G R) as [G' NR].
    split; [exact G'|]. split; [exact NR|].
    destruct (cue_resolve_alts _ _ _ R) as [k [K1 K2]].
    replace F with (k + S (S (S (F - k - 3))))%nat by lia.
    rewrite K2. apply cue_alts_nonref; auto.
  Qed.

  (* ---------- the main induction ---------- *)
  Definition cue_Pk (j : json) : Prop :=
    forall t, cue_good s t -> src_valid CUE defs j t = ir_accepts_c ctx j (cue_ty pkg t).
  Definition cue_kids (j : json) : Prop :=
    match j with JArr l => Forall cue_Pk l | JObj ms => Forall (fun kv => cue_Pk (snd kv)) ms | _ => True end.
  Definition cue_simple_kind (rt : src_ty) : bool :=
    match rt with SRef _ | SStruct _ | SUnion _ | SDUnion _ _ => false | _ => true end.

  Lemma cue_scalar_float k cs m e t0 : is_float_kind k = true ->
    scalar_accepts t0 attrs0 k DNil cs (JNum m e) = forallb (fun c => cstr_holds_json c (JNum m e)) cs.
  Proof. destruct k; simpl; intro H; try discriminate; reflexivity. Qed.
  Lemma cue_scalar_string cs x t0 :
    scalar_accepts t0 attrs0 KString DNil cs (JStr x) = forallb (fun c => cstr_holds_json c (JStr x)) cs.
  Proof. reflexivity. Qed.
  Lemma cue_scalar_datetime x t0 :
    scalar_accepts t0 a_datetime KString DNil [] (JStr x) = match parse_time x with TBadTime => false | _ => true end.
  Proof. unfold scalar_accepts. cbn. apply andb_true_r. Qed.

  Lemma cue_int_nonnum w ge gt le lt j : match j with JNum _ _ => false | _ => true end = true ->
    cue_alt_check ctx j (cue_int w ge gt le lt) = false.
  Proof.
    intro H. rewrite cue_int_shape. destruct (cue_int_k_range w ge gt le lt) as [lo [hi KR]].
    destruct (cue_int_k w ge gt le lt); simpl in KR; try discriminate; destruct j; try discriminate; reflexivity.
  Qed.

  Lemma cue_simple_agree j rt : cue_kids j -> cue_good s rt -> cue_simple_kind rt = true ->
    cue_sv_simple defs j rt = cue_alt_check ctx j (cue_ty pkg rt).
  Proof.
    intros K G SK. destruct rt as [|w ge gt le lt|w ge gt le lt|mn mx| | |cv|vals|et|vt|rn|cfs|bs|disc names]; try discriminate.
    - destruct j; reflexivity.
    - (* integers *)
      destruct j as [|jb|m e|js|jl|jms]; try (cbn [cue_sv_simple cue_ty]; rewrite cue_int_nonnum; reflexivity).
      cbn [cue_sv_simple cue_ty].
      unfold num_is_int_literal. destruct (Z.eqb_spec e 0) as [E0|E0].
      + subst e. cbn [andb]. rewrite cue_int_value_lit, cue_bounds_ok_z.
        destruct G as [G1 [_ [G3 _]]]. cbn [cue_supported] in G1. cbn [cue_bounds_in_width] in G3.
        apply andb_true_iff in G3. destruct G3 as [G3 B4]. apply andb_true_iff in G3. destruct G3 as [G3 B3].
        apply andb_true_iff in G3. destruct G3 as [B1 B2].
        apply cue_int_agree; assumption.
      + cbn [andb]. rewrite cue_int_shape. cbn [cue_alt_check dyn_is_nil negb orb].
        destruct (cue_int_k_range w ge gt le lt) as [lo [hi KR]].
        assert (NF : cue_number_form (cue_int_k w ge gt le lt) (JNum m e) = false).
        { destruct (cue_int_k w ge gt le lt); simpl in KR; try discriminate; simpl; unfold num_is_int_literal;
            apply Z.eqb_neq; exact E0. }
        rewrite NF, andb_false_r. reflexivity.
    - (* floats *)
      destruct j as [|jb|m e|js|jl|jms]; try (cbn [cue_sv_simple cue_ty]; destruct (seqb w "float32"); reflexivity).
      cbn [cue_sv_simple cue_ty cue_alt_check dyn_is_nil negb orb].
      rewrite cue_scalar_float by (destruct (seqb w "float32"); reflexivity).
      rewrite cue_bounds_agree.
      assert (NF : cue_number_form (if seqb w "float32" then KFloat32 else KFloat64) (JNum m e) = Z.ltb e 0)
        by (destruct (seqb w "float32"); reflexivity).
      rewrite NF. apply andb_comm.
    - destruct j; try reflexivity.
      cbn [cue_sv_simple cue_ty cue_alt_check dyn_is_nil negb orb cue_number_form]. rewrite andb_true_r.
      rewrite cue_scalar_string. rewrite cue_lengths_agree. reflexivity.
    - destruct j; try reflexivity.
      cbn [cue_sv_simple cue_ty cue_alt_check dyn_is_nil negb orb cue_number_form]. rewrite andb_true_r.
      rewrite cue_scalar_datetime. reflexivity.
    - destruct j; reflexivity.
    - destruct G as [G1 _]. cbn [cue_sv_simple cue_ty]. apply cue_const_agree; assumption.
    - destruct G as [G1 _].
      assert (E : forall j0, cue_sv_simple defs j0 (SEnum vals) = in_list j0 vals) by (intro j0; destruct j0; reflexivity).
      rewrite E. apply cue_enum_agree; assumption.
    - destruct j; try reflexivity. cbn [cue_sv_simple cue_ty cue_alt_check].
      apply cue_forallb_ext_in. intros x I. cbn [cue_kids] in K. rewrite Forall_forall in K. apply (K x I). exact G.
    - destruct j; try reflexivity. cbn [cue_sv_simple cue_ty cue_alt_check].
      apply cue_forallb_ext_in. intros x I. cbn [cue_kids] in K. rewrite Forall_forall in K. apply (K x I). exact G.
  Qed.

  Lemma cue_simple_branch_kind b : is_simple_branch b = true -> cue_simple_kind b = true /\ cue_nonref b = true.
  Proof. destruct b; simpl; intro H; try discriminate; auto. Qed.
  Lemma cue_resolve_nonref f t : cue_nonref t = true -> src_resolve defs f t = Some t.
  Proof. destruct f, t; simpl; intro H; try discriminate; reflexivity. Qed.

  Lemma cue_json_eq_null v : cue_enum_val_ok v = true \/ json_scalar_const v = true -> json_eq v JNull = false.
  Proof.
    intros [H|H]; destruct v; simpl in H; try discriminate; unfold json_eq; simpl; try reflexivity;
      destruct (num_norm m e); reflexivity.
  Qed.

  Lemma cue_src_valid_null t : cue_good s t ->
    src_valid CUE defs JNull t = match src_resolve defs fuel t with Some SAny => true | _ => false end.
  Proof.
    intro G. rewrite cue_src_valid_unfold. unfold cue_sv_body.
    destruct (src_resolve defs fuel t) as [rt|] eqn:R; [|reflexivity].
    destruct (cue_resolve_good _ _ _ G R) as [G' NR].
    destruct rt; try reflexivity.
    - cbn [cue_sv_simple]. apply cue_json_eq_null. right. apply G'.
    - cbn [cue_sv_simple]. unfold in_list. apply cue_existsb_false. intros x I. apply cue_json_eq_null. left.
      destruct G' as [G1 _]. apply (cue_enum_ok_all vals G1 x I).
    - destruct G' as [_ [G2 _]]. cbn [ty_wf] in G2. rewrite forallb_forall in G2.
      apply cue_existsb_false. intros b I. destruct (cue_simple_branch_kind b (G2 b I)) as [_ NB].
      rewrite (cue_resolve_nonref _ b NB). specialize (G2 b I). destruct b; try discriminate; reflexivity.
  Qed.

  Lemma cue_alt_check_null v : cue_alt_check ctx v t_null = cue_is_jnull v.
  Proof. destruct v; reflexivity. Qed.

  Lemma cue_wrap_null t v : cue_good s t ->
    ir_accepts_c ctx v (mk_disj [cue_ty pkg t; t_null]) = (ir_accepts_c ctx v (cue_ty pkg t) || cue_is_jnull v)%bool.
  Proof.
    intro G. rewrite !cue_ir_accepts_unfold. destruct cue_alt_fuel_split as [N [EN LN]]. rewrite EN.
    rewrite cue_alts_disj. cbn [flat_map]. rewrite existsb_app.
    assert (EA : alternatives ctx (S N) (cue_ty pkg t) = alternatives ctx (S (S N)) (cue_ty pkg t)).
    { destruct (src_resolve defs fuel t) as [rt|] eqn:R.
      - destruct (cue_alts_enough t (S N) rt G) as [_ [_ A1]]; [lia|exact R|].
        destruct (cue_alts_enough t (S (S N)) rt G) as [_ [_ A2]]; [lia|exact R|].
        rewrite A1, A2. reflexivity.
      - rewrite !cue_alts_none by exact R. reflexivity. }
    rewrite EA.
    f_equal. change (alternatives ctx (S N) t_null) with [t_null].
    cbn [app existsb]. rewrite cue_alt_check_null. apply orb_false_r.
  Qed.

  Lemma cue_wrap_null_union bs v :
    ir_accepts_c ctx v (mk_disj (map (cue_ty pkg) bs ++ [t_null])) =
    (ir_accepts_c ctx v (cue_ty pkg (SUnion bs)) || cue_is_jnull v)%bool.
  Proof.
    rewrite !cue_ir_accepts_unfold. destruct cue_alt_fuel_split as [N [EN LN]]. rewrite EN.
    change (cue_ty pkg (SUnion bs)) with (mk_disj (map (cue_ty pkg) bs)).
    rewrite !cue_alts_disj. rewrite flat_map_app, existsb_app. f_equal.
    cbn [flat_map]. change (alternatives ctx (S N) t_null) with [t_null].
    cbn [app existsb]. rewrite cue_alt_check_null. apply orb_false_r.
  Qed.

  Lemma cue_nullable_field f v : cue_good s (sf_type f) -> sf_null f = true ->
    ir_accepts_c ctx v (f_type (cue_field pkg f)) = (ir_accepts_c ctx v (cue_ty pkg (sf_type f)) || cue_is_jnull v)%bool.
  Proof.
    intros G N. destruct f as [nm t rq nl ta]. cbn [sf_name sf_type sf_req sf_null sf_nullta] in *. subst nl.
    unfold cue_field. cbn [sf_name sf_type sf_req sf_null sf_nullta f_type].
    destruct t; try apply (cue_wrap_null _ v G).
    apply cue_wrap_null_union.
  Qed.

  Lemma cue_field_agree f v : cue_Pk v -> cue_good s (sf_type f) ->
    match v with
    | JNull => (sf_null f || match src_resolve defs fuel (sf_type f) with Some SAny => true | _ => false end)%bool
    | _ => src_valid CUE defs v (sf_type f)
    end = ir_accepts_c ctx v (f_type (cue_field pkg f)).
  Proof.
    intros PV G.
    destruct (sf_null f) eqn:N.
    - rewrite (cue_nullable_field f v G N). rewrite <- (PV _ G).
      destruct v; cbn [cue_is_jnull orb]; rewrite ?orb_false_r, ?orb_true_r; reflexivity.
    - assert (E : f_type (cue_field pkg f) = cue_ty pkg (sf_type f)).
      { unfold cue_field. cbn [f_type]. rewrite N. reflexivity. }
      rewrite E. rewrite <- (PV _ G). destruct v; try reflexivity. cbn [orb]. symmetry. apply cue_src_valid_null. exact G.
  Qed.

  Lemma cue_good_struct_fields fs f : cue_good s (SStruct fs) -> In f fs -> cue_good s (sf_type f).
  Proof.
    intros [G1 [G2 [G3 G5]]] I.
    cbn [cue_supported] in G1. apply andb_true_iff in G1. destruct G1 as [_ G1]. rewrite forallb_forall in G1.
    specialize (G1 f I). apply andb_true_iff in G1. destruct G1 as [A1 _].
    cbn [ty_wf] in G2. apply andb_true_iff in G2. destruct G2 as [_ G2]. rewrite forallb_forall in G2.
    cbn [cue_bounds_in_width] in G3. rewrite forallb_forall in G3.
    cbn [refs_of] in G5. rewrite forallb_forall in G5.
    repeat split; auto.
    apply forallb_forall. intros x Ix. apply G5. apply in_flat_map. exists f. split; assumption.
  Qed.

  Lemma cue_struct_agree fs ms : fs <> [] -> cue_good s (SStruct fs) -> Forall (fun kv => cue_Pk (snd kv)) ms ->
    cue_sv_struct defs fs ms = cue_alt_check ctx (JObj ms) (cue_ty pkg (SStruct fs)).
  Proof.
    intros NE G K. destruct fs as [|f0 fr]; [congruence|]. rewrite cue_ty_struct.
    unfold cue_sv_struct. cbn [cue_alt_check]. rewrite cue_forallb_map.
    f_equal. f_equal.
    apply cue_forallb_ext_in. intros kv I. rewrite Forall_forall in K. specialize (K kv I).
    rewrite (cue_find_map_field (cue_field pkg)) by reflexivity.
    destruct (find (fun f => seqb (sf_name f) (fst kv)) (f0 :: fr)) as [f|] eqn:E; [|reflexivity].
    cbn [option_map]. apply find_some in E. destruct E as [E _].
    apply cue_field_agree; auto. apply (cue_good_struct_fields (f0 :: fr)); assumption.
  Qed.

  Lemma cue_good_simple b : is_simple_branch b = true -> cue_supported b = true -> cue_bounds_in_width b = true ->
    cue_good s b.
  Proof.
    intros H S1 S2. unfold cue_good. destruct b; try discriminate; try (repeat split; auto; fail).
    destruct b; try discriminate; repeat split; auto.
  Qed.

  Lemma cue_resolved_agree j rt : cue_kids j -> cue_good s rt -> cue_nonref rt = true ->
    match rt with
    | SStruct fs => match j with JObj ms => cue_sv_struct defs fs ms | _ => false end
    | SUnion bs =>
        existsb (fun b => match src_resolve defs fuel b with Some rb => cue_sv_simple defs j rb | None => false end) bs
    | SDUnion disc names =>
        match j with
        | JObj ms =>
            existsb (fun n => match src_resolve defs fuel (SRef n) with
                              | Some (SStruct fs) => cue_sv_struct defs fs ms
                              | _ => false end) names
        | _ => false
        end
    | _ => cue_sv_simple defs j rt
    end = existsb (cue_alt_check ctx j) (cue_alts_nr rt).
  Proof.
    intros K G NR.
    destruct rt as [|w ge gt le lt|w ge gt le lt|mn mx| | |cv|vals|et|vt|rn|cfs|bs|disc names]; try discriminate;
      try (cbn [cue_alts_nr existsb]; rewrite orb_false_r; apply cue_simple_agree; auto; fail).
    - (* struct *)
      cbn [cue_alts_nr existsb]. rewrite orb_false_r.
      assert (NE : cfs <> []).
      { destruct G as [_ [G2 _]]. cbn [ty_wf] in G2. destruct cfs; [discriminate|congruence]. }
      destruct j; try (destruct cfs; [congruence|reflexivity]).
      apply cue_struct_agree; auto.
    - (* union *)
      cbn [cue_alts_nr]. rewrite cue_existsb_map. apply cue_existsb_ext_in. intros b I.
      pose proof G as [G1 [G2 [G3 G5]]].
      cbn [ty_wf] in G2. rewrite forallb_forall in G2. destruct (cue_simple_branch_kind b (G2 b I)) as [SK NB].
      rewrite (cue_resolve_nonref _ b NB). apply cue_simple_agree; auto.
      cbn [cue_supported] in G1. apply andb_true_iff in G1. destruct G1 as [_ G1]. rewrite forallb_forall in G1.
      cbn [cue_bounds_in_width] in G3. rewrite forallb_forall in G3.
      apply cue_good_simple; auto.
    - (* union of definitions *)
      cbn [cue_alts_nr]. rewrite cue_existsb_flat_map.
      pose proof G as [_ [G2 _]]. cbn [ty_wf] in G2. rewrite forallb_forall in G2.
      assert (E : forall m, In m names ->
                 existsb (cue_alt_check ctx j) (match src_lookup defs m with Some t' => [cue_ty pkg t'] | None => [] end) =
                 match j with
                 | JObj ms => match src_resolve defs fuel (SRef m) with
                              | Some (SStruct fs) => cue_sv_struct defs fs ms
                              | _ => false end
                 | _ => false end).
      { intros m I. specialize (G2 m I). cbn [src_resolve].
        destruct (src_lookup defs m) as [t'|] eqn:L; [|discriminate].
        destruct t' as [| | | | | | | | | | |fs'| |]; try discriminate.
        rewrite (cue_resolve_nonref _ (SStruct fs')) by reflexivity.
        cbn [existsb]. rewrite orb_false_r.
        assert (G' : cue_good s (SStruct fs')) by (apply (cue_good_def m); apply cue_src_lookup_some_in; exact L).
        assert (NE : fs' <> []).
        { destruct G' as [_ [X _]]. cbn [ty_wf] in X. destruct fs'; [discriminate|congruence]. }
        destruct j; try (destruct fs'; [congruence|reflexivity]).
        symmetry. apply cue_struct_agree; auto. }
      destruct j; try (symmetry; apply cue_existsb_false; intros nm1 I1; rewrite (E nm1 I1); reflexivity).
      apply cue_existsb_ext_in. intros nm1 I1. rewrite (E nm1 I1). reflexivity.
  Qed.

  Lemma cue_main_agree : forall j, cue_Pk j.
  Proof.
    assert (X : forall j, cue_kids j -> cue_Pk j).
    { intros j K t G. rewrite cue_src_valid_unfold, cue_ir_accepts_unfold. unfold cue_sv_body.
      destruct (src_resolve defs fuel t) as [rt|] eqn:R.
      - destruct (cue_alts_enough t (alt_fuel ctx) rt G) as [G' [NR A]]; [pose proof cue_alt_fuel_ge; lia|exact R|].
        rewrite A. apply cue_resolved_agree; auto.
      - rewrite (cue_alts_none t _ R). reflexivity. }
    induction j using cue_json_ind; apply X; auto; try exact I.
  Qed.
End CueCtx.

(* parse_cue_preserves_acceptance_partial EXACTLY as required, no extra hypothesis.
   - every definition occurs in the first-touch order cue_order s, so parse_cue declares an object for it: proved for
     every schema in Proofs/FrontEndCueOrder.v (cue_order_complete_holds);
   - float bounds are unrestricted (FEDec.dec_roundtrip through bounds_agree_val), numeric constants / enum values may
     carry an exponent (FEDec.num_norm_value through json_eq_num_val);
   - alias cycles are rejected by both sides (resolve_stable / cue_alts_none).
   json_wf d is not used. *)
Theorem parse_cue_preserves_acceptance_partial_strong :
  forall s tname d, src_wf_cue s = true -> json_wf d = true -> str_in tname (map fst (src_defs s)) = true ->
    cue_acceptance_agrees s tname d = true.
Proof.
  intros s tname d W WF IN.
  unfold cue_acceptance_agrees, src_valid_doc, ir_accepts_c_doc.
  assert (G : cue_good s (SRef tname)).
  { unfold cue_good. repeat split; auto. cbn [refs_of forallb]. rewrite IN. reflexivity. }
  pose proof (cue_main_agree s W d (SRef tname) G) as E.
  change (cue_ty (src_pkg s) (SRef tname)) with (TRef attrs0 (src_pkg s) tname) in E. unfold CUE in E.
  destruct d; try reflexivity; rewrite E; apply eqb_reflx.
Qed.

(* the first proved form (schema_bounds_small s and schema_aliases_resolve s are no longer needed): kept under its name *)
Theorem parse_cue_preserves_acceptance_partial :
  forall s tname d, src_wf_cue s = true -> schema_bounds_small s = true -> schema_aliases_resolve s = true ->
    json_wf d = true -> str_in tname (map fst (src_defs s)) = true -> cue_acceptance_agrees s tname d = true.
Proof. intros s tname d W _ _. apply parse_cue_preserves_acceptance_partial_strong; assumption. Qed.

(* ---------- the hypotheses are satisfiable: a schema with every construct, an accepted and a rejected document ---------- *)
Definition cue_nv_schema : src_schema :=
  mkSrc "p" "Root"
    [("Root", SStruct [mkSField "inner" (SRef "Inner") true false false;
                       mkSField "small" (SInt "uint8" None None (Some 50%Z) None) true false false;
                       mkSField "mid" (SInt "int16" (Some (-5)%Z) None (Some 5%Z) None) true false false;
                       mkSField "name" (SString (Some 1%Z) (Some 8%Z)) false true false;
                       mkSField "tags" (SArray (SString None None)) false false false;
                       mkSField "attrs" (SMap (SRef "Leaf")) false false false;
                       mkSField "ratio" (SFloat "float64" (Some (5, -1)%Z) None (Some (25, -1)%Z) None) true false false;
                       mkSField "level" (SEnum [JNum 1 0; JNum 2 0; JNum 3 0]) true false false;
                       mkSField "either" (SUnion [SInt "int64" None None None None; SString None None]) false false false]);
     ("Inner", SStruct [mkSField "leaf" (SRef "Leaf") true false false;
                        mkSField "note" (SString None None) false true false]);
     ("Leaf", SStruct [mkSField "n" (SInt "int64" None None None None) true false false])].
Definition cue_nv_doc (small : Z) : json :=
  JObj [("inner", JObj [("leaf", JObj [("n", JNum 3 0)]); ("note", JNull)]);
        ("small", JNum small 0); ("mid", JNum (-3) 0); ("name", JNull);
        ("tags", JArr [JStr "a"; JStr "b"]); ("attrs", JObj [("k", JObj [("n", JNum 1 0)])]);
        ("ratio", JNum 15 (-1)); ("level", JNum 2 0); ("either", JStr "x")].

Theorem cue_frontend_nonvacuous :
  src_wf_cue cue_nv_schema = true /\ schema_bounds_small cue_nv_schema = true /\
  schema_aliases_resolve cue_nv_schema = true /\
  json_wf (cue_nv_doc 42) = true /\ json_wf (cue_nv_doc 51) = true /\
  str_in "Root" (map fst (src_defs cue_nv_schema)) = true /\
  src_valid_doc "cue" cue_nv_schema "Root" (cue_nv_doc 42) = true /\
  ir_accepts_c_doc (parse_ctx_cue cue_nv_schema) "p" "Root" (cue_nv_doc 42) = true /\
  cue_acceptance_agrees cue_nv_schema "Root" (cue_nv_doc 42) = true /\
  src_valid_doc "cue" cue_nv_schema "Root" (cue_nv_doc 51) = false /\
  ir_accepts_c_doc (parse_ctx_cue cue_nv_schema) "p" "Root" (cue_nv_doc 51) = false /\
  cue_acceptance_agrees cue_nv_schema "Root" (cue_nv_doc 51) = true.
Proof. vm_compute. repeat split; reflexivity. Qed.

(* what the strong form covers beyond the first one: a float bound with 6 digits and exponent -5, a constant written with
   an exponent, an alias cycle (A = B, B = A: both sides reject every document) *)
Definition cue_nv2_schema : src_schema :=
  mkSrc "p" "Root"
    [("Root", SStruct [mkSField "ratio" (SFloat "float64" None None None (Some (123456, -5)%Z)) true false false;
                       mkSField "k" (SConst (JNum 5 2)) true false false;
                       mkSField "loop" (SRef "A") false false false]);
     ("A", SRef "B"); ("B", SRef "A")].
Definition cue_nv2_doc (k : Z) : json := JObj [("ratio", JNum 12 (-1)); ("k", JNum k 1)].

Theorem cue_frontend_strong_nonvacuous :
  src_wf_cue cue_nv2_schema = true /\ schema_bounds_small cue_nv2_schema = false /\
  schema_aliases_resolve cue_nv2_schema = false /\
  json_wf (cue_nv2_doc 50) = true /\
  src_valid_doc "cue" cue_nv2_schema "Root" (cue_nv2_doc 50) = true /\
  cue_acceptance_agrees cue_nv2_schema "Root" (cue_nv2_doc 50) = true /\
  src_valid_doc "cue" cue_nv2_schema "Root" (cue_nv2_doc 51) = false /\
  cue_acceptance_agrees cue_nv2_schema "Root" (cue_nv2_doc 51) = true /\
  src_valid_doc "cue" cue_nv2_schema "A" (JNum 1 0) = false /\
  cue_acceptance_agrees cue_nv2_schema "A" (JNum 1 0) = true /\
  cue_acceptance_agrees cue_nv2_schema "Root" (JObj (("loop", JNum 1 0) :: match cue_nv2_doc 50 with JObj l => l | _ => [] end)) = true.
Proof. vm_compute. repeat split; reflexivity. Qed.

Print Assumptions cue_order_complete_holds.
Print Assumptions parse_cue_preserves_acceptance_partial_strong.
Print Assumptions parse_cue_preserves_acceptance_partial.
Print Assumptions cue_frontend_nonvacuous.
Print Assumptions cue_frontend_strong_nonvacuous.
