(* C05 over the language chains, continued: RemoveIntersections (Java) and InlineObjectsWithTypes (PHP),
   the two passes that REMOVE objects.
   WHAT IS HERE
   - shape_rm / refs_kept_rm / entries_kept_rm: a pass that removes the objects named by `rm pkg name`;
   - RemoveIntersections: ri_refs_safe (no reference left after the first loop, and no entry point, names a
     collapsed object - by name only), remove_intersections_keeps, remove_intersections_keeps_mappings,
     java_chain_keeps_references, java_chain_keeps_resolving, ri_refs_safe_nonvacuous;
   - InlineObjectsWithTypes: vis_refs / hid_refs, Section IowtTy (iowt_ty_good, iowt_ty_same), the traversal as
     named steps (iowt_visit_eq), Section IowtVisit (the views of inlined objects never change: iinv; idesc: what an
     object of the result is), iowt_refs_safe (the order-independent case), inline_objects_keeps,
     php_chain_keeps_references, iowt_refs_safe_nonvacuous;
   - typescript_chain_keeps_resolving; go/java/php_chain_references_nonvacuous. *)
From Coq Require Import List String Bool Ascii Lia.
From Cog Require Import Model.IR Model.Names Model.Passes Model.PassesChain Model.Process Model.NF Model.Refs
     Proofs.TyInd Proofs.PassLemmas Proofs.ChainLemmas Proofs.ChainNFProofs Proofs.ChainPresProofs
     Proofs.ChainPhpJavaProofs Proofs.ChainRefsProofs Gen.Chains_gen.
Import ListNotations.
Local Open Scope list_scope.

(* ---------- a pass that removes the objects named by [rm] and keeps the others ---------- *)
Definition shape_rm (rm : string -> string -> bool) (ss out : schemas) : Prop :=
  Forall2 (fun s s' => s_pkg s' = s_pkg s /\ s_entry s' = s_entry s /\
                       forall k, objs_has (s_objects s) k = true -> rm (s_pkg s) k = false -> objs_has (s_objects s') k = true) ss out.

Lemma shape_rm_locate rm ss out p : shape_rm rm ss out ->
  match locate ss p, locate out p with
  | Some s, Some s' => s_pkg s' = s_pkg s /\ s_entry s' = s_entry s /\
                       (forall k, objs_has (s_objects s) k = true -> rm (s_pkg s) k = false -> objs_has (s_objects s') k = true)
  | None, None => True
  | _, _ => False
  end.
Proof.
  unfold locate. induction 1 as [|s s' r r' [Hp [He Hk]] _ IH]; simpl; [exact I|].
  rewrite Hp. destruct (seqb (s_pkg s) p); [repeat split; assumption|exact IH].
Qed.
Lemma shape_rm_loaded rm ss out p : shape_rm rm ss out -> loaded out p = loaded ss p.
Proof. intros H. pose proof (shape_rm_locate rm ss out p H) as X. unfold loaded. destruct (locate ss p), (locate out p); try contradiction; reflexivity. Qed.
Lemma shape_rm_exists rm ss out p n : shape_rm rm ss out -> rm p n = false -> object_exists ss p n = true -> object_exists out p n = true.
Proof.
  intros H Hn. pose proof (shape_rm_locate rm ss out p H) as X. unfold object_exists, locate_object.
  destruct (locate ss p) as [s|] eqn:El, (locate out p) as [s'|]; try contradiction; try discriminate.
  assert (s_pkg s = p) as Ep by (unfold locate in El; apply find_some in El; destruct El as [_ E]; apply seqb_eq in E; exact E).
  destruct X as [_ [_ Hk]]. specialize (Hk n). unfold objs_has in Hk. rewrite Ep in Hk.
  destruct (objs_get (s_objects s) n); [|discriminate]. intros _. destruct (objs_get (s_objects s') n); [reflexivity|].
  specialize (Hk eq_refl Hn). discriminate.
Qed.
Lemma shape_rm_pkgs rm ss out : shape_rm rm ss out -> map s_pkg out = map s_pkg ss.
Proof. induction 1 as [|s s' r r' [Hp _] _ IH]; [reflexivity|]. simpl. rewrite Hp, IH. reflexivity. Qed.

(* references and entry points survive when none of them names a removed object *)
Theorem refs_kept_rm rm ss out (G : list (string * string)) :
  refs_ok ss -> shape_rm rm ss out ->
  (forall r, In r G -> In r (flat_map schema_refs ss)) ->
  (forall r, In r G -> rm (fst r) (snd r) = false) ->
  (forall s' r, In s' out -> In r (schema_refs s') -> In r G) ->
  refs_ok out.
Proof.
  intros HR Hsh HG Hrm Hrefs s' r Hs' Hr Hl. pose proof (Hrefs s' r Hs' Hr) as Hin.
  pose proof (HG r Hin) as Hold. apply in_flat_map in Hold. destruct Hold as [s [Hs Hrs]].
  apply (shape_rm_exists rm ss out _ _ Hsh (Hrm r Hin)).
  apply (HR s r Hs Hrs). rewrite <- (shape_rm_loaded rm ss out _ Hsh). exact Hl.
Qed.
Theorem entries_kept_rm rm ss out :
  entries_ok ss -> shape_rm rm ss out -> (forall s, In s ss -> rm (s_pkg s) (s_entry s) = false) -> entries_ok out.
Proof.
  intros HE Hsh Hrm s' Hs' Hne. destruct (Forall2_in_r _ _ _ Hsh s' Hs') as [s [Hs [_ [He Hk]]]]. rewrite He in *.
  apply Hk; [apply HE; assumption|apply Hrm; assumption].
Qed.

(* =====================================================================================
   RemoveIntersections
   ===================================================================================== *)
(* the references left after the first loop of every schema: those of the input, minus the reference an alias of
   a struct was (it becomes a struct over the fields of its target) *)
Fixpoint ri_mid_refs (l : list schema) (st : ri_state) : res (list (string * string)) :=
  match l with
  | [] => Ok []
  | s :: r =>
      do x <- ri_loop1 (map fst (s_objects s)) (ri_number (s_objects s) 0) st ;
      do rest <- ri_mid_refs r (snd x) ;
      Ok ((all_refs (s_entrytype s) ++ flat_map (fun e => all_refs (o_type (fst (snd e)))) (fst x)) ++ rest)
  end.

(* the condition: after the first loop, NO reference anywhere (fields, array elements, map values, hints, entry-point
   types, aliases that stay aliases) and no entry point names an object some schema collapses.  Removal is by name
   only, whatever the package: a name collapsed in one schema is removed from the schemas visited after it. *)
Definition ri_refs_safe (ss : schemas) : bool :=
  match ri_states ss ([], []), ri_mid_refs ss ([], []) with
  | Ok st, Ok refs => forallb (fun r => negb (alist_has (fst st) (snd r))) refs &&
                      forallb (fun s => negb (alist_has (fst st) (s_entry s))) ss
  | _, _ => true
  end.

Lemma all_refs_set_attrs t a : all_refs (set_attrs t a) = all_refs t.
Proof. destruct t; reflexivity. Qed.
Lemma hrel_ty_refs t t' : hrel_ty t t' -> all_refs t' = all_refs t.
Proof.
  intros [hs ->]. revert t. induction hs as [|h r IH]; intros t; [reflexivity|]. simpl. rewrite IH.
  unfold set_hints. apply all_refs_set_attrs.
Qed.
Lemma hrel_fields_refs fs fs' : hrel_fields fs fs' ->
  flat_map (fun f => all_refs (f_type f)) fs' = flat_map (fun f => all_refs (f_type f)) fs.
Proof.
  unfold hrel_fields. induction 1 as [|f f' r r' [_ Hf] _ IH]; [reflexivity|]. simpl. rewrite IH, (hrel_ty_refs _ _ Hf). reflexivity.
Qed.

Lemma ri_get_in_k : forall objs k v, ri_get objs k = Some v -> In (k, v) objs.
Proof.
  induction objs as [|[k' v'] r IH]; simpl; intros k v H; [discriminate|].
  destruct (seqb k' k) eqn:E; [|right; apply IH; assumption].
  apply seqb_eq in E. subst k'. inversion H; subst. left; reflexivity.
Qed.
Lemma ri_set_get_has : forall l k v n, ri_get l n <> None -> ri_get (ri_set l k v) n <> None.
Proof.
  induction l as [|[k' v'] r IH]; simpl; intros k v n H; [contradiction|].
  destruct (seqb k' k) eqn:Ek; simpl.
  - destruct (seqb k' n); [discriminate|assumption].
  - destruct (seqb k' n); [discriminate|apply IH; assumption].
Qed.
Lemma ri_number_get : forall l i n, objs_has l n = true -> ri_get (ri_number l i) n <> None.
Proof.
  unfold objs_has. induction l as [|[k o] r IH]; simpl; intros i n H; [discriminate|].
  destruct (seqb k n); [discriminate|apply IH; assumption].
Qed.
Lemma ri_loop1_has : forall keys objs st objs1 st1, ri_loop1 keys objs st = Ok (objs1, st1) ->
  forall n, ri_get objs n <> None -> ri_get objs1 n <> None.
Proof.
  induction keys as [|k rest IH]; intros objs st objs1 st1 H n Hn; simpl in H.
  - inversion H; subst. assumption.
  - destruct (ri_get objs k) as [[o oid]|] eqn:Eg; [|eapply IH; eassumption].
    destruct (o_type o) as [a d|a v|a vs|a i v|a dh fs|ra pk m|a pk m v|a kk v cs|a bs|a v|a kk] eqn:Et;
      try (eapply IH; eassumption).
    destruct (ri_get objs m) as [[lo lid]|] eqn:El; [|eapply IH; eassumption].
    destruct (o_type lo) as [a d|a v|a vs|a i v|la ldh lfs|a pk0 n0|a pk0 n0 v|a kk v cs|a bs|a v|a kk] eqn:Elt;
      try (eapply IH; eassumption).
    match type of H with (do _ <- ?X ; _) = _ => destruct X as [h0| | |] end; simpl in H; try discriminate.
    eapply IH; [exact H|]. apply ri_set_get_has. assumption.
Qed.

Lemma filter_map_has {V} (g : ri_entry -> string * object) (rm : list (string * V)) : forall objs n,
  (forall e, fst (g e) = fst e) -> ri_get objs n <> None -> alist_has rm n = false ->
  objs_has (filter (fun ko => negb (alist_has rm (fst ko))) (map g objs)) n = true.
Proof.
  intros objs n Hg. unfold objs_has. induction objs as [|[k v] r IH]; simpl; intros Hn Hrm; [contradiction|].
  pose proof (Hg (k, v)) as Ek. destruct (g (k, v)) as [k2 o2]. simpl in Ek. subst k2. simpl.
  destruct (seqb k n) eqn:E.
  - apply seqb_eq in E. subst k. rewrite Hrm. simpl. rewrite seqb_refl. reflexivity.
  - destruct (negb (alist_has rm k)); [simpl; rewrite E|]; apply IH; assumption.
Qed.

Lemma ri_finish_has s objs1 st1 s' st' n :
  ri_finish s (objs1, st1) = Ok (s', st') -> ri_get objs1 n <> None -> alist_has (fst st1) n = false ->
  objs_has (s_objects s') n = true.
Proof.
  unfold ri_finish. intros H Hn Hrm. injection H as Hs' _. subst s'. cbn [s_objects set_objects].
  apply filter_map_has; [|assumption|assumption].
  intros [k [o id]]. simpl. destruct (o_type o); reflexivity.
Qed.

(* ---- one schema ---- *)
(* generic in what is collected from the types ([all_refs], [bad_mappings]): anything that ignores attributes and is
   the hints' part followed by the fields' part on a struct *)
Section RiMeas.
  Context {X : Type} (m : ty -> list X) (md : list (string * disj_ ty) -> list X).
  Hypothesis m_struct : forall a dh fs, m (TStruct a dh fs) = md dh ++ flat_map (fun f => m (f_type f)) fs.
  Hypothesis m_attrs : forall t a, m (set_attrs t a) = m t.

  Lemma hrel_ty_meas t t' : hrel_ty t t' -> m t' = m t.
  Proof.
    intros [hs ->]. revert t. induction hs as [|h r IH]; intros t; [reflexivity|]. simpl. rewrite IH.
    unfold set_hints. apply m_attrs.
  Qed.
  Lemma hrel_fields_meas fs fs' : hrel_fields fs fs' ->
    flat_map (fun f => m (f_type f)) fs' = flat_map (fun f => m (f_type f)) fs.
  Proof.
    unfold hrel_fields. induction 1 as [|f f' r r' [_ Hf] _ IH]; [reflexivity|]. simpl. rewrite IH, (hrel_ty_meas _ _ Hf). reflexivity.
  Qed.

  Lemma ri_schema_meas st s s' st1 objs1 :
    ri_loop1 (map fst (s_objects s)) (ri_number (s_objects s) 0) st = Ok (objs1, st1) ->
    ri_finish s (objs1, st1) = Ok (s', st1) ->
    (forall fs, ri_F0 s fs -> fields_avoid st1 fs = true) ->
    (forall k o' r, In (k, o') (s_objects s') -> In r (m (o_type o')) ->
                    In r (flat_map (fun e => m (o_type (fst (snd e)))) objs1)) /\
    (forall r, In r (flat_map (fun e => m (o_type (fst (snd e)))) objs1) ->
               In r (flat_map (fun ko => m (o_type (snd ko))) (s_objects s))).
  Proof.
    intros E1 Hf Hsafe. destruct (ri_loop1_inv s _ _ _ _ _ (ri_number_good s) E1) as [Hgood _]. split.
    - intros k o' r Hin Hr. destruct (ri_finish_objects _ _ _ _ _ _ _ Hf Hin) as [_ [k0 [o [id [Hino Hcase]]]]].
      destruct Hcase as [[Hns ->]|[a [dh [fs [n [k1 [o1 [id1 [a1 [dh1 [fs0 [Et [Hin1 [Et1 ->]]]]]]]]]]]]]].
      + apply in_flat_map. exists (k0, (o, id)). split; assumption.
      + cbn [o_type set_otype] in Hr. rewrite m_struct in Hr. apply in_app_or in Hr. destruct Hr as [Hr|Hr].
        * apply in_flat_map. exists (k0, (o, id)). split; [assumption|]. cbn [fst snd]. rewrite Et, m_struct. apply in_or_app. left. exact Hr.
        * pose proof (ri_good_fields _ _ _ _ _ (Hgood _ _ _ Hin1) Et1) as HF0.
          rewrite (hrel_fields_meas _ _ (proj1 (ri_fields_iter st1 n fs0 (Hsafe fs0 HF0)))) in Hr.
          apply in_flat_map. exists (k1, (o1, id1)). split; [assumption|]. cbn [fst snd]. rewrite Et1, m_struct. apply in_or_app. right. exact Hr.
    - intros r Hr. apply in_flat_map in Hr. destruct Hr as [[k [o id]] [Hin Hr]]. cbn [fst snd] in Hr.
      assert (forall o0, In o0 (ri_origs s) -> In r (m (o_type o0)) ->
                         In r (flat_map (fun ko => m (o_type (snd ko))) (s_objects s))) as Horig.
      { intros o0 Ho0 Hr0. unfold ri_origs in Ho0. apply in_map_iff in Ho0. destruct Ho0 as [[k0 o00] [E Hin0]]. simpl in E. subst o00.
        apply in_flat_map. exists (k0, o0). split; assumption. }
      destruct (Hgood _ _ _ Hin) as [Hx|[o0 [a0 [dh0 [fs0 [_ [E0 [o2 [a2 [Ho2 Et2]]]]]]]]]]; [apply (Horig o Hx Hr)|].
      subst o. cbn [o_type set_otype] in Hr. apply (Horig o2 Ho2). rewrite Et2. rewrite m_struct in Hr |- *. exact Hr.
  Qed.
End RiMeas.

Lemma ri_finish_shape s objs1 st1 s' st' : ri_finish s (objs1, st1) = Ok (s', st') ->
  s_pkg s' = s_pkg s /\ s_entry s' = s_entry s /\ s_entrytype s' = s_entrytype s.
Proof. unfold ri_finish. intros Hf. injection Hf as Hs'. subst s'. repeat split. Qed.

Lemma ri_schema_refs st s s' st1 objs1 :
  ri_loop1 (map fst (s_objects s)) (ri_number (s_objects s) 0) st = Ok (objs1, st1) ->
  ri_finish s (objs1, st1) = Ok (s', st1) ->
  (forall fs, ri_F0 s fs -> fields_avoid st1 fs = true) ->
  s_pkg s' = s_pkg s /\ s_entry s' = s_entry s /\ s_entrytype s' = s_entrytype s /\
  (forall k, objs_has (s_objects s) k = true -> alist_has (fst st1) k = false -> objs_has (s_objects s') k = true) /\
  (forall k o' r, In (k, o') (s_objects s') -> In r (all_refs (o_type o')) ->
                  In r (flat_map (fun e => all_refs (o_type (fst (snd e)))) objs1)) /\
  (forall r, In r (flat_map (fun e => all_refs (o_type (fst (snd e)))) objs1) ->
             In r (flat_map (fun ko => all_refs (o_type (snd ko))) (s_objects s))).
Proof.
  intros E1 Hf Hsafe. destruct (ri_finish_shape _ _ _ _ _ Hf) as [Hp [He Het]].
  split; [exact Hp|split; [exact He|split; [exact Het|split]]].
  - intros k Hk Hrm. eapply ri_finish_has; [exact Hf| |exact Hrm].
    eapply ri_loop1_has; [exact E1|]. apply ri_number_get. exact Hk.
  - eapply (ri_schema_meas all_refs (flat_map (fun kd => flat_map all_refs (d_branches (snd kd))))); try eassumption.
    + reflexivity.
    + apply all_refs_set_attrs.
Qed.

(* discriminator mappings: the pass only moves types around *)
Lemma bad_mappings_set_attrs t a : bad_mappings (set_attrs t a) = bad_mappings t.
Proof. destruct t; reflexivity. Qed.
Lemma ri_schema_mappings st s s' st1 objs1 :
  ri_loop1 (map fst (s_objects s)) (ri_number (s_objects s) 0) st = Ok (objs1, st1) ->
  ri_finish s (objs1, st1) = Ok (s', st1) ->
  (forall fs, ri_F0 s fs -> fields_avoid st1 fs = true) ->
  schema_bad_mappings s = [] -> schema_bad_mappings s' = [].
Proof.
  intros E1 Hf Hsafe Hm. destruct (ri_finish_shape _ _ _ _ _ Hf) as [_ [_ Het]].
  destruct (ri_schema_meas bad_mappings
              (flat_map (fun kd => mapping_dangling (snd kd) ++ flat_map bad_mappings (d_branches (snd kd))))
              (fun _ _ _ => eq_refl) bad_mappings_set_attrs _ _ _ _ _ E1 Hf Hsafe) as [M1 M2].
  unfold schema_bad_mappings in *. rewrite Het. apply app_eq_nil in Hm. destruct Hm as [Hm1 Hm2]. rewrite Hm1. simpl.
  destruct (flat_map (fun ko => bad_mappings (o_type (snd ko))) (s_objects s')) as [|x rest] eqn:E; [reflexivity|exfalso].
  assert (In x (flat_map (fun ko => bad_mappings (o_type (snd ko))) (s_objects s'))) as Hx by (rewrite E; left; reflexivity).
  apply in_flat_map in Hx. destruct Hx as [[k o'] [Hin Hx]]. pose proof (M2 _ (M1 _ _ _ Hin Hx)) as Hy. rewrite Hm2 in Hy. exact Hy.
Qed.

(* ---- all schemas ---- *)
Lemma ri_go_refs : forall l st out final refs,
  ri_go l st = Ok out -> ri_states l st = Ok final -> ri_mid_refs l st = Ok refs ->
  (forall s fs, In s l -> ri_F0 s fs -> fields_avoid final fs = true) ->
  shape_rm (fun _ => alist_has (fst final)) l out /\
  (forall s' r, In s' out -> In r (schema_refs s') -> In r refs) /\
  (forall r, In r refs -> In r (flat_map schema_refs l)).
Proof.
  induction l as [|s r IH]; intros st out final refs Hg Hs Hm Hsafe; simpl in Hg.
  - inversion Hg; subst. simpl in Hm. inversion Hm; subst. split; [constructor|split; [intros s' r0 []|intros r0 []]].
  - destruct (ri_schema st s) as [[s' st1]| | |] eqn:Esch; simpl in Hg; try discriminate.
    destruct (ri_go r st1) as [rest'| | |] eqn:Er; simpl in Hg; try discriminate. inversion Hg; subst. clear Hg.
    simpl in Hs, Hm. pose proof Esch as Esch2. rewrite ri_schema_eq in Esch2.
    destruct (ri_loop1 _ _ st) as [[objs1 st0]| | |] eqn:E1; simpl in Esch2, Hs, Hm; try discriminate.
    assert (st1 = st0) as Est by (unfold ri_finish in Esch2; injection Esch2 as _ Hx; symmetry; exact Hx). subst st0.
    destruct (ri_mid_refs r st1) as [rrefs| | |] eqn:Em; simpl in Hm; try discriminate. inversion Hm; subst. clear Hm.
    pose proof (ri_states_le _ _ _ Hs) as Hle.
    destruct (IH st1 rest' final rrefs Er Hs Em (fun s1 fs H1 => Hsafe s1 fs (or_intror H1))) as [I1 [I2 I3]].
    destruct (ri_schema_refs _ _ _ _ _ E1 Esch2) as [Hp [He [Het [Hk [Hr1 Hr2]]]]].
    { intros fs HF. eapply fields_avoid_le; [exact Hle|]. eapply Hsafe; [left; reflexivity|exact HF]. }
    split; [|split].
    + constructor; [|exact I1]. split; [exact Hp|split; [exact He|]]. intros k Hk1 Hrm. apply Hk; [exact Hk1|].
      destruct (alist_has (fst st1) k) eqn:E; [|reflexivity]. rewrite (proj1 Hle _ E) in Hrm. discriminate.
    + intros s0 r0 [<-|Hs0] Hr0.
      * apply in_or_app. left. unfold schema_refs in Hr0. rewrite Het in Hr0. apply in_app_or in Hr0.
        apply in_or_app. destruct Hr0 as [Hr0|Hr0]; [left; exact Hr0|right].
        apply in_flat_map in Hr0. destruct Hr0 as [[k o'] [Hin Hr0]]. eapply Hr1; eassumption.
      * apply in_or_app. right. eapply I2; eassumption.
    + intros r0 Hr0. simpl. apply in_app_or in Hr0. apply in_or_app. destruct Hr0 as [Hr0|Hr0]; [left|right; apply I3; exact Hr0].
      unfold schema_refs. apply in_app_or in Hr0. apply in_or_app. destruct Hr0 as [Hr0|Hr0]; [left; exact Hr0|right; apply Hr2; exact Hr0].
Qed.

Lemma ri_go_ok_states : forall l st out, ri_go l st = Ok out -> exists final refs, ri_states l st = Ok final /\ ri_mid_refs l st = Ok refs.
Proof.
  induction l as [|s rest IH]; intros st out Eg; simpl in *; [eexists; eexists; split; reflexivity|].
  destruct (ri_schema st s) as [[s' st1]| | |] eqn:Esch; simpl in Eg; try discriminate.
  rewrite ri_schema_eq in Esch. destruct (ri_loop1 _ _ st) as [[objs1 st0]| | |]; simpl in Esch |- *; try discriminate.
  assert (st1 = st0) as Est by (unfold ri_finish in Esch; injection Esch as _ Hx; symmetry; exact Hx). subst st0.
  destruct (ri_go rest st1) as [rest'| | |] eqn:Er; simpl in Eg; try discriminate.
  destruct (IH _ _ Er) as [final [refs [A B]]]. rewrite A, B. simpl. eexists; eexists; split; reflexivity.
Qed.

Lemma ri_go_mappings : forall l st out final,
  ri_go l st = Ok out -> ri_states l st = Ok final ->
  (forall s fs, In s l -> ri_F0 s fs -> fields_avoid final fs = true) ->
  mappings_ok l -> mappings_ok out.
Proof.
  induction l as [|s r IH]; intros st out final Hg Hs Hsafe HM; simpl in Hg.
  - inversion Hg; subst. intros s [].
  - destruct (ri_schema st s) as [[s' st1]| | |] eqn:Esch; simpl in Hg; try discriminate.
    destruct (ri_go r st1) as [rest'| | |] eqn:Er; simpl in Hg; try discriminate. inversion Hg; subst. clear Hg.
    simpl in Hs. pose proof Esch as Esch2. rewrite ri_schema_eq in Esch2.
    destruct (ri_loop1 _ _ st) as [[objs1 st0]| | |] eqn:E1; simpl in Esch2, Hs; try discriminate.
    assert (st1 = st0) as Est by (unfold ri_finish in Esch2; injection Esch2 as _ Hx; symmetry; exact Hx). subst st0.
    pose proof (ri_states_le _ _ _ Hs) as Hle.
    intros s0 [<-|Hs0].
    + eapply ri_schema_mappings; [exact E1|exact Esch2| |apply HM; left; reflexivity].
      intros fs HF. eapply fields_avoid_le; [exact Hle|]. eapply Hsafe; [left; reflexivity|exact HF].
    + eapply (IH st1 rest' final Er Hs (fun s1 fs H1 => Hsafe s1 fs (or_intror H1))); [|exact Hs0].
      intros s1 Hs1. apply HM. right. exact Hs1.
Qed.

Theorem remove_intersections_keeps_mappings ss out :
  ri_safe ss = true -> mappings_ok ss -> remove_intersections ss = Ok out -> mappings_ok out.
Proof.
  intros Hsafe HM H. rewrite remove_intersections_eq in H.
  destruct (ri_go ss ([], [])) as [r| | |] eqn:Eg; simpl in H; try discriminate. inversion H; subst. clear H.
  destruct (ri_go_ok_states _ _ _ Eg) as [final [refs [Es Em]]].
  unfold ri_safe in Hsafe. rewrite Es in Hsafe. rewrite forallb_forall in Hsafe.
  eapply ri_go_mappings; [exact Eg|exact Es| |exact HM].
  intros s fs Hs [o [a [dh [Ho Et]]]].
  unfold ri_origs in Ho. apply in_map_iff in Ho. destruct Ho as [[k0 o0] [E Hin]]. simpl in E. subst o0.
  assert (In o (objects_of ss)) as Hx by (apply in_objects_of; exists s, k0; split; assumption).
  specialize (Hsafe o Hx). rewrite Et in Hsafe. exact Hsafe.
Qed.

Theorem remove_intersections_keeps ss out :
  refs_ok ss -> entries_ok ss -> ri_safe ss = true -> ri_refs_safe ss = true ->
  remove_intersections ss = Ok out ->
  map s_pkg out = map s_pkg ss /\ refs_ok out /\ entries_ok out.
Proof.
  intros HR HE Hsafe Hrs H. rewrite remove_intersections_eq in H.
  destruct (ri_go ss ([], [])) as [r| | |] eqn:Eg; simpl in H; try discriminate. inversion H; subst. clear H.
  destruct (ri_go_ok_states _ _ _ Eg) as [final [refs [Es Em]]].
  unfold ri_safe in Hsafe. unfold ri_refs_safe in Hrs. rewrite Es in Hsafe, Hrs. rewrite Em in Hrs.
  apply andb_true_iff in Hrs. destruct Hrs as [Hrefs Hent]. rewrite forallb_forall in Hrefs, Hent, Hsafe.
  destruct (ri_go_refs _ _ _ _ _ Eg Es Em) as [Hsh [Hout Hin]].
  { intros s fs Hs [o [a [dh [Ho Et]]]].
    unfold ri_origs in Ho. apply in_map_iff in Ho. destruct Ho as [[k0 o0] [E Hin]]. simpl in E. subst o0.
    assert (In o (objects_of ss)) as Hx by (apply in_objects_of; exists s, k0; split; assumption).
    specialize (Hsafe o Hx). rewrite Et in Hsafe. exact Hsafe. }
  split; [eapply shape_rm_pkgs; exact Hsh|split].
  - eapply (refs_kept_rm _ ss out refs HR Hsh Hin); [|exact Hout].
    intros r Hr. specialize (Hrefs r Hr). apply negb_true_iff in Hrefs. exact Hrefs.
  - eapply entries_kept_rm; [exact HE|exact Hsh|]. intros s Hs. specialize (Hent s Hs). apply negb_true_iff in Hent. exact Hent.
Qed.

(* ---------- the Java chain, complete ---------- *)
Definition tame_java_refs (ss : schemas) : bool :=
  match process (removelast chain_java) ss with Ok mid => ri_safe mid && ri_refs_safe mid | _ => true end.

Theorem java_chain_keeps_references ss out :
  wf_refs_input ss -> tame_java_refs ss = true -> refs_ok ss -> entries_ok ss -> process chain_java ss = Ok out ->
  refs_ok out /\ entries_ok out.
Proof.
  intros W Ht R0 E0 H. unfold tame_java_refs in Ht.
  assert (chain_java = removelast chain_java ++ [PRemoveIntersections]) as Esplit by reflexivity.
  rewrite Esplit, process_app in H.
  destruct (process (removelast chain_java) ss) as [mid| | |] eqn:Emid; simpl in H; try discriminate.
  destruct (remove_intersections mid) as [out'| | |] eqn:Er; simpl in H; try discriminate. inversion H; subst.
  apply andb_true_iff in Ht. destruct Ht as [T1 T2].
  destruct (java_core_chain_keeps_references _ _ W R0 E0 Emid) as [_ [R1 E1]].
  destruct (remove_intersections_keeps _ _ R1 E1 T1 T2 Er) as [_ X]. exact X.
Qed.

Theorem java_chain_keeps_resolving ss out :
  wf_refs_input ss -> tame_java_refs ss = true -> no_mappings ss = true -> resolves ss = true ->
  process chain_java ss = Ok out -> resolves out = true.
Proof.
  intros W Ht Hnm Hres H. unfold tame_java_refs in Ht.
  assert (chain_java = removelast chain_java ++ [PRemoveIntersections]) as Esplit by reflexivity.
  rewrite Esplit, process_app in H.
  destruct (process (removelast chain_java) ss) as [mid| | |] eqn:Emid; simpl in H; try discriminate.
  destruct (remove_intersections mid) as [out'| | |] eqn:Er; simpl in H; try discriminate. inversion H; subst.
  apply andb_true_iff in Ht. destruct Ht as [T1 T2].
  pose proof (java_core_chain_keeps_resolving _ _ W Hnm Hres Emid) as Hmid.
  apply resolves_iff in Hmid. destruct Hmid as [R1 [E1 M1]].
  apply resolves_iff. destruct (remove_intersections_keeps _ _ R1 E1 T1 T2 Er) as [_ [R2 E2]].
  split; [exact R2|split; [exact E2|]]. eapply remove_intersections_keeps_mappings; eassumption.
Qed.

(* the condition is met by a schema set the pass really collapses an object of, and it is what separates it from
   the witness of the finding: there [ri_safe] holds, [ri_refs_safe] does not, and the result dangles *)
Example ri_refs_safe_nonvacuous :
  (ri_safe w_alias_unreferred = true /\ ri_refs_safe w_alias_unreferred = true /\ resolves w_alias_unreferred = true /\
   exists out, remove_intersections w_alias_unreferred = Ok out /\ resolves out = true /\
               List.length (objects_of out) < List.length (objects_of w_alias_unreferred)) /\
  (ri_safe w_ri_dangling = true /\ ri_refs_safe w_ri_dangling = false /\ resolves w_ri_dangling = true /\
   exists out, remove_intersections w_ri_dangling = Ok out /\ resolves out = false).
Proof.
  split; (split; [vm_compute; reflexivity|split; [vm_compute; reflexivity|split; [vm_compute; reflexivity|]]]);
    eexists; repeat split; vm_compute; try reflexivity.
Qed.

(* =====================================================================================
   InlineObjectsWithTypes
   ===================================================================================== *)
(* the reference sites the pass visits (and may replace), and the ones it does not look at: constant references,
   the types of enum members, the disjunctions kept in struct hints *)
Fixpoint vis_refs (t : ty) : list (string * string) :=
  match t with
  | TDisj _ d => flat_map vis_refs (d_branches d)
  | TArray _ v => vis_refs v
  | TMap _ i v => vis_refs i ++ vis_refs v
  | TStruct _ _ fs => flat_map (fun f => vis_refs (f_type f)) fs
  | TRef _ p n => [(p, n)]
  | TInter _ bs => flat_map vis_refs bs
  | _ => []
  end.
Fixpoint hid_refs (t : ty) : list (string * string) :=
  match t with
  | TDisj _ d => flat_map hid_refs (d_branches d)
  | TArray _ v => hid_refs v
  | TEnum _ vs => flat_map (fun v => all_refs (ev_type v)) vs
  | TMap _ i v => hid_refs i ++ hid_refs v
  | TStruct _ dh fs => flat_map (fun kd => flat_map all_refs (d_branches (snd kd))) dh ++ flat_map (fun f => hid_refs (f_type f)) fs
  | TConstRef _ p n _ => [(p, n)]
  | TInter _ bs => flat_map hid_refs bs
  | _ => []
  end.

Lemma in_flat_map_Forall {A B} (P : A -> Prop) (f : A -> list B) l x :
  In x (flat_map f l) -> exists a, In a l /\ In x (f a).
Proof. intros H. apply in_flat_map in H. exact H. Qed.

Section IowtTy.
  Variable L : string -> ty -> option ty.
  Variables Base Good : string * string -> Prop.
  Hypothesis L_some : forall key partial r0, L key partial = Some r0 -> forall r, In r (all_refs r0) -> Good r.
  Hypothesis L_none : forall p n partial, L (ref_str p n) partial = None -> Base (p, n) -> Good (p, n).

  Definition iowt_pre (t : ty) : Prop := (forall r, In r (vis_refs t) -> Base r) /\ (forall r, In r (hid_refs t) -> Good r).
  Definition iowt_post (t : ty) : Prop := forall r, In r (all_refs t) -> Good r.

  Lemma iowt_pre_list (f : ty -> list (string * string)) bs b : In b bs ->
    forall r, In r (f b) -> In r (flat_map f bs).
  Proof. intros Hb r Hr. apply in_flat_map. exists b. split; assumption. Qed.

  Lemma iowt_ty_good : forall t ctx, iowt_pre t -> iowt_post (iowt_ty L ctx t).
  Proof.
    induction t as [a d IH|a v IH|a vs IH|a i v IHi IHv|a dh fs IHd IHf|a pk n|a pk n v|a k v cs|a bs IH|a v|a k]
      using ty_ind'; intros ctx [Hv Hh]; unfold iowt_post.
    - simpl.
      match goal with |- forall r, In r (flat_map all_refs (?g [] (d_branches d))) -> _ =>
        assert (forall l done, Forall (fun b => forall ctx, iowt_pre b -> iowt_post (iowt_ty L ctx b)) l ->
                  (forall b, In b l -> iowt_pre b) -> forall r, In r (flat_map all_refs (g done l)) -> Good r) as G end.
      { induction l as [|b r0 IHl]; intros done HF Hp r Hr; [contradiction|]. inversion HF as [|? ? Hb Hr0]; subst.
        cbn beta iota in Hr. simpl in Hr. apply in_app_or in Hr. destruct Hr as [Hr|Hr].
        - eapply Hb; [apply Hp; left; reflexivity|exact Hr].
        - eapply IHl; [exact Hr0|intros b1 Hb1; apply Hp; right; exact Hb1|exact Hr]. }
      apply (G _ [] IH). intros b Hb. split; intros r Hr; [apply Hv|apply Hh]; simpl; eapply iowt_pre_list; eassumption.
    - simpl. intros r Hr. eapply IH; [|exact Hr]. split; assumption.
    - simpl. intros r Hr. apply Hh. exact Hr.
    - simpl. intros r Hr. apply in_app_or in Hr. destruct Hr as [Hr|Hr].
      + eapply IHi; [|exact Hr]. split; intros r1 Hr1; [apply Hv|apply Hh]; simpl; apply in_or_app; left; exact Hr1.
      + eapply IHv; [|exact Hr]. split; intros r1 Hr1; [apply Hv|apply Hh]; simpl; apply in_or_app; right; exact Hr1.
    - simpl. intros r Hr. apply in_app_or in Hr. destruct Hr as [Hr|Hr]; [apply Hh; simpl; apply in_or_app; left; exact Hr|].
      revert r Hr.
      match goal with |- forall r, In r (flat_map _ (?g [] fs)) -> _ =>
        assert (forall l done, Forall (fun f => forall ctx, iowt_pre (f_type f) -> iowt_post (iowt_ty L ctx (f_type f))) l ->
                  (forall f, In f l -> iowt_pre (f_type f)) ->
                  forall r, In r (flat_map (fun f => all_refs (f_type f)) (g done l)) -> Good r) as G end.
      { induction l as [|f r0 IHl]; intros done HF Hp r Hr; [contradiction|]. inversion HF as [|? ? Hf Hr0]; subst.
        cbn beta iota zeta in Hr. simpl in Hr. apply in_app_or in Hr. destruct Hr as [Hr|Hr].
        - eapply Hf; [apply Hp; left; reflexivity|exact Hr].
        - eapply IHl; [exact Hr0|intros f1 Hf1; apply Hp; right; exact Hf1|exact Hr]. }
      apply (G _ [] IHf). intros f Hf. split; intros r Hr.
      + apply Hv. simpl. apply in_flat_map. exists f. split; assumption.
      + apply Hh. simpl. apply in_or_app. right. apply in_flat_map. exists f. split; assumption.
    - rewrite iowt_ref. destruct (L (ref_str pk n) (ctx (TRef a pk n))) as [r0|] eqn:El.
      + intros r Hr. eapply L_some; eassumption.
      + simpl. intros r [<-|[]]. eapply L_none; [exact El|]. apply Hv. left; reflexivity.
    - simpl. intros r Hr. apply Hh. exact Hr.
    - simpl. intros r [].
    - simpl.
      match goal with |- forall r, In r (flat_map all_refs (?g [] bs)) -> _ =>
        assert (forall l done, Forall (fun b => forall ctx, iowt_pre b -> iowt_post (iowt_ty L ctx b)) l ->
                  (forall b, In b l -> iowt_pre b) -> forall r, In r (flat_map all_refs (g done l)) -> Good r) as G end.
      { induction l as [|b r0 IHl]; intros done HF Hp r Hr; [contradiction|]. inversion HF as [|? ? Hb Hr0]; subst.
        cbn beta iota in Hr. simpl in Hr. apply in_app_or in Hr. destruct Hr as [Hr|Hr].
        - eapply Hb; [apply Hp; left; reflexivity|exact Hr].
        - eapply IHl; [exact Hr0|intros b1 Hb1; apply Hp; right; exact Hb1|exact Hr]. }
      apply (G _ [] IH). intros b Hb. split; intros r Hr; [apply Hv|apply Hh]; simpl; eapply iowt_pre_list; eassumption.
    - simpl. intros r [].
    - simpl. intros r [].
  Qed.

  (* a type none of whose visited references is looked up successfully is left alone *)
  Lemma iowt_ty_same : forall t ctx,
    (forall r, In r (vis_refs t) -> forall partial, L (ref_str (fst r) (snd r)) partial = None) -> iowt_ty L ctx t = t.
  Proof.
    induction t as [a d IH|a v IH|a vs IH|a i v IHi IHv|a dh fs IHd IHf|a pk n|a pk n v|a k v cs|a bs IH|a v|a k]
      using ty_ind'; intros ctx Hl; try reflexivity.
    - simpl.
      match goal with |- TDisj a (mkDisj (?g [] (d_branches d)) _ _) = _ =>
        assert (forall l done, Forall (fun b => forall ctx, (forall r, In r (vis_refs b) -> forall partial, L (ref_str (fst r) (snd r)) partial = None) -> iowt_ty L ctx b = b) l ->
                  (forall b r, In b l -> In r (vis_refs b) -> forall partial, L (ref_str (fst r) (snd r)) partial = None) -> g done l = l) as G end.
      { induction l as [|b r IHl]; intros done HF Hp; [reflexivity|]. inversion HF as [|? ? Hb Hr]; subst.
        cbn beta iota. rewrite Hb; [|intros r1 Hr1; eapply Hp; [left; reflexivity|exact Hr1]]. f_equal. apply IHl; [assumption|].
        intros b1 r1 Hb1. apply Hp. right; exact Hb1. }
      rewrite (G _ [] IH); [destruct d; reflexivity|]. intros b r Hb Hr. apply Hl. simpl. eapply iowt_pre_list; eassumption.
    - simpl. rewrite IH; [reflexivity|exact Hl].
    - simpl. rewrite IHi, IHv; [reflexivity| |]; intros r Hr; apply Hl; simpl; apply in_or_app; [right|left]; exact Hr.
    - simpl.
      match goal with |- TStruct a dh (?g [] fs) = _ =>
        assert (forall l done, Forall (fun f => forall ctx, (forall r, In r (vis_refs (f_type f)) -> forall partial, L (ref_str (fst r) (snd r)) partial = None) -> iowt_ty L ctx (f_type f) = f_type f) l ->
                  (forall f r, In f l -> In r (vis_refs (f_type f)) -> forall partial, L (ref_str (fst r) (snd r)) partial = None) -> g done l = l) as G end.
      { induction l as [|f r IHl]; intros done HF Hp; [reflexivity|]. inversion HF as [|? ? Hf Hr]; subst.
        cbn beta iota zeta. rewrite Hf; [|intros r1 Hr1; eapply Hp; [left; reflexivity|exact Hr1]].
        f_equal; [destruct f; reflexivity|]. apply IHl; [assumption|]. intros f1 r1 Hf1. apply Hp. right; exact Hf1. }
      rewrite (G _ [] IHf); [reflexivity|]. intros f r Hf Hr. apply Hl. simpl. apply in_flat_map. exists f. split; assumption.
    - rewrite iowt_ref. rewrite (Hl (pk, n) (or_introl eq_refl)). reflexivity.
    - simpl.
      match goal with |- TInter a (?g [] bs) = _ =>
        assert (forall l done, Forall (fun b => forall ctx, (forall r, In r (vis_refs b) -> forall partial, L (ref_str (fst r) (snd r)) partial = None) -> iowt_ty L ctx b = b) l ->
                  (forall b r, In b l -> In r (vis_refs b) -> forall partial, L (ref_str (fst r) (snd r)) partial = None) -> g done l = l) as G end.
      { induction l as [|b r IHl]; intros done HF Hp; [reflexivity|]. inversion HF as [|? ? Hb Hr]; subst.
        cbn beta iota. rewrite Hb; [|intros r1 Hr1; eapply Hp; [left; reflexivity|exact Hr1]]. f_equal. apply IHl; [assumption|].
        intros b1 r1 Hb1. apply Hp. right; exact Hb1. }
      rewrite (G _ [] IH); [reflexivity|]. intros b r Hb Hr. apply Hl. simpl. eapply iowt_pre_list; eassumption.
  Qed.
End IowtTy.

Lemma all_refs_vis_hid : forall t r, In r (all_refs t) <-> In r (vis_refs t) \/ In r (hid_refs t).
Proof.
  assert (forall (f g h : ty -> list (string * string)) l r,
            Forall (fun b => forall r, In r (f b) <-> In r (g b) \/ In r (h b)) l ->
            (In r (flat_map f l) <-> In r (flat_map g l) \/ In r (flat_map h l))) as FM.
  { intros f g h l r HF. induction HF as [|b l0 Hb _ IH]; simpl; [tauto|]. rewrite !in_app_iff, Hb, IH. tauto. }
  induction t as [a d IH|a v IH|a vs IH|a i v IHi IHv|a dh fs IHd IHf|a pk n|a pk n v|a k v cs|a bs IH|a v|a k]
    using ty_ind'; intros r; simpl; try tauto.
  - apply FM. exact IH.
  - apply IH.
  - rewrite !in_app_iff, IHi, IHv. tauto.
  - rewrite !in_app_iff.
    assert (In r (flat_map (fun f => all_refs (f_type f)) fs) <->
            In r (flat_map (fun f => vis_refs (f_type f)) fs) \/ In r (flat_map (fun f => hid_refs (f_type f)) fs)) as X.
    { clear IHd. induction IHf as [|f l0 Hf _ IH]; simpl; [tauto|]. rewrite !in_app_iff, Hf, IH. tauto. }
    rewrite X. tauto.
  - apply FM. exact IH.
Qed.

(* ---------- the traversal, named ---------- *)
Definition iowt_obj_step (inl : list (string * origin)) (i : nat)
  (st : list (string * object) * schemas) (ko : string * object) : list (string * object) * schemas :=
  let '(objs, cur) := st in
  let '(k, o) := ko in
  let t' := iowt_ty (iowt_lookup inl cur (Some (i, k))) (fun x => x) (o_type o) in
  let cur' := if is_ref (o_type o) then cur else
              match nth_error cur i with
              | Some cs => set_nth cur i (set_objects cs (objs_set (s_objects cs) k (set_otype o t')))
              | None => cur
              end in
  (add_object objs (set_otype o t'), cur').
Definition iowt_sch_step (inl : list (string * origin)) (acc : schemas * (schemas * nat)) (s : schema)
  : schemas * (schemas * nat) :=
  let '(out, (cur, i)) := acc in
  let et := iowt_ty (iowt_lookup inl cur None) (fun x => x) (s_entrytype s) in
  let '(objs, cur') := fold_left (iowt_obj_step inl i) (s_objects s) ([], cur) in
  (out ++ [mkSchema (s_pkg s) (s_meta s) (s_entry s) et objs], (cur', S i)).
Lemma iowt_visit_eq inl ss : iowt_visit inl ss = fst (fold_left (iowt_sch_step inl) ss ([], (ss, 0))).
Proof. reflexivity. Qed.

(* ---------- small facts about the maps involved ---------- *)
Lemma objs_get_in : forall l k o, objs_get l k = Some o -> In (k, o) l.
Proof.
  induction l as [|[k' o'] r IH]; simpl; intros k o H; [discriminate|].
  destruct (seqb k' k) eqn:E; [|right; apply IH; assumption].
  apply seqb_eq in E. subst k'. inversion H; subst. left; reflexivity.
Qed.
Lemma objs_get_nodup : forall l k o, NoDup (map fst l) -> In (k, o) l -> objs_get l k = Some o.
Proof.
  induction l as [|[k' o'] r IH]; simpl; intros k o Hn Hin; [contradiction|].
  inversion Hn as [|? ? Hnot Hr]; subst. destruct Hin as [E|Hin].
  - inversion E; subst. rewrite seqb_refl. reflexivity.
  - destruct (seqb k' k) eqn:E; [|apply IH; assumption].
    apply seqb_eq in E. subst k'. exfalso. apply Hnot. apply in_map_iff. exists (k, o). split; [reflexivity|assumption].
Qed.
Lemma alist_find_in {V} : forall (l : list (string * V)) k v, alist_find l k = Some v -> In (k, v) l.
Proof.
  induction l as [|[k' v'] r IH]; simpl; intros k v H; [discriminate|].
  destruct (seqb k' k) eqn:E; [|right; apply IH; assumption].
  apply seqb_eq in E. subst k'. inversion H; subst. left; reflexivity.
Qed.
Lemma objs_get_set : forall l k v n, objs_get (objs_set l k v) n = if seqb k n then Some v else objs_get l n.
Proof.
  induction l as [|[k' o'] r IH]; simpl; intros k v n; [reflexivity|].
  destruct (seqb k' k) eqn:E; simpl.
  - apply seqb_eq in E. subst k'. destruct (seqb k n); reflexivity.
  - rewrite IH. destruct (seqb k' n) eqn:E1; [|reflexivity]. destruct (seqb k n) eqn:E2; [|reflexivity].
    apply seqb_eq in E1, E2. subst. rewrite seqb_refl in E. discriminate.
Qed.
Lemma nth_error_set_nth {A} : forall (l : list A) i x j,
  nth_error (set_nth l i x) j = if Nat.eqb i j then match nth_error l i with Some _ => Some x | None => None end else nth_error l j.
Proof.
  induction l as [|y r IH]; intros i x j.
  - simpl. destruct i, j; simpl; try reflexivity. destruct (Nat.eqb i j); reflexivity.
  - destruct i, j; simpl; try reflexivity. apply IH.
Qed.
Fixpoint nodupb (l : list string) : bool :=
  match l with [] => true | x :: r => negb (existsb (seqb x) r) && nodupb r end.
Lemma nodupb_NoDup l : nodupb l = true -> NoDup l.
Proof.
  induction l as [|x r IH]; simpl; intros H; [constructor|]. apply andb_true_iff in H. destruct H as [H1 H2].
  constructor; [|apply IH; assumption]. intros Hin. apply negb_true_iff in H1.
  pose proof (proj1 (existsb_false_iff _ _) H1 x Hin) as Hx. rewrite seqb_refl in Hx. discriminate.
Qed.

Section IowtVisit.
  Variable inl : list (string * origin).
  Variable ss : schemas.
  Definition kfree (r : string * string) : Prop := alist_has inl (ref_str (fst r) (snd r)) = false.
  Definition ibase (r : string * string) : Prop := In r (flat_map schema_refs ss).
  Definition igood (r : string * string) : Prop := ibase r /\ kfree r.
  (* every inlined object has a type, free of references to inlined objects *)
  Hypothesis HC : forall key og, In (key, og) inl ->
    exists t, view_type ss og = Some t /\ forall r, In r (all_refs t) -> kfree r.
  (* the references the pass does not visit name no inlined object *)
  Hypothesis HHe : forall s, In s ss -> forall r, In r (hid_refs (s_entrytype s)) -> kfree r.
  Hypothesis HHo : forall s ko, In s ss -> In ko (s_objects s) -> forall r, In r (hid_refs (o_type (snd ko))) -> kfree r.
  Hypothesis HK : forall s, In s ss -> NoDup (map fst (s_objects s)).

  Lemma view_base og t : view_type ss og = Some t -> forall r, In r (all_refs t) -> ibase r.
  Proof.
    unfold view_type. destruct (nth_error ss (fst og)) as [s|] eqn:En; [|discriminate].
    destruct (objs_get (s_objects s) (snd og)) as [o|] eqn:Eg; [|discriminate]. intros E r Hr. inversion E; subst.
    apply nth_error_In in En. apply objs_get_in in Eg. unfold ibase. apply in_flat_map. exists s. split; [assumption|].
    unfold schema_refs. apply in_or_app. right. apply in_flat_map. exists (snd og, o). split; assumption.
  Qed.
  Lemma obj_base s k o : In s ss -> In (k, o) (s_objects s) -> forall r, In r (all_refs (o_type o)) -> ibase r.
  Proof.
    intros Hs Hko r Hr. unfold ibase. apply in_flat_map. exists s. split; [assumption|].
    unfold schema_refs. apply in_or_app. right. apply in_flat_map. exists (k, o). split; assumption.
  Qed.

  Definition iinv (cur : schemas) : Prop := forall key og, In (key, og) inl -> view_type cur og = view_type ss og.
  Definition is_org (me : origin) : bool :=
    existsb (fun kv => Nat.eqb (fst (snd kv)) (fst me) && seqb (snd (snd kv)) (snd me)) inl.

  Lemma lookup_notself cur me key partial : is_org me = false ->
    iowt_lookup inl cur (Some me) key partial = iowt_lookup inl cur None key partial.
  Proof.
    intros Ho. unfold iowt_lookup. destruct (alist_find inl key) as [og|] eqn:Ef; [|reflexivity].
    apply alist_find_in in Ef. unfold is_org in Ho. pose proof (proj1 (existsb_false_iff _ _) Ho (key, og) Ef) as Hx.
    cbn [fst snd] in Hx. rewrite Hx. reflexivity.
  Qed.
  Lemma lookup_free cur self key partial : alist_has inl key = false -> iowt_lookup inl cur self key partial = None.
  Proof. unfold alist_has, iowt_lookup. destruct (alist_find inl key); [discriminate|reflexivity]. Qed.

  Lemma lookup_some_good cur : iinv cur -> forall key partial r0,
    iowt_lookup inl cur None key partial = Some r0 -> forall r, In r (all_refs r0) -> igood r.
  Proof.
    intros Hinv key partial r0 H r Hr. unfold iowt_lookup in H. destruct (alist_find inl key) as [og|] eqn:Ef; [|discriminate].
    apply alist_find_in in Ef. rewrite (Hinv _ _ Ef) in H. destruct (HC _ _ Ef) as [t [Ht Hfree]]. rewrite Ht in H. inversion H; subst.
    split; [eapply view_base; eassumption|apply Hfree; assumption].
  Qed.
  Lemma lookup_none_good cur : iinv cur -> forall p n partial,
    iowt_lookup inl cur None (ref_str p n) partial = None -> ibase (p, n) -> igood (p, n).
  Proof.
    intros Hinv p n partial H Hb. split; [assumption|]. unfold kfree, alist_has. simpl. unfold iowt_lookup in H.
    destruct (alist_find inl (ref_str p n)) as [og|] eqn:Ef; [|reflexivity].
    apply alist_find_in in Ef. rewrite (Hinv _ _ Ef) in H. destruct (HC _ _ Ef) as [t [Ht _]]. rewrite Ht in H. discriminate.
  Qed.

  (* one object *)
  Lemma obj_result cur i s k o : iinv cur -> nth_error ss i = Some s -> In (k, o) (s_objects s) ->
    iowt_post igood (iowt_ty (iowt_lookup inl cur (Some (i, k))) (fun x => x) (o_type o)) /\
    (is_org (i, k) = true -> iowt_ty (iowt_lookup inl cur (Some (i, k))) (fun x => x) (o_type o) = o_type o).
  Proof.
    intros Hinv Hn Hko. pose proof (nth_error_In _ _ Hn) as Hs. destruct (is_org (i, k)) eqn:Eo.
    - unfold is_org in Eo. apply existsb_exists in Eo. destruct Eo as [[key [j n]] [Hin E]]. simpl in E.
      apply andb_true_iff in E. destruct E as [E1 E2]. apply Nat.eqb_eq in E1. apply seqb_eq in E2. subst j n.
      destruct (HC _ _ Hin) as [t [Ht Hfree]]. unfold view_type in Ht. simpl in Ht. rewrite Hn in Ht.
      rewrite (objs_get_nodup _ _ _ (HK s Hs) Hko) in Ht. inversion Ht; subst t. clear Ht.
      assert (iowt_ty (iowt_lookup inl cur (Some (i, k))) (fun x => x) (o_type o) = o_type o) as Esame.
      { apply iowt_ty_same. intros r Hr partial. apply lookup_free. apply Hfree. apply all_refs_vis_hid. left. exact Hr. }
      rewrite Esame. split; [|reflexivity]. intros r Hr. split; [eapply obj_base; eassumption|apply Hfree; exact Hr].
    - split; [|discriminate]. apply (iowt_ty_good _ ibase igood).
      + intros key partial r0 H. rewrite (lookup_notself _ _ _ _ Eo) in H. eapply lookup_some_good; eassumption.
      + intros p n partial H. rewrite (lookup_notself _ _ _ _ Eo) in H. eapply lookup_none_good; eassumption.
      + split; intros r Hr.
        * eapply obj_base; [exact Hs|exact Hko|]. apply all_refs_vis_hid. left. exact Hr.
        * split; [eapply obj_base; [exact Hs|exact Hko|]; apply all_refs_vis_hid; right; exact Hr|].
          exact (HHo s (k, o) Hs Hko r Hr).
  Qed.

  Lemma obj_step_inv cur i s k o objs : iinv cur -> nth_error ss i = Some s -> In (k, o) (s_objects s) ->
    iinv (snd (iowt_obj_step inl i (objs, cur) (k, o))).
  Proof.
    intros Hinv Hn Hko. pose proof (nth_error_In _ _ Hn) as Hs. unfold iowt_obj_step. cbn [snd].
    destruct (is_ref (o_type o)); [assumption|]. destruct (nth_error cur i) as [cs|] eqn:En; [|assumption].
    intros key [j n] Hin. rewrite <- (Hinv key (j, n) Hin). unfold view_type. cbn [fst snd]. rewrite nth_error_set_nth.
    destruct (Nat.eqb i j) eqn:Eij; [|reflexivity]. apply Nat.eqb_eq in Eij. subst j. rewrite En. cbn [s_objects set_objects].
    rewrite objs_get_set. destruct (seqb k n) eqn:Ekn; [|reflexivity]. apply seqb_eq in Ekn. subst n.
    pose proof (Hinv key (i, k) Hin) as Hv. unfold view_type in Hv. cbn [fst snd] in Hv. rewrite En, Hn in Hv. rewrite Hv.
    rewrite (objs_get_nodup _ _ _ (HK s Hs) Hko). cbn [o_type set_otype]. f_equal.
    apply (proj2 (obj_result cur i s k o Hinv Hn Hko)).
    unfold is_org. apply existsb_exists. exists (key, (i, k)). split; [assumption|]. simpl. rewrite Nat.eqb_refl, seqb_refl. reflexivity.
  Qed.

  (* what an object of the result is: an object of the input, rewritten under some view that agrees with the input on
     the inlined objects *)
  Definition idesc (s : schema) (k0 : string) (o' : object) : Prop :=
    exists k o cur i, In (k, o) (s_objects s) /\ iinv cur /\ nth_error ss i = Some s /\
      o' = set_otype o (iowt_ty (iowt_lookup inl cur (Some (i, k))) (fun x => x) (o_type o)) /\ k0 = o_name o.
  Definition pobj (s : schema) (objs : list (string * object)) : Prop :=
    forall k0 o', In (k0, o') objs -> idesc s k0 o'.

  Lemma obj_fold i s : nth_error ss i = Some s -> forall l, (forall ko, In ko l -> In ko (s_objects s)) ->
    forall objs cur, iinv cur -> pobj s objs ->
    iinv (snd (fold_left (iowt_obj_step inl i) l (objs, cur))) /\ pobj s (fst (fold_left (iowt_obj_step inl i) l (objs, cur))).
  Proof.
    intros Hn. induction l as [|[k o] r IH]; intros Hl objs cur Hinv Hp; [split; assumption|].
    cbn [fold_left]. pose proof (Hl (k, o) (or_introl eq_refl)) as Hko.
    pose proof (obj_step_inv cur i s k o objs Hinv Hn Hko) as Hinv1.
    assert (pobj s (fst (iowt_obj_step inl i (objs, cur) (k, o)))) as Hp1.
    { unfold iowt_obj_step. cbn [fst]. intros k0 o' Hin. unfold add_object in Hin. apply objs_set_in_kv in Hin.
      destruct Hin as [Hin|[E1 E2]]; [apply Hp; exact Hin|].
      exists k, o, cur, i. split; [exact Hko|split; [exact Hinv|split; [exact Hn|split; [exact E2|exact E1]]]]. }
    destruct (iowt_obj_step inl i (objs, cur) (k, o)) as [objs1 cur1]. apply IH; [intros ko Hin; apply Hl; right; exact Hin|assumption|assumption].
  Qed.

  Lemma obj_fold_has i : forall l objs cur n,
    (objs_has objs n = true \/ exists ko, In ko l /\ o_name (snd ko) = n) ->
    objs_has (fst (fold_left (iowt_obj_step inl i) l (objs, cur))) n = true.
  Proof.
    induction l as [|[k o] r IH]; intros objs cur n H; [destruct H as [H|[ko [[] _]]]; exact H|].
    cbn [fold_left].
    assert (objs_has (fst (iowt_obj_step inl i (objs, cur) (k, o))) n = true \/ exists ko, In ko r /\ o_name (snd ko) = n) as H1.
    { unfold iowt_obj_step. cbn [fst]. unfold add_object. destruct H as [H|[ko [[E|Hin] Hname]]].
      - left. apply objs_set_has. left. exact H.
      - left. apply objs_set_has. right. subst ko. simpl in Hname. symmetry. exact Hname.
      - right. exists ko. split; assumption. }
    destruct (iowt_obj_step inl i (objs, cur) (k, o)) as [objs1 cur1]. apply IH. exact H1.
  Qed.

  (* one schema of the result against the schema it comes from *)
  Definition irel (s s' : schema) : Prop :=
    s_pkg s' = s_pkg s /\ s_entry s' = s_entry s /\
    (forall n, (exists ko, In ko (s_objects s) /\ o_name (snd ko) = n) -> objs_has (s_objects s') n = true) /\
    (forall r, In r (schema_refs s') -> igood r) /\
    (forall k0 o', In (k0, o') (s_objects s') -> idesc s k0 o').

  Lemma sch_fold : forall l pre out cur, ss = pre ++ l -> iinv cur -> Forall2 irel pre out ->
    Forall2 irel ss (fst (fold_left (iowt_sch_step inl) l (out, (cur, List.length pre)))).
  Proof.
    induction l as [|s r IH]; intros pre out cur Hss Hinv HF; [rewrite app_nil_r in Hss; subst pre; exact HF|].
    cbn [fold_left].
    assert (nth_error ss (List.length pre) = Some s) as Hn.
    { rewrite Hss. rewrite nth_error_app2; [|lia]. rewrite Nat.sub_diag. reflexivity. }
    pose proof (nth_error_In _ _ Hn) as Hs.
    destruct (obj_fold (List.length pre) s Hn (s_objects s) (fun ko H => H) [] cur Hinv (fun k0 o' H => match H with end)) as [Hinv1 Hp1].
    pose proof (obj_fold_has (List.length pre) (s_objects s) [] cur) as Hhas.
    unfold iowt_sch_step at 2.
    destruct (fold_left (iowt_obj_step inl (List.length pre)) (s_objects s) ([], cur)) as [objs cur'] eqn:Ef.
    cbn [fst snd] in Hinv1, Hp1, Hhas.
    replace (S (List.length pre)) with (List.length (pre ++ [s])) by (rewrite app_length; simpl; lia).
    apply IH; [rewrite <- app_assoc; exact Hss|exact Hinv1|].
    apply Forall2_app; [exact HF|]. constructor; [|constructor].
    split; [reflexivity|split; [reflexivity|split; [|split]]].
    - intros n Hex. cbn [s_objects]. apply Hhas. right. exact Hex.
    - intros r0 Hr0. unfold schema_refs in Hr0. cbn [s_entrytype s_objects] in Hr0. apply in_app_or in Hr0. destruct Hr0 as [Hr0|Hr0].
      + revert r0 Hr0. apply (iowt_ty_good _ ibase igood).
        * apply lookup_some_good. exact Hinv.
        * apply lookup_none_good. exact Hinv.
        * split; intros r1 Hr1.
          -- unfold ibase. apply in_flat_map. exists s. split; [exact Hs|]. unfold schema_refs. apply in_or_app. left.
             apply all_refs_vis_hid. left. exact Hr1.
          -- split; [|exact (HHe s Hs r1 Hr1)]. unfold ibase. apply in_flat_map. exists s. split; [exact Hs|]. unfold schema_refs.
             apply in_or_app. left. apply all_refs_vis_hid. right. exact Hr1.
      + apply in_flat_map in Hr0. destruct Hr0 as [[k0 o'] [Hin Hr0]].
        destruct (Hp1 k0 o' Hin) as [k [o [c [i [Hko [Hc [Hni [E _]]]]]]]].
        subst o'. simpl in Hr0. apply (proj1 (obj_result c i s k o Hc Hni Hko)). exact Hr0.
    - intros k0 o' Hin. cbn [s_objects] in Hin. exact (Hp1 k0 o' Hin).
  Qed.

  Lemma iowt_visit_rel : Forall2 irel ss (iowt_visit inl ss).
  Proof.
    rewrite iowt_visit_eq. apply (sch_fold ss [] [] ss eq_refl); [|constructor]. intros key og _. reflexivity.
  Qed.
End IowtVisit.

(* ---------- the pass ---------- *)
(* the order-independent case: the type of every inlined object is free of references to inlined objects (so what is
   inlined does not depend on which objects the pass has already rewritten), no reference the pass does not visit
   (constant references, enum member types, struct hints) and no entry point names an inlined object; keys are
   distinct and every object is its own SelfRef *)
Definition kfreeb (il : list (string * origin)) (r : string * string) : bool :=
  negb (alist_has il (ref_str (fst r) (snd r))).
Definition iowt_refs_safe (kinds : list string) (ss : schemas) : bool :=
  match iowt_collect kinds ss with
  | Ok il =>
      forallb (fun kv => match view_type ss (snd kv) with
                         | Some t => forallb (kfreeb il) (all_refs t)
                         | None => false
                         end) il &&
      forallb (fun s => forallb (kfreeb il) (hid_refs (s_entrytype s)) &&
                        forallb (fun ko => forallb (kfreeb il) (hid_refs (o_type (snd ko)))) (s_objects s) &&
                        nodupb (map fst (s_objects s)) &&
                        kfreeb il (s_pkg s, s_entry s) &&
                        forallb (fun ko => seqb (o_selfname (snd ko)) (o_name (snd ko))) (s_objects s)) ss
  | _ => true
  end.

Lemma objs_get_filter (f : string * object -> bool) : forall l n o,
  objs_get l n = Some o -> f (n, o) = true -> objs_get (filter f l) n = Some o.
Proof.
  induction l as [|[k' o'] r IH]; simpl; intros n o H Hf; [discriminate|].
  destruct (seqb k' n) eqn:E.
  - apply seqb_eq in E. subst k'. inversion H; subst. rewrite Hf. simpl. rewrite seqb_refl. reflexivity.
  - destruct (f (k', o')); [simpl; rewrite E|]; apply IH; assumption.
Qed.

Theorem inline_objects_keeps kinds ss out :
  wfk ss -> refs_ok ss -> entries_ok ss -> iowt_refs_safe kinds ss = true ->
  inline_objects_with_types kinds ss = Ok out ->
  map s_pkg out = map s_pkg ss /\ refs_ok out /\ entries_ok out.
Proof.
  intros HW HR HE Hsafe H. unfold inline_objects_with_types in H. unfold iowt_refs_safe in Hsafe.
  destruct (iowt_collect kinds ss) as [il| | |]; simpl in H; try discriminate. inversion H; subst. clear H.
  apply andb_true_iff in Hsafe. destruct Hsafe as [S1 S2]. rewrite forallb_forall in S1, S2.
  assert (forall s, In s ss ->
            (forall r, In r (hid_refs (s_entrytype s)) -> kfree il r) /\
            (forall ko, In ko (s_objects s) -> forall r, In r (hid_refs (o_type (snd ko))) -> kfree il r) /\
            NoDup (map fst (s_objects s)) /\ kfree il (s_pkg s, s_entry s) /\
            (forall ko, In ko (s_objects s) -> o_selfname (snd ko) = o_name (snd ko))) as HS.
  { intros s Hs. specialize (S2 s Hs). repeat (apply andb_true_iff in S2; destruct S2 as [S2 ?]).
    split; [|split; [|split; [|split]]].
    - intros r Hr. rewrite forallb_forall in S2. apply negb_true_iff. exact (S2 r Hr).
    - intros ko Hko r Hr. rewrite forallb_forall in H2. specialize (H2 ko Hko). rewrite forallb_forall in H2. apply negb_true_iff. exact (H2 r Hr).
    - apply nodupb_NoDup. assumption.
    - apply negb_true_iff. assumption.
    - intros ko Hko. rewrite forallb_forall in H. apply seqb_eq. exact (H ko Hko). }
  pose proof (iowt_visit_rel il ss) as Hrel.
  assert (Forall2 (irel il ss) ss (iowt_visit il ss)) as HF.
  { apply Hrel.
    - intros key og Hin. specialize (S1 (key, og) Hin). cbn [snd] in S1. destruct (view_type ss og) as [t|]; [|discriminate].
      exists t. split; [reflexivity|]. intros r Hr. rewrite forallb_forall in S1. apply negb_true_iff. exact (S1 r Hr).
    - intros s Hs. exact (proj1 (HS s Hs)).
    - intros s ko Hs. exact (proj1 (proj2 (HS s Hs)) ko).
    - intros s Hs. exact (proj1 (proj2 (proj2 (HS s Hs)))). }
  clear Hrel.
  set (F := fun s : schema => set_objects s (filter (fun ko => negb (alist_has il (self_str (snd ko)))) (s_objects s))).
  set (rm := fun p n : string => alist_has il (ref_str p n)).
  assert (Forall2 (fun s s' => irel il ss s s' /\ In s ss) ss (iowt_visit il ss)) as HF2.
  { clear -HF. assert (forall l, (forall s, In s l -> In s ss) -> forall v, Forall2 (irel il ss) l v ->
                         Forall2 (fun s s' => irel il ss s s' /\ In s ss) l v) as G.
    { intros l Hl v HFv. induction HFv as [|s s' r r' Hss' _ IH]; [constructor|].
      constructor; [split; [exact Hss'|apply Hl; left; reflexivity]|apply IH; intros s0 Hs0; apply Hl; right; exact Hs0]. }
    apply G; [intros s Hs; exact Hs|exact HF]. }
  assert (shape_rm rm ss (map F (iowt_visit il ss))) as Hsh.
  { clear -HF2 HW HS. induction HF2 as [|s s' r r' [[Hp [He [Hhas [_ Hobj]]]] Hs] _ IH]; [constructor|]. simpl. constructor; [|exact IH].
    split; [exact Hp|split; [exact He|]]. intros n Hn Hrm. unfold F. cbn [s_objects set_objects]. unfold objs_has in *.
    destruct (objs_get (s_objects s) n) as [o|] eqn:Eg; [|discriminate]. apply objs_get_in in Eg.
    destruct (HW s (n, o) Hs Eg) as [Ename _]. simpl in Ename.
    assert (objs_has (s_objects s') n = true) as Hn' by (apply Hhas; exists (n, o); split; [exact Eg|symmetry; exact Ename]).
    unfold objs_has in Hn'. destruct (objs_get (s_objects s') n) as [o'|] eqn:Eg'; [|discriminate].
    rewrite (objs_get_filter _ _ _ _ Eg'); [reflexivity|]. cbn [snd].
    destruct (Hobj n o' (objs_get_in _ _ _ Eg')) as [k0 [o0 [c0 [i0 [Hin0 [_ [_ [Eo' En]]]]]]]]. subst o'.
    destruct (HW s (k0, o0) Hs Hin0) as [_ Epkg]. simpl in Epkg.
    pose proof (proj2 (proj2 (proj2 (proj2 (HS s Hs)))) (k0, o0) Hin0) as Eself. simpl in Eself.
    unfold self_str. cbn [o_selfpkg o_selfname set_otype]. rewrite Epkg, Eself, <- En. unfold rm in Hrm. rewrite Hrm. reflexivity. }
  assert (forall s'' r, In s'' (map F (iowt_visit il ss)) -> In r (schema_refs s'') -> igood il ss r) as Hgood.
  { intros s'' r Hs'' Hr. apply in_map_iff in Hs''. destruct Hs'' as [s' [<- Hs']].
    destruct (Forall2_in_r _ _ _ HF s' Hs') as [s [_ [_ [_ [_ [Hrefs _]]]]]]. apply Hrefs.
    unfold schema_refs in *. unfold F in Hr. cbn [s_entrytype s_objects set_objects] in Hr. apply in_app_or in Hr. apply in_or_app.
    destruct Hr as [Hr|Hr]; [left; exact Hr|right]. apply in_flat_map in Hr. destruct Hr as [ko [Hko Hr]].
    apply filter_In in Hko. apply in_flat_map. exists ko. split; [exact (proj1 Hko)|exact Hr]. }
  split; [eapply shape_rm_pkgs; exact Hsh|split].
  - apply (refs_kept_rm rm ss _ (flat_map schema_refs (map F (iowt_visit il ss))) HR Hsh).
    + intros r Hr. apply in_flat_map in Hr. destruct Hr as [s'' [Hs'' Hr]]. exact (proj1 (Hgood s'' r Hs'' Hr)).
    + intros r Hr. apply in_flat_map in Hr. destruct Hr as [s'' [Hs'' Hr]]. exact (proj2 (Hgood s'' r Hs'' Hr)).
    + intros s'' r Hs'' Hr. apply in_flat_map. exists s''. split; assumption.
  - eapply entries_kept_rm; [exact HE|exact Hsh|]. intros s Hs. exact (proj1 (proj2 (proj2 (proj2 (HS s Hs))))).
Qed.

(* ---------- the PHP chain, complete ---------- *)
Definition tame_php_refs (ss : schemas) : bool :=
  match process (removelast chain_php) ss with Ok mid => iowt_refs_safe php_inline_kinds mid | _ => true end.

Theorem php_chain_keeps_references ss out :
  wf_refs_input ss -> tame_php_refs ss = true -> refs_ok ss -> entries_ok ss -> process chain_php ss = Ok out ->
  refs_ok out /\ entries_ok out.
Proof.
  intros W Ht R0 E0 H. unfold tame_php_refs in Ht.
  assert (chain_php = removelast chain_php ++ [PInlineObjectsWithTypes php_inline_kinds]) as Esplit by reflexivity.
  rewrite Esplit, process_app in H.
  destruct (process (removelast chain_php) ss) as [mid| | |] eqn:Emid; simpl in H; try discriminate.
  destruct (inline_objects_with_types php_inline_kinds mid) as [out'| | |] eqn:Er; simpl in H; try discriminate. inversion H; subst.
  destruct (php_core_chain_keeps_references _ _ W R0 E0 Emid) as [[W1 _] [R1 E1]].
  destruct (inline_objects_keeps _ _ _ W1 R1 E1 Ht Er) as [_ X]. exact X.
Qed.

Local Open Scope string_scope.
(* an array object referred to from a field: inlined and removed, nothing dangles; the witness of the finding is
   exactly a case the condition excludes (the inlined X itself refers to the inlined Y) *)
Definition w_inline_closed : schemas :=
  [mkSchema "p" wm0 "" ty_zero
    [("S", mkObject "S" [] (TStruct A0 [] [mkField "x" [] (TRef A0 "p" "X") true]) "p" "S");
     ("X", mkObject "X" [] (TArray A0 (xSc KString)) "p" "X")]].
Example iowt_refs_safe_nonvacuous :
  (iowt_refs_safe ["scalar"; "array"] w_inline_closed = true /\ resolves w_inline_closed = true /\
   exists out, inline_objects_with_types ["scalar"; "array"] w_inline_closed = Ok out /\ resolves out = true /\
               List.length (objects_of out) < List.length (objects_of w_inline_closed)) /\
  (iowt_refs_safe ["scalar"; "array"] w_inline_dangling = false /\ resolves w_inline_dangling = true /\
   exists out, inline_objects_with_types ["scalar"; "array"] w_inline_dangling = Ok out /\ resolves out = false).
Proof.
  split; (split; [vm_compute; reflexivity|split; [vm_compute; reflexivity|]]);
    eexists; repeat split; vm_compute; try reflexivity.
Qed.
Local Close Scope string_scope.

(* =====================================================================================
   the TypeScript chain, and non-vacuity of the chain theorems of this file and of ChainRefsProofs.v
   ===================================================================================== *)
Theorem typescript_chain_keeps_resolving ss out :
  wf_refs_input ss -> resolves ss = true -> process chain_typescript ss = Ok out -> resolves out = true.
Proof.
  intros [W U] Hres H. apply resolves_iff in Hres. destruct Hres as [R [E M]].
  unfold chain_typescript in H. simpl in H. inversion H; subst. clear H.
  destruct (rnev_keeps _ W U R E) as [_ [_ [_ [R1 E1]]]]. apply resolves_iff.
  split; [exact R1|split; [exact E1|apply rnev_keeps_mappings; exact M]].
Qed.

Ltac wf_single :=
  split; [intros s ko [<-|[]] Hko; simpl in Hko; repeat (destruct Hko as [<-|Hko]; [split; reflexivity|]); destruct Hko
         |unfold pkgs_unique; simpl; constructor; [intros []|constructor]].

Example go_chain_references_nonvacuous :
  wf_refs_input w_tame /\ no_mappings w_tame = true /\ resolves w_tame = true /\
  exists out, process chain_go w_tame = Ok out /\ resolves out = true /\
              List.length (objects_of w_tame) < List.length (objects_of out).
Proof.
  split; [wf_single|]. split; [vm_compute; reflexivity|]. split; [vm_compute; reflexivity|].
  eexists. split; [vm_compute; reflexivity|]. split; [vm_compute; reflexivity|vm_compute; lia].
Qed.
Example java_chain_references_nonvacuous :
  wf_refs_input w_alias_unreferred /\ tame_java_refs w_alias_unreferred = true /\ no_mappings w_alias_unreferred = true /\
  resolves w_alias_unreferred = true /\
  exists mid out, process (removelast chain_java) w_alias_unreferred = Ok mid /\ process chain_java w_alias_unreferred = Ok out /\
                  resolves out = true /\ List.length (objects_of out) < List.length (objects_of mid).
Proof.
  split; [wf_single|]. split; [vm_compute; reflexivity|]. split; [vm_compute; reflexivity|]. split; [vm_compute; reflexivity|].
  eexists. eexists. split; [vm_compute; reflexivity|]. split; [vm_compute; reflexivity|]. split; [vm_compute; reflexivity|vm_compute; lia].
Qed.
Example php_chain_references_nonvacuous :
  wf_refs_input w_inline_closed /\ tame_php_refs w_inline_closed = true /\ resolves w_inline_closed = true /\
  exists out, process chain_php w_inline_closed = Ok out /\ resolves out = true /\
              List.length (objects_of out) < List.length (objects_of w_inline_closed).
Proof.
  split; [wf_single|]. split; [vm_compute; reflexivity|]. split; [vm_compute; reflexivity|].
  eexists. split; [vm_compute; reflexivity|]. split; [vm_compute; reflexivity|vm_compute; lia].
Qed.
