(* C13 — "equal encodings => Equals", the partial theorem.
   For values satisfying the decidable side condition enc_faithful (Model/GoSemSpec13P.v: no
   time.Time leaf, no disjunction struct, no repeated field name, floats / any in normal form),
   json_eq of the encodings implies the generated Equals.  No keys_aligned hypothesis: equal
   encodings force equal key sets.  Every exclusion comes with a witness showing it is needed. *)
From Coq Require Import List String ZArith Bool Ascii Arith Lia.
From Cog Require Import Model.GoSem Model.GoSemSpec13P Proofs.GoSemEqualsProofs Proofs.GoSemC01Json
  Proofs.GoSemEqualsEncLemmas.
Import ListNotations.
Local Open Scope list_scope.
Local Open Scope string_scope.

(* ====================================================================== *)
(* list lemmas                                                            *)
(* ====================================================================== *)
Lemma all2_from_map {A} (P Q : A -> bool) (g : A -> json) (f : A -> A -> bool) la lb :
  Forall (fun x => forall y, P x = true -> P y = true -> Q x = true -> Q y = true ->
                             canon (g x) = canon (g y) -> f x y = true) la ->
  forallb P la = true -> forallb P lb = true -> forallb Q la = true -> forallb Q lb = true ->
  map canon (map g la) = map canon (map g lb) -> all2 f la lb = true.
Proof.
  intros H; revert lb; induction H as [|x r Hx Hr IH]; intros [|y s] Pa Pb Qa Qb E; simpl in *;
    try discriminate; auto.
  apply andb_true_iff in Pa, Pb, Qa, Qb. destruct Pa, Pb, Qa, Qb. inversion E.
  rewrite Hx, IH; auto.
Qed.

Lemma enc_fields_keys ctx : forall fa fs k, In k (map fst (enc_fields ctx fs fa)) -> In k (map f_name fs).
Proof.
  induction fa as [|[n x] ar IH]; intros [|f fr] k H; simpl in H; try contradiction.
  destruct (negb (f_required f) && is_empty_value x)%bool.
  - right. eapply IH; eauto.
  - simpl in H. destruct H as [H|H]; [left; exact H|right; eapply IH; eauto].
Qed.

Lemma enc_fields_nodup ctx : forall fa fs, NoDup (map f_name fs) -> NoDup (map fst (enc_fields ctx fs fa)).
Proof.
  induction fa as [|[n x] ar IH]; intros [|f fr] N; simpl; try constructor.
  inversion N; subst. destruct (negb (f_required f) && is_empty_value x)%bool.
  - apply IH; auto.
  - simpl. constructor; [|apply IH; auto]. intros H. apply H1. eapply enc_fields_keys; eauto.
Qed.

Lemma afind_enc_cons ctx f fr n x ar k :
  afind k (enc_fields ctx (f :: fr) ((n, x) :: ar)) =
  if (negb (f_required f) && is_empty_value x)%bool then afind k (enc_fields ctx fr ar)
  else if String.eqb (f_name f) k then Some (encode ctx (f_type f) x) else afind k (enc_fields ctx fr ar).
Proof. simpl. destruct (negb (f_required f) && is_empty_value x)%bool; reflexivity. Qed.

Lemma afind_enc_absent ctx fr ar k : ~ In k (map f_name fr) -> afind k (enc_fields ctx fr ar) = None.
Proof. intros H. apply afind_none. intros X. apply H. eapply enc_fields_keys; eauto. Qed.

Lemma same_keys_length {V W} (la : list (string * V)) (lb : list (string * W)) :
  NoDup (map fst la) -> NoDup (map fst lb) ->
  (forall k, In k (map fst la) <-> In k (map fst lb)) -> List.length la = List.length lb.
Proof.
  intros Na Nb H. rewrite <- (map_length fst la), <- (map_length fst lb). apply Nat.le_antisymm.
  - apply NoDup_incl_length; auto. intros k. apply H.
  - apply NoDup_incl_length; auto. intros k. apply H.
Qed.

(* ====================================================================== *)
(* the induction                                                          *)
(* ====================================================================== *)
Section Inj.
  Variable ctx : schemas.
  Hypothesis Hc : ctx_supported ctx = true.

  Definition encinj (a : gval) : Prop :=
    forall t b, ty_supported ctx t = true -> wt ctx t a = true -> wt ctx t b = true ->
                enc_faithful ctx t a = true -> enc_faithful ctx t b = true ->
                canon (encode ctx t a) = canon (encode ctx t b) ->
                eqc ctx t (t_nullable t) a b = true.

  Lemma inj_leaf a : is_leaf a = true -> encinj a.
  Proof.
    intros L t b Hs Ha Hb Fa Fb E.
    destruct (wt_leaf_inv _ _ _ L Ha) as [Hany [Hptr [pt [Hpt Hl]]]].
    destruct (leaf_ty_shape _ _ Hl) as [S1 [S2 S3]].
    rewrite (nullable_is_ptr _ _ _ Hs Hany Hpt S1 S2), Hptr.
    rewrite (eqc_gen _ _ _ _ _ _ Hany Hpt S1 S2).
    pose proof (cf_leaf _ _ _ _ Hany Hptr Hpt S1 S2 S3 Hb) as Lb.
    destruct (wt_leaf_inv _ _ _ Lb Hb) as [_ [_ [pt' [Hpt' Hl']]]].
    rewrite Hpt in Hpt'. inversion Hpt'; subst pt'.
    pose proof (leaf_inj _ _ _ _ _ L Lb Hl Hl' Fa Fb E) as X.
    destruct pt; try discriminate; exact X.
  Qed.

  (* two omitted members *)
  Lemma inj_empty t x y : ty_supported ctx t = true -> wt ctx t x = true -> wt ctx t y = true ->
    is_empty_value x = true -> is_empty_value y = true ->
    enc_faithful ctx t x = true -> enc_faithful ctx t y = true ->
    eqc ctx t (t_nullable t) x y = true.
  Proof.
    intros Hs Wx Wy Ex Ey Fx Fy. pose proof (empty_vsim _ _ _ _ Wx Wy Ex Ey Fx Fy) as V.
    rewrite (eqc_vsim ctx Hc x t y Hs Wx Wy (vsim_aligned _ _ V)). exact V.
  Qed.

  Lemma inj_fields : forall fa fs fb,
    Forall (fun kv => encinj (snd kv)) fa ->
    forallb (fun f => ty_supported ctx (f_type f)) fs = true ->
    NoDup (map f_name fs) ->
    wt_fields ctx fs fa = true -> wt_fields ctx fs fb = true ->
    ef_fields ctx fs fa = true -> ef_fields ctx fs fb = true ->
    (forall k, option_map canon (afind k (enc_fields ctx fs fa)) =
               option_map canon (afind k (enc_fields ctx fs fb))) ->
    eq_fields ctx fs fa fb = true.
  Proof.
    intros fa fs fb H; revert fs fb; induction H as [|[n x] ar Hx Hr IH]; intros fs fb Hs N Wa Wb Fa Fb HK.
    - destruct fs; simpl in Wa; try discriminate. destruct fb as [|[n' y] br]; simpl in Wb; try discriminate. reflexivity.
    - destruct fs as [|f fr]; simpl in Wa; try discriminate.
      destruct fb as [|[n' y] br]; simpl in Wb; try discriminate.
      simpl in Hs. apply andb_true_iff in Hs. destruct Hs as [Hs1 Hs2].
      apply andb_true_iff in Wa. destruct Wa as [Wa Wa3]. apply andb_true_iff in Wa. destruct Wa as [Wa1 Wa2].
      apply andb_true_iff in Wb. destruct Wb as [Wb Wb3]. apply andb_true_iff in Wb. destruct Wb as [Wb1 Wb2].
      simpl in Fa, Fb. apply andb_true_iff in Fa, Fb. destruct Fa as [Fa1 Fa2], Fb as [Fb1 Fb2].
      simpl in N. inversion N as [|? ? Nin Nr]; subst.
      simpl in Hx. simpl. apply andb_true_iff. split.
      + pose proof (HK (f_name f)) as K0. rewrite !afind_enc_cons, String.eqb_refl in K0.
        rewrite !(afind_enc_absent _ _ _ _ Nin) in K0.
        destruct (negb (f_required f) && is_empty_value x)%bool eqn:Oa;
          destruct (negb (f_required f) && is_empty_value y)%bool eqn:Ob; simpl in K0; try discriminate.
        * apply andb_true_iff in Oa, Ob. destruct Oa as [_ Oa], Ob as [_ Ob]. apply inj_empty; auto.
        * inversion K0 as [K1]. apply Hx; auto.
      + apply IH; auto. intros k. pose proof (HK k) as K0. rewrite !afind_enc_cons in K0.
        destruct (String.eqb (f_name f) k) eqn:E.
        * apply String.eqb_eq in E. subst k. rewrite !(afind_enc_absent _ _ _ _ Nin). reflexivity.
        * destruct (negb (f_required f) && is_empty_value x)%bool;
            destruct (negb (f_required f) && is_empty_value y)%bool; exact K0.
  Qed.

  Theorem enc_inj : forall a, encinj a.
  Proof.
    induction a using gval_ind'.
    2-6: apply inj_leaf; reflexivity.
    - (* GNil *)
      intros t b Hs Ha Hb Fa Fb E. cbn [encode canon] in E. symmetry in E.
      apply enc_not_null in E; auto. subst b. apply equals_refl. auto.
    - (* GPtr *)
      intros t b Hs Ha Hb Fa Fb E.
      destruct (wt_ptr_inv _ _ _ Ha) as [Hany [Hptr [[pt Hpt] [Hx Hwx]]]].
      pose proof (is_ptr_nullable _ Hptr) as Hn.
      destruct (cf_ptr _ _ _ Hany Hptr Hb) as [-> | [y [-> [Hy Hwy]]]].
      + change (canon (encode ctx t GNil)) with JNull in E. apply enc_not_null in E; auto. discriminate.
      + rewrite Hn, (eqc_ptr _ _ _ _ Hptr Hx Hy).
        pose proof (IHa (non_null t) y (supported_non_null _ _ Hs) Hwx Hwy Fa Fb E) as X.
        rewrite non_null_nullable in X. exact X.
    - (* GSlice *)
      intros t b Hs Ha Hb Fa Fb E.
      destruct (wt_slice_inv _ _ _ Ha) as [Hany [Hptr [a0 [et [Hpt Hwl]]]]].
      pose proof (payload_or_self_eq _ _ _ Hpt) as Hp.
      pose proof (payload_supported _ _ _ Hc Hs Hpt) as Hse. simpl in Hse. apply andb_true_iff in Hse. destruct Hse as [_ Hse].
      rewrite (eqc_arr _ _ _ _ _ _ _ Hany Hpt), (needs_false _ Hptr). cbn [andb].
      rewrite (enc_slice _ _ _ _ _ Hp) in E. rewrite (ef_slice _ _ _ _ _ Hp) in Fa.
      destruct (cf_arr _ _ _ _ _ Hany Hptr Hpt Hb) as [-> | [l' [-> Hwl']]].
      + discriminate.
      + rewrite (enc_slice _ _ _ _ _ Hp) in E. rewrite (ef_slice _ _ _ _ _ Hp) in Fb.
        rewrite !canon_arr in E. inversion E as [E']. simpl.
        apply (all2_from_map (wt ctx et) (enc_faithful ctx et) (encode ctx et)); auto.
        eapply Forall_impl; [|exact H]. intros x Hx y W1 W2 F1 F2 EE. apply Hx; auto.
    - (* GMap *)
      intros t b Hs Ha Hb Fa Fb E.
      destruct (wt_map_inv _ _ _ Ha) as [Hany [Hptr [a0 [it [vt [Hpt [Hnd Hwl]]]]]]].
      pose proof (payload_or_self_eq _ _ _ Hpt) as Hp.
      pose proof (payload_supported _ _ _ Hc Hs Hpt) as Hse. simpl in Hse.
      apply andb_true_iff in Hse. destruct Hse as [_ Hse].
      rewrite (eqc_map _ _ _ _ _ _ _ _ Hany Hpt), (needs_false _ Hptr). cbn [andb].
      rewrite (enc_map _ _ _ _ _ _ Hp) in E. rewrite (ef_map _ _ _ _ _ _ Hp) in Fa.
      destruct (cf_map _ _ _ _ _ _ Hany Hptr Hpt Hb) as [-> | [l' [-> [Hnd' Hwl']]]].
      + discriminate.
      + rewrite (enc_map _ _ _ _ _ _ Hp) in E. rewrite (ef_map _ _ _ _ _ _ Hp) in Fb.
        apply str_nodup_NoDup in Hnd, Hnd'.
        assert (HK : forall k, option_map canon (option_map (encode ctx vt) (afind k l)) =
                               option_map canon (option_map (encode ctx vt) (afind k l'))).
        { intros k. rewrite <- !(afind_map (encode ctx vt)). apply canon_obj_find; auto; rewrite map_fst_map; auto. }
        simpl. unfold eq_map. apply andb_true_iff. split.
        * apply Nat.eqb_eq. apply same_keys_length; auto. intros k.
          pose proof (HK k) as K0.
          destruct (afind k l) eqn:A1; destruct (afind k l') eqn:A2; simpl in K0; try discriminate.
          -- apply afind_in in A1, A2. split; intros _.
             ++ apply (in_map fst) in A2. exact A2.
             ++ apply (in_map fst) in A1. exact A1.
          -- apply afind_none in A1, A2. tauto.
        * apply forallb_forall. intros [k x] HI. simpl.
          pose proof (HK k) as K0. rewrite (in_afind _ _ _ Hnd HI) in K0. rewrite gmap_find_afind.
          destruct (afind k l') as [y|] eqn:A2; simpl in K0; try discriminate.
          inversion K0 as [K1]. apply afind_in in A2.
          rewrite Forall_forall in H. rewrite forallb_forall in Hwl, Hwl', Fa, Fb.
          exact (H _ HI vt y Hse (Hwl _ HI) (Hwl' _ A2) (Fa _ HI) (Fb _ A2) K1).
    - (* GStruct *)
      intros t b Hs Ha Hb Fa Fb E.
      destruct (wt_struct_inv _ _ _ Ha) as [Hany [Hptr [a0 [dh [fs [Hpt [Hu Hwl]]]]]]].
      pose proof (payload_or_self_eq _ _ _ Hpt) as Hp.
      pose proof (payload_supported _ _ _ Hc Hs Hpt) as Hse. simpl in Hse.
      rewrite (nullable_is_ptr _ _ _ Hs Hany Hpt eq_refl eq_refl), Hptr.
      rewrite (eqc_gen _ _ _ _ _ _ Hany Hpt eq_refl eq_refl).
      destruct (cf_struct _ _ _ _ _ _ Hany Hptr Hpt Hb) as [l' [-> [Hu' Hwl']]].
      rewrite (ef_struct _ _ _ _ _ _ Hp) in Fa. rewrite (ef_struct _ _ _ _ _ _ Hp) in Fb.
      apply andb_true_iff in Fa, Fb. destruct Fa as [Fa Fa3], Fb as [Fb Fb3].
      apply andb_true_iff in Fa, Fb. destruct Fa as [Pl Nd], Fb as [_ _].
      rewrite !(enc_plain _ _ _ _ _ _ Hp Pl) in E.
      apply str_nodup_NoDup in Nd. simpl.
      apply inj_fields; auto.
      apply canon_obj_find; auto using enc_fields_nodup.
    - (* GAny *)
      intros t b Hs Ha Hb Fa Fb E.
      pose proof (wt_any_inv _ _ _ Ha) as Hany. rewrite eqc_any by auto.
      destruct (cf_any _ _ _ Hany Hb) as [-> | [j' ->]].
      + exfalso. cbn [encode] in E. apply canon_null_inv in E. subst j.
        rewrite wt_unfold, Hany in Ha. discriminate.
      + cbn [encode enc_faithful] in *. unfold json_canonical in Fa, Fb.
        apply json_eqb_eq in Fa, Fb. rewrite Fa, Fb in E. subst j'. simpl. apply json_eqb_refl.
  Qed.
End Inj.

(* ====================================================================== *)
(* the headline theorem                                                   *)
(* ====================================================================== *)
Theorem encode_eq_implies_equals_partial : forall ctx t a b,
  (ctx_supported ctx = true /\ ty_supported ctx t = true /\ wt ctx t a = true) ->
  (ctx_supported ctx = true /\ ty_supported ctx t = true /\ wt ctx t b = true) ->
  enc_faithful ctx t a = true -> enc_faithful ctx t b = true ->
  json_eq (encode ctx t a) (encode ctx t b) = true ->
  eqc ctx t (t_nullable t) a b = true.
Proof.
  intros ctx t a b [Hc [Hs Ha]] [_ [_ Hb]] Fa Fb E.
  apply (enc_inj ctx Hc a t b); auto. apply json_eq_canon. exact E.
Qed.

(* json_eq is symmetric, so under the side condition Equals holds in both directions although the
   generated Equals is not symmetric in general (Props/C13.v: equals_sym_refuted) *)
Corollary encode_eq_implies_equals_sym : forall ctx t a b,
  (ctx_supported ctx = true /\ ty_supported ctx t = true /\ wt ctx t a = true) ->
  (ctx_supported ctx = true /\ ty_supported ctx t = true /\ wt ctx t b = true) ->
  enc_faithful ctx t a = true -> enc_faithful ctx t b = true ->
  json_eq (encode ctx t a) (encode ctx t b) = true ->
  eqc ctx t (t_nullable t) a b = true /\ eqc ctx t (t_nullable t) b a = true.
Proof.
  intros ctx t a b Ta Tb Fa Fb E. split.
  - apply encode_eq_implies_equals_partial; auto.
  - apply encode_eq_implies_equals_partial; auto.
    unfold json_eq in *. rewrite json_eqb_sym. exact E.
Qed.

(* ====================================================================== *)
(* every exclusion is necessary: witnesses                                *)
(* ====================================================================== *)
Module WE.
  Definition tint : ty := TScalar attrs0 KInt64 DNil [].
  Definition tflt : ty := TScalar attrs0 KFloat64 DNil [].
  Definition tany : ty := TScalar attrs0 KAny DNil [].
  Definition nl : attrs := {| nullable := true; dflt := DNil; hints := [] |}.
  Definition tnull (k : skind) : ty := TScalar nl k DNil [].
  Definition one (fs : list field) : schemas :=
    [mkSchema "p" W.meta0 "" ty_zero [("Root", mkObject "Root" [] (TStruct attrs0 [] fs) "p" "Root")]].
  Definition troot : ty := TRef attrs0 "p" "Root".

  (* union int64 | float64 *)
  Definition tunion : ty :=
    TStruct attrs0 [("disjunction_of_scalars", mkDisj [tint; tflt] "" [])]
      [mkField "Int64" [] (tnull KInt64) false; mkField "Float64" [] (tnull KFloat64) false].
  Definition ctx_union : schemas :=
    [mkSchema "p" W.meta0 "" ty_zero [("Root", mkObject "Root" [] tunion "p" "Root")]].

  (* union of two references to structs with the same members *)
  Definition tbranch : ty := TStruct attrs0 [] [mkField "kind" [] W.tstr true].
  Definition turefs : ty :=
    TStruct attrs0 [("disjunction_of_refs", mkDisj [TRef attrs0 "p" "A"; TRef attrs0 "p" "B"] "kind" [("a", "A"); ("b", "B")])]
      [mkField "A" [] (TRef nl "p" "A") false; mkField "B" [] (TRef nl "p" "B") false].
  Definition ctx_urefs : schemas :=
    [mkSchema "p" W.meta0 "" ty_zero
       [("A", mkObject "A" [] tbranch "p" "A"); ("B", mkObject "B" [] tbranch "p" "B");
        ("Root", mkObject "Root" [] turefs "p" "Root");
        ("Holder", mkObject "Holder" [] (TStruct attrs0 [] [mkField "u" [] (TRef nl "p" "Root") true]) "p" "Holder")]].

  (* non-vacuity: nested struct, slice, map, pointer, omitted members *)
  Definition ctx_nv : schemas :=
    [mkSchema "p" W.meta0 "" ty_zero
       [("Meta", mkObject "Meta" [] (TMap attrs0 W.tstr W.tstr) "p" "Meta");
        ("Inner", mkObject "Inner" []
           (TStruct attrs0 [] [mkField "n" [] tint true; mkField "f" [] tflt false]) "p" "Inner");
        ("Root", mkObject "Root" []
           (TStruct attrs0 []
              [mkField "meta" [] (TRef attrs0 "p" "Meta") true;
               mkField "tags" [] (TArray attrs0 W.tstr) true;
               mkField "inner" [] (TRef nl "p" "Inner") false;
               mkField "items" [] (TArray attrs0 (TRef attrs0 "p" "Inner")) true;
               mkField "extra" [] (TArray attrs0 tint) false;
               mkField "free" [] tany false;
               mkField "opt" [] (tnull KInt64) false])
           "p" "Root")]].
  Definition inner (n : Z) (m e : Z) : gval := GStruct [("n", GInt n); ("f", GFloat m e)].
  Definition nv (meta : list (string * gval)) (extra : gval) (n : Z) : gval :=
    GStruct [("meta", GMap meta); ("tags", GSlice [GStr "t"; GStr "u"]);
             ("inner", GPtr (inner n 15 (-1))); ("items", GSlice [inner 1 0 0; inner 2 25 (-2)]);
             ("extra", extra); ("free", GAny (JObj [("x", JNum 1 0)])); ("opt", GPtr (GInt 7))].
  Definition nv_a := nv [("a", GStr "x"); ("b", GStr "")] GNil 3.
  Definition nv_b := nv [("b", GStr ""); ("a", GStr "x")] (GSlice []) 3.   (* other key order, empty vs nil *)
  Definition nv_c := nv [("a", GStr "x"); ("b", GStr "")] GNil 4.          (* a changed leaf under the pointer *)
End WE.

Definition typed13 (ctx : schemas) (t : ty) (v : gval) : Prop :=
  ctx_supported ctx = true /\ ty_supported ctx t = true /\ wt ctx t v = true.

(* a counterexample to the unrestricted statement on which enc_faithful fails *)
Definition enc_cex (ctx : schemas) (t : ty) (a b : gval) : Prop :=
  typed13 ctx t a /\ typed13 ctx t b /\
  json_eq (encode ctx t a) (encode ctx t b) = true /\ eqc ctx t (t_nullable t) a b = false /\
  (enc_faithful ctx t a && enc_faithful ctx t b)%bool = false.

Ltac cex := unfold enc_cex, typed13; repeat split; vm_compute; reflexivity.

(* time.Time: the same instant read from "...Z" and from "...+00:00" *)
Lemma encode_eq_implies_equals_needs_no_datetime :
  enc_cex W.ctx2 WE.troot (GStruct [("when", GTime "2020-01-01T00:00:00Z" false)])
                          (GStruct [("when", GTime "2020-01-01T00:00:00Z" true)]).
Proof. cex. Qed.

(* union int64|float64 holding 1 in either branch *)
Lemma encode_eq_implies_equals_needs_no_scalar_union :
  enc_cex WE.ctx_union WE.troot (GStruct [("Int64", GPtr (GInt 1)); ("Float64", GNil)])
                                (GStruct [("Int64", GNil); ("Float64", GPtr (GFloat 1 0))]).
Proof. cex. Qed.

(* union of references: the same members held in the other branch *)
Lemma encode_eq_implies_equals_needs_no_ref_union :
  enc_cex WE.ctx_urefs WE.troot (GStruct [("A", GPtr (GStruct [("kind", GStr "a")])); ("B", GNil)])
                                (GStruct [("A", GNil); ("B", GPtr (GStruct [("kind", GStr "a")]))]).
Proof. cex. Qed.

(* a pointer to a union with no branch set prints null, as the nil pointer does *)
Lemma encode_eq_implies_equals_needs_no_empty_union :
  enc_cex WE.ctx_urefs (TRef attrs0 "p" "Holder")
          (GStruct [("u", GPtr (GStruct [("A", GNil); ("B", GNil)]))]) (GStruct [("u", GNil)]).
Proof. cex. Qed.

(* a struct declaration repeating a member name (Go rejects it; ty_supported does not) *)
Lemma encode_eq_implies_equals_needs_distinct_field_names :
  enc_cex (WE.one [mkField "x" [] W.tstr true; mkField "x" [] W.tstr true]) WE.troot
          (GStruct [("x", GStr "a"); ("x", GStr "c")]) (GStruct [("x", GStr "b"); ("x", GStr "c")]).
Proof. cex. Qed.

(* model artefacts: gval allows unnormalised floats and non-canonical `any` payloads; decode produces neither *)
Lemma encode_eq_implies_equals_needs_float_normal :
  enc_cex (WE.one [mkField "f" [] WE.tflt true]) WE.troot
          (GStruct [("f", GFloat 10 (-1))]) (GStruct [("f", GFloat 1 0)]).
Proof. cex. Qed.

Lemma encode_eq_implies_equals_needs_canonical_any :
  enc_cex (WE.one [mkField "x" [] WE.tany true]) WE.troot
          (GStruct [("x", GAny (JNum 10 (-1)))]) (GStruct [("x", GAny (JNum 1 0))]).
Proof. cex. Qed.

(* ====================================================================== *)
(* non-vacuity                                                            *)
(* ====================================================================== *)
(* a / b: different values (map entries in another order, nil vs empty omitted slice) with equal
   encodings, faithful, Equals true (and the theorem applies); a / c: encodings differ *)
Lemma c13_enc_nonvacuous :
  exists ctx t a b c,
    typed13 ctx t a /\ typed13 ctx t b /\ typed13 ctx t c /\
    enc_faithful ctx t a = true /\ enc_faithful ctx t b = true /\ enc_faithful ctx t c = true /\
    a <> b /\ keys_aligned a b = false /\
    json_eq (encode ctx t a) (encode ctx t b) = true /\ eqc ctx t (t_nullable t) a b = true /\
    json_eq (encode ctx t a) (encode ctx t c) = false /\ eqc ctx t (t_nullable t) a c = false.
Proof.
  exists WE.ctx_nv, WE.troot, WE.nv_a, WE.nv_b, WE.nv_c. unfold typed13.
  repeat split; try (vm_compute; reflexivity). discriminate.
Qed.

Print Assumptions enc_inj.
Print Assumptions encode_eq_implies_equals_partial.
Print Assumptions encode_eq_implies_equals_sym.
Print Assumptions encode_eq_implies_equals_needs_no_datetime.
Print Assumptions encode_eq_implies_equals_needs_no_scalar_union.
Print Assumptions encode_eq_implies_equals_needs_no_ref_union.
Print Assumptions encode_eq_implies_equals_needs_no_empty_union.
Print Assumptions encode_eq_implies_equals_needs_distinct_field_names.
Print Assumptions encode_eq_implies_equals_needs_float_normal.
Print Assumptions encode_eq_implies_equals_needs_canonical_any.
Print Assumptions c13_enc_nonvacuous.

(* the float side condition is an artefact of gval: what json.Unmarshal produces is always normal *)
Lemma decode_scalar_float_normal t k j m e :
  decode_scalar t k j = DSet (GFloat m e) -> float_normal m e = true.
Proof.
  unfold decode_scalar. intros H.
  repeat match type of H with
         | context [match ?x with _ => _ end] => destruct x eqn:?; try discriminate
         end;
  inversion H; subst; unfold float_normal;
  match goal with N : num_norm _ _ = (_, _) |- _ => rewrite (num_norm_idem _ _ _ _ N) end;
  rewrite !Z.eqb_refl; reflexivity.
Qed.
Print Assumptions decode_scalar_float_normal.
