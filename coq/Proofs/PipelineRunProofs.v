(* C07: the language loop of Pipeline.Run never lets one language see what another one wrote -
   as a corollary of C18 (Props/C18.v: copy_faithful, copy_independent, mutation_frame). Nothing of
   C18 is re-proved here. *)
From Coq Require Import List String Bool Arith Lia Permutation.
From Cog Require Import Model.Pipeline Proofs.HeapProofs Proofs.PermLemmas Props.C18.
Import ListNotations.
Local Open Scope list_scope.

Section RunProofs.
  Variable lang : Type.
  Variables (d : decls_t) (sp : spec_t) (off fuel : nat) (t : gty) (m : mode).
  (* the writes a language's chain performs while it works on the copy it was handed *)
  Variable writes : lang -> hval -> list (loc * list (string * hval)).
  (* everything that happens after the copy (chain, builders, veneers, jennies): a function of
     the language and of the DATA of the copy *)
  Variable out : lang -> hval -> list file.

  (* ASSUMPTIONS, stated precisely:
     (1) the copy table is sound and drops nothing (for cog's own table: current_spec_sound /
         current_spec_no_missing of Props/C18.v, re-checked on every run);
     (2) the mode by which the shared value is copied is deep enough for its type;
     (3) a chain writes only through locations of the value it was handed (the copy) or through
         locations allocated later (>= off): passes have no other way to reach the heap. *)
  Hypothesis Hsound : spec_sound d sp fuel = true.
  Hypothesis Hnm : no_missing d sp = true.
  Hypothesis Hmode : mode_ok d sp fuel t m = true.
  Hypothesis writes_local : forall L c, Forall (fun w => In (fst w) (locs c) \/ off <= fst w) (writes L c).

  Let iter := iteration lang d sp off t m write writes out.
  Let runl := run lang d sp off t m write writes out.

  Lemma mode_not_missing : m <> Missing.
  Proof. intro E. rewrite E in Hmode. simpl in Hmode. discriminate. Qed.

  Theorem process_does_not_mutate_proof : forall L shared,
    wt d t shared = true -> Forall (fun l => l < off) (locs shared) ->
    fst (iter L shared) = shared.
  Proof.
    intros L shared Hwt Hb. unfold iter, iteration. simpl.
    apply mutation_frame.
    pose proof (writes_local L (copy d sp off t m shared)) as HW.
    rewrite Forall_forall in *. intros w Hw Hin. destruct (HW w Hw) as [H|H].
    - exact (copy_independent d sp off fuel Hsound shared t m Hwt Hmode (proj2 (Forall_forall _ _) Hb) _ H Hin).
    - specialize (Hb _ Hin). lia.
  Qed.

  Lemma iter_files : forall L shared, snd (iter L shared) = out L (erase shared).
  Proof.
    intros. unfold iter, iteration. simpl. f_equal. apply copy_faithful; [exact Hnm|exact mode_not_missing].
  Qed.

  (* whatever languages ran before, and in whatever order the runtime iterates over them, the
     files produced for L are those of running L alone *)
  Theorem language_independent_proof : forall seq shared,
    wt d t shared = true -> Forall (fun l => l < off) (locs shared) ->
    runl seq shared = map (fun L => (L, out L (erase shared))) seq.
  Proof.
    induction seq as [|L seq IH]; intros shared Hwt Hb; [reflexivity|].
    change (runl (L :: seq) shared) with ((L, snd (iter L shared)) :: runl seq (fst (iter L shared))).
    rewrite iter_files, (process_does_not_mutate_proof L shared Hwt Hb). simpl. f_equal. apply IH; auto.
  Qed.

  Corollary language_alone_or_together : forall seq shared L fs,
    wt d t shared = true -> Forall (fun l => l < off) (locs shared) ->
    In (L, fs) (runl seq shared) -> runl [L] shared = [(L, fs)].
  Proof.
    intros seq shared L fs Hwt Hb Hin. rewrite language_independent_proof in * by assumption.
    apply in_map_iff in Hin. destruct Hin as [L' [E _]]. inversion E; subst. reflexivity.
  Qed.
  (* C03: the merged, path-sorted file set does not depend on the order in which
     `range targetsByLanguage` visits the languages (distinct paths: each language writes under
     its own directory; codejen rejects duplicates) *)
  Definition all_files (r : list (lang * list file)) : list file := path_sort (flat_map (@snd _ _) r).

  Theorem run_files_deterministic_proof : forall seq seq' shared,
    wt d t shared = true -> Forall (fun l => l < off) (locs shared) ->
    Permutation seq seq' ->
    NoDup (map fst (append_each (fun L => out L (erase shared)) seq)) ->
    all_files (runl seq shared) = all_files (runl seq' shared).
  Proof.
    intros seq seq' shared Hwt Hb Hp Hnd. unfold all_files.
    rewrite !language_independent_proof by assumption.
    assert (forall l, flat_map (@snd _ _) (map (fun L => (L, out L (erase shared))) l)
                      = append_each (fun L => out L (erase shared)) l) as E.
    { unfold append_each. induction l; simpl; auto. now rewrite IHl. }
    rewrite !E. apply (emit_files_perm_invariant _ (fun L => out L (erase shared))); auto.
  Qed.
End RunProofs.

(* Without the copy (ContextForLanguage handing the shared schemas to the chain directly - mode
   Shallow), the statement is false: a witness with two languages. *)
Definition nocopy_shared : hval := Node TgSlice (Some 1) [(""%string, Leaf "original")].
Definition nocopy_writes (L : bool) (c : hval) : list (loc * list (string * hval)) :=
  if L then [(1, [(""%string, Leaf "rewritten by the other language")])] else [].
Definition nocopy_out (L : bool) (v : hval) : list file :=
  match v with Node _ _ [(_, Leaf s)] => [("out"%string, s)] | _ => [] end.

Theorem language_dependent_without_copy_refuted_proof :
  let r := run bool [] [] 4000 (GSlice GScalar) Shallow write nocopy_writes nocopy_out in
  exists fs fs', In (false, fs) (r [true; false] nocopy_shared) /\ r [false] nocopy_shared = [(false, fs')] /\ fs <> fs'.
Proof.
  simpl. eexists. eexists. split; [right; left; reflexivity|]. split; [reflexivity|]. vm_compute. discriminate.
Qed.
