(* The source-level safety predicate src_safe_oa (Model/FrontEndChainSpecX2.v) implies roundtrip_safeF on the post-chain
   context of the OpenAPI front-end, and the purely source-level round-trip corollary.  The walk of
   Proofs/FrontEndChain2Safe.v is done once, over an abstract translation T of source types (Section SafeX), and
   instantiated with oa_ty. *)
From Coq Require Import List String ZArith Bool Ascii Lia.
From Cog Require Import Model.IR Model.Json Model.GoSemBase Model.GoSemDecode Model.GoSemValidate Model.GoSemStrict
  Model.GoSem Model.GoSemSpec08 Model.GoSemSpec01 Model.GoSemSpec01F Model.Src Model.FrontEnd Model.FrontEndSpec
  Model.FrontEndSpecOA Model.FrontEndCue Model.FrontEndSpecCue
  Model.Passes Model.PassesChain Model.Process Gen.Chains_gen Model.FrontEndChainSpec Model.FrontEndChainSpec2
  Model.FrontEndChainSpecX Model.FrontEndChainSpecX2.
From Cog Require Import Proofs.FrontEndLemmas Proofs.FrontEndChainPasses Proofs.FrontEndChainAccept Proofs.FrontEndChain
  Proofs.FrontEndChain2Sup Proofs.FrontEndChain2Safe Proofs.FrontEndChainXPasses Proofs.FrontEndChainXAccept
  Proofs.FrontEndChainX Proofs.FrontEndOA Proofs.FrontEndChainX2Sup.
Import ListNotations.
Local Open Scope string_scope.
Local Open Scope list_scope.

(* ---------- types of the fragment ---------- *)
Lemma fx2_set_false u : ty_plain_x u = true -> set_nullable u false = u.
Proof.
  intro H. pose proof (fx_attrs_plain_nonnull _ (fx_ty_plain_attrs _ H)) as N.
  destruct u; try discriminate; cbn [ty_attrs] in N; destruct a; cbn in *; subst; reflexivity.
Qed.
Lemma fx2_nilable c u : ty_plain_x u = true -> nilable c (set_nullable u true) = true.
Proof.
  destruct u; intro H; try discriminate; try reflexivity.
  simpl in H. apply andb_true_iff in H. destruct H as [H _]. apply andb_true_iff in H. destruct H as [_ K].
  destruct k; try discriminate; reflexivity.
Qed.

(* ---------- the walk, over an abstract translation ---------- *)
Section SafeX.
  Variable defs : list (string * src_ty).
  Variable pkg : string.
  Variable out : schemas.
  Variable T : src_ty -> ty.
  Variable fld : sfield -> field.
  Variable mkfs : list sfield -> list field.
  Hypothesis T_arr : forall t, T (SArray t) = TArray attrs0 (T t).
  Hypothesis T_map : forall t, T (SMap t) = TMap attrs0 t_string (T t).
  Hypothesis T_ref : forall n, T (SRef n) = TRef attrs0 pkg n.
  Hypothesis T_plain : forall t, sty_plain t = true -> ty_plain_x (T t) = true.
  Hypothesis T_shape : forall t, s_is_scalar t = true -> exists a k v cs, T t = TScalar a k v cs.
  Hypothesis T_safe : forall src t j b, s_is_scalar t = true -> fc_nonnull j = true -> sx_scalar_safe t j = true ->
    rtsF out src j (set_nullable (T t) b) = true.
  Hypothesis H_def : forall n sfs, src_lookup defs n = Some (SStruct sfs) ->
    forallb sfield_plain sfs = true /\ str_nodup (map sf_name sfs) = true /\
    forall a, payload_type out (TRef a pkg n) = PTy (TStruct attrs0 [] (map nrfn_field (mkfs sfs))).
  Hypothesis H_find : forall sfs k,
    find (fun f => seqb (f_name f) k) (mkfs sfs) = option_map fld (find (fun f => seqb (sf_name f) k) sfs).
  Hypothesis H_names : forall sfs, str_nodup (map (fun f => f_name f) (mkfs sfs)) = str_nodup (map sf_name sfs).
  Hypothesis H_forallb : forall p sfs, forallb p (mkfs sfs) = forallb (fun sf => p (fld sf)) sfs.
  Hypothesis H_fld : forall sf, sfield_plain sf = true -> fld sf = mkField (sf_name sf) [] (T (sf_type sf)) (sf_req sf).

  Definition fx2_field (sf : sfield) : field :=
    mkField (sf_name sf) [] (set_nullable (T (sf_type sf)) (negb (sf_req sf))) (sf_req sf).
  Lemma fx2_nrfn_fld sf : sfield_plain sf = true -> nrfn_field (fld sf) = fx2_field sf.
  Proof.
    intro H. rewrite (H_fld sf H). unfold sfield_plain in H. apply andb_true_iff in H. destruct H as [_ P].
    unfold nrfn_field, fx2_field. cbn [f_name f_comments f_type f_required].
    rewrite (fx_attrs_plain_nonnull _ (fx_ty_plain_attrs _ (T_plain _ P))).
    destruct (sf_req sf); cbn [negb andb]; [rewrite (fx2_set_false _ (T_plain _ P))|]; reflexivity.
  Qed.

  Lemma fx2_arr_scalars : forall f t b, s_arr_scalars f t = true -> array_of_scalars out f (set_nullable (T t) b) = true.
  Proof.
    induction f as [|f IH]; intros t b H; [discriminate|].
    cbn [s_arr_scalars] in H. destruct t; try discriminate. rewrite T_arr.
    cbn [set_nullable set_attrs ty_attrs array_of_scalars]. rewrite fc2_resolve_nonref by reflexivity.
    destruct t; try discriminate;
      try (destruct (T_shape _ H) as [a [k [v [cs E]]]]; rewrite E; rewrite fc2_resolve_nonref by reflexivity; reflexivity).
    specialize (IH (SArray t) false H). rewrite T_arr in *. rewrite fc2_resolve_nonref by reflexivity.
    cbn [set_nullable set_attrs ty_attrs] in IH. exact IH.
  Qed.
  Lemma fx2_map_scalars : forall f t b, s_map_scalars f t = true -> map_of_scalars out f (set_nullable (T t) b) = true.
  Proof.
    induction f as [|f IH]; intros t b H; [discriminate|].
    cbn [s_map_scalars] in H. destruct t; try discriminate. rewrite T_map.
    cbn [set_nullable set_attrs ty_attrs map_of_scalars]. rewrite fc2_resolve_nonref by reflexivity.
    destruct t; try discriminate;
      try (destruct (T_shape _ H) as [a [k [v [cs E]]]]; rewrite E; rewrite fc2_resolve_nonref by reflexivity; reflexivity).
    specialize (IH (SMap t) false H). rewrite T_map in *. rewrite fc2_resolve_nonref by reflexivity.
    cbn [set_nullable set_attrs ty_attrs] in IH. exact IH.
  Qed.

  Definition fx2_safe_at (j : json) : Prop :=
    forall src t b, sty_plain t = true -> src_safe_ty_x defs src j t = true ->
                    rtsF out src j (set_nullable (T t) b) = true.

  Lemma fx2_struct_case n sfs ms a :
    src_lookup defs n = Some (SStruct sfs) ->
    Forall (fun kv => fx2_safe_at (snd kv)) ms ->
    src_safe_ty_x defs RField (JObj ms) (SRef n) = true ->
    forall src, rtsF out src (JObj ms) (TRef a pkg n) = true.
  Proof.
    intros L IH H src. destruct (H_def n sfs L) as [PF [ND PT]].
    rewrite (fc2_rtsF_ref_struct out src (JObj ms) a pkg n _ _ eq_refl (PT a)).
    cbn [src_safe_ty_x] in H. rewrite L in H. apply andb_true_iff in H. destruct H as [H1 H2].
    assert (forall sf, In sf sfs -> nrfn_field (fld sf) = fx2_field sf) as NF.
    { intros sf Hin. apply fx2_nrfn_fld. exact (proj1 (forallb_forall _ _) PF sf Hin). }
    assert (str_nodup (map (fun f => f_name f) (map nrfn_field (mkfs sfs))) = true) as N1.
    { rewrite fc2_names_nrfn, H_names. exact ND. }
    rewrite N1. cbn [andb]. unfold fc2_struct_safe. rewrite N1, andb_true_r.
    apply andb_true_iff. split; [apply andb_true_iff; split|].
    - (* members *)
      rewrite Forall_forall in IH. apply forallb_forall. intros kv Hkv.
      pose proof (proj1 (forallb_forall _ _) H1 kv Hkv) as Hm. cbn beta in Hm.
      rewrite fc_find_nrfn, H_find.
      destruct (find (fun f => seqb (sf_name f) (fst kv)) sfs) as [sf|] eqn:Ef; [|reflexivity]. cbn [option_map].
      apply find_some in Ef. destruct Ef as [Ef _]. rewrite (NF sf Ef). unfold fx2_field. cbn [f_type f_required].
      apply andb_true_iff in Hm. destruct Hm as [Hm1 Hm2]. rewrite Hm2, andb_true_r.
      apply (IH kv Hkv RField (sf_type sf) (negb (sf_req sf))); [|exact Hm1].
      pose proof (proj1 (forallb_forall _ _) PF sf Ef) as X. unfold sfield_plain in X. apply andb_true_iff in X. exact (proj2 X).
    - (* required members present *)
      rewrite fc_forallb_map, H_forallb. revert H2. apply fc_forallb_impl. intros sf Hin X.
      rewrite (fx2_nrfn_fld sf (proj1 (forallb_forall _ _) PF sf Hin)). exact X.
    - (* optional members are nil-able *)
      rewrite fc_forallb_map, H_forallb. apply forallb_forall. intros sf Hin.
      rewrite (NF sf Hin). unfold fx2_field. cbn [f_type f_required]. destruct (sf_req sf); [reflexivity|]. cbn [negb orb].
      apply fx2_nilable. apply T_plain. pose proof (proj1 (forallb_forall _ _) PF sf Hin) as X. unfold sfield_plain in X.
      apply andb_true_iff in X. exact (proj2 X).
  Qed.

  Lemma fx2_ref_nonobj j n a src : fc_nonnull j = true -> (forall ms, j <> JObj ms) ->
    src_safe_ty_x defs src j (SRef n) = true -> rtsF out src j (TRef a pkg n) = true.
  Proof.
    intros N NO H.
    assert (exists sfs, src_lookup defs n = Some (SStruct sfs)) as [sfs L].
    { destruct j; try discriminate; cbn [src_safe_ty_x] in H;
        destruct (src_lookup defs n) as [[]|]; try discriminate; eexists; reflexivity. }
    destruct (H_def n sfs L) as [_ [ND PT]].
    rewrite (fc2_rtsF_ref_struct out src _ a pkg n _ _ N (PT a)).
    rewrite fc2_names_nrfn, H_names, ND.
    destruct j; try reflexivity. exfalso. apply (NO ms). reflexivity.
  Qed.

  Lemma fx2_safe_walk : forall j, fx2_safe_at j.
  Proof.
    induction j using fc_json_ind; intros src t nb P HS; try discriminate.
    all: destruct t; try discriminate.
    (* scalars *)
    all: try (apply T_safe; [reflexivity|reflexivity|exact HS]).
    (* references, document not an object *)
    all: try (rewrite T_ref; cbn [set_nullable set_attrs ty_attrs]; apply fx2_ref_nonobj; [reflexivity|discriminate|exact HS]).
    (* arrays and maps *)
    all: rewrite ?T_arr, ?T_map, ?T_ref; cbn [set_nullable set_attrs ty_attrs].
    all: try (rewrite fc2_rtsF_array by reflexivity; try reflexivity).
    all: try (rewrite fc2_rtsF_map by reflexivity; try reflexivity).
    - (* array, array *)
      cbn [src_safe_ty_x] in HS. apply andb_true_iff in HS. destruct HS as [H1 H2]. apply andb_true_iff. split.
      + rewrite Forall_forall in H. apply forallb_forall. intros x Hx.
        cbn [sty_plain] in P. rewrite <- (fx2_set_false _ (T_plain t P)).
        apply (H x Hx RElem t false P). exact (proj1 (forallb_forall _ _) H1 x Hx).
      + apply orb_true_iff in H2. destruct H2 as [H2|H2]; [|rewrite H2; apply orb_true_r].
        pose proof (fx2_arr_scalars 8 (SArray t) nb H2) as X. rewrite T_arr in X.
        cbn [set_nullable set_attrs ty_attrs nullable] in X. rewrite X. reflexivity.
    - (* map, object *)
      cbn [src_safe_ty_x] in HS. apply andb_true_iff in HS. destruct HS as [H1 H2]. apply andb_true_iff. split.
      + rewrite Forall_forall in H. apply forallb_forall. intros x Hx.
        cbn [sty_plain] in P. rewrite <- (fx2_set_false _ (T_plain t P)).
        apply (H x Hx RVal t false P). exact (proj1 (forallb_forall _ _) H1 x Hx).
      + apply orb_true_iff in H2. destruct H2 as [H2|H2]; [|rewrite H2; apply orb_true_r].
        pose proof (fx2_map_scalars 8 (SMap t) nb H2) as X. rewrite T_map in X.
        cbn [set_nullable set_attrs ty_attrs nullable] in X. rewrite X. reflexivity.
    - (* reference, object *)
      assert (exists sfs, src_lookup defs name = Some (SStruct sfs)) as [sfs L].
      { cbn [src_safe_ty_x] in HS. destruct (src_lookup defs name) as [[]|]; try discriminate; eexists; reflexivity. }
      apply (fx2_struct_case name sfs l _ L H HS).
  Qed.

  Theorem fx2_src_safe_rtsF tname d :
    src_safe_ty_x defs RField d (SRef tname) = true -> roundtrip_safeF out pkg tname d = true.
  Proof.
    unfold roundtrip_safeF. intro H.
    pose proof (fx2_safe_walk d RField (SRef tname) false eq_refl H) as X. rewrite T_ref in X. exact X.
  Qed.
End SafeX.

(* ====================================================================================================
   OpenAPI
   ==================================================================================================== *)
Lemma fx2_oa_shape pkg t : s_is_scalar t = true -> exists a k v cs, oa_ty pkg t = TScalar a k v cs.
Proof. destruct t; intro H; try discriminate; cbn [oa_ty]; repeat eexists. Qed.

Lemma fx2_oa_scalar_safe c pkg src t j b : s_is_scalar t = true -> fc_nonnull j = true -> sx_scalar_safe t j = true ->
  rtsF c src j (set_nullable (oa_ty pkg t) b) = true.
Proof.
  intros S N H. destruct t; try discriminate; cbn [oa_ty t_bool sx_scalar_safe] in *;
    try match goal with |- context [if ?c then _ else _] => destruct c eqn:E; try rewrite E in H end;
    unfold t_bool; cbn [set_nullable set_attrs ty_attrs]; rewrite fc2_rtsF_scalar by exact N;
    destruct j; try discriminate; try reflexivity; exact H.
Qed.

Lemma fx2_names_oa pkg sfs : map (fun f => f_name f) (map (oa_field pkg) sfs) = map sf_name sfs.
Proof. induction sfs as [|x r IH]; simpl; [reflexivity|]. rewrite IH. reflexivity. Qed.

Lemma fx2_oa_fld pkg sf : sfield_plain sf = true -> oa_field pkg sf = mkField (sf_name sf) [] (oa_ty pkg (sf_type sf)) (sf_req sf).
Proof.
  unfold sfield_plain. intro H. apply andb_true_iff in H. destruct H as [H _]. apply andb_true_iff in H. destruct H as [N _].
  apply negb_true_iff in N. unfold oa_field. rewrite N. reflexivity.
Qed.

Section SafeOA.
  Variable s : src_schema.
  Hypothesis Hs : chain_plain_oa s = true.
  Let defs := src_defs s.
  Let pkg := src_pkg s.
  Let out := nrfn_only (parse_ctx_oa s).
  Definition fx2_oa_mkfs (sfs : list sfield) : list field := sort_fields (map (oa_field pkg) sfs).

  Lemma fx2_oa_def n sfs : src_lookup defs n = Some (SStruct sfs) ->
    forallb sfield_plain sfs = true /\ str_nodup (map sf_name sfs) = true /\
    forall a, payload_type out (TRef a pkg n) = PTy (TStruct attrs0 [] (map nrfn_field (fx2_oa_mkfs sfs))).
  Proof.
    intro L. destruct (fx_chain_plain_oa_parts s Hs) as [W [J [_ P]]].
    destruct (src_wf_oa_parts s W) as [_ [_ A]].
    pose proof (src_lookup_some_in _ _ _ L) as I. specialize (P _ I). cbn [snd] in P.
    destruct (A _ _ I) as [JS _].
    destruct sfs as [|f fs]; [discriminate|]. cbn [sdef_plain] in P.
    repeat split; try assumption.
    - cbn [oa_supported] in JS. apply andb_true_iff in JS. exact (proj1 JS).
    - intro a. unfold out. apply (fx_payload_ref (parse_ctx_oa s) a pkg n (oa_obj_of pkg n (SStruct (f :: fs))) attrs0).
      + apply chain_plain_oa_ctx_plain. exact Hs.
      + unfold pkg. rewrite (oa_locate_parse s n J). unfold defs in L. rewrite L. reflexivity.
      + reflexivity.
      + reflexivity.
  Qed.

  Theorem fx2_oa_src_safe_rtsF tname d : src_safe_oa s tname d = true -> roundtrip_safeF out pkg tname d = true.
  Proof.
    unfold src_safe_oa.
    apply (fx2_src_safe_rtsF defs pkg out (oa_ty pkg) (oa_field pkg) fx2_oa_mkfs).
    - reflexivity.
    - reflexivity.
    - reflexivity.
    - apply fx_oa_ty_plain.
    - apply fx2_oa_shape.
    - intros. apply fx2_oa_scalar_safe; assumption.
    - exact fx2_oa_def.
    - intros sfs k. unfold fx2_oa_mkfs. rewrite find_sort_fields. apply find_map_field. intro; reflexivity.
    - intros sfs. unfold fx2_oa_mkfs. rewrite fc2_nodup_sort_fields, fx2_names_oa. reflexivity.
    - intros p sfs. unfold fx2_oa_mkfs. rewrite fc_forallb_sort_fields, fc_forallb_map. reflexivity.
    - apply fx2_oa_fld.
  Qed.
End SafeOA.

(* ---------- 3 ---------- *)
Theorem src_safe_oa_roundtrip_safeF s tname d :
  chain_plain_oa s = true -> src_safe_oa s tname d = true ->
  roundtrip_safeF (nrfn_only (parse_ctx_oa s)) (src_pkg s) tname d = true.
Proof. intros H S. apply fx2_oa_src_safe_rtsF; assumption. Qed.

(* ---------- 4 ---------- *)
Theorem src_valid_roundtrip_source_oa s tname d :
  chain_plain_oa s = true -> json_wf d = true -> json_ints_int64 d = true ->
  str_in tname (map fst (src_defs s)) = true -> src_safe_oa s tname d = true ->
  src_valid_doc "openapi" s tname d = true ->
  exists out, process chain_go (parse_ctx_oa s) = Ok out /\ roundtrip_holds out (src_pkg s) tname d = true.
Proof.
  intros H WF HI IN SS SV. exists (nrfn_only (parse_ctx_oa s)). split; [apply chain_go_plain_explicit_oa; exact H|].
  apply (src_valid_roundtrip_plain_oa_closed s tname d _ H WF HI (chain_go_plain_explicit_oa s H) IN SV).
  apply src_safe_oa_roundtrip_safeF; assumption.
Qed.

(* ---------- non-vacuity, and the float32 digit limit is needed ---------- *)
Lemma src_safe_oa_nonvacuous :
  chain_plain_oa sPlainOA = true /\ json_wf dPlainOA = true /\ json_ints_int64 dPlainOA = true /\
  str_in "Root" (map fst (src_defs sPlainOA)) = true /\ src_safe_oa sPlainOA "Root" dPlainOA = true /\
  src_valid_doc "openapi" sPlainOA "Root" dPlainOA = true /\
  roundtrip_holds (nrfn_only (parse_ctx_oa sPlainOA)) (src_pkg sPlainOA) "Root" dPlainOA = true.
Proof. vm_compute. repeat split; reflexivity. Qed.

(* a float32 member holding 7 significant digits: valid, inside the float64 limit of src_safe, outside src_safe_oa, and
   the round trip fails *)
Definition dFloat32OA : json :=
  JObj [("inner", JObj [("x", JBool true)]); ("count", JNum 3 0);
        ("items", JArr []); ("tags", JObj []); ("ratio", JNum 1234567 (-7))].
Lemma src_safe_oa_needed_float32_digits :
  json_wf dFloat32OA = true /\ json_ints_int64 dFloat32OA = true /\
  src_valid_doc "openapi" sPlainOA "Root" dFloat32OA = true /\
  src_safe sPlainOA "Root" dFloat32OA = true /\ src_safe_oa sPlainOA "Root" dFloat32OA = false /\
  roundtrip_holds (nrfn_only (parse_ctx_oa sPlainOA)) "p" "Root" dFloat32OA = false.
Proof. vm_compute. repeat split; reflexivity. Qed.

Print Assumptions src_safe_oa_roundtrip_safeF.
Print Assumptions src_valid_roundtrip_source_oa.
Print Assumptions src_safe_oa_nonvacuous.
