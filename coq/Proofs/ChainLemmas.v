(* Generic lemmas for reasoning about the language-chain pass models (Model/PassesChain.v).
   WHAT IS HERE
   - lists / the ordered object map: existsb_false_iff, mapM_Forall2, Forall2_in_r, objs_set_in_inv,
     fold_add_object_in, in_objects_of*, objects_of_single;
   - any_sub / any_below (Model/NF.v): any_sub_below, any_below_of_sub, any_sub_inter_false, sub_at*;
   - the visitor skeletons as named loops with their equations (visit_struct_eq, visit_inter_eq, visit_schema_eq,
     visit_schema_st_eq) and what the result's objects are (visit_schema_objects, visit_schema_st_objects, ...);
   - vrel: a relational view of `visit_disj` (visit_disj_vrel) with the preservation theorems vrel_pres /
     vrel_pres_below for predicates of the form `any_sub p` (Section Pres);
   - srel: "same structure up to local rewrites" (references for simple types, attributes, enum members) with
     srel_pres / srel_pres_below (Section SrelPres), used for the passes that are not union visitors. *)
From Coq Require Import List String Bool Ascii Lia.
From Cog Require Import Model.IR Model.Names Model.Passes Model.PassesChain Model.NF Proofs.TyInd.
Import ListNotations.
Local Open Scope list_scope.

(* ---------- lists ---------- *)
Lemma existsb_false_iff {A} (p : A -> bool) l : existsb p l = false <-> forall x, In x l -> p x = false.
Proof.
  split.
  - intros H x Hx. destruct (p x) eqn:E; [|reflexivity].
    assert (existsb p l = true) as Ht by (apply existsb_exists; exists x; split; assumption).
    rewrite H in Ht. discriminate.
  - induction l as [|x r IH]; intros H; [reflexivity|]. simpl.
    rewrite (H x (or_introl eq_refl)). simpl. apply IH. intros y Hy. apply H. right; assumption.
Qed.

Lemma existsb_map_eq {A B} (f : A -> B) (p : B -> bool) l : existsb p (map f l) = existsb (fun x => p (f x)) l.
Proof. induction l as [|x r IH]; [reflexivity|]. simpl. rewrite IH. reflexivity. Qed.

Lemma mapM_Forall2 {A B} (f : A -> res B) : forall l l', mapM f l = Ok l' -> Forall2 (fun x y => f x = Ok y) l l'.
Proof.
  induction l as [|x r IH]; intros l' H; simpl in H.
  - inversion H; subst. constructor.
  - destruct (f x) as [y| | |] eqn:Ex; simpl in H; try discriminate.
    destruct (mapM f r) as [ys| | |] eqn:Er; simpl in H; try discriminate.
    inversion H; subst. constructor; [assumption|]. apply IH. reflexivity.
Qed.

Lemma Forall2_in_r {A B} (R : A -> B -> Prop) l l' : Forall2 R l l' -> forall y, In y l' -> exists x, In x l /\ R x y.
Proof.
  induction 1 as [|x y r r' Hxy Hr IH]; intros z Hz; [inversion Hz|].
  destruct Hz as [<-|Hz]; [exists x; split; [left; reflexivity|assumption]|].
  destruct (IH z Hz) as [x' [Hx' Hr']]. exists x'. split; [right; assumption|assumption].
Qed.

(* ---------- the ordered object list ---------- *)
Lemma objs_set_in_inv l k o k1 o1 : In (k1, o1) (objs_set l k o) -> In (k1, o1) l \/ o1 = o.
Proof.
  induction l as [|[k' o'] r IH]; simpl; intros H.
  - destruct H as [H|[]]. inversion H. right; reflexivity.
  - destruct (seqb k' k); simpl in H.
    + destruct H as [H|H]; [inversion H; right; reflexivity|left; right; assumption].
    + destruct H as [H|H]; [left; left; assumption|].
      destruct (IH H) as [H'|H']; [left; right; assumption|right; assumption].
Qed.

Lemma fold_add_object_in news : forall acc k o,
  In (k, o) (fold_left add_object news acc) -> In (k, o) acc \/ In o news.
Proof.
  induction news as [|n r IH]; intros acc k o H; [left; assumption|]. simpl in H.
  apply IH in H. destruct H as [H|H]; [|right; right; assumption].
  unfold add_object in H. apply objs_set_in_inv in H. destruct H as [H|H]; [left; assumption|right; left; symmetry; assumption].
Qed.

Lemma in_objects_of ss o : In o (objects_of ss) <-> exists s k, In s ss /\ In (k, o) (s_objects s).
Proof.
  unfold objects_of. rewrite in_flat_map. split.
  - intros [s [Hs Ho]]. apply in_map_iff in Ho. destruct Ho as [[k o'] [E Hko]]. simpl in E. subst.
    exists s, k. split; assumption.
  - intros [s [k [Hs Hko]]]. exists s. split; [assumption|]. apply in_map_iff. exists (k, o). split; [reflexivity|assumption].
Qed.

(* a schema-to-schema map: objects of the result come from the images of the schemas *)
Lemma in_objects_of_map (F : schema -> schema) ss o :
  In o (objects_of (map F ss)) -> exists s k, In s ss /\ In (k, o) (s_objects (F s)).
Proof.
  intros H. apply in_objects_of in H. destruct H as [s' [k [Hs' Hko]]].
  apply in_map_iff in Hs'. destruct Hs' as [s [<- Hs]]. exists s, k. split; assumption.
Qed.

Lemma in_objects_of_mapM (F : schema -> res schema) ss out o :
  mapM F ss = Ok out -> In o (objects_of out) ->
  exists s s' k, In s ss /\ F s = Ok s' /\ In (k, o) (s_objects s').
Proof.
  intros HM H. apply in_objects_of in H. destruct H as [s' [k [Hs' Hko]]].
  destruct (Forall2_in_r _ _ _ (mapM_Forall2 _ _ _ HM) s' Hs') as [s [Hs HF]].
  exists s, s', k. repeat split; assumption.
Qed.

(* ---------- any_sub / any_below ---------- *)
Lemma any_sub_below p inter t : any_sub p inter t = false -> p inter t = false.
Proof. destruct t; simpl; intros H; apply orb_false_iff in H; destruct H; assumption. Qed.

Lemma any_below_of_sub p t : any_sub p false t = false -> any_below p t = false.
Proof.
  unfold any_below. destruct t as [a d|a v|a vs|a i v|a dh fs|a pk n|a pk n v|a k v cs|a bs|a v|a k];
    simpl; intros H; apply orb_false_iff in H; destruct H as [_ H]; try reflexivity.
  - rewrite existsb_map_eq. simpl. assumption.
  - rewrite H. reflexivity.
  - apply orb_false_iff in H. destruct H as [H1 H2]. rewrite H1, H2. reflexivity.
  - rewrite existsb_map_eq. simpl. assumption.
  - rewrite existsb_map_eq. simpl. assumption.
Qed.

(* once below an intersection, a predicate that is false there never fires *)
Lemma any_sub_inter_false p : (forall t, p true t = false) -> forall t, any_sub p true t = false.
Proof.
  intros Hp. induction t as [a d IH|a v IH|a vs IH|a i v IHi IHv|a dh fs IHd IHf|a pk n|a pk n v|a k v cs|a bs IH|a v|a k]
    using ty_ind'; simpl; rewrite Hp; simpl; try reflexivity.
  - apply existsb_false_iff. rewrite Forall_forall in IH. assumption.
  - assumption.
  - rewrite IHi, IHv. reflexivity.
  - apply existsb_false_iff. rewrite Forall_forall in IHf. assumption.
  - apply existsb_false_iff. rewrite Forall_forall in IH. assumption.
Qed.

(* ---------- a relational view of visit_disj ---------- *)
Definition is_leaf (t : ty) : Prop :=
  match t with
  | TArray _ _ | TMap _ _ _ | TStruct _ _ _ | TInter _ _ | TDisj _ _ => False
  | _ => True
  end.

Section VRel.
  Variable S : Type.
  Variable on_disj : S -> ty -> res (ty * S).

  Inductive vrel : S -> ty -> ty -> S -> Prop :=
  | VArray st a v v' st' : vrel st v v' st' -> vrel st (TArray a v) (TArray a v') st'
  | VMap st a i v i' v' st1 st2 :
      vrel st i i' st1 -> vrel st1 v v' st2 -> vrel st (TMap a i v) (TMap a i' v') st2
  | VStruct st a dh fs fs' st' : vrel_fields st fs fs' st' -> vrel st (TStruct a dh fs) (TStruct a dh fs') st'
  | VInter st a bs bs' st' : vrel_list st bs bs' st' -> vrel st (TInter a bs) (TInter a bs') st'
  | VDisj st a d t' st' : on_disj st (TDisj a d) = Ok (t', st') -> vrel st (TDisj a d) t' st'
  | VLeaf st t : is_leaf t -> vrel st t t st
  with vrel_fields : S -> list field -> list field -> S -> Prop :=
  | VFnil st : vrel_fields st [] [] st
  | VFcons st f t' st1 r r' st2 :
      vrel st (f_type f) t' st1 -> vrel_fields st1 r r' st2 ->
      vrel_fields st (f :: r) (mkField (f_name f) (f_comments f) t' (f_required f) :: r') st2
  with vrel_list : S -> list ty -> list ty -> S -> Prop :=
  | VLnil st : vrel_list st [] [] st
  | VLcons st b b' st1 r r' st2 :
      vrel st b b' st1 -> vrel_list st1 r r' st2 -> vrel_list st (b :: r) (b' :: r') st2.

  Scheme vrel_ind2 := Induction for vrel Sort Prop
    with vrel_fields_ind2 := Induction for vrel_fields Sort Prop
    with vrel_list_ind2 := Induction for vrel_list Sort Prop.
  Combined Scheme vrel_mutind from vrel_ind2, vrel_fields_ind2, vrel_list_ind2.

  Definition vfields : list field -> S -> res (list field * S) :=
    fix go (l : list field) (st : S) : res (list field * S) :=
      match l with
      | [] => Ok ([], st)
      | f :: rest =>
          do r1 <- visit_disj on_disj st (f_type f) ;
          do r2 <- go rest (snd r1) ;
          Ok (mkField (f_name f) (f_comments f) (fst r1) (f_required f) :: fst r2, snd r2)
      end.
  Definition vlist : list ty -> S -> res (list ty * S) :=
    fix go (l : list ty) (st : S) : res (list ty * S) :=
      match l with
      | [] => Ok ([], st)
      | b :: rest =>
          do r1 <- visit_disj on_disj st b ;
          do r2 <- go rest (snd r1) ;
          Ok (fst r1 :: fst r2, snd r2)
      end.
  Lemma visit_struct_eq st a dh fs :
    visit_disj on_disj st (TStruct a dh fs) = do r <- vfields fs st ; Ok (TStruct a dh (fst r), snd r).
  Proof. reflexivity. Qed.
  Lemma visit_inter_eq st a bs :
    visit_disj on_disj st (TInter a bs) = do r <- vlist bs st ; Ok (TInter a (fst r), snd r).
  Proof. reflexivity. Qed.

  Lemma visit_disj_vrel : forall t st t' st',
    visit_disj on_disj st t = Ok (t', st') -> vrel st t t' st'.
  Proof.
    induction t as [a d IH|a v IH|a vs IH|a i v IHi IHv|a dh fs IHd IHf|a pk n|a pk n v|a k v cs|a bs IH|a v|a k]
      using ty_ind'; intros st t' st' H;
      [|simpl in H|simpl in H| |rewrite visit_struct_eq in H|simpl in H|simpl in H|simpl in H|rewrite visit_inter_eq in H|simpl in H|simpl in H];
      try (inversion H; subst; apply VLeaf; exact I).
    - apply VDisj. assumption.
    - destruct (visit_disj on_disj st v) as [[v1 s1]| | |] eqn:E; simpl in H; try discriminate.
      inversion H; subst. apply VArray. apply IH. assumption.
    - simpl in H. destruct (visit_disj on_disj st i) as [[i1 s1]| | |] eqn:Ei; simpl in H; try discriminate.
      destruct (visit_disj on_disj s1 v) as [[v1 s2]| | |] eqn:Ev; simpl in H; try discriminate.
      inversion H; subst. eapply VMap; [apply IHi|apply IHv]; eassumption.
    - set (go := vfields) in H.
      assert (forall l, Forall (fun f => forall st t' st', visit_disj on_disj st (f_type f) = Ok (t', st') -> vrel st (f_type f) t' st') l ->
                forall st l' st', go l st = Ok (l', st') -> vrel_fields st l l' st') as G.
      { induction l as [|f r IHl]; intros HF s0 l' s' Hg; simpl in Hg.
        - inversion Hg; subst. constructor.
        - inversion HF as [|? ? Hf Hr]; subst.
          destruct (visit_disj on_disj s0 (f_type f)) as [[t1 s1]| | |] eqn:E1; simpl in Hg; try discriminate.
          destruct (go r s1) as [[r1 s2]| | |] eqn:E2; simpl in Hg; try discriminate.
          inversion Hg; subst. econstructor; [apply Hf; eassumption|apply IHl; eassumption]. }
      destruct (go fs st) as [[fs1 s1]| | |] eqn:E; simpl in H; try discriminate.
      inversion H; subst. apply VStruct. apply (G fs IHf). assumption.
    - set (go := vlist) in H.
      assert (forall l, Forall (fun b => forall st t' st', visit_disj on_disj st b = Ok (t', st') -> vrel st b t' st') l ->
                forall st l' st', go l st = Ok (l', st') -> vrel_list st l l' st') as G.
      { induction l as [|b r IHl]; intros HF s0 l' s' Hg; simpl in Hg.
        - inversion Hg; subst. constructor.
        - inversion HF as [|? ? Hb Hr]; subst.
          destruct (visit_disj on_disj s0 b) as [[t1 s1]| | |] eqn:E1; simpl in Hg; try discriminate.
          destruct (go r s1) as [[r1 s2]| | |] eqn:E2; simpl in Hg; try discriminate.
          inversion Hg; subst. econstructor; [apply Hb; eassumption|apply IHl; eassumption]. }
      destruct (go bs st) as [[bs1 s1]| | |] eqn:E; simpl in H; try discriminate.
      inversion H; subst. apply VInter. apply (G bs IH). assumption.
  Qed.

  (* ----- from `any_sub p = false` on the input to `any_sub q = false` on the result (p = q:
     preservation; p <> q: establishment under the side condition p), together with a
     relation R between a visited type and its result (what struct-level predicates may observe
     of a field type) and an invariant Q of the state ----- *)
  Section Pres.
    Variable p q : bool -> ty -> bool.
    Variable R : ty -> ty -> Prop.
    Variable Q : S -> Prop.
    Hypothesis R_attrs : forall t t', ty_attrs t' = ty_attrs t -> R t t'.
    Hypothesis q_array : forall inter a v v', p inter (TArray a v) = false -> q inter (TArray a v') = false.
    Hypothesis q_map : forall inter a i v i' v', p inter (TMap a i v) = false -> q inter (TMap a i' v') = false.
    Hypothesis q_inter : forall inter a bs bs', p inter (TInter a bs) = false -> q inter (TInter a bs') = false.
    Hypothesis q_struct : forall inter a dh fs fs',
        Forall2 (fun f f' => f_required f' = f_required f /\ R (f_type f) (f_type f')) fs fs' ->
        p inter (TStruct a dh fs) = false -> q inter (TStruct a dh fs') = false.
    Hypothesis q_leaf : forall inter t, is_leaf t -> p inter t = false -> q inter t = false.
    Hypothesis on_disj_pres : forall st a d t' st' inter,
        on_disj st (TDisj a d) = Ok (t', st') -> any_sub p inter (TDisj a d) = false -> Q st ->
        any_sub q inter t' = false /\ R (TDisj a d) t' /\ Q st'.

    Definition clean_fields (r : bool -> ty -> bool) inter (fs : list field) : Prop :=
      forall f, In f fs -> any_sub r inter (f_type f) = false.
    Definition clean_list (r : bool -> ty -> bool) inter (bs : list ty) : Prop :=
      forall b, In b bs -> any_sub r inter b = false.

    Lemma leaf_any_sub r inter t : is_leaf t -> any_sub r inter t = r inter t.
    Proof. destruct t; simpl; intros H; try contradiction; apply orb_false_r. Qed.

    Lemma vrel_pres_all :
      (forall st t t' st', vrel st t t' st' -> forall inter, any_sub p inter t = false -> Q st ->
                           any_sub q inter t' = false /\ R t t' /\ Q st') /\
      (forall st fs fs' st', vrel_fields st fs fs' st' -> forall inter, clean_fields p inter fs -> Q st ->
                             clean_fields q inter fs' /\
                             Forall2 (fun f f' => f_required f' = f_required f /\ R (f_type f) (f_type f')) fs fs' /\ Q st') /\
      (forall st bs bs' st', vrel_list st bs bs' st' -> forall inter, clean_list p inter bs -> Q st ->
                             clean_list q inter bs' /\ Q st').
    Proof.
      apply vrel_mutind.
      - (* array *) intros st a v v' st' Hv IH inter Hc HQ. simpl in Hc. apply orb_false_iff in Hc. destruct Hc as [Hp Hc].
        destruct (IH inter Hc HQ) as [Hc' [_ HQ']]. split; [|split; [apply R_attrs; reflexivity|assumption]].
        simpl. rewrite (q_array inter a v v' Hp), Hc'. reflexivity.
      - (* map *) intros st a i v i' v' st1 st2 Hi IHi Hv IHv inter Hc HQ. simpl in Hc.
        apply orb_false_iff in Hc. destruct Hc as [Hp Hc]. apply orb_false_iff in Hc. destruct Hc as [Hci Hcv].
        destruct (IHi inter Hci HQ) as [Hci' [_ HQ1]]. destruct (IHv inter Hcv HQ1) as [Hcv' [_ HQ2]].
        split; [|split; [apply R_attrs; reflexivity|assumption]].
        simpl. rewrite (q_map inter a i v i' v' Hp), Hci', Hcv'. reflexivity.
      - (* struct *) intros st a dh fs fs' st' Hf IH inter Hc HQ. simpl in Hc.
        apply orb_false_iff in Hc. destruct Hc as [Hp Hc].
        assert (clean_fields p inter fs) as Hcf by (intros f Hin; exact (proj1 (existsb_false_iff _ _) Hc f Hin)).
        destruct (IH inter Hcf HQ) as [Hcf' [HF2 HQ']]. split; [|split; [apply R_attrs; reflexivity|assumption]].
        simpl. rewrite (q_struct inter a dh fs fs' HF2 Hp). simpl. apply existsb_false_iff. exact Hcf'.
      - (* inter *) intros st a bs bs' st' Hb IH inter Hc HQ. simpl in Hc.
        apply orb_false_iff in Hc. destruct Hc as [Hp Hc].
        assert (clean_list p true bs) as Hcl by (intros b Hin; exact (proj1 (existsb_false_iff _ _) Hc b Hin)).
        destruct (IH true Hcl HQ) as [Hcl' HQ']. split; [|split; [apply R_attrs; reflexivity|assumption]].
        simpl. rewrite (q_inter inter a bs bs' Hp). simpl. apply existsb_false_iff. exact Hcl'.
      - (* disj *) intros st a d t' st' Hd inter Hc HQ. exact (on_disj_pres st a d t' st' inter Hd Hc HQ).
      - (* leaf *) intros st t Hl inter Hc HQ. split; [|split; [apply R_attrs; reflexivity|assumption]].
        rewrite (leaf_any_sub p inter t Hl) in Hc. rewrite (leaf_any_sub q inter t Hl). apply q_leaf; assumption.
      - intros st inter _ HQ. split; [intros f []|split; [constructor|assumption]].
      - intros st f t' st1 r r' st2 Ht IHt Hr IHr inter Hc HQ.
        destruct (IHt inter (Hc f (or_introl eq_refl)) HQ) as [Hct [HR HQ1]].
        destruct (IHr inter (fun g Hg => Hc g (or_intror Hg)) HQ1) as [Hcr [HF2 HQ2]].
        split; [|split; [|assumption]].
        + intros g [<-|Hg]; [simpl; assumption|apply Hcr; assumption].
        + constructor; [simpl; split; [reflexivity|assumption]|assumption].
      - intros st inter _ HQ. split; [intros b []|assumption].
      - intros st b b' st1 r r' st2 Hb IHb Hr IHr inter Hc HQ.
        destruct (IHb inter (Hc b (or_introl eq_refl)) HQ) as [Hcb [_ HQ1]].
        destruct (IHr inter (fun g Hg => Hc g (or_intror Hg)) HQ1) as [Hcr HQ2].
        split; [|assumption]. intros g [<-|Hg]; [assumption|apply Hcr; assumption].
    Qed.

    Lemma vrel_pres st t t' st' inter :
      vrel st t t' st' -> any_sub p inter t = false -> Q st -> any_sub q inter t' = false /\ R t t' /\ Q st'.
    Proof. intros H. exact (proj1 vrel_pres_all st t t' st' H inter). Qed.

    (* the same below the root (the predicates are not asked of the root itself) *)
    Lemma vrel_pres_below st t t' st' :
      (forall a d, t = TDisj a d -> on_disj st t = Ok (t', st') -> any_below p t = false -> Q st ->
                   any_below q t' = false /\ Q st') ->
      vrel st t t' st' -> any_below p t = false -> Q st -> any_below q t' = false /\ Q st'.
    Proof.
      intros Hroot H. destruct H as [st a v v' st' Hv|st a i v i' v' st1 st2 Hi Hv|st a dh fs fs' st' Hf|st a bs bs' st' Hb|st a d t' st' Hd|st t Hl];
        unfold any_below; simpl; intros Hc HQ.
      - rewrite orb_false_r in Hc. destruct (vrel_pres _ _ _ _ false Hv Hc HQ) as [Hc' [_ HQ']]. rewrite Hc'. split; [reflexivity|assumption].
      - rewrite orb_false_r in Hc. apply orb_false_iff in Hc. destruct Hc as [Hci Hcv].
        destruct (vrel_pres _ _ _ _ false Hi Hci HQ) as [Hci' [_ HQ1]].
        destruct (vrel_pres _ _ _ _ false Hv Hcv HQ1) as [Hcv' [_ HQ2]]. rewrite Hci', Hcv'. split; [reflexivity|assumption].
      - rewrite existsb_map_eq in Hc. simpl in Hc.
        assert (clean_fields p false fs) as Hcf by (intros f Hin; exact (proj1 (existsb_false_iff _ _) Hc f Hin)).
        destruct (proj1 (proj2 vrel_pres_all) _ _ _ _ Hf false Hcf HQ) as [Hcf' [_ HQ']]. split; [|assumption].
        rewrite existsb_map_eq. simpl. apply existsb_false_iff. exact Hcf'.
      - rewrite existsb_map_eq in Hc. simpl in Hc.
        assert (clean_list p true bs) as Hcl by (intros b Hin; exact (proj1 (existsb_false_iff _ _) Hc b Hin)).
        destruct (proj2 (proj2 vrel_pres_all) _ _ _ _ Hb true Hcl HQ) as [Hcl' HQ']. split; [|assumption].
        rewrite existsb_map_eq. simpl. apply existsb_false_iff. exact Hcl'.
      - apply (Hroot a d eq_refl Hd); assumption.
      - split; [|assumption]. destruct t; try contradiction; reflexivity.
    Qed.
  End Pres.
End VRel.
Arguments vrel {S}. Arguments vrel_fields {S}. Arguments vrel_list {S}.

(* ---------- the stateless visitor ---------- *)
Definition lift0 (f : ty -> res ty) : unit -> ty -> res (ty * unit) := fun _ d => do d' <- f d ; Ok (d', tt).

Lemma visit_disj0_vrel f t t' : visit_disj0 f t = Ok t' -> vrel (lift0 f) tt t t' tt.
Proof.
  unfold visit_disj0. intros H.
  destruct (visit_disj (fun (_ : unit) d => do d' <- f d ; Ok (d', tt)) tt t) as [[t1 []]| | |] eqn:E; simpl in H; try discriminate.
  inversion H; subst. apply visit_disj_vrel. exact E.
Qed.

Lemma lift0_inv f st t t' st' : lift0 f st t = Ok (t', st') -> f t = Ok t'.
Proof. unfold lift0. destruct (f t); simpl; intros H; try discriminate. inversion H; reflexivity. Qed.

(* ---------- schema-level: where the objects of a visited schema come from ---------- *)
(* Passes.visit_schema *)
Definition vs_loop (fo : object -> res object) : list (string * object) -> list (string * object) -> res (list (string * object)) :=
  fix go (l : list (string * object)) (acc : list (string * object)) : res (list (string * object)) :=
    match l with
    | [] => Ok acc
    | (_, o) :: r => do o' <- fo o ; go r (add_object acc o')
    end.
Lemma visit_schema_eq ft fo s :
  visit_schema ft fo s = do et <- ft (s_entrytype s) ; do objs <- vs_loop fo (s_objects s) [] ;
                         Ok (mkSchema (s_pkg s) (s_meta s) (s_entry s) et objs).
Proof. reflexivity. Qed.
Definition vst_loop {S} (on_type : S -> ty -> res (ty * S))
  : list (string * object) -> list (string * object) -> S -> res (list (string * object) * S) :=
  fix go (l : list (string * object)) (acc : list (string * object)) (st : S) : res (list (string * object) * S) :=
    match l with
    | [] => Ok (acc, st)
    | (_, o) :: rest =>
        do r <- on_type st (o_type o) ;
        go rest (add_object acc (set_otype o (fst r))) (snd r)
    end.
Lemma visit_schema_st_eq {S} (init : S) on_type news s :
  visit_schema_st init on_type news s =
  do r <- on_type init (s_entrytype s) ; do r2 <- vst_loop on_type (s_objects s) [] (snd r) ;
  Ok (mkSchema (s_pkg s) (s_meta s) (s_entry s) (fst r) (fold_left add_object (news (snd r2)) (fst r2))).
Proof. reflexivity. Qed.

Lemma visit_schema_objects (ft : ty -> res ty) (fo : object -> res object) s s' k o' :
  visit_schema ft fo s = Ok s' -> In (k, o') (s_objects s') ->
  exists ko, In ko (s_objects s) /\ fo (snd ko) = Ok o'.
Proof.
  rewrite visit_schema_eq. destruct (ft (s_entrytype s)) as [et| | |]; simpl; try discriminate.
  set (go := vs_loop fo).
  assert (forall l acc objs, go l acc = Ok objs -> In (k, o') objs ->
            In (k, o') acc \/ exists ko, In ko l /\ fo (snd ko) = Ok o') as G.
  { induction l as [|[k0 o0] r IH]; intros acc objs Hg Hin; simpl in Hg.
    - inversion Hg; subst. left; assumption.
    - destruct (fo o0) as [o1| | |] eqn:E; simpl in Hg; try discriminate.
      destruct (IH _ _ Hg Hin) as [H|[ko [Hko Hf]]].
      + unfold add_object in H. apply objs_set_in_inv in H. destruct H as [H|H]; [left; assumption|].
        right. exists (k0, o0). split; [left; reflexivity|]. simpl. subst. assumption.
      + right. exists ko. split; [right; assumption|assumption]. }
  destruct (go (s_objects s) []) as [objs| | |] eqn:E; simpl; try discriminate.
  intros H Hin. inversion H; subst. simpl in Hin. destruct (G _ _ _ E Hin) as [[]|Hx]. exact Hx.
Qed.

Lemma visit_schemas_disj0_objects (f : schema -> ty -> res ty) ss out o' :
  visit_schemas_disj0 f ss = Ok out -> In o' (objects_of out) ->
  exists s o t', In s ss /\ In o (objects_of [s]) /\ visit_disj0 (f s) (o_type o) = Ok t' /\ o' = set_otype o t'.
Proof.
  unfold visit_schemas_disj0. intros HM Hin.
  destruct (in_objects_of_mapM _ _ _ _ HM Hin) as [s [s' [k [Hs [HF Hko]]]]].
  destruct (visit_schema_objects _ _ _ _ _ _ HF Hko) as [[k0 o] [Hko0 Hfo]]. simpl in Hfo.
  destruct (visit_disj0 (f s) (o_type o)) as [t'| | |] eqn:E; simpl in Hfo; try discriminate.
  inversion Hfo; subst. exists s, o, t'. repeat split; try assumption.
  apply in_objects_of. exists s, k0. split; [left; reflexivity|assumption].
Qed.

(* PassesChain.visit_schema_st: an object of the result is a visited input object (with the
   states before and after its visit) or one of the registered objects.  C: what is assumed of
   the visited types (entry-point type included), Q: invariant of the state. *)
Lemma visit_schema_st_objects {S} (init : S) (on_type : S -> ty -> res (ty * S)) (news : S -> list object)
      (C : ty -> Prop) (Q : S -> Prop) s s' :
  (forall st t t' st', C t -> on_type st t = Ok (t', st') -> Q st -> Q st') -> Q init ->
  C (s_entrytype s) -> (forall ko, In ko (s_objects s) -> C (o_type (snd ko))) ->
  visit_schema_st init on_type news s = Ok s' ->
  exists final, Q final /\
    forall k o', In (k, o') (s_objects s') ->
      (exists ko st t' st', In ko (s_objects s) /\ Q st /\ on_type st (o_type (snd ko)) = Ok (t', st') /\ o' = set_otype (snd ko) t')
      \/ In o' (news final).
Proof.
  intros HQ Hinit HCe HCo. rewrite visit_schema_st_eq.
  destruct (on_type init (s_entrytype s)) as [[et st0]| | |] eqn:E0; simpl; try discriminate.
  assert (Q st0) as HQ0 by (eapply HQ; eassumption).
  set (go := vst_loop on_type).
  assert (forall l acc st objs st', (forall ko, In ko l -> C (o_type (snd ko))) -> go l acc st = Ok (objs, st') -> Q st ->
            Q st' /\ forall k o', In (k, o') objs ->
              In (k, o') acc \/
              exists ko s1 t' s2, In ko l /\ Q s1 /\ on_type s1 (o_type (snd ko)) = Ok (t', s2) /\ o' = set_otype (snd ko) t') as G.
  { induction l as [|[k0 o0] r IH]; intros acc st objs st' HCl Hg Hq; simpl in Hg.
    - inversion Hg; subst. split; [assumption|]. intros k o' Hin. left; assumption.
    - destruct (on_type st (o_type o0)) as [[t1 s1]| | |] eqn:E; simpl in Hg; try discriminate.
      assert (Q s1) as Hq1 by (eapply HQ; [exact (HCl (k0, o0) (or_introl eq_refl))|eassumption|assumption]).
      destruct (IH _ _ _ _ (fun ko Hko => HCl ko (or_intror Hko)) Hg Hq1) as [Hq' Hobjs]. split; [assumption|].
      intros k o' Hin. destruct (Hobjs k o' Hin) as [H|[ko [sa [t' [sb [Hko [Hqa [Hon Heq]]]]]]]].
      + unfold add_object in H. apply objs_set_in_inv in H. destruct H as [H|H]; [left; assumption|].
        right. exists (k0, o0), st, t1, s1. simpl. repeat split; try assumption. left; reflexivity.
      + right. exists ko, sa, t', sb. repeat split; try assumption. right; assumption. }
  destruct (go (s_objects s) [] st0) as [[objs st1]| | |] eqn:E; simpl; try discriminate.
  intros H. inversion H; subst. simpl. destruct (G _ _ _ _ _ HCo E HQ0) as [Hq1 Hobjs].
  exists st1. split; [assumption|]. intros k o' Hin.
  apply fold_add_object_in in Hin. destruct Hin as [Hin|Hin]; [|right; assumption].
  destruct (Hobjs k o' Hin) as [[]|Hx]. left. exact Hx.
Qed.

Lemma objects_of_single s ss o : In s ss -> In o (objects_of [s]) -> In o (objects_of ss).
Proof.
  intros Hs Ho. apply in_objects_of in Ho. destruct Ho as [s0 [k [[<-|[]] Hko]]].
  apply in_objects_of. exists s, k. split; assumption.
Qed.

(* ---------- sub-terms with the "inside allOf" flag of their position ---------- *)
Inductive sub_at : bool -> ty -> bool -> ty -> Prop :=
| SA_here i t : sub_at i t i t
| SA_array i a v j u : sub_at i v j u -> sub_at i (TArray a v) j u
| SA_map_i i a x v j u : sub_at i x j u -> sub_at i (TMap a x v) j u
| SA_map_v i a x v j u : sub_at i v j u -> sub_at i (TMap a x v) j u
| SA_struct i a dh fs f j u : In f fs -> sub_at i (f_type f) j u -> sub_at i (TStruct a dh fs) j u
| SA_disj i a d b j u : In b (d_branches d) -> sub_at i b j u -> sub_at i (TDisj a d) j u
| SA_inter i a bs b j u : In b bs -> sub_at true b j u -> sub_at i (TInter a bs) j u.

Lemma sub_at_clean p i t j u : sub_at i t j u -> any_sub p i t = false -> any_sub p j u = false.
Proof.
  induction 1 as [i t|i a v j u H IH|i a x v j u H IH|i a x v j u H IH|i a dh fs f j u Hin H IH|i a d b j u Hin H IH|i a bs b j u Hin H IH];
    intros Hc; [assumption| | | | | | ]; simpl in Hc; apply orb_false_iff in Hc; destruct Hc as [_ Hc]; apply IH.
  - assumption.
  - apply orb_false_iff in Hc. destruct Hc; assumption.
  - apply orb_false_iff in Hc. destruct Hc; assumption.
  - exact (proj1 (existsb_false_iff _ _) Hc f Hin).
  - exact (proj1 (existsb_false_iff _ _) Hc b Hin).
  - exact (proj1 (existsb_false_iff _ _) Hc b Hin).
Qed.

Lemma sub_at_trans i t j u k w : sub_at i t j u -> sub_at j u k w -> sub_at i t k w.
Proof.
  induction 1 as [i t|i a v j u H IH|i a x v j u H IH|i a x v j u H IH|i a dh fs f j u Hin H IH|i a d b j u Hin H IH|i a bs b j u Hin H IH];
    intros H2; [assumption| | | | | | ].
  - apply SA_array. auto.
  - apply SA_map_i. auto.
  - apply SA_map_v. auto.
  - eapply SA_struct; [eassumption|auto].
  - eapply SA_disj; [eassumption|auto].
  - eapply SA_inter; [eassumption|auto].
Qed.

(* ---------- structure-preserving rewrites: sub-trees replaced by references or scalars,
   attributes changed, everything else kept ---------- *)
Definition is_simple (t : ty) : Prop :=
  match t with TRef _ _ _ | TScalar _ _ _ _ => True | _ => False end.
Definition is_ref_t (t : ty) : Prop := match t with TRef _ _ _ => True | _ => False end.
Definition keeps_null (t t' : ty) : Prop := nullable (ty_attrs t) = true -> nullable (ty_attrs t') = true.

Inductive srel : ty -> ty -> Prop :=
| SR_same t : srel t t
| SR_simple t l : is_ref_t l -> srel t l
| SR_setattrs t t' a : srel t t' -> srel t (set_attrs t' a)
| SR_array a a' v v' : srel v v' -> srel (TArray a v) (TArray a' v')
| SR_map a a' i i' v v' : srel i i' -> srel v v' -> srel (TMap a i v) (TMap a' i' v')
| SR_struct a a' dh dh' fs fs' : srel_fields fs fs' -> srel (TStruct a dh fs) (TStruct a' dh' fs')
| SR_disj a a' d d' : srel_list (d_branches d) (d_branches d') -> srel (TDisj a d) (TDisj a' d')
| SR_inter a a' bs bs' : srel_list bs bs' -> srel (TInter a bs) (TInter a' bs')
| SR_enum a vs vs' : srel (TEnum a vs) (TEnum a vs')      (* members renamed *)
with srel_fields : list field -> list field -> Prop :=
| SRF_nil : srel_fields [] []
| SRF_cons f f' r r' :
    f_required f' = f_required f -> keeps_null (f_type f) (f_type f') -> srel (f_type f) (f_type f') ->
    srel_fields r r' -> srel_fields (f :: r) (f' :: r')
with srel_list : list ty -> list ty -> Prop :=
| SRL_nil : srel_list [] []
| SRL_cons b b' r r' : srel b b' -> srel_list r r' -> srel_list (b :: r) (b' :: r').

Scheme srel_ind2 := Induction for srel Sort Prop
  with srel_fields_ind2 := Induction for srel_fields Sort Prop
  with srel_list_ind2 := Induction for srel_list Sort Prop.
Combined Scheme srel_mutind from srel_ind2, srel_fields_ind2, srel_list_ind2.

Lemma srel_list_map (g : ty -> ty) l : (forall b, In b l -> srel b (g b)) -> srel_list l (map g l).
Proof.
  induction l as [|b r IH]; intros H; [constructor|]. simpl. constructor; [apply H; left; reflexivity|].
  apply IH. intros x Hx. apply H. right; assumption.
Qed.
Lemma srel_fields_map (g : field -> ty) l :
  (forall f, In f l -> srel (f_type f) (g f) /\ keeps_null (f_type f) (g f)) ->
  srel_fields l (map (fun f => mkField (f_name f) (f_comments f) (g f) (f_required f)) l).
Proof.
  induction l as [|f r IH]; intros H; [constructor|]. simpl.
  destruct (H f (or_introl eq_refl)) as [H1 H2]. constructor; simpl; try assumption; [reflexivity|].
  apply IH. intros x Hx. apply H. right; assumption.
Qed.
Lemma srel_list_same l : srel_list l l.
Proof. induction l; constructor; [apply SR_same|assumption]. Qed.
Lemma srel_fields_same l : srel_fields l l.
Proof. induction l; constructor; try reflexivity; [intros H; exact H|apply SR_same|assumption]. Qed.

Lemma any_sub_set_attrs p t a inter :
  (forall i x b, p i (set_attrs x b) = p i x) -> any_sub p inter (set_attrs t a) = any_sub p inter t.
Proof. intros Hp. pose proof (Hp inter t a) as E. destruct t; simpl in *; rewrite E; reflexivity. Qed.

Section SrelPres.
  Variable p : bool -> ty -> bool.
  Variable U : ty -> ty -> Prop.       (* what the union-level clause may use of related branches *)
  Hypothesis HU : forall t t', srel t t' -> U t t'.
  Hypothesis sp_attrs : forall inter t a, p inter (set_attrs t a) = p inter t.
  Hypothesis sp_simple : forall inter l, is_ref_t l -> p inter l = false.
  Hypothesis sp_array : forall inter a a' v v', p inter (TArray a v) = false -> p inter (TArray a' v') = false.
  Hypothesis sp_map : forall inter a a' i i' v v', p inter (TMap a i v) = false -> p inter (TMap a' i' v') = false.
  Hypothesis sp_inter : forall inter a a' bs bs', p inter (TInter a bs) = false -> p inter (TInter a' bs') = false.
  Hypothesis sp_struct : forall inter a a' dh dh' fs fs',
      Forall2 (fun f f' => f_required f' = f_required f /\ keeps_null (f_type f) (f_type f')) fs fs' ->
      p inter (TStruct a dh fs) = false -> p inter (TStruct a' dh' fs') = false.
  Hypothesis sp_disj : forall inter a a' d d',
      Forall2 U (d_branches d) (d_branches d') -> p inter (TDisj a d) = false -> p inter (TDisj a' d') = false.
  Hypothesis sp_enum : forall inter a vs vs', p inter (TEnum a vs) = false -> p inter (TEnum a vs') = false.

  Lemma srel_pres_all :
    (forall t t', srel t t' -> forall inter, any_sub p inter t = false -> any_sub p inter t' = false) /\
    (forall fs fs', srel_fields fs fs' ->
        Forall2 (fun f f' => f_required f' = f_required f /\ keeps_null (f_type f) (f_type f')) fs fs' /\
        forall inter, (forall f, In f fs -> any_sub p inter (f_type f) = false) ->
                      forall f', In f' fs' -> any_sub p inter (f_type f') = false) /\
    (forall bs bs', srel_list bs bs' ->
        Forall2 U bs bs' /\
        forall inter, (forall b, In b bs -> any_sub p inter b = false) -> forall b', In b' bs' -> any_sub p inter b' = false).
  Proof.
    apply srel_mutind.
    - intros t inter H. exact H.
    - intros t l Hl inter _. destruct l; simpl in Hl; try contradiction; simpl; rewrite sp_simple; try exact I; reflexivity.
    - intros t t' a _ IH inter H. rewrite any_sub_set_attrs; [apply IH; assumption|]. intros i x b. apply sp_attrs.
    - intros a a' v v' _ IH inter H. simpl in *. apply orb_false_iff in H. destruct H as [Hp Hc].
      rewrite (sp_array inter a a' v v' Hp), (IH inter Hc). reflexivity.
    - intros a a' i i' v v' _ IHi _ IHv inter H. simpl in *. apply orb_false_iff in H. destruct H as [Hp Hc].
      apply orb_false_iff in Hc. destruct Hc as [Hi Hv].
      rewrite (sp_map inter a a' i i' v v' Hp), (IHi inter Hi), (IHv inter Hv). reflexivity.
    - intros a a' dh dh' fs fs' _ [HF2 IH] inter H. simpl in *. apply orb_false_iff in H. destruct H as [Hp Hc].
      rewrite (sp_struct inter a a' dh dh' fs fs' HF2 Hp). simpl. apply existsb_false_iff.
      apply (IH inter). exact (proj1 (existsb_false_iff _ _) Hc).
    - intros a a' d d' _ [HF2 IH] inter H. simpl in *. apply orb_false_iff in H. destruct H as [Hp Hc].
      rewrite (sp_disj inter a a' d d' HF2 Hp). simpl. apply existsb_false_iff.
      apply (IH inter). exact (proj1 (existsb_false_iff _ _) Hc).
    - intros a a' bs bs' _ [HF2 IH] inter H. simpl in *. apply orb_false_iff in H. destruct H as [Hp Hc].
      rewrite (sp_inter inter a a' bs bs' Hp). simpl. apply existsb_false_iff.
      apply (IH true). exact (proj1 (existsb_false_iff _ _) Hc).
    - intros a vs vs' inter H. simpl in *. rewrite orb_false_r in *. apply (sp_enum inter a vs vs'). exact H.
    - split; [constructor|]. intros inter _ f' [].
    - intros f f' r r' Hreq Hkn Hs IHs _ [HF2 IH]. split; [constructor; [split; assumption|assumption]|].
      intros inter Hc g [<-|Hg]; [apply IHs; apply Hc; left; reflexivity|].
      apply (IH inter); [intros x Hx; apply Hc; right; assumption|assumption].
    - split; [constructor|]. intros inter _ b' [].
    - intros b b' r r' Hs IHs _ [HF2 IH]. split; [constructor; [apply HU; assumption|assumption]|].
      intros inter Hc g [<-|Hg]; [apply IHs; apply Hc; left; reflexivity|].
      apply (IH inter); [intros x Hx; apply Hc; right; assumption|assumption].
  Qed.

  Lemma srel_pres t t' inter : srel t t' -> any_sub p inter t = false -> any_sub p inter t' = false.
  Proof. intros H. exact (proj1 srel_pres_all t t' H inter). Qed.

  (* below the root *)
  Lemma any_below_set_attrs t a : any_below p (set_attrs t a) = any_below p t.
  Proof. destruct t; reflexivity. Qed.

  Lemma srel_pres_below t t' : srel t t' -> any_below p t = false -> any_below p t' = false.
  Proof.
    intros H. induction H as [t|t l Hl|t t' a H IH|a a' v v' H _|a a' i i' v v' Hi _ Hv _|a a' dh dh' fs fs' H _|a a' d d' H _|a a' bs bs' H _|a vs vs'| | | | ]
      using srel_ind2 with (P0 := fun _ _ _ => True) (P1 := fun _ _ _ => True); try exact I.
    - intros Hc. exact Hc.
    - intros _. destruct l; simpl in Hl; try contradiction; reflexivity.
    - intros Hc. rewrite any_below_set_attrs. apply IH. assumption.
    - unfold any_below. simpl. rewrite !orb_false_r. apply srel_pres. assumption.
    - unfold any_below. simpl. rewrite !orb_false_r. intros Hc. apply orb_false_iff in Hc. destruct Hc as [H1 H2].
      rewrite (srel_pres _ _ false Hi H1), (srel_pres _ _ false Hv H2). reflexivity.
    - unfold any_below. simpl. rewrite !existsb_map_eq. simpl. intros Hc. apply existsb_false_iff.
      apply (proj2 (proj1 (proj2 srel_pres_all) _ _ H) false). exact (proj1 (existsb_false_iff _ _) Hc).
    - unfold any_below. simpl. rewrite !existsb_map_eq. simpl. intros Hc. apply existsb_false_iff.
      apply (proj2 (proj2 (proj2 srel_pres_all) _ _ H) false). exact (proj1 (existsb_false_iff _ _) Hc).
    - unfold any_below. simpl. rewrite !existsb_map_eq. simpl. intros Hc. apply existsb_false_iff.
      apply (proj2 (proj2 (proj2 srel_pres_all) _ _ H) true). exact (proj1 (existsb_false_iff _ _) Hc).
    - intros _. reflexivity.
  Qed.
End SrelPres.
