(* C20: lemmas about Model/Config.v. *)
From Coq Require Import List String Bool Arith Lia.
From Cog Require Import Model.Config.
Import ListNotations.
Local Open Scope list_scope.

(* ------------------------------------------------------------------ induction over documents *)
Section DocInd.
  Variable P : doc -> Prop.
  Hypothesis Hmap : forall kvs, Forall (fun kv => P (snd kv)) kvs -> P (DMap kvs).
  Hypothesis Hseq : forall ds, Forall P ds -> P (DSeq ds).
  Hypothesis Hsc : forall s, P (DScalar s).

  Fixpoint doc_ind' (d : doc) : P d :=
    match d with
    | DMap kvs =>
        Hmap kvs ((fix go (l : list (string * doc)) : Forall (fun kv => P (snd kv)) l :=
                     match l with
                     | [] => Forall_nil _
                     | kv :: r => Forall_cons kv (doc_ind' (snd kv)) (go r)
                     end) kvs)
    | DSeq ds =>
        Hseq ds ((fix go (l : list doc) : Forall P l :=
                    match l with
                    | [] => Forall_nil _
                    | x :: r => Forall_cons x (doc_ind' x) (go r)
                    end) ds)
    | DScalar s => Hsc s
    end.
End DocInd.

(* ------------------------------------------------------------------ list helpers *)
Lemma forallb_false_in : forall {A} (f : A -> bool) l x, In x l -> f x = false -> forallb f l = false.
Proof.
  intros A f l x Hin Hf. induction l as [|a l IH]; [contradiction|].
  simpl. destruct Hin as [->|Hin].
  - rewrite Hf. reflexivity.
  - rewrite (IH Hin). apply andb_false_r.
Qed.

Lemma forallb_update_nth_false : forall {A} (f : A -> bool) (g : A -> A) l i x,
  nth_error l i = Some x -> f (g x) = false -> forallb f (update_nth l i g) = false.
Proof.
  intros A f g l. induction l as [|a l IH]; intros i x Hn Hf.
  - destruct i; discriminate.
  - destruct i as [|j]; simpl in *.
    + inversion Hn; subst. rewrite Hf. reflexivity.
    + rewrite (IH j x Hn Hf). apply andb_false_r.
Qed.

Lemma forallb_ext_Forall : forall {A} (f g : A -> bool) l,
  Forall (fun x => f x = g x) l -> forallb f l = forallb g l.
Proof.
  intros A f g l H. induction H as [|x l Hx _ IH]; [reflexivity|]. simpl. rewrite Hx, IH. reflexivity.
Qed.

Lemma forallb_impl_Forall : forall {A} (f g : A -> bool) l,
  Forall (fun x => f x = true -> g x = true) l -> forallb f l = true -> forallb g l = true.
Proof.
  intros A f g l H. induction H as [|x l Hx _ IH]; [reflexivity|]. simpl. intros Hf.
  apply andb_true_iff in Hf. destruct Hf as [H1 H2]. rewrite (Hx H1), (IH H2). reflexivity.
Qed.

(* ------------------------------------------------------------------ unknown keys are refused *)
(* At ANY depth: whatever the forest, the document, the path (through declared keys and
   sequence elements) to a mapping decoded into a closed struct, the key not declared there and
   the value given to it -- decoding with KnownFields(true) fails. *)
Lemma unknown_key_rejected_proof : forall D p n d r k v,
  strict_at D n d p = Some r -> undeclared D r k = true ->
  decode_strict D n (inject d p k v) = false.
Proof.
  unfold decode_strict. intros D p. induction p as [|i q IH]; intros n d r k v Hs Hu.
  - simpl in Hs. destruct n; try discriminate. destruct d; try discriminate.
    inversion Hs; subst r0. clear Hs. simpl.
    unfold undeclared in Hu. destruct (assoc D r) as [o|] eqn:Ho; [|discriminate].
    rewrite forallb_app. simpl.
    destruct (assoc (o_fields o) k); [discriminate|]. destruct (o_extra o); [discriminate|].
    simpl. rewrite andb_false_r. apply andb_false_r.
  - simpl in Hs. destruct n; try discriminate.
    + (* struct *)
      destruct d as [kvs|ds|s]; try discriminate.
      destruct (assoc D r0) as [o|] eqn:Ho; [|discriminate].
      destruct (nth_error kvs i) as [[k0 v0]|] eqn:Hn; [|discriminate].
      destruct (assoc (o_fields o) k0) as [c|] eqn:Hc; [|discriminate].
      simpl. rewrite Ho.
      match goal with |- _ && forallb ?F _ = false =>
        rewrite (forallb_update_nth_false F _ kvs i (k0, v0) Hn) end.
      * apply andb_false_r.
      * simpl. rewrite Hc. apply (IH c v0 r k v Hs Hu).
    + (* sequence *)
      destruct d as [kvs|ds|s]; try discriminate.
      destruct (nth_error ds i) as [v0|] eqn:Hn; [|discriminate].
      simpl. apply (forallb_update_nth_false _ _ ds i v0 Hn). apply (IH n v0 r k v Hs Hu).
Qed.

Lemma unknown_key_rejected_load_proof : forall F p d r k v,
  f_known_fields F = true ->
  strict_at (f_defs F) (f_root F) d p = Some r -> undeclared (f_defs F) r k = true ->
  load F (inject d p k v) = false.
Proof.
  intros F p d r k v Hkf Hs Hu. unfold load. rewrite Hkf.
  pose proof (unknown_key_rejected_proof _ _ _ _ _ _ v Hs Hu) as H. unfold decode_strict in H.
  rewrite H. reflexivity.
Qed.

(* without KnownFields the very same document decodes whenever the original did: the flag is
   what the property rests on (the injected key and its value are skipped unseen) *)
Lemma lax_accepts_injection_proof : forall D r o kvs k v,
  assoc D r = Some o -> assoc (o_fields o) k = None -> o_extra o = None -> mem k (keys_of kvs) = false ->
  decode false D (NObj r) (DMap kvs) = true ->
  decode false D (NObj r) (inject (DMap kvs) [] k v) = true.
Proof.
  intros D r o kvs k v Ho Hk He Hm Hd. simpl in *. rewrite Ho in *.
  apply andb_true_iff in Hd. destruct Hd as [Hnd Hall].
  apply andb_true_iff. split.
  - unfold keys_of. rewrite map_app. simpl. clear Hall.
    unfold keys_of in Hnd, Hm. induction (map fst kvs) as [|x l IHl]; [reflexivity|].
    simpl in *. apply andb_true_iff in Hnd. destruct Hnd as [H1 H2].
    apply orb_false_iff in Hm. destruct Hm as [Hxk Hm].
    apply andb_true_iff. split; [|apply IHl; assumption].
    apply negb_true_iff. apply negb_true_iff in H1.
    clear - H1 Hxk. induction l as [|y l IH]; simpl in *.
    + rewrite String.eqb_sym, Hxk. reflexivity.
    + apply orb_false_iff in H1. destruct H1 as [Ha Hb]. rewrite Ha. simpl. apply IH. assumption.
  - rewrite forallb_app. rewrite Hall. simpl. rewrite Hk, He. reflexivity.
Qed.

(* ------------------------------------------------------------------ rules without action *)
Lemma first_set_none_iff : forall keys kvs,
  first_set keys kvs = None <-> (forall k, In k keys -> member_set kvs k = false).
Proof.
  intros keys kvs. induction keys as [|a keys IH]; simpl.
  - split; [intros _ k []|reflexivity].
  - destruct (member_set kvs a) eqn:Ha.
    + split; [discriminate|]. intros H. specialize (H a (or_introl eq_refl)). congruence.
    + rewrite IH. split.
      * intros H k [<-|Hk]; [assumption|apply H; assumption].
      * intros H k Hk. apply H. right. assumption.
Qed.

(* the empty mapping, and any mapping whose recognised members are all null, set no member *)
Lemma member_set_all_null : forall kvs k,
  (forall k' v, In (k', v) kvs -> k' = k -> is_null v = true) -> member_set kvs k = false.
Proof.
  intros kvs k. induction kvs as [|[k0 v0] kvs IH]; intros H; [reflexivity|].
  simpl. destruct (String.eqb k0 k) eqn:E.
  - apply String.eqb_eq in E. rewrite (H k0 v0 (or_introl eq_refl) E). reflexivity.
  - apply IH. intros k' v Hin. apply H. right. assumption.
Qed.

Lemma empty_rule_rejected_proof : forall D C r o keys kvs,
  assoc D r = Some o -> In (CUnion keys true) (constrs_of C r) -> first_set keys kvs = None ->
  convert D C (NObj r) (DMap kvs) = false.
Proof.
  intros D C r o keys kvs Ho Hin Hf. simpl. rewrite Ho.
  apply (forallb_false_in _ _ _ Hin). rewrite Hf. reflexivity.
Qed.

(* an entry that does not convert makes the whole file fail *)
Lemma each_entry_rejected_proof : forall D C r o k e kvs i ds j x,
  assoc D r = Some o -> In (CEach k) (constrs_of C r) -> assoc (o_fields o) k = Some (NSeq e) ->
  nth_error kvs i = Some (k, DSeq ds) -> nth_error ds j = Some x -> convert D C e x = false ->
  convert D C (NObj r) (DMap kvs) = false.
Proof.
  intros D C r o k e kvs i ds j x Ho Hin Hk Hi Hj Hx. simpl. rewrite Ho.
  apply (forallb_false_in _ _ _ Hin).
  apply (forallb_false_in _ kvs (k, DSeq ds)); [eapply nth_error_In; eassumption|].
  simpl. rewrite String.eqb_refl, Hk. simpl.
  apply (forallb_false_in _ ds x); [eapply nth_error_In; eassumption|assumption].
Qed.

Lemma rule_entry_without_action_rejected_proof : forall F r o k e u keys kvs i ds j ekvs,
  f_root F = NObj r -> assoc (f_defs F) r = Some o -> In (CEach k) (constrs_of (f_conv F) r) ->
  assoc (o_fields o) k = Some (NSeq (NObj e)) -> assoc (f_defs F) e = Some u ->
  In (CUnion keys true) (constrs_of (f_conv F) e) ->
  nth_error kvs i = Some (k, DSeq ds) -> nth_error ds j = Some (DMap ekvs) ->
  first_set keys ekvs = None ->
  load F (DMap kvs) = false.
Proof.
  intros F r o k e u keys kvs i ds j ekvs Hr Ho Hin Hk Hu Hun Hi Hj Hf.
  unfold load. rewrite Hr.
  rewrite (each_entry_rejected_proof (f_defs F) (f_conv F) r o k (NObj e) kvs i ds j (DMap ekvs) Ho Hin Hk Hi Hj).
  - apply andb_false_r.
  - apply (empty_rule_rejected_proof _ _ e u keys ekvs Hu Hun Hf).
Qed.

(* ------------------------------------------------------------------ the two forests accept the same keys *)
Lemma mem_pair_sound : forall a b R, mem_pair a b R = true -> In (a, b) R.
Proof.
  intros a b R. induction R as [|[x y] R IH]; simpl; [discriminate|].
  intros H. apply orb_true_iff in H. destruct H as [H|H].
  - apply andb_true_iff in H. destruct H as [H1 H2].
    apply String.eqb_eq in H1. apply String.eqb_eq in H2. subst. left. reflexivity.
  - right. apply IH. assumption.
Qed.

Lemma fields_sim_some : forall R fa fb k n,
  fields_sim R fa fb = true -> assoc fa k = Some n ->
  exists m, assoc fb k = Some m /\ node_sim R n m = true.
Proof.
  intros R fa fb k n H Ha. unfold fields_sim in H. apply andb_true_iff in H. destruct H as [H _].
  revert Ha. induction fa as [|[k0 n0] fa IH]; simpl in *; [discriminate|].
  apply andb_true_iff in H. destruct H as [H0 H1].
  destruct (String.eqb k0 k) eqn:E.
  - intros Hx. inversion Hx; subst n0. apply String.eqb_eq in E. subst k0.
    destruct (assoc fb k) as [m|]; [|discriminate]. exists m. split; [reflexivity|assumption].
  - intros Hx. apply IH; assumption.
Qed.

Lemma fields_sim_none : forall R fa fb k,
  fields_sim R fa fb = true -> assoc fa k = None -> assoc fb k = None.
Proof.
  intros R fa fb k H Ha. unfold fields_sim in H. apply andb_true_iff in H. destruct H as [_ H].
  induction fb as [|[k0 n0] fb IH]; simpl in *; [reflexivity|].
  apply andb_true_iff in H. destruct H as [H0 H1].
  destruct (String.eqb k0 k) eqn:E.
  - apply String.eqb_eq in E. subst k0. rewrite Ha in H0. discriminate.
  - apply IH. assumption.
Qed.

Lemma rel_ok_in : forall R D1 D2 r s, rel_ok R D1 D2 = true -> In (r, s) R ->
  exists o1 o2, assoc D1 r = Some o1 /\ assoc D2 s = Some o2 /\
                fields_sim R (o_fields o1) (o_fields o2) = true /\
                extra_sim R (o_extra o1) (o_extra o2) = true.
Proof.
  intros R D1 D2 r s H Hin. unfold rel_ok in H. rewrite forallb_forall in H.
  specialize (H (r, s) Hin). simpl in H.
  destruct (assoc D1 r) as [o1|]; [|discriminate]. destruct (assoc D2 s) as [o2|]; [|discriminate].
  apply andb_true_iff in H. destruct H as [H1 H2]. exists o1, o2. repeat split; assumption.
Qed.

(* a finite simulation in both directions is enough: related positions accept exactly the same
   mapping keys in every document, at every depth *)
Lemma sim_keys_ok_proof : forall R D1 D2, rel_ok R D1 D2 = true ->
  forall d a b, node_sim R a b = true -> keys_ok D1 a d = keys_ok D2 b d.
Proof.
  intros R D1 D2 HR. induction d using doc_ind'; intros a b Hs.
  - (* mapping *)
    destruct a; destruct b; simpl in Hs; try discriminate; try reflexivity.
    + apply mem_pair_sound in Hs.
      destruct (rel_ok_in _ _ _ _ _ HR Hs) as (o1 & o2 & H1 & H2 & Hf & He).
      simpl. rewrite H1, H2. apply forallb_ext_Forall.
      eapply Forall_impl; [|exact H]. intros [k v] IH. simpl in *.
      destruct (assoc (o_fields o1) k) as [c|] eqn:Hc.
      * destruct (fields_sim_some _ _ _ _ _ Hf Hc) as (m & Hm & Hcm). rewrite Hm. apply IH. assumption.
      * rewrite (fields_sim_none _ _ _ _ Hf Hc).
        destruct (o_extra o1) as [e1|]; destruct (o_extra o2) as [e2|]; simpl in He; try discriminate.
        -- apply IH. assumption.
        -- reflexivity.
    + simpl. apply forallb_ext_Forall. eapply Forall_impl; [|exact H]. intros [k v] IH. simpl in *.
      apply IH. assumption.
  - (* sequence *)
    destruct a; destruct b; simpl in Hs; try discriminate; try reflexivity.
    simpl. apply forallb_ext_Forall. eapply Forall_impl; [|exact H]. intros v IH. apply IH. assumption.
  - reflexivity.
Qed.

Lemma same_keys_sound_proof : forall R L S, same_keys R L S = true ->
  forall d, keys_ok (f_defs L) (f_root L) d = keys_ok (f_defs S) (f_root S) d.
Proof.
  intros R L S H d. unfold same_keys in H. apply andb_true_iff in H. destruct H as [H1 H2].
  apply (sim_keys_ok_proof R _ _ H1 d _ _ H2).
Qed.

(* what loads uses only keys of the language; what validates uses only keys of the schema *)
Lemma decode_keys_ok_proof : forall D d n, decode_strict D n d = true -> keys_ok D n d = true.
Proof.
  unfold decode_strict. intros D. induction d using doc_ind'; intros n Hd.
  - destruct n; simpl in *; try reflexivity.
    + destruct (assoc D r) as [o|]; [|discriminate].
      apply andb_true_iff in Hd. destruct Hd as [_ Hd].
      revert Hd. apply forallb_impl_Forall. eapply Forall_impl; [|exact H].
      intros [k v] IH. simpl in *.
      destruct (assoc (o_fields o) k) as [c|]; [apply IH|].
      destruct (o_extra o) as [e|]; [apply IH|]. simpl. discriminate.
    + apply andb_true_iff in Hd. destruct Hd as [_ Hd].
      revert Hd. apply forallb_impl_Forall. eapply Forall_impl; [|exact H].
      intros [k v] IH. simpl in *. apply IH.
  - destruct n; simpl in *; try reflexivity.
    revert Hd. apply forallb_impl_Forall. eapply Forall_impl; [|exact H]. intros v IH. apply IH.
  - reflexivity.
Qed.

Lemma schema_accepts_keys_ok_proof : forall D d n, schema_accepts D n d = true -> keys_ok D n d = true.
Proof.
  intros D. induction d using doc_ind'; intros n Hd.
  - destruct n; simpl in *; try reflexivity.
    + destruct (assoc D r) as [o|]; [|discriminate].
      revert Hd. apply forallb_impl_Forall. eapply Forall_impl; [|exact H].
      intros [k v] IH. simpl in *.
      destruct (assoc (o_fields o) k) as [c|]; [apply IH|].
      destruct (o_extra o) as [e|]; [apply IH|]. discriminate.
    + revert Hd. apply forallb_impl_Forall. eapply Forall_impl; [|exact H].
      intros [k v] IH. simpl in *. apply IH.
  - destruct n; simpl in *; try reflexivity.
    revert Hd. apply forallb_impl_Forall. eapply Forall_impl; [|exact H]. intros v IH. apply IH.
  - reflexivity.
Qed.

(* an unknown key at a language position is refused by the schema side too, when the forests agree:
   keys_ok of the injected document is false on the loader forest *)
Lemma unknown_key_not_keys_ok_proof : forall D p n d r k v,
  strict_at D n d p = Some r -> undeclared D r k = true -> keys_ok D n (inject d p k v) = false.
Proof.
  intros D p. induction p as [|i q IH]; intros n d r k v Hs Hu.
  - simpl in Hs. destruct n; try discriminate. destruct d; try discriminate.
    inversion Hs; subst r0. clear Hs. simpl.
    unfold undeclared in Hu. destruct (assoc D r) as [o|] eqn:Ho; [|discriminate].
    rewrite forallb_app. simpl.
    destruct (assoc (o_fields o) k); [discriminate|]. destruct (o_extra o); [discriminate|].
    apply andb_false_r.
  - simpl in Hs. destruct n; try discriminate.
    + destruct d as [kvs|ds|s]; try discriminate.
      destruct (assoc D r0) as [o|] eqn:Ho; [|discriminate].
      destruct (nth_error kvs i) as [[k0 v0]|] eqn:Hn; [|discriminate].
      destruct (assoc (o_fields o) k0) as [c|] eqn:Hc; [|discriminate].
      simpl. rewrite Ho.
      apply (forallb_update_nth_false _ _ kvs i (k0, v0) Hn).
      simpl. rewrite Hc. apply (IH c v0 r k v Hs Hu).
    + destruct d as [kvs|ds|s]; try discriminate.
      destruct (nth_error ds i) as [v0|] eqn:Hn; [|discriminate].
      simpl. apply (forallb_update_nth_false _ _ ds i v0 Hn). apply (IH n v0 r k v Hs Hu).
Qed.

(* ------------------------------------------------------------------ rule sites of a forest *)
Lemma union_keys_in : forall cs keys, union_keys cs = Some keys -> In (CUnion keys true) cs.
Proof.
  induction cs as [|c cs IH]; intros keys H; [discriminate|].
  simpl in H. destruct c as [ks rej|ks|k].
  - destruct rej.
    + inversion H; subst. left. reflexivity.
    + right. apply IH. assumption.
  - right. apply IH. assumption.
  - right. apply IH. assumption.
Qed.

Lemma rule_site_rejects_empty_proof : forall F key e, rule_site_ok F key e = true ->
  forall kvs i ds j ekvs,
    nth_error kvs i = Some (key, DSeq ds) -> nth_error ds j = Some (DMap ekvs) ->
    first_set (rule_keys F e) ekvs = None ->
    load F (DMap kvs) = false.
Proof.
  intros F key e Hok kvs i ds j ekvs Hi Hj Hf. unfold rule_site_ok in Hok.
  destruct (f_root F) as [r| | | | |] eqn:Hr; try discriminate.
  destruct (assoc (f_defs F) r) as [o|] eqn:Ho; [|discriminate].
  apply andb_true_iff in Hok. destruct Hok as [Hok H4].
  apply andb_true_iff in Hok. destruct Hok as [Hok H3].
  apply andb_true_iff in Hok. destruct Hok as [H1 H2].
  destruct (assoc (o_fields o) key) as [[e'| [e'| | | | |] | | | |]|] eqn:Hk; try discriminate.
  apply String.eqb_eq in H2. subst e'.
  destruct (assoc (f_defs F) e) as [u|] eqn:Hu; [|discriminate].
  unfold rule_keys in Hf.
  destruct (union_keys (constrs_of (f_conv F) e)) as [keys|] eqn:Hkeys; [|discriminate].
  apply existsb_exists in H1. destruct H1 as (c & Hin & Hc).
  destruct c as [| |k]; try discriminate. apply String.eqb_eq in Hc. subst k.
  apply (rule_entry_without_action_rejected_proof F r o key e u keys kvs i ds j ekvs Hr Ho Hin Hk Hu
           (union_keys_in _ _ Hkeys) Hi Hj Hf).
Qed.
