(* C06 over the language-chain pass models: which normal-form predicate (Model/NF.v) each pass
   ESTABLISHES, for all schemas of any nesting, with the exact side condition when one is
   needed and a refuting witness when it is dropped.
   WHAT IS HERE
   - the node predicates behind nf_violations: p_union, p_enum, p_struct, p_tnull, p_optnn, p_php, ... and the
     equations has_*_eq relating them to Model/NF.v;
   - establishment: aete_establishes_no_anonymous_enum, astn_establishes_no_anonymous_struct,
     dwnto_establishes_no_t_or_null, dtt_establishes_no_union, sanitize_establishes, prefix_establishes;
   - the side condition "no union directly below a union branch" is needed: dwnto_needs_no_nested_union,
     dtt_needs_no_nested_union (witnesses w_union_in_branch, w_union_in_array_branch);
   - named inner loops and equations of AETE / ASTN / SENM / map_objects_res (Sections Aete, Astn, Senm), fold_left_inv,
     any_sub_weaken, any_sub_inter_irrel. *)
From Coq Require Import List String Bool Ascii Lia.
From Cog Require Import Model.IR Model.Names Model.Passes Model.PassesChain Model.Process Model.NF
     Proofs.TyInd Proofs.ChainLemmas.
Import ListNotations.
Local Open Scope list_scope.

(* ---------- the node predicates behind the NF checks ---------- *)
Definition p_union (_ : bool) (t : ty) : bool := is_disj t.
Definition p_enum (_ : bool) (t : ty) : bool := is_enum t.
Definition p_struct (inter : bool) (t : ty) : bool := negb inter && is_struct t.
Definition p_tnull (_ : bool) (t : ty) : bool :=
  match t with
  | TDisj _ d => Nat.eqb (List.length (d_branches d)) 2 && existsb is_null (d_branches d)
  | _ => false
  end.
Definition p_optnn (_ : bool) (t : ty) : bool :=
  match t with
  | TStruct _ _ fs => existsb (fun f => negb (f_required f) && negb (nullable (ty_attrs (f_type f)))) fs
  | _ => false
  end.
Definition bad_php_name (n : string) : bool :=
  match n with
  | EmptyString => true
  | String c _ => (Ascii.eqb c "-" || Ascii.eqb c "+")%bool
  end.
Definition p_php (_ : bool) (t : ty) : bool :=
  match t with TEnum _ vs => existsb (fun v => bad_php_name (ev_name v)) vs | _ => false end.

Lemma has_union_eq ss : has_union ss = existsb (fun o => any_sub p_union false (o_type o)) (objects_of ss).
Proof. reflexivity. Qed.
Lemma has_anonymous_enum_eq ss : has_anonymous_enum ss = existsb (fun o => any_below p_enum (o_type o)) (objects_of ss).
Proof. reflexivity. Qed.
Lemma has_anonymous_struct_eq ss : has_anonymous_struct ss = existsb (fun o => any_below p_struct (o_type o)) (objects_of ss).
Proof. reflexivity. Qed.
Lemma has_t_or_null_eq ss : has_t_or_null ss = existsb (fun o => any_sub p_tnull false (o_type o)) (objects_of ss).
Proof. reflexivity. Qed.
Lemma has_optional_not_nullable_eq ss :
  has_optional_not_nullable ss = existsb (fun o => any_sub p_optnn false (o_type o)) (objects_of ss).
Proof. reflexivity. Qed.
Lemma php_unsanitised_member_eq ss :
  php_unsanitised_member ss = existsb (fun o => any_sub p_php false (o_type o)) (objects_of ss).
Proof. reflexivity. Qed.

(* side condition of the union passes: no union below a branch of a union, at any depth *)
Definition p_nuf (_ : bool) (t : ty) : bool :=
  match t with TDisj _ d => existsb (any_sub p_union false) (d_branches d) | _ => false end.
Definition nested_union (ss : schemas) : bool :=
  existsb (fun o => any_sub p_nuf false (o_type o)) (objects_of ss).

(* ---------- small facts ---------- *)
Lemma any_sub_weaken (p q : bool -> ty -> bool) :
  (forall inter t, p inter t = false -> q inter t = false) ->
  forall t inter, any_sub p inter t = false -> any_sub q inter t = false.
Proof.
  intros Hpq. induction t as [a d IH|a v IH|a vs IH|a i v IHi IHv|a dh fs IHd IHf|a pk n|a pk n v|a k v cs|a bs IH|a v|a k]
    using ty_ind'; simpl; intros inter H; apply orb_false_iff in H; destruct H as [Hp H]; rewrite (Hpq _ _ Hp); simpl; try reflexivity.
  - apply existsb_false_iff. intros b Hb. rewrite Forall_forall in IH. apply IH; [assumption|].
    exact (proj1 (existsb_false_iff _ _) H b Hb).
  - apply IH. assumption.
  - apply orb_false_iff in H. destruct H as [H1 H2]. rewrite (IHi _ H1), (IHv _ H2). reflexivity.
  - apply existsb_false_iff. intros f Hf. rewrite Forall_forall in IHf. apply IHf; [assumption|].
    exact (proj1 (existsb_false_iff _ _) H f Hf).
  - apply existsb_false_iff. intros b Hb. rewrite Forall_forall in IH. apply IH; [assumption|].
    exact (proj1 (existsb_false_iff _ _) H b Hb).
Qed.

Lemma any_sub_inter_irrel (p : bool -> ty -> bool) :
  (forall i j t, p i t = p j t) -> forall t i j, any_sub p i t = any_sub p j t.
Proof.
  intros Hp. induction t as [a d IH|a v IH|a vs IH|a i v IHi IHv|a dh fs IHd IHf|a pk n|a pk n v|a k v cs|a bs IH|a v|a k]
    using ty_ind'; simpl; intros x y; rewrite (Hp x y); try reflexivity; f_equal.
  - induction (d_branches d) as [|b r IHr]; [reflexivity|]. inversion IH; subst. simpl. f_equal; [auto|auto].
  - apply IH.
  - f_equal; [apply IHi|apply IHv].
  - induction fs as [|f r IHr]; [reflexivity|]. inversion IHf; subst. simpl. f_equal; [auto|auto].
Qed.

Lemma any_sub_set_nullable_gen (p : bool -> ty -> bool) t b inter :
  p inter (set_nullable t b) = p inter t -> any_sub p inter (set_nullable t b) = any_sub p inter t.
Proof. destruct t; simpl; intros H; rewrite H; reflexivity. Qed.

Lemma fold_left_inv {A B} (f : A -> B -> A) (P : A -> Prop) l :
  (forall a b, In b l -> P a -> P (f a b)) -> forall a, P a -> P (fold_left f l a).
Proof.
  induction l as [|x r IH]; intros H a Ha; [assumption|]. simpl. apply IH.
  - intros a' b Hb. apply H. right; assumption.
  - apply H; [left; reflexivity|assumption].
Qed.

(* =====================================================================================
   (a) AnonymousEnumToExplicitType: afterwards every enum is a named object — unconditionally
   ===================================================================================== *)
Section Aete.
  Variables spkg pkg cur : string.
  Let A := aete_type spkg pkg cur.
  (* the inner loops of aete_type, named *)
  Fixpoint aete_fields (l : list field) : list field * list object :=
    match l with
    | [] => ([], [])
    | f :: r =>
        let '(t', n1) := aete_type spkg pkg cur
                           (String.append (upper_camel_case cur) (upper_camel_case (f_name f))) (f_type f) in
        let '(r', n2) := aete_fields r in
        (mkField (f_name f) (f_comments f) t' (f_required f) :: r', n1 ++ n2)
    end.
  Section AeteList.
    Variable sug : string.
    Fixpoint aete_list (l : list ty) : list ty * list object :=
      match l with
      | [] => ([], [])
      | b :: r => let '(b', n1) := aete_type spkg pkg cur sug b in
                  let '(r', n2) := aete_list r in (b' :: r', n1 ++ n2)
      end.
  End AeteList.

  Lemma aete_array sug a v : A sug (TArray a v) = (TArray a (fst (A sug v)), snd (A sug v)).
  Proof. unfold A. simpl. destruct (aete_type spkg pkg cur sug v). reflexivity. Qed.
  Lemma aete_map sug a i v :
    A sug (TMap a i v) = (TMap a (fst (A sug i)) (fst (A sug v)), snd (A sug i) ++ snd (A sug v)).
  Proof. unfold A. simpl. destruct (aete_type spkg pkg cur sug i), (aete_type spkg pkg cur sug v). reflexivity. Qed.
  Lemma aete_struct sug a dh fs :
    A sug (TStruct a dh fs) = (TStruct a dh (fst (aete_fields fs)), snd (aete_fields fs)).
  Proof.
    change (A sug (TStruct a dh fs)) with (let '(fs', n) := aete_fields fs in (TStruct a dh fs', n)).
    destruct (aete_fields fs). reflexivity.
  Qed.
  Lemma aete_disj sug a d :
    A sug (TDisj a d) = (TDisj a (mkDisj (fst (aete_list sug (d_branches d))) (d_disc d) (d_mapping d)),
                         snd (aete_list sug (d_branches d))).
  Proof.
    change (A sug (TDisj a d)) with (let '(bs, n) := aete_list sug (d_branches d) in
                                     (TDisj a (mkDisj bs (d_disc d) (d_mapping d)), n)).
    destruct (aete_list sug (d_branches d)). reflexivity.
  Qed.
  Lemma aete_inter sug a bs :
    A sug (TInter a bs) = (TInter a (fst (aete_list sug bs)), snd (aete_list sug bs)).
  Proof.
    change (A sug (TInter a bs)) with (let '(bs', n) := aete_list sug bs in (TInter a bs', n)).
    destruct (aete_list sug bs). reflexivity.
  Qed.

  Lemma aete_fields_spec l :
    fst (aete_fields l)
    = map (fun f => mkField (f_name f) (f_comments f)
                            (fst (A (String.append (upper_camel_case cur) (upper_camel_case (f_name f))) (f_type f)))
                            (f_required f)) l /\
    snd (aete_fields l)
    = flat_map (fun f => snd (A (String.append (upper_camel_case cur) (upper_camel_case (f_name f))) (f_type f))) l.
  Proof.
    induction l as [|f r [IH1 IH2]]; [split; reflexivity|]. simpl. unfold A.
    destruct (aete_type spkg pkg cur _ (f_type f)) as [t' n1]. destruct (aete_fields r) as [r' n2].
    simpl in *. subst. split; reflexivity.
  Qed.
  Lemma aete_list_spec sug l :
    fst (aete_list sug l) = map (fun b => fst (A sug b)) l /\
    snd (aete_list sug l) = flat_map (fun b => snd (A sug b)) l.
  Proof.
    induction l as [|b r [IH1 IH2]]; [split; reflexivity|]. simpl. unfold A.
    destruct (aete_type spkg pkg cur sug b) as [b' n1]. destruct (aete_list sug r) as [r' n2].
    simpl in *. subst. split; reflexivity.
  Qed.

  (* the rewritten type contains no enum at all *)
  Lemma aete_clean : forall t sug inter, any_sub p_enum inter (fst (A sug t)) = false.
  Proof.
    induction t as [a d IH|a v IH|a vs IH|a i v IHi IHv|a dh fs IHd IHf|a pk n|a pk n v|a k v cs|a bs IH|a v|a k]
      using ty_ind'; intros sug inter; try reflexivity.
    - rewrite aete_disj. simpl. rewrite (proj1 (aete_list_spec sug _)). rewrite existsb_map_eq.
      apply existsb_false_iff. intros b Hb. rewrite Forall_forall in IH. apply IH. assumption.
    - rewrite aete_array. simpl. apply IH.
    - rewrite aete_map. simpl. rewrite IHi, IHv. reflexivity.
    - rewrite aete_struct. simpl. rewrite (proj1 (aete_fields_spec _)). rewrite existsb_map_eq. simpl.
      apply existsb_false_iff. intros f Hf. rewrite Forall_forall in IHf. apply IHf. assumption.
    - rewrite aete_inter. simpl. rewrite (proj1 (aete_list_spec sug _)). rewrite existsb_map_eq.
      apply existsb_false_iff. intros b Hb. rewrite Forall_forall in IH. apply IH. assumption.
  Qed.

  (* the registered objects are enums: nothing below their root *)
  Lemma aete_news : forall t sug o, In o (snd (A sug t)) -> any_below p_enum (o_type o) = false.
  Proof.
    induction t as [a d IH|a v IH|a vs IH|a i v IHi IHv|a dh fs IHd IHf|a pk n|a pk n v|a k v cs|a bs IH|a v|a k]
      using ty_ind'; intros sug o Ho; try (simpl in Ho; contradiction).
    - rewrite aete_disj in Ho. simpl in Ho. rewrite (proj2 (aete_list_spec sug _)) in Ho.
      apply in_flat_map in Ho. destruct Ho as [b [Hb Ho]]. rewrite Forall_forall in IH. exact (IH b Hb sug o Ho).
    - rewrite aete_array in Ho. simpl in Ho. exact (IH sug o Ho).
    - simpl in Ho. destruct Ho as [<-|[]]. reflexivity.
    - rewrite aete_map in Ho. simpl in Ho. apply in_app_or in Ho. destruct Ho as [Ho|Ho]; [exact (IHi sug o Ho)|exact (IHv sug o Ho)].
    - rewrite aete_struct in Ho. simpl in Ho. rewrite (proj2 (aete_fields_spec _)) in Ho.
      apply in_flat_map in Ho. destruct Ho as [f [Hf Ho]]. rewrite Forall_forall in IHf. exact (IHf f Hf _ o Ho).
    - rewrite aete_inter in Ho. simpl in Ho. rewrite (proj2 (aete_list_spec sug _)) in Ho.
      apply in_flat_map in Ho. destruct Ho as [b [Hb Ho]]. rewrite Forall_forall in IH. exact (IH b Hb sug o Ho).
  Qed.
End Aete.

Theorem aete_establishes_no_anonymous_enum ss :
  has_anonymous_enum (anonymous_enum_to_explicit_type ss) = false.
Proof.
  rewrite has_anonymous_enum_eq. apply existsb_false_iff. intros o Ho.
  unfold anonymous_enum_to_explicit_type in Ho. apply in_objects_of_map in Ho. destruct Ho as [s [k [Hs Hko]]].
  unfold aete_schema in Hko.
  set (good := fun o : object => any_below p_enum (o_type o) = false).
  match type of Hko with context [fold_left ?F (s_objects s) ([], [])] =>
    assert ((fun acc : list (string * object) * list object =>
               (forall k o, In (k, o) (fst acc) -> good o) /\ (forall o, In o (snd acc) -> good o))
              (fold_left F (s_objects s) ([], []))) as Hinv
  end.
  { apply fold_left_inv; [|split; intros; simpl in *; contradiction].
    intros [objs news] [k0 o0] _ [H1 H2]. simpl.
    destruct (is_enum (o_type o0)) eqn:Ee; simpl.
    - split; [|assumption]. intros k1 o1 Hin. apply objs_set_in_inv in Hin. destruct Hin as [Hin|Heq]; [eapply H1; eassumption|subst o1].
      unfold good. destruct (o_type o0); try discriminate. reflexivity.
    - destruct (aete_type (s_pkg s) (o_selfpkg o0) (o_name o0) _ (o_type o0)) as [t' n] eqn:Ea. simpl. split.
      + intros k1 o1 Hin. apply objs_set_in_inv in Hin. destruct Hin as [Hin|Heq]; [eapply H1; eassumption|subst o1].
        unfold good. simpl. apply any_below_of_sub.
        match type of Ea with aete_type _ _ _ ?sug _ = _ =>
          pose proof (aete_clean (s_pkg s) (o_selfpkg o0) (o_name o0) (o_type o0) sug false) as Hc end.
        rewrite Ea in Hc. exact Hc.
      + intros o1 Hin. apply in_app_or in Hin. destruct Hin as [Hin|Hin]; [apply H2; assumption|].
        match type of Ea with aete_type _ _ _ ?sug _ = _ =>
          pose proof (aete_news (s_pkg s) (o_selfpkg o0) (o_name o0) (o_type o0) sug o1) as Hn end.
        rewrite Ea in Hn. apply Hn. assumption. }
  destruct (fold_left _ (s_objects s) ([], [])) as [objs news]. simpl in Hko, Hinv. destruct Hinv as [H1 H2].
  apply fold_add_object_in in Hko. destruct Hko as [Hko|Hko]; [eapply H1; eassumption|apply H2; assumption].
Qed.

(* =====================================================================================
   (b) AnonymousStructsToNamed: afterwards every struct outside an allOf composition is a
       named object — unconditionally (the pass does not enter intersections, and the
       predicate does not look inside them)
   ===================================================================================== *)
Lemma p_struct_inter t : p_struct true t = false.
Proof. reflexivity. Qed.

Section Astn.
  Variable pkg : string.
  Section AstnLoops.
    Variable parent : string.
    Fixpoint astn_list (l : list ty) : list ty * list object :=
      match l with
      | [] => ([], [])
      | b :: r => let '(b', n1) := astn_type pkg parent b in
                  let '(r', n2) := astn_list r in (b' :: r', n1 ++ n2)
      end.
    Fixpoint astn_fields (l : list field) : list field * list object :=
      match l with
      | [] => ([], [])
      | f :: r =>
          let '(t', n1) := astn_type pkg (String.append parent (upper_camel_case (f_name f))) (f_type f) in
          let '(r', n2) := astn_fields r in
          (mkField (f_name f) (f_comments f) t' (f_required f) :: r', n1 ++ n2)
      end.
  End AstnLoops.

  Lemma astn_array parent a v :
    astn_type pkg parent (TArray a v) = (TArray a (fst (astn_type pkg parent v)), snd (astn_type pkg parent v)).
  Proof. simpl. destruct (astn_type pkg parent v). reflexivity. Qed.
  Lemma astn_map parent a i v :
    astn_type pkg parent (TMap a i v)
    = (TMap a (fst (astn_type pkg parent i)) (fst (astn_type pkg parent v)),
       snd (astn_type pkg parent i) ++ snd (astn_type pkg parent v)).
  Proof. simpl. destruct (astn_type pkg parent i), (astn_type pkg parent v). reflexivity. Qed.
  Lemma astn_disj parent a d :
    astn_type pkg parent (TDisj a d)
    = (TDisj a (mkDisj (fst (astn_list parent (d_branches d))) (d_disc d) (d_mapping d)),
       snd (astn_list parent (d_branches d))).
  Proof.
    change (astn_type pkg parent (TDisj a d))
      with (let '(bs, n) := astn_list parent (d_branches d) in (TDisj a (mkDisj bs (d_disc d) (d_mapping d)), n)).
    destruct (astn_list parent (d_branches d)). reflexivity.
  Qed.
  Lemma astn_struct parent a dh fs :
    exists ra sa, nullable ra = nullable a /\
                  astn_type pkg parent (TStruct a dh fs)
                  = (TRef ra pkg parent,
                     snd (astn_fields parent fs) ++ [new_object pkg parent (TStruct sa dh (fst (astn_fields parent fs)))]).
  Proof.
    exists (mk_attrs (nullable a) (dflt a) []), (mk_attrs false (dflt a) (hints a)). split; [reflexivity|].
    change (astn_type pkg parent (TStruct a dh fs))
      with (let '(fs', n) := astn_fields parent fs in
            (TRef (mk_attrs (nullable a) (dflt a) []) pkg parent,
             n ++ [new_object pkg parent (TStruct (mk_attrs false (dflt a) (hints a)) dh fs')])).
    destruct (astn_fields parent fs). reflexivity.
  Qed.

  Lemma astn_list_spec parent l :
    fst (astn_list parent l) = map (fun b => fst (astn_type pkg parent b)) l /\
    snd (astn_list parent l) = flat_map (fun b => snd (astn_type pkg parent b)) l.
  Proof.
    induction l as [|b r [IH1 IH2]]; [split; reflexivity|]. simpl.
    destruct (astn_type pkg parent b) as [b' n1]. destruct (astn_list parent r) as [r' n2].
    simpl in *. subst. split; reflexivity.
  Qed.
  Lemma astn_fields_spec parent l :
    fst (astn_fields parent l)
    = map (fun f => mkField (f_name f) (f_comments f)
                            (fst (astn_type pkg (String.append parent (upper_camel_case (f_name f))) (f_type f)))
                            (f_required f)) l /\
    snd (astn_fields parent l)
    = flat_map (fun f => snd (astn_type pkg (String.append parent (upper_camel_case (f_name f))) (f_type f))) l.
  Proof.
    induction l as [|f r [IH1 IH2]]; [split; reflexivity|]. simpl.
    destruct (astn_type pkg _ (f_type f)) as [t' n1]. destruct (astn_fields parent r) as [r' n2].
    simpl in *. subst. split; reflexivity.
  Qed.

  (* the rewritten type has no struct outside intersections *)
  Lemma astn_clean : forall t parent, any_sub p_struct false (fst (astn_type pkg parent t)) = false.
  Proof.
    induction t as [a d IH|a v IH|a vs IH|a i v IHi IHv|a dh fs IHd IHf|a pk n|a pk n v|a k v cs|a bs IH|a v|a k]
      using ty_ind'; intros parent; try reflexivity.
    - rewrite astn_disj. simpl. rewrite (proj1 (astn_list_spec parent _)). rewrite existsb_map_eq.
      apply existsb_false_iff. intros b Hb. rewrite Forall_forall in IH. apply IH. assumption.
    - rewrite astn_array. simpl. apply IH.
    - rewrite astn_map. simpl. rewrite IHi, IHv. reflexivity.
    - destruct (astn_struct parent a dh fs) as [ra [sa [_ E]]]. rewrite E. reflexivity.
    - simpl. apply existsb_false_iff. intros b _. apply any_sub_inter_false. exact p_struct_inter.
  Qed.

  Lemma astn_news : forall t parent o, In o (snd (astn_type pkg parent t)) -> any_below p_struct (o_type o) = false.
  Proof.
    induction t as [a d IH|a v IH|a vs IH|a i v IHi IHv|a dh fs IHd IHf|a pk n|a pk n v|a k v cs|a bs IH|a v|a k]
      using ty_ind'; intros parent o Ho; try (simpl in Ho; contradiction).
    - rewrite astn_disj in Ho. simpl in Ho. rewrite (proj2 (astn_list_spec parent _)) in Ho.
      apply in_flat_map in Ho. destruct Ho as [b [Hb Ho]]. rewrite Forall_forall in IH. exact (IH b Hb parent o Ho).
    - rewrite astn_array in Ho. simpl in Ho. exact (IH parent o Ho).
    - rewrite astn_map in Ho. simpl in Ho. apply in_app_or in Ho.
      destruct Ho as [Ho|Ho]; [exact (IHi parent o Ho)|exact (IHv parent o Ho)].
    - destruct (astn_struct parent a dh fs) as [ra [sa [_ E]]]. rewrite E in Ho. simpl in Ho.
      apply in_app_or in Ho. destruct Ho as [Ho|[<-|[]]].
      + rewrite (proj2 (astn_fields_spec parent _)) in Ho. apply in_flat_map in Ho. destruct Ho as [f [Hf Ho]].
        rewrite Forall_forall in IHf. exact (IHf f Hf _ o Ho).
      + unfold any_below. simpl. rewrite (proj1 (astn_fields_spec parent _)). rewrite !existsb_map_eq. simpl.
        apply existsb_false_iff. intros f _. apply astn_clean.
  Qed.
End Astn.

Ltac astn_use Ea :=
  match type of Ea with astn_type ?pk ?par ?t = _ =>
    pose proof (astn_clean pk t par) as Hc; pose proof (fun n0 => astn_news pk t par n0) as Hx;
    rewrite Ea in Hc, Hx; simpl in Hc, Hx
  end.

Definition good_struct (o : object) : Prop := any_below p_struct (o_type o) = false.

Lemma astn_object_good o :
  good_struct (fst (astn_object o)) /\ forall n, In n (snd (astn_object o)) -> good_struct n.
Proof.
  unfold astn_object, good_struct.
  destruct (o_type o) as [a d|a v|a vs|a i v|a dh fs|a pk n|a pk n v|a k v cs|a bs|a v|a k] eqn:E;
    try (simpl; rewrite E; split; [reflexivity|intros n0 []]).
  - destruct (astn_type _ _ (TDisj a d)) as [t' n] eqn:Ea. simpl. split.
    + apply any_below_of_sub. astn_use Ea. exact Hc.
    + intros n0 Hn. astn_use Ea. apply Hx. assumption.
  - destruct (astn_type _ _ (TArray a v)) as [t' n] eqn:Ea. simpl. split.
    + apply any_below_of_sub. astn_use Ea. exact Hc.
    + intros n0 Hn. astn_use Ea. apply Hx. assumption.
  - destruct (astn_type _ _ (TMap a i v)) as [t' n] eqn:Ea. simpl. split.
    + apply any_below_of_sub. astn_use Ea. exact Hc.
    + intros n0 Hn. astn_use Ea. apply Hx. assumption.
  - (* a struct object: its fields, one by one *)
    match goal with |- context [fold_left ?F fs ([], [])] =>
      assert ((fun acc : list field * list object =>
                 (forall f, In f (fst acc) -> any_sub p_struct false (f_type f) = false) /\
                 (forall n, In n (snd acc) -> any_below p_struct (o_type n) = false))
                (fold_left F fs ([], []))) as Hinv
    end.
    { apply fold_left_inv; [|split; intros; simpl in *; contradiction].
      intros [done nn] f _ [H1 H2]. simpl.
      destruct (astn_type (o_selfpkg o) _ (f_type f)) as [t' n1] eqn:Ea. simpl. split.
      - intros g Hg. apply in_app_or in Hg. destruct Hg as [Hg|[<-|[]]]; [apply H1; assumption|]. simpl.
        match type of Ea with astn_type _ ?par _ = _ => pose proof (astn_clean (o_selfpkg o) (f_type f) par) as Hc end.
        rewrite Ea in Hc. exact Hc.
      - intros n0 Hn. apply in_app_or in Hn. destruct Hn as [Hn|Hn]; [apply H2; assumption|].
        match type of Ea with astn_type _ ?par _ = _ => pose proof (astn_news (o_selfpkg o) (f_type f) par n0) as Hx end.
        rewrite Ea in Hx. apply Hx. assumption. }
    destruct (fold_left _ fs ([], [])) as [fs' n]. simpl in *. destruct Hinv as [H1 H2]. split; [|assumption].
    unfold any_below. simpl. rewrite existsb_map_eq. simpl. apply existsb_false_iff. assumption.
  - (* an intersection object: everything below it is inside the composition *)
    simpl. rewrite E. split; [|intros n0 []]. unfold any_below. simpl. rewrite existsb_map_eq. simpl.
    apply existsb_false_iff. intros b _. apply any_sub_inter_false. exact p_struct_inter.
Qed.

Theorem astn_establishes_no_anonymous_struct ss :
  has_anonymous_struct (anonymous_structs_to_named ss) = false.
Proof.
  rewrite has_anonymous_struct_eq. apply existsb_false_iff. intros o Ho.
  unfold anonymous_structs_to_named in Ho. apply in_objects_of_map in Ho. destruct Ho as [s [k [Hs Hko]]].
  unfold astn_schema in Hko.
  match type of Hko with context [fold_left ?F (s_objects s) ([], [])] =>
    assert ((fun acc : list (string * object) * list object =>
               (forall k o, In (k, o) (fst acc) -> good_struct o) /\ (forall o, In o (snd acc) -> good_struct o))
              (fold_left F (s_objects s) ([], []))) as Hinv
  end.
  { apply fold_left_inv; [|split; intros; simpl in *; contradiction].
    intros [objs news] [k0 o0] _ [H1 H2]. simpl.
    destruct (astn_object_good o0) as [G1 G2]. destruct (astn_object o0) as [o' n]. simpl in *. split.
    - intros k1 o1 Hin. apply objs_set_in_inv in Hin. destruct Hin as [Hin|Heq]; [eapply H1; eassumption|subst o1; assumption].
    - intros o1 Hin. apply in_app_or in Hin. destruct Hin as [Hin|Hin]; [apply H2; assumption|apply G2; assumption]. }
  destruct (fold_left _ (s_objects s) ([], [])) as [objs news]. simpl in Hko, Hinv. destruct Hinv as [H1 H2].
  apply fold_add_object_in in Hko. destruct Hko as [Hko|Hko]; [eapply H1; eassumption|apply H2; assumption].
Qed.

(* =====================================================================================
   (c), (d) the union passes handle a union through a callback that does not descend into its
   branches: they establish their normal form exactly when no union sits below a branch of a
   union (`nested_union ss = false`); witnesses of the failure otherwise at the end of the file
   ===================================================================================== *)
Lemma p_union_irrel t i j : any_sub p_union i t = any_sub p_union j t.
Proof. apply any_sub_inter_irrel. reflexivity. Qed.

Lemma union_free_tnull t inter : any_sub p_union false t = false -> any_sub p_tnull inter t = false.
Proof.
  intros H. rewrite (p_union_irrel t false inter) in H. revert H. apply any_sub_weaken.
  intros i x Hx. destruct x; try reflexivity. discriminate.
Qed.

Lemma nuf_branches inter a d : any_sub p_nuf inter (TDisj a d) = false ->
  forall b, In b (d_branches d) -> any_sub p_union false b = false.
Proof.
  simpl. intros H b Hb. apply orb_false_iff in H. destruct H as [H _].
  exact (proj1 (existsb_false_iff _ _) H b Hb).
Qed.

Lemma nested_union_objects ss o : nested_union ss = false -> In o (objects_of ss) -> any_sub p_nuf false (o_type o) = false.
Proof. intros H Ho. exact (proj1 (existsb_false_iff _ _) H o Ho). Qed.

Lemma is_leaf_not_disj t : is_leaf t -> is_disj t = false.
Proof. destruct t; simpl; intros H; try contradiction; reflexivity. Qed.

(* ---- (c) DisjunctionWithNullToOptional ---- *)
Lemma dwnto_disj_tnull a d t' inter :
  dwnto_disj (TDisj a d) = Ok t' -> any_sub p_nuf inter (TDisj a d) = false -> any_sub p_tnull inter t' = false.
Proof.
  intros H Hc. pose proof (nuf_branches inter a d Hc) as Hb.
  assert (forall b, In b (d_branches d) -> any_sub p_tnull inter b = false) as Hbt
      by (intros b Hin; apply union_free_tnull; apply Hb; assumption).
  assert (p_tnull inter (TDisj a d) = false -> any_sub p_tnull inter (TDisj a d) = false) as Hsame.
  { intros Hp. simpl. simpl in Hp. rewrite Hp. simpl. apply existsb_false_iff. assumption. }
  unfold dwnto_disj in H.
  destruct (d_branches d) as [|x [|y [|z r]]] eqn:Ebs;
    try (inversion H; subst; apply Hsame; simpl; rewrite Ebs; reflexivity).
  destruct (has_null_type [x; y]) eqn:En.
  - destruct (filter (fun b => negb (is_null b)) [x; y]) as [|b rest] eqn:Ef; [discriminate|].
    inversion H; subst.
    assert (In b [x; y]) as Hin.
    { assert (In b (filter (fun b => negb (is_null b)) [x; y])) as Hf by (rewrite Ef; left; reflexivity).
      apply filter_In in Hf. destruct Hf; assumption. }
    rewrite any_sub_set_nullable_gen; [apply Hbt; assumption|]. destruct b; reflexivity.
  - inversion H; subst. apply Hsame. simpl. rewrite Ebs. unfold has_null_type in En. rewrite En. reflexivity.
Qed.

Theorem dwnto_establishes_no_t_or_null ss out :
  nested_union ss = false -> disjunction_with_null_to_optional ss = Ok out -> has_t_or_null out = false.
Proof.
  intros Hn H. rewrite has_t_or_null_eq. apply existsb_false_iff. intros o' Ho'.
  unfold disjunction_with_null_to_optional in H.
  destruct (visit_schemas_disj0_objects _ _ _ _ H Ho') as [s [o [t' [Hs [Ho [Hv ->]]]]]]. simpl.
  pose proof (nested_union_objects ss o Hn (objects_of_single _ _ _ Hs Ho)) as Hc.
  apply visit_disj0_vrel in Hv.
  refine (proj1 (vrel_pres unit (lift0 dwnto_disj) p_nuf p_tnull (fun _ _ => True) (fun _ => True)
                           _ _ _ _ _ _ _ tt (o_type o) t' tt false Hv Hc I)); try (intros; reflexivity); try (intros; exact I).
  - intros inter t Hl _. destruct t; simpl in Hl; try contradiction; reflexivity.
  - intros st a d t1 st1 inter Hd Hcd _. split; [|split; exact I].
    apply lift0_inv in Hd. eapply dwnto_disj_tnull; eassumption.
Qed.

(* ---- (d) DisjunctionToType ---- *)
Definition nested_union_entry (ss : schemas) : bool := existsb (fun s => any_sub p_nuf false (s_entrytype s)) ss.

Definition union_free_state (st : list (string * object)) : Prop :=
  forall k o, In (k, o) st -> any_sub p_union false (o_type o) = false.

Lemma dtt_disj_union s st a d t' st' inter :
  dtt_disj s st (TDisj a d) = Ok (t', st') -> any_sub p_nuf inter (TDisj a d) = false -> union_free_state st ->
  any_sub p_union inter t' = false /\ union_free_state st'.
Proof.
  intros H Hc HQ. pose proof (nuf_branches inter a d Hc) as Hb. unfold dtt_disj in H.
  destruct (single_type_scalars s (d_branches d)) as [[k|]| | |]; simpl in H; try discriminate.
  - inversion H; subst. split; [reflexivity|assumption].
  - match type of H with context [objs_has st ?n] => destruct (objs_has st n) end.
    + inversion H; subst. split; [reflexivity|assumption].
    + match type of H with (do _ <- ?X ; _) = _ => destruct X as [dh| | |] end; simpl in H; try discriminate.
      inversion H; subst. split; [reflexivity|].
      intros k o Hin. apply objs_set_in_inv in Hin. destruct Hin as [Hin|Heq]; [eapply HQ; eassumption|subst o].
      simpl. rewrite existsb_map_eq. simpl. apply existsb_false_iff. intros b Hbin.
      apply filter_In in Hbin. destruct Hbin as [Hbin _].
      rewrite any_sub_set_nullable_gen; [apply Hb; assumption|]. destruct b; reflexivity.
Qed.

Lemma dtt_visit_union s st t t' st' inter :
  visit_disj (dtt_disj s) st t = Ok (t', st') -> any_sub p_nuf inter t = false -> union_free_state st ->
  any_sub p_union inter t' = false /\ union_free_state st'.
Proof.
  intros Hv Hc HQ. apply visit_disj_vrel in Hv.
  assert (any_sub p_union inter t' = false /\ True /\ union_free_state st') as [H1 [_ H2]]; [|split; assumption].
  refine (vrel_pres _ (dtt_disj s) p_nuf p_union (fun _ _ => True) union_free_state _ _ _ _ _ _ _ st t t' st' inter Hv Hc HQ);
    try (intros; reflexivity); try (intros; exact I).
  - intros i t0 Hl _. apply is_leaf_not_disj. assumption.
  - intros st0 a d t1 st1 i Hd Hcd HQ0. destruct (dtt_disj_union _ _ _ _ _ _ _ Hd Hcd HQ0) as [X Y].
    split; [assumption|split; [exact I|assumption]].
Qed.

Theorem dtt_establishes_no_union ss out :
  nested_union ss = false -> nested_union_entry ss = false ->
  disjunction_to_type ss = Ok out -> has_union out = false.
Proof.
  intros Hn Hne H. rewrite has_union_eq. apply existsb_false_iff. intros o' Ho'.
  unfold disjunction_to_type in H.
  destruct (in_objects_of_mapM _ _ _ _ H Ho') as [s [s' [k [Hs [HF Hko]]]]].
  destruct (visit_schema_st_objects [] (visit_disj (dtt_disj s)) (map snd)
              (fun t => any_sub p_nuf false t = false) union_free_state s s') as [final [HQf Hobjs]]; try assumption.
  - intros st t t' st' HC Hv HQ. exact (proj2 (dtt_visit_union _ _ _ _ _ false Hv HC HQ)).
  - intros k0 o0 [].
  - exact (proj1 (existsb_false_iff _ _) Hne s Hs).
  - intros [k0 o0] Hin. apply (nested_union_objects ss o0 Hn). apply in_objects_of. exists s, k0. split; assumption.
  - destruct (Hobjs k o' Hko) as [[[k0 o0] [st [t' [st' [Hin [HQ [Hv ->]]]]]]]|Hnew].
    + simpl in *. refine (proj1 (dtt_visit_union _ _ _ _ _ false Hv _ HQ)).
      apply (nested_union_objects ss o0 Hn). apply in_objects_of. exists s, k0. split; assumption.
    + apply in_map_iff in Hnew. destruct Hnew as [[k1 o1] [<- Hin]]. exact (HQf k1 o1 Hin).
Qed.

(* =====================================================================================
   (e) enum member names: SanitizeEnumMemberNames (PHP) and PrefixEnumValues (Go) establish
       their predicates — unconditionally, whenever the pass does not fail
   ===================================================================================== *)
Lemma is_char_minus c : is_char c 45 = Ascii.eqb c "-".
Proof. destruct c as [[] [] [] [] [] [] [] []]; reflexivity. Qed.
Lemma is_char_plus c : is_char c 43 = Ascii.eqb c "+".
Proof. destruct c as [[] [] [] [] [] [] [] []]; reflexivity. Qed.

Lemma upper_camel_n' r : exists x, upper_camel_case (String "n" r) = String "N" x.
Proof. unfold upper_camel_case, lower_camel_case. simpl. eexists. reflexivity. Qed.
Lemma upper_camel_p r : exists x, upper_camel_case (String "p" r) = String "P" x.
Proof. unfold upper_camel_case, lower_camel_case. simpl. eexists. reflexivity. Qed.
Lemma negative_name_N n : exists x, negative_name n = String "N" x.
Proof.
  unfold negative_name.
  change (String.append "negative" (tail_str n)) with (String "n" (String.append "egative" (tail_str n))).
  apply upper_camel_n'.
Qed.

Lemma first_char_some s c : first_char s = Some c -> exists r, s = String c r.
Proof. destruct s; simpl; intros H; [discriminate|]. inversion H; subst. eexists; reflexivity. Qed.

Lemma senm_member_ok v v' : senm_member v = Ok v' -> bad_php_name (ev_name v') = false.
Proof.
  unfold senm_member. destruct (member_kind v) as [k| | |]; cbn [bind]; try discriminate.
  match goal with |- (do _ <- ?X ; _) = _ -> _ => destruct X as [n1| | |] end; cbn [bind]; try discriminate.
  destruct (first_char n1) as [c|] eqn:Ec; [|discriminate].
  destruct (first_char (if is_char c 45 then negative_name n1 else n1)) as [c2|] eqn:Ec2; [|discriminate].
  intros H. inversion H; subst. cbn [ev_name]. clear H.
  destruct (is_char c2 43) eqn:Eplus.
  - match goal with |- context [upper_camel_case (String "p" ?r)] =>
      destruct (upper_camel_p r) as [x Hx]; rewrite Hx end.
    reflexivity.
  - destruct (first_char_some _ _ Ec2) as [r Er]. rewrite Er. cbn [bad_php_name].
    rewrite <- is_char_plus, Eplus, orb_false_r. rewrite <- is_char_minus.
    destruct (is_char c 45) eqn:Eminus.
    + destruct (negative_name_N n1) as [x Hx]. rewrite Hx in Er. inversion Er; subst. reflexivity.
    + destruct (first_char_some _ _ Ec) as [r1 Er1]. rewrite Er1 in Er. inversion Er; subst. assumption.
Qed.

Section Senm.
  Fixpoint senm_fields (l : list field) : res (list field) :=
    match l with
    | [] => Ok []
    | f :: r => do t' <- senm_ty (f_type f) ; do r' <- senm_fields r ;
                Ok (mkField (f_name f) (f_comments f) t' (f_required f) :: r')
    end.
  Fixpoint senm_list (l : list ty) : res (list ty) :=
    match l with
    | [] => Ok []
    | b :: r => do b' <- senm_ty b ; do r' <- senm_list r ; Ok (b' :: r')
    end.
  Lemma senm_struct_eq a dh fs : senm_ty (TStruct a dh fs) = do fs' <- senm_fields fs ; Ok (TStruct a dh fs').
  Proof. reflexivity. Qed.
  Lemma senm_disj_eq a d :
    senm_ty (TDisj a d) = do bs <- senm_list (d_branches d) ; Ok (TDisj a (mkDisj bs (d_disc d) (d_mapping d))).
  Proof. reflexivity. Qed.
  Lemma senm_inter_eq a bs : senm_ty (TInter a bs) = do bs' <- senm_list bs ; Ok (TInter a bs').
  Proof. reflexivity. Qed.
End Senm.

Lemma senm_clean : forall t t' inter, senm_ty t = Ok t' -> any_sub p_php inter t' = false.
Proof.
  induction t as [a d IH|a v IH|a vs IH|a i v IHi IHv|a dh fs IHd IHf|a pk n|a pk n v|a k v cs|a bs IH|a v|a k]
    using ty_ind'; intros t' inter H;
    [rewrite senm_disj_eq in H|simpl in H|simpl in H|simpl in H|rewrite senm_struct_eq in H
     |simpl in H|simpl in H|simpl in H|rewrite senm_inter_eq in H|simpl in H|simpl in H];
    try (inversion H; subst; reflexivity).
  - assert (forall l l', Forall (fun b => forall t' inter, senm_ty b = Ok t' -> any_sub p_php inter t' = false) l ->
              senm_list l = Ok l' -> forall b', In b' l' -> any_sub p_php inter b' = false) as G.
    { induction l as [|b r IHl]; intros l' HF Hl b' Hb'; simpl in Hl.
      - inversion Hl; subst. contradiction.
      - inversion HF as [|? ? Hb Hr]; subst.
        destruct (senm_ty b) as [b1| | |] eqn:E1; simpl in Hl; try discriminate.
        destruct (senm_list r) as [r1| | |] eqn:E2; simpl in Hl; try discriminate.
        inversion Hl; subst. destruct Hb' as [<-|Hb']; [apply Hb; reflexivity|eapply IHl; [eassumption|reflexivity|assumption]]. }
    destruct (senm_list (d_branches d)) as [bs1| | |] eqn:E; simpl in H; try discriminate.
    inversion H; subst. simpl. apply existsb_false_iff. exact (G _ _ IH E).
  - destruct (senm_ty v) as [v1| | |] eqn:E; simpl in H; try discriminate. inversion H; subst. simpl. eapply IH; reflexivity.
  - destruct (mapM senm_member vs) as [vs1| | |] eqn:E; simpl in H; try discriminate. inversion H; subst. simpl.
    rewrite orb_false_r. apply existsb_false_iff. intros v' Hv'.
    destruct (Forall2_in_r _ _ _ (mapM_Forall2 _ _ _ E) v' Hv') as [v0 [_ Hm]]. eapply senm_member_ok; eassumption.
  - destruct (senm_ty i) as [i1| | |] eqn:Ei; simpl in H; try discriminate.
    destruct (senm_ty v) as [v1| | |] eqn:Ev; simpl in H; try discriminate. inversion H; subst. simpl.
    rewrite (IHi i1 inter eq_refl), (IHv v1 inter eq_refl). reflexivity.
  - assert (forall l l', Forall (fun f => forall t' inter, senm_ty (f_type f) = Ok t' -> any_sub p_php inter t' = false) l ->
              senm_fields l = Ok l' -> forall f', In f' l' -> any_sub p_php inter (f_type f') = false) as G.
    { induction l as [|f r IHl]; intros l' HF Hl f' Hf'; simpl in Hl.
      - inversion Hl; subst. contradiction.
      - inversion HF as [|? ? Hf Hr]; subst.
        destruct (senm_ty (f_type f)) as [t1| | |] eqn:E1; simpl in Hl; try discriminate.
        destruct (senm_fields r) as [r1| | |] eqn:E2; simpl in Hl; try discriminate.
        inversion Hl; subst. destruct Hf' as [<-|Hf']; [simpl; apply Hf; reflexivity|eapply IHl; [eassumption|reflexivity|assumption]]. }
    destruct (senm_fields fs) as [fs1| | |] eqn:E; simpl in H; try discriminate.
    inversion H; subst. simpl. apply existsb_false_iff. exact (G _ _ IHf E).
  - assert (forall l l', Forall (fun b => forall t' inter, senm_ty b = Ok t' -> any_sub p_php inter t' = false) l ->
              senm_list l = Ok l' -> forall b', In b' l' -> any_sub p_php true b' = false) as G.
    { induction l as [|b r IHl]; intros l' HF Hl b' Hb'; simpl in Hl.
      - inversion Hl; subst. contradiction.
      - inversion HF as [|? ? Hb Hr]; subst.
        destruct (senm_ty b) as [b1| | |] eqn:E1; simpl in Hl; try discriminate.
        destruct (senm_list r) as [r1| | |] eqn:E2; simpl in Hl; try discriminate.
        inversion Hl; subst. destruct Hb' as [<-|Hb']; [apply Hb; reflexivity|eapply IHl; [eassumption|reflexivity|assumption]]. }
    destruct (senm_list bs) as [bs1| | |] eqn:E; simpl in H; try discriminate.
    inversion H; subst. simpl. apply existsb_false_iff. exact (G _ _ IH E).
Qed.

Theorem sanitize_establishes ss out :
  sanitize_enum_member_names ss = Ok out -> php_unsanitised_member out = false.
Proof.
  intros H. rewrite php_unsanitised_member_eq. apply existsb_false_iff. intros o' Ho'.
  unfold sanitize_enum_member_names in H.
  destruct (in_objects_of_mapM _ _ _ _ H Ho') as [s [s' [k [Hs [HF Hko]]]]].
  destruct (visit_schema_objects _ _ _ _ _ _ HF Hko) as [[k0 o] [_ Hfo]]. simpl in Hfo.
  destruct (senm_ty (o_type o)) as [t'| | |] eqn:E; simpl in Hfo; try discriminate.
  inversion Hfo; subst. simpl. eapply senm_clean; eassumption.
Qed.

(* ---- PrefixEnumValues ---- *)
Lemma prefix_of_append p s : prefix_of p (String.append p s) = true.
Proof. induction p as [|c r IH]; [reflexivity|]. simpl. rewrite Ascii.eqb_refl. exact IH. Qed.

Definition mor_loop (f : object -> res object) : list (string * object) -> list (string * object) -> res (list (string * object)) :=
  fix go (l : list (string * object)) (acc : list (string * object)) :=
    match l with
    | [] => Ok acc
    | (k, o) :: r => do o' <- f o ; go r (objs_set acc k o')
    end.
Lemma map_objects_res_eq f s : map_objects_res f s = do objs <- mor_loop f (s_objects s) [] ; Ok (set_objects s objs).
Proof. reflexivity. Qed.
Lemma map_objects_res_objects f s s' k o' :
  map_objects_res f s = Ok s' -> In (k, o') (s_objects s') -> exists ko, In ko (s_objects s) /\ f (snd ko) = Ok o'.
Proof.
  rewrite map_objects_res_eq. set (go := mor_loop f).
  assert (forall l acc objs, go l acc = Ok objs -> In (k, o') objs ->
            In (k, o') acc \/ exists ko, In ko l /\ f (snd ko) = Ok o') as G.
  { induction l as [|[k0 o0] r IH]; intros acc objs Hg Hin; simpl in Hg.
    - inversion Hg; subst. left; assumption.
    - destruct (f o0) as [o1| | |] eqn:E; simpl in Hg; try discriminate.
      destruct (IH _ _ Hg Hin) as [Hx|[ko [Hko Hf]]].
      + apply objs_set_in_inv in Hx. destruct Hx as [Hx|Hx]; [left; assumption|].
        right. exists (k0, o0). split; [left; reflexivity|]. simpl. subst. assumption.
      + right. exists ko. split; [right; assumption|assumption]. }
  destruct (go (s_objects s) []) as [objs| | |] eqn:E; simpl; try discriminate.
  intros H Hin. inversion H; subst. simpl in Hin. destruct (G _ _ _ E Hin) as [[]|Hx]. exact Hx.
Qed.

Theorem prefix_establishes ss out :
  prefix_enum_values ss = Ok out -> go_unprefixed_member out = false.
Proof.
  intros H. unfold go_unprefixed_member. apply existsb_false_iff. intros o' Ho'.
  unfold prefix_enum_values in H.
  destruct (in_objects_of_mapM _ _ _ _ H Ho') as [s [s' [k [Hs [HF Hko]]]]].
  destruct (map_objects_res_objects _ _ _ _ _ HF Hko) as [[k0 o] [_ Hfo]]. simpl in Hfo.
  unfold pev_object in Hfo. unfold enum_members.
  destruct (o_type o) as [a d|a v|a vs|a i v|a dh fs|a pk n|a pk n v|a kk v cs|a bs|a v|a kk] eqn:E;
    try (inversion Hfo; subst; rewrite E; reflexivity).
  match type of Hfo with (do _ <- ?X ; _) = _ => destruct X as [vs'| | |] eqn:Em end; simpl in Hfo; try discriminate.
  inversion Hfo; subst. simpl.
  apply existsb_false_iff. intros v' Hv'.
  destruct (Forall2_in_r _ _ _ (mapM_Forall2 _ _ _ Em) v' Hv') as [v0 [_ Hm]]. simpl in Hm.
  destruct (pev_member_name v0) as [n| | |]; simpl in Hm; try discriminate. inversion Hm; subst. simpl.
  rewrite prefix_of_append. reflexivity.
Qed.

(* =====================================================================================
   witnesses: without the side condition, (c) and (d) fail
   ===================================================================================== *)
Local Open Scope string_scope.
Definition wm0 := {| m_kind := "" ; m_variant := "" ; m_identifier := "" |}.
Definition wSc (k : skind) := TScalar A0 k DNil [].
(* string | (int64 | null) | bool : the inner `T | null` is never visited *)
Definition w_union_in_branch : schemas :=
  [mkSchema "p" wm0 "" ty_zero
     [("Obj", mkObject "Obj" []
                (TStruct A0 [] [mkField "u" [] (TDisj A0 (mkDisj [wSc KString; TDisj A0 (mkDisj [wSc KInt64; wSc KNull] "" []); wSc KBool] "" [])) true])
                "p" "Obj")]].
Example dwnto_needs_no_nested_union :
  nested_union w_union_in_branch = true /\
  exists out, disjunction_with_null_to_optional w_union_in_branch = Ok out /\ has_t_or_null out = true.
Proof. split; [reflexivity|]. eexists. split; vm_compute; reflexivity. Qed.
(* string | [](int64 | bool) : the created StringOrArrayOfDisjunction keeps the inner union *)
Definition w_union_in_array_branch : schemas :=
  [mkSchema "p" wm0 "" ty_zero
     [("Obj", mkObject "Obj" []
                (TStruct A0 [] [mkField "u" [] (TDisj A0 (mkDisj [wSc KString; TArray A0 (TDisj A0 (mkDisj [wSc KInt64; wSc KBool] "" []))] "" [])) true])
                "p" "Obj")]].
Example dtt_needs_no_nested_union :
  nested_union w_union_in_array_branch = true /\
  exists out, disjunction_to_type w_union_in_array_branch = Ok out /\ has_union out = true.
Proof. split; [reflexivity|]. eexists. split; vm_compute; reflexivity. Qed.
