(* G2 over chain_plain3: src_safe3 implies roundtrip_safeF on chain3_out (parse_ctx s); the source-level corollary.
   Proofs/FrontEndChain2Safe.v replayed (generic lemmas fc2_ reused, the others restated with prefix f4_). *)
From Coq Require Import List String ZArith Bool Ascii Lia.
From Cog Require Import Model.IR Model.Json Model.GoSemBase Model.GoSemDecode Model.GoSemValidate Model.GoSemStrict
  Model.GoSem Model.GoSemSpec08 Model.GoSemSpec01 Model.GoSemSpec01F Model.Src Model.FrontEnd Model.FrontEndSpec
  Model.Passes Model.PassesChain Model.Process Gen.Chains_gen Model.FrontEndChainSpec Model.FrontEndChainSpec2
  Model.FrontEndChainSpec3 Model.FrontEndChainSpec4.
From Cog Require Import Proofs.FrontEndLemmas Proofs.FrontEndChainPasses Proofs.FrontEndChainAccept Proofs.FrontEndAccept
  Proofs.GoSemC01Proofs Proofs.FrontEndChain Proofs.FrontEndChain2Sup Proofs.FrontEndChain2Safe Proofs.FrontEndChain2Const
  Proofs.FrontEndChain3Passes Proofs.FrontEndChain3Accept Proofs.FrontEndChain3 Proofs.FrontEndChain4Sup.
Import ListNotations.
Local Open Scope string_scope.
Local Open Scope list_scope.

Lemma f4_js_ty_nullable pkg t : sty_plainc t = true -> nullable (ty_attrs (js_ty pkg t)) = false.
Proof. destruct t; intro H; try discriminate; try reflexivity. destruct v; try discriminate; reflexivity. Qed.
Lemma f4_js_ty_set_false pkg t : sty_plainc t = true -> set_nullable (js_ty pkg t) false = js_ty pkg t.
Proof. destruct t; intro H; try discriminate; try reflexivity. destruct v; try discriminate; reflexivity. Qed.

Definition f4_field (pkg : string) (sf : sfield) : field :=
  mkField (sf_name sf) [] (set_nullable (js_ty pkg (sf_type sf)) (sf_null sf || negb (sf_req sf))) (sf_req sf).

Lemma f4_chain3_disj n c B r : is_null B = false ->
  chain3_field (mkField n c (mk_disj [B; t_null]) r) = mkField n c (set_nullable B true) r.
Proof.
  intro H. unfold chain3_field, dw3_field. rewrite f3a_nrfn_disj_opt. cbn [f_type]. unfold mk_disj.
  cbn [disj_opt d_branches]. change (is_null t_null) with true. rewrite H. cbn [negb andb]. reflexivity.
Qed.

Lemma f4_nrfn_js_field pkg sf : sfield_plain3 sf = true -> chain3_field (js_field pkg sf) = f4_field pkg sf.
Proof.
  unfold sfield_plain3. intro H. apply andb_true_iff in H. destruct H as [P N].
  unfold js_field, f4_field. cbv zeta. destruct (sf_null sf) eqn:En.
  - cbn [orb]. destruct (sf_nullta sf) eqn:Eta.
    + cbn [andb] in N. destruct (sf_type sf); try discriminate;
        repeat match goal with o : option _ |- _ => destruct o; try discriminate end;
        cbn [js_plain]; rewrite f4_chain3_disj by reflexivity; reflexivity.
    + destruct (sf_type sf) eqn:Et; try discriminate; rewrite f4_chain3_disj by apply js_ty_not_null; reflexivity.
  - destruct (sf_nullta sf); [discriminate|]. cbn [orb].
    rewrite f3a_field_plain by (cbn [f_type]; apply fk2_js_ty_plainc; exact P).
    unfold nrfn_field. cbn [f_name f_comments f_type f_required].
    rewrite (f4_js_ty_nullable pkg _ P). destruct (sf_req sf); cbn [negb andb]; [rewrite (f4_js_ty_set_false pkg _ P)|]; reflexivity.
Qed.

Lemma f4_names_chain3 l : map (fun f => f_name f) (map chain3_field l) = map (fun f => f_name f) l.
Proof. induction l as [|x r IH]; simpl; [reflexivity|]. rewrite IH, f3a_field_name. reflexivity. Qed.
Lemma f4_names_out pkg sfs :
  str_nodup (map (fun f => f_name f) (map chain3_field (sort_fields (map (js_field pkg) sfs)))) = str_nodup (map sf_name sfs).
Proof. rewrite f4_names_chain3, fc2_nodup_sort_fields, fc2_names_js. reflexivity. Qed.

Lemma f4_arr_scalars c pkg : forall f t b, s_arr_scalars3 f t = true ->
  array_of_scalars c f (set_nullable (js_ty pkg t) b) = true.
Proof.
  induction f as [|f IH]; intros t b H; [discriminate|].
  cbn [s_arr_scalars3] in H. destruct t; try discriminate.
  cbn [js_ty set_nullable set_attrs ty_attrs array_of_scalars]. rewrite fc2_resolve_nonref by reflexivity.
  destruct t; try discriminate; try (rewrite fc2_resolve_nonref by reflexivity; reflexivity);
    try (destruct v; try discriminate; rewrite fc2_resolve_nonref by reflexivity; reflexivity).
  rewrite fc2_resolve_nonref by reflexivity. cbn [js_ty].
  specialize (IH (SArray t) false H). cbn [js_ty set_nullable set_attrs ty_attrs] in IH. exact IH.
Qed.
Lemma f4_map_scalars c pkg : forall f t b, s_map_scalars3 f t = true ->
  map_of_scalars c f (set_nullable (js_ty pkg t) b) = true.
Proof.
  induction f as [|f IH]; intros t b H; [discriminate|].
  cbn [s_map_scalars3] in H. destruct t; try discriminate.
  cbn [js_ty set_nullable set_attrs ty_attrs map_of_scalars]. rewrite fc2_resolve_nonref by reflexivity.
  destruct t; try discriminate; try (rewrite fc2_resolve_nonref by reflexivity; reflexivity);
    try (destruct v; try discriminate; rewrite fc2_resolve_nonref by reflexivity; reflexivity).
  rewrite fc2_resolve_nonref by reflexivity. cbn [js_ty].
  specialize (IH (SMap t) false H). cbn [js_ty set_nullable set_attrs ty_attrs] in IH. exact IH.
Qed.

Lemma f4_scalar_safe c src pkg t j b : s_is_scalar3 t = true -> fc_nonnull j = true -> s_scalar_safe t j = true ->
  rtsF c src j (set_nullable (js_ty pkg t) b) = true.
Proof.
  intros S N H. destruct t; try discriminate; try (destruct v; try discriminate);
    cbn [js_ty js_const t_bool set_nullable set_attrs ty_attrs]; rewrite fc2_rtsF_scalar by exact N;
    destruct j; try discriminate; try reflexivity; exact H.
Qed.

Lemma f4_nilable c pkg t : sty_plainc t = true -> nilable c (set_nullable (js_ty pkg t) true) = true.
Proof. destruct t; intro H; try discriminate; try reflexivity. destruct v; try discriminate; reflexivity. Qed.

(* ---------- the walk ---------- *)
Section Safe3.
  Variable s : src_schema.
  Hypothesis Hs : chain_plain3 s = true.
  Let defs := src_defs s.
  Let pkg := src_pkg s.
  Let ctx := parse_ctx s.
  Let out := chain3_out ctx.

  Lemma f4_def_struct n sfs : src_lookup defs n = Some (SStruct sfs) ->
    sfs <> [] /\ forallb sfield_plain3 sfs = true /\ str_nodup (map sf_name sfs) = true /\
    forall a, payload_type out (TRef a pkg n) =
              PTy (TStruct attrs0 [] (map chain3_field (sort_fields (map (js_field pkg) sfs)))).
  Proof.
    intro L. destruct (f3s_parts s Hs) as [W [J [_ P]]].
    destruct (src_wf_parts s W) as [_ [_ A]].
    pose proof (src_lookup_some_in _ _ _ L) as I. specialize (P _ I). cbn [snd] in P.
    destruct (A _ _ I) as [JS [_ [R _]]].
    destruct sfs as [|f fs]; [discriminate|]. cbn [sdef_plain3] in P.
    repeat split; try assumption; try discriminate.
    - cbn [js_supported] in JS. apply andb_true_iff in JS. exact (proj1 JS).
    - intro a. apply (f3a_payload_ref ctx a pkg n (obj_of pkg n (SStruct (f :: fs))) attrs0).
      + apply chain_plain3_ctx_plain3. exact Hs.
      + unfold ctx, pkg. rewrite (locate_parse s n J), R. unfold defs in L. rewrite L. reflexivity.
      + reflexivity.
      + reflexivity.
  Qed.

  Definition f4_safe_at (j : json) : Prop :=
    forall src t b, sty_plainc t = true -> src_safe3_ty defs src j t = true ->
                    rtsF out src j (set_nullable (js_ty pkg t) b) = true.

  Lemma f4_struct_case n sfs ms a :
    src_lookup defs n = Some (SStruct sfs) ->
    Forall (fun kv => f4_safe_at (snd kv)) ms ->
    src_safe3_ty defs RField (JObj ms) (SRef n) = true ->
    forall src, rtsF out src (JObj ms) (TRef a pkg n) = true.
  Proof.
    intros L IH H src. destruct (f4_def_struct n sfs L) as [NE [PF [ND PT]]].
    rewrite (fc2_rtsF_ref_struct out src (JObj ms) a pkg n _ _ eq_refl (PT a)).
    cbn [src_safe3_ty] in H. rewrite L in H. apply andb_true_iff in H. destruct H as [H1 H2].
    assert (forall sf, In sf sfs -> chain3_field (js_field pkg sf) = f4_field pkg sf) as NF.
    { intros sf Hin. apply f4_nrfn_js_field. exact (proj1 (forallb_forall _ _) PF sf Hin). }
    assert (str_nodup (map (fun f => f_name f) (map chain3_field (sort_fields (map (js_field pkg) sfs)))) = true) as N1.
    { rewrite f4_names_out. exact ND. }
    rewrite N1. cbn [andb]. unfold fc2_struct_safe. rewrite N1, andb_true_r.
    apply andb_true_iff. split; [apply andb_true_iff; split|].
    - (* members *)
      rewrite Forall_forall in IH. apply forallb_forall. intros kv Hkv.
      pose proof (proj1 (forallb_forall _ _) H1 kv Hkv) as Hm. cbn beta in Hm.
      rewrite f3a_find, find_sort_fields, (find_map_field (js_field pkg)) by (intro; reflexivity).
      destruct (find (fun f => seqb (sf_name f) (fst kv)) sfs) as [sf|] eqn:Ef; [|reflexivity]. cbn [option_map].
      apply find_some in Ef. destruct Ef as [Ef _]. rewrite (NF sf Ef). unfold f4_field. cbn [f_type f_required].
      destruct (fc_nonnull (snd kv)) eqn:Nn.
      + assert ((src_safe3_ty defs RField (snd kv) (sf_type sf) && (sf_req sf || negb (is_empty_collection (snd kv))))%bool = true) as Hm'
          by (destruct (snd kv); try discriminate; exact Hm).
        apply andb_true_iff in Hm'. destruct Hm' as [Hm1 Hm2]. rewrite Hm2, andb_true_r.
        apply (IH kv Hkv RField (sf_type sf) (sf_null sf || negb (sf_req sf))%bool); [|exact Hm1].
        pose proof (proj1 (forallb_forall _ _) PF sf Ef) as X. unfold sfield_plain3 in X. apply andb_true_iff in X. exact (proj1 X).
      + destruct (snd kv); try discriminate. cbn [rtsF null_safe is_empty_collection negb andb]. apply orb_true_r.
    - (* required members present *)
      rewrite fc_forallb_map, fc_forallb_sort_fields, fc_forallb_map. revert H2. apply fc_forallb_impl. intros sf _ X. rewrite f3a_field_req, f3a_field_name. exact X.
    - (* optional members are nil-able *)
      rewrite fc_forallb_map, fc_forallb_sort_fields, fc_forallb_map. apply forallb_forall. intros sf Hin.
      rewrite (NF sf Hin). unfold f4_field. cbn [f_type f_required]. destruct (sf_req sf); [reflexivity|]. cbn [negb]. rewrite orb_true_r. cbn [orb].
      apply f4_nilable. pose proof (proj1 (forallb_forall _ _) PF sf Hin) as X. unfold sfield_plain3 in X.
      apply andb_true_iff in X. exact (proj1 X).
  Qed.

  Lemma f4_ref_nonobj j n a src : fc_nonnull j = true -> (forall ms, j <> JObj ms) ->
    src_safe3_ty defs src j (SRef n) = true -> rtsF out src j (TRef a pkg n) = true.
  Proof.
    intros N NO H.
    assert (exists sfs, src_lookup defs n = Some (SStruct sfs)) as [sfs L].
    { destruct j; try discriminate; cbn [src_safe3_ty] in H;
        destruct (src_lookup defs n) as [[]|]; try discriminate; eexists; reflexivity. }
    destruct (f4_def_struct n sfs L) as [_ [_ [ND PT]]].
    rewrite (fc2_rtsF_ref_struct out src _ a pkg n _ _ N (PT a)).
    rewrite f4_names_out, ND.
    destruct j; try reflexivity. exfalso. apply (NO ms). reflexivity.
  Qed.

  Lemma f4_safe_walk : forall j, f4_safe_at j.
  Proof.
    induction j using fc_json_ind; intros src t nb P HS; try discriminate.
    all: destruct t; try discriminate.
    all: try (destruct v; try discriminate).
    (* scalars *)
    all: try (apply f4_scalar_safe; [reflexivity|reflexivity|exact HS]).
    (* references, document not an object *)
    all: try (cbn [js_ty set_nullable set_attrs ty_attrs]; apply f4_ref_nonobj; [reflexivity|discriminate|exact HS]).
    (* arrays and maps *)
    all: cbn [js_ty set_nullable set_attrs ty_attrs].
    all: try (rewrite fc2_rtsF_array by reflexivity; try reflexivity).
    all: try (rewrite fc2_rtsF_map by reflexivity; try reflexivity).
    - (* array, array *)
      cbn [src_safe3_ty] in HS. apply andb_true_iff in HS. destruct HS as [H1 H2]. apply andb_true_iff. split.
      + rewrite Forall_forall in H. apply forallb_forall. intros x Hx.
        cbn [sty_plainc] in P. rewrite <- (f4_js_ty_set_false pkg t P).
        apply (H x Hx RElem t false P). exact (proj1 (forallb_forall _ _) H1 x Hx).
      + apply orb_true_iff in H2. destruct H2 as [H2|H2]; [|rewrite H2; apply orb_true_r].
        pose proof (f4_arr_scalars out pkg 8 (SArray t) (nullable (ty_attrs (set_nullable (js_ty pkg (SArray t)) nb))) H2) as X.
        cbn [js_ty set_nullable set_attrs ty_attrs nullable] in X. rewrite X. reflexivity.
    - (* map, object *)
      cbn [src_safe3_ty] in HS. apply andb_true_iff in HS. destruct HS as [H1 H2]. apply andb_true_iff. split.
      + rewrite Forall_forall in H. apply forallb_forall. intros x Hx.
        cbn [sty_plainc] in P. rewrite <- (f4_js_ty_set_false pkg t P).
        apply (H x Hx RVal t false P). exact (proj1 (forallb_forall _ _) H1 x Hx).
      + apply orb_true_iff in H2. destruct H2 as [H2|H2]; [|rewrite H2; apply orb_true_r].
        pose proof (f4_map_scalars out pkg 8 (SMap t) (nullable (ty_attrs (set_nullable (js_ty pkg (SMap t)) nb))) H2) as X.
        cbn [js_ty set_nullable set_attrs ty_attrs nullable] in X. rewrite X. reflexivity.
    - (* reference, object *)
      assert (exists sfs, src_lookup defs name = Some (SStruct sfs)) as [sfs L].
      { cbn [src_safe3_ty] in HS. destruct (src_lookup defs name) as [[]|]; try discriminate; eexists; reflexivity. }
      apply (f4_struct_case name sfs l _ L H HS).
  Qed.

  Theorem f4_src_safe_rtsF tname d : src_safe3 s tname d = true -> roundtrip_safeF out pkg tname d = true.
  Proof.
    unfold src_safe3, roundtrip_safeF. intro H.
    exact (f4_safe_walk d RField (SRef tname) false eq_refl H).
  Qed.
End Safe3.


Theorem src_safe3_roundtrip_safeF s tname d :
  chain_plain3 s = true -> src_safe3 s tname d = true ->
  roundtrip_safeF (chain3_out (parse_ctx s)) (src_pkg s) tname d = true.
Proof. intros H S. apply f4_src_safe_rtsF; assumption. Qed.

Theorem src_valid_roundtrip_source3 s tname d :
  chain_plain3 s = true -> json_wf d = true -> json_ints_int64 d = true ->
  str_in tname (map fst (src_defs s)) = true -> src_safe3 s tname d = true ->
  src_valid_doc "jsonschema" s tname d = true ->
  exists out, process chain_go (parse_ctx s) = Ok out /\ roundtrip_holds out (src_pkg s) tname d = true.
Proof.
  intros H WF HI IN SS SV. exists (chain3_out (parse_ctx s)). split; [apply chain_go_plain3_explicit; exact H|].
  apply (src_valid_roundtrip_plain3_closed s tname d _ H WF HI (chain_go_plain3_explicit s H) IN SV).
  apply src_safe3_roundtrip_safeF; assumption.
Qed.

Lemma src_safe3_nonvacuous :
  chain_plain3 sNull = true /\ json_wf dNull = true /\ json_ints_int64 dNull = true /\
  str_in "Root" (map fst (src_defs sNull)) = true /\ src_safe3 sNull "Root" dNull = true /\
  src_valid_doc "jsonschema" sNull "Root" dNull = true.
Proof. vm_compute. repeat split; reflexivity. Qed.

(* the conjunct on empty collections also fires on NULLABLE optional members: [] is dropped by omitempty *)
Definition sSafe3W : src_schema :=
  mkSrc "p" "Root" [("Root", SStruct [mkSField "items" (SArray (SString None None)) false true false;
                                      mkSField "name" (SString None None) true true false])].
Lemma src_safe3_needed_empty_nullable_array :
  chain_plain3 sSafe3W = true /\ json_wf (JObj [("items", JArr []); ("name", JNull)]) = true /\
  src_valid_doc "jsonschema" sSafe3W "Root" (JObj [("items", JArr []); ("name", JNull)]) = true /\
  src_safe3 sSafe3W "Root" (JObj [("items", JArr []); ("name", JNull)]) = false /\
  roundtrip_holds (chain3_out (parse_ctx sSafe3W)) "p" "Root" (JObj [("items", JArr []); ("name", JNull)]) = false /\
  (* while null members are safe and round-trip *)
  src_safe3 sSafe3W "Root" (JObj [("items", JNull); ("name", JNull)]) = true /\
  roundtrip_holds (chain3_out (parse_ctx sSafe3W)) "p" "Root" (JObj [("items", JNull); ("name", JNull)]) = true.
Proof. vm_compute. repeat split; reflexivity. Qed.

Print Assumptions src_safe3_roundtrip_safeF.
Print Assumptions src_valid_roundtrip_source3.
Print Assumptions src_safe3_nonvacuous.
