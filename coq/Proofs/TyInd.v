(* Induction principle for the nested IR type. *)
From Coq Require Import List String.
From Cog Require Import Model.IR.
Import ListNotations.

Section TyInd.
  Variable P : ty -> Prop.
  Hypothesis HDisj : forall a d, Forall P (d_branches d) -> P (TDisj a d).
  Hypothesis HArray : forall a v, P v -> P (TArray a v).
  Hypothesis HEnum : forall a vs, Forall (fun ev => P (ev_type ev)) vs -> P (TEnum a vs).
  Hypothesis HMap : forall a i v, P i -> P v -> P (TMap a i v).
  Hypothesis HStruct : forall a dh fs,
      Forall (fun kd => Forall P (d_branches (snd kd))) dh ->
      Forall (fun f => P (f_type f)) fs -> P (TStruct a dh fs).
  Hypothesis HRef : forall a p n, P (TRef a p n).
  Hypothesis HConstRef : forall a p n v, P (TConstRef a p n v).
  Hypothesis HScalar : forall a k v cs, P (TScalar a k v cs).
  Hypothesis HInter : forall a bs, Forall P bs -> P (TInter a bs).
  Hypothesis HSlot : forall a v, P (TSlot a v).
  Hypothesis HBad : forall a k, P (TBad a k).

  Fixpoint ty_ind' (t : ty) : P t :=
    match t with
    | TDisj a d =>
        HDisj a d ((fix go (l : list ty) : Forall P l :=
                      match l with [] => Forall_nil _ | x :: r => Forall_cons x (ty_ind' x) (go r) end)
                     (d_branches d))
    | TArray a v => HArray a v (ty_ind' v)
    | TEnum a vs =>
        HEnum a vs ((fix go (l : list (enumval_ ty)) : Forall (fun ev => P (ev_type ev)) l :=
                       match l with [] => Forall_nil _ | x :: r => Forall_cons x (ty_ind' (ev_type x)) (go r) end) vs)
    | TMap a i v => HMap a i v (ty_ind' i) (ty_ind' v)
    | TStruct a dh fs =>
        HStruct a dh fs
          ((fix go (l : list (string * disj_ ty)) : Forall (fun kd => Forall P (d_branches (snd kd))) l :=
              match l with
              | [] => Forall_nil _
              | x :: r => Forall_cons x
                            ((fix go2 (l : list ty) : Forall P l :=
                                match l with [] => Forall_nil _ | y :: s => Forall_cons y (ty_ind' y) (go2 s) end)
                               (d_branches (snd x))) (go r)
              end) dh)
          ((fix go (l : list (field_ ty)) : Forall (fun f => P (f_type f)) l :=
              match l with [] => Forall_nil _ | x :: r => Forall_cons x (ty_ind' (f_type x)) (go r) end) fs)
    | TRef a p n => HRef a p n
    | TConstRef a p n v => HConstRef a p n v
    | TScalar a k v cs => HScalar a k v cs
    | TInter a bs =>
        HInter a bs ((fix go (l : list ty) : Forall P l :=
                        match l with [] => Forall_nil _ | x :: r => Forall_cons x (ty_ind' x) (go r) end) bs)
    | TSlot a v => HSlot a v
    | TBad a k => HBad a k
    end.
End TyInd.
