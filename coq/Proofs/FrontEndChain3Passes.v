(* G3 (a): chain_go on contexts whose struct fields are leafy or `T | null` (Model/FrontEndChainSpec3.v ctx_leafy3):
   process chain_go ctx = Ok (chain3_out ctx). *)
From Coq Require Import List String ZArith Bool Ascii.
From Cog Require Import Model.IR Model.Json Model.Passes Model.PassesChain Model.Process Gen.Chains_gen
  Model.FrontEndChainSpec Model.FrontEndChainSpec2 Model.FrontEndChainSpec3.
From Cog Require Import Proofs.FrontEndChainPasses.
Import ListNotations.
Local Open Scope string_scope.
Local Open Scope list_scope.
Local Notation "a +++ b" := (String.append a b) (at level 60, right associativity).

Lemma f3_disj_opt_inv t b : disj_opt t = Some b ->
  exists a n disc mp, t = TDisj a (mkDisj [b; n] disc mp) /\ is_null n = true /\ is_null b = false.
Proof.
  destruct t; try discriminate. destruct d as [bs disc mp]. cbn [disj_opt d_branches].
  destruct bs as [|x [|y [|z r]]]; try discriminate.
  destruct (is_null y) eqn:Ey; destruct (is_null x) eqn:Ex; cbn; try discriminate.
  intro H. inversion H; subst. exists a, y, disc, mp. repeat split; assumption.
Qed.
Lemma f3_null_leafy n : is_null n = true -> ty_leafy n = true.
Proof. destruct n; try discriminate; reflexivity. Qed.
Lemma f3_disj_opt_set_nullable t x : disj_opt (set_nullable t x) = disj_opt t.
Proof. destruct t; reflexivity. Qed.
Lemma f3_disj_opt_leafy t : ty_leafy t = true -> disj_opt t = None.
Proof. destruct t; try discriminate; reflexivity. Qed.

(* ---------- the three passes on one field type ---------- *)
Definition astn_branches (pkg parent : string) : list ty -> list ty * list object :=
  fix go (l : list ty) : list ty * list object :=
    match l with
    | [] => ([], [])
    | b :: r => let '(b', n1) := astn_type pkg parent b in
                let '(r', n2) := go r in (b' :: r', n1 ++ n2)
    end.
Lemma f3_astn_type_disj pkg parent a d :
  astn_type pkg parent (TDisj a d) =
  let '(bs, n) := astn_branches pkg parent (d_branches d) in (TDisj a (mkDisj bs (d_disc d) (d_mapping d)), n).
Proof. reflexivity. Qed.

Lemma f3_astn_type pkg t parent : fty_leafy3 t = true -> astn_type pkg parent t = (t, []).
Proof.
  unfold fty_leafy3. intro H. apply orb_true_iff in H. destruct H as [H|H]; [apply fc_astn_type_leafy; exact H|].
  destruct (disj_opt t) as [b|] eqn:E; [|discriminate].
  destruct (f3_disj_opt_inv t b E) as [a [n [disc [mp [-> [Hn _]]]]]].
  rewrite f3_astn_type_disj. cbn [d_branches astn_branches d_disc d_mapping].
  rewrite (fc_astn_type_leafy pkg b parent H), (fc_astn_type_leafy pkg n parent (f3_null_leafy n Hn)). reflexivity.
Qed.

Lemma f3_nrfn_ty t : fty_leafy3 t = true -> nrfn_ty t = t.
Proof.
  unfold fty_leafy3. intro H. apply orb_true_iff in H. destruct H as [H|H]; [apply fc_nrfn_ty_leafy; exact H|].
  destruct (disj_opt t) as [b|] eqn:E; [|discriminate].
  destruct (f3_disj_opt_inv t b E) as [a [n [disc [mp [-> [Hn _]]]]]].
  cbn [nrfn_ty d_branches map d_disc d_mapping].
  rewrite (fc_nrfn_ty_leafy b H), (fc_nrfn_ty_leafy n (f3_null_leafy n Hn)). reflexivity.
Qed.

Definition dw3_ty (t : ty) : ty := match disj_opt t with Some b => set_nullable b true | None => t end.

Lemma f3_dwnto_visit t : fty_leafy3 t = true ->
  visit_disj (fun (_ : unit) d => do d' <- dwnto_disj d ; Ok (d', tt)) tt t = Ok (dw3_ty t, tt).
Proof.
  unfold fty_leafy3, dw3_ty. intro H. apply orb_true_iff in H. destruct H as [H|H].
  - rewrite (f3_disj_opt_leafy t H). apply fc_visit_disj_leafy. exact H.
  - destruct (disj_opt t) as [b|] eqn:E; [|discriminate].
    destruct (f3_disj_opt_inv t b E) as [a [n [disc [mp [-> [Hn Hb]]]]]].
    cbn [visit_disj dwnto_disj d_branches has_null_type existsb filter]. rewrite Hn, Hb. cbn. reflexivity.
Qed.

(* ---------- fields ---------- *)
Definition fields_leafy3 (fs : list field) : bool := forallb (fun f => fty_leafy3 (f_type f)) fs.

Lemma f3_astn_fields pkg parent : forall fs acc news, fields_leafy3 fs = true ->
  fold_left (fun acc f =>
               let '(t', n1) := astn_type pkg (parent +++ upper_camel_case (f_name f)) (f_type f) in
               (fst acc ++ [mkField (f_name f) (f_comments f) t' (f_required f)], snd acc ++ n1))
            fs (acc, news) = (acc ++ fs, news).
Proof.
  induction fs as [|fd r IH]; intros acc news H; simpl.
  - rewrite app_nil_r. reflexivity.
  - simpl in H. apply andb_true_iff in H. destruct H as [H1 H2].
    rewrite (f3_astn_type pkg _ _ H1). simpl. rewrite fc_field_eta, app_nil_r. rewrite (IH _ _ H2).
    rewrite <- app_assoc. reflexivity.
Qed.

Lemma f3_nrfn_ty_struct a dh fs : fields_leafy3 fs = true ->
  nrfn_ty (TStruct a dh fs) = TStruct a dh (map nrfn_field fs).
Proof.
  intro H. simpl. f_equal. apply map_ext_in. intros f Hin.
  rewrite (f3_nrfn_ty _ (proj1 (forallb_forall _ _) H f Hin)). reflexivity.
Qed.

Lemma f3_vd_fields : forall fs, fields_leafy3 fs = true ->
  vd_fields (fun (_ : unit) d => do d' <- dwnto_disj d ; Ok (d', tt)) fs tt =
  Ok (map (fun f => mkField (f_name f) (f_comments f) (dw3_ty (f_type f)) (f_required f)) fs, tt).
Proof.
  induction fs as [|fd r IH]; intros H; simpl; [reflexivity|].
  simpl in H. apply andb_true_iff in H. destruct H as [H1 H2].
  rewrite (f3_dwnto_visit _ H1). simpl. rewrite (IH H2). reflexivity.
Qed.
Lemma f3_dw3_field_eq f : mkField (f_name f) (f_comments f) (dw3_ty (f_type f)) (f_required f) = dw3_field f.
Proof. unfold dw3_ty, dw3_field. destruct (disj_opt (f_type f)); [reflexivity|apply fc_field_eta]. Qed.
Lemma f3_dwnto_struct a dh fs : fields_leafy3 fs = true ->
  visit_disj0 dwnto_disj (TStruct a dh fs) = Ok (TStruct a dh (map dw3_field fs)).
Proof.
  intro H. unfold visit_disj0. rewrite fc_visit_disj_struct, (f3_vd_fields fs H). cbn [bind fst snd].
  rewrite (map_ext _ dw3_field) by (intro f; apply f3_dw3_field_eq). reflexivity.
Qed.

(* ---------- objects, schemas ---------- *)
Lemma f3_obj_inv ko : obj_leafy3 ko = true ->
  fst ko = o_name (snd ko) /\ exists a dh fs, o_type (snd ko) = TStruct a dh fs /\ fields_leafy3 fs = true.
Proof.
  unfold obj_leafy3. intro H. apply andb_true_iff in H. destruct H as [H1 H2].
  split; [apply String.eqb_eq; exact H1|].
  destruct (o_type (snd ko)); try discriminate. exists a, dh, fs. split; [reflexivity|exact H2].
Qed.
Lemma f3_schema_inv s : schema_leafy3 s = true ->
  str_nodup (map fst (s_objects s)) = true /\ (forall ko, In ko (s_objects s) -> obj_leafy3 ko = true) /\
  ty_leafy (s_entrytype s) = true.
Proof.
  unfold schema_leafy3. intro H. apply andb_true_iff in H. destruct H as [H H3].
  apply andb_true_iff in H. destruct H as [H1 H2]. repeat split; try assumption.
  apply forallb_forall. exact H2.
Qed.

Lemma f3_astn_object k o : obj_leafy3 (k, o) = true -> astn_object o = (o, []).
Proof.
  intro H. destruct (f3_obj_inv _ H) as [_ [a [dh [fs [E F]]]]]. simpl in E.
  unfold astn_object. rewrite E. rewrite (f3_astn_fields _ _ fs [] [] F). simpl.
  rewrite <- E, fc_set_otype_eta. reflexivity.
Qed.
Lemma f3_astn_schema s : schema_leafy3 s = true -> astn_schema s = s.
Proof.
  intro H. destruct (f3_schema_inv s H) as [N [O _]]. unfold astn_schema.
  assert (forall l acc news, (forall ko, In ko l -> obj_leafy3 ko = true) ->
            fold_left (fun acc ko => let '(o', n) := astn_object (snd ko) in
                                     (objs_set (fst acc) (fst ko) o', snd acc ++ n)) l (acc, news) =
            (fold_left (fun acc ko => objs_set acc (fst ko) (snd ko)) l acc, news)) as G.
  { induction l as [|[k o] r IH]; intros acc news Hl; simpl; [reflexivity|].
    rewrite (f3_astn_object k o (Hl _ (or_introl eq_refl))). simpl. rewrite app_nil_r.
    apply IH. intros; apply Hl; right; assumption. }
  rewrite (G _ _ _ O). rewrite (fc_rebuild_id _ N). simpl. apply fc_set_objects_eta.
Qed.

Lemma f3_nrfn_obj k o : obj_leafy3 (k, o) = true -> set_otype o (nrfn_ty (o_type o)) = nrfn_only_obj o.
Proof.
  intro H. destruct (f3_obj_inv _ H) as [_ [a [dh [fs [E F]]]]]. simpl in E.
  unfold nrfn_only_obj. rewrite E. rewrite (f3_nrfn_ty_struct a dh fs F). reflexivity.
Qed.
Lemma f3_nrfn_schema s : schema_leafy3 s = true ->
  visit_schema_t nrfn_ty (fun o => set_otype o (nrfn_ty (o_type o))) s =
  set_objects s (map (fun ko => (fst ko, nrfn_only_obj (snd ko))) (s_objects s)).
Proof.
  intro H. destruct (f3_schema_inv s H) as [N [O E]]. unfold visit_schema_t, set_objects.
  rewrite (fc_nrfn_ty_leafy _ E). f_equal.
  rewrite (fc_fold_ext _ (fun acc ko => objs_set acc (fst ko) (nrfn_only_obj (snd ko)))).
  - rewrite (fc_rebuild (fun ko => nrfn_only_obj (snd ko)) _ [] N). reflexivity.
  - intros a [k o] Hin. simpl. rewrite (f3_nrfn_obj k o (O _ Hin)). unfold add_object.
    rewrite fc_nrfn_obj_name. destruct (f3_obj_inv _ (O _ Hin)) as [Ek _]. simpl in Ek. rewrite <- Ek. reflexivity.
Qed.

Lemma f3_dw3_obj_name o : o_name (dw3_obj o) = o_name o.
Proof. unfold dw3_obj. destruct (o_type o); reflexivity. Qed.
Lemma f3_dwnto_obj k o : obj_leafy3 (k, o) = true -> visit_disj0 dwnto_disj (o_type o) = Ok (o_type (dw3_obj o)) /\
  set_otype o (o_type (dw3_obj o)) = dw3_obj o.
Proof.
  intro H. destruct (f3_obj_inv _ H) as [_ [a [dh [fs [E F]]]]]. simpl in E.
  unfold dw3_obj. rewrite E. split; [apply f3_dwnto_struct; exact F|reflexivity].
Qed.
Lemma f3_dwnto_schema s : schema_leafy3 s = true ->
  visit_schema (visit_disj0 dwnto_disj) (fun o => do t <- visit_disj0 dwnto_disj (o_type o) ; Ok (set_otype o t)) s =
  Ok (set_objects s (map (fun ko => (fst ko, dw3_obj (snd ko))) (s_objects s))).
Proof.
  intro H. destruct (f3_schema_inv s H) as [N [O E]]. rewrite fc_visit_schema_eq.
  rewrite (fc_visit_disj0_leafy dwnto_disj _ E). cbn [bind].
  set (go := fc_vs_loop (fun o => do t <- visit_disj0 dwnto_disj (o_type o) ; Ok (set_otype o t))).
  assert (forall l acc, (forall ko, In ko l -> obj_leafy3 ko = true) ->
            go l acc = Ok (fold_left (fun acc ko => objs_set acc (fst ko) (dw3_obj (snd ko))) l acc)) as G.
  { induction l as [|[k o] r IH]; intros acc Hl; simpl; [reflexivity|].
    destruct (f3_dwnto_obj k o (Hl _ (or_introl eq_refl))) as [V S]. rewrite V. simpl. rewrite S.
    rewrite IH by (intros; apply Hl; right; assumption).
    unfold add_object. rewrite f3_dw3_obj_name. destruct (f3_obj_inv _ (Hl _ (or_introl eq_refl))) as [Ek _]. simpl in Ek.
    rewrite <- Ek. reflexivity. }
  rewrite (G _ _ O). simpl. rewrite (fc_rebuild (fun ko => dw3_obj (snd ko)) _ [] N). reflexivity.
Qed.

(* ---------- invariants of the intermediate contexts ---------- *)
Lemma f3_set_nullable_fty t x : fty_leafy3 (set_nullable t x) = fty_leafy3 t.
Proof. unfold fty_leafy3. rewrite f3_disj_opt_set_nullable, fc_set_nullable_leafy. reflexivity. Qed.
Lemma f3_nrfn_fields_leafy3 fs : fields_leafy3 fs = true -> fields_leafy3 (map nrfn_field fs) = true.
Proof.
  unfold fields_leafy3. intro H. rewrite fc_forallb_map. apply forallb_forall. intros f Hf.
  pose proof (proj1 (forallb_forall _ _) H f Hf) as X. unfold nrfn_field. cbn [f_type].
  destruct (negb (f_required f) && negb (nullable (ty_attrs (f_type f))))%bool; [rewrite f3_set_nullable_fty|]; exact X.
Qed.
Lemma f3_nrfn_only_leafy3 ctx : ctx_leafy3 ctx = true -> ctx_leafy3 (nrfn_only ctx) = true.
Proof.
  unfold ctx_leafy3, nrfn_only. intro H. rewrite fc_forallb_map. apply forallb_forall. intros s Hs.
  destruct (f3_schema_inv s (proj1 (forallb_forall _ _) H s Hs)) as [N [O E]]. unfold schema_leafy3. simpl.
  rewrite fc_map_fst_map, N, E. simpl. rewrite andb_true_r.
  rewrite fc_forallb_map. apply forallb_forall. intros ko Hko.
  destruct (f3_obj_inv _ (O _ Hko)) as [Ek [a [dh [fs [Et F]]]]].
  unfold obj_leafy3. simpl. rewrite fc_nrfn_obj_name, Ek. unfold seqb. rewrite String.eqb_refl. simpl.
  unfold nrfn_only_obj. rewrite Et. simpl. apply f3_nrfn_fields_leafy3. exact F.
Qed.

Lemma f3_dw3_ty_leafy t : fty_leafy3 t = true -> ty_leafy (f_type (dw3_field (mkField "" [] t true))) = true.
Proof.
  unfold fty_leafy3, dw3_field. cbn [f_type]. intro H. apply orb_true_iff in H. destruct H as [H|H].
  - rewrite (f3_disj_opt_leafy t H). exact H.
  - destruct (disj_opt t); [|discriminate]. cbn [f_type]. rewrite fc_set_nullable_leafy. exact H.
Qed.
Lemma f3_dw3_fields_leafy fs : fields_leafy3 fs = true -> fields_leafy (map dw3_field fs) = true.
Proof.
  unfold fields_leafy3, fields_leafy. intro H. rewrite fc_forallb_map. apply forallb_forall. intros f Hf.
  pose proof (f3_dw3_ty_leafy _ (proj1 (forallb_forall _ _) H f Hf)) as X.
  unfold dw3_field in *. cbn [f_type] in X. destruct (disj_opt (f_type f)); exact X.
Qed.
Lemma f3_dw3_only_leafy ctx : ctx_leafy3 ctx = true -> ctx_leafy (dw3_only ctx) = true.
Proof.
  unfold ctx_leafy3, ctx_leafy, dw3_only. intro H. rewrite fc_forallb_map. apply forallb_forall. intros s Hs.
  destruct (f3_schema_inv s (proj1 (forallb_forall _ _) H s Hs)) as [N [O E]]. unfold schema_leafy. simpl.
  rewrite fc_map_fst_map, N, E. simpl. rewrite andb_true_r.
  rewrite fc_forallb_map. apply forallb_forall. intros ko Hko.
  destruct (f3_obj_inv _ (O _ Hko)) as [Ek [a [dh [fs [Et F]]]]].
  unfold obj_leafy. simpl. rewrite f3_dw3_obj_name, Ek. unfold seqb. rewrite String.eqb_refl. simpl.
  unfold dw3_obj. rewrite Et. simpl. apply f3_dw3_fields_leafy. exact F.
Qed.

Lemma f3_ctx_in ctx s : ctx_leafy3 ctx = true -> In s ctx -> schema_leafy3 s = true.
Proof. unfold ctx_leafy3. intros H. apply forallb_forall. exact H. Qed.

(* ---------- the chain ---------- *)
Lemma f3_mapM_map {A} (F : A -> res A) (G : A -> A) l : (forall x, In x l -> F x = Ok (G x)) -> mapM F l = Ok (map G l).
Proof.
  induction l as [|x r IH]; intro H; simpl; [reflexivity|].
  rewrite (H x (or_introl eq_refl)). simpl. rewrite IH by (intros; apply H; right; assumption). reflexivity.
Qed.

Theorem chain_go_leafy3 ctx : ctx_leafy3 ctx = true -> process chain_go ctx = Ok (chain3_out ctx).
Proof.
  intro H. pose proof (f3_nrfn_only_leafy3 ctx H) as H2. pose proof (f3_dw3_only_leafy _ H2) as H3.
  unfold chain_go. cbn [process].
  change (run_pass PAnonymousStructsToNamed ctx) with (Ok (anonymous_structs_to_named ctx)).
  assert (anonymous_structs_to_named ctx = ctx) as E1.
  { unfold anonymous_structs_to_named. apply fc_map_id. intros s Hs. apply f3_astn_schema. exact (f3_ctx_in _ _ H Hs). }
  rewrite E1. cbn [bind].
  change (run_pass PNotRequiredFieldAsNullableType ctx) with (Ok (not_required_field_as_nullable_type ctx)).
  assert (not_required_field_as_nullable_type ctx = nrfn_only ctx) as E2.
  { unfold not_required_field_as_nullable_type, nrfn_only. apply map_ext_in. intros s Hs.
    apply f3_nrfn_schema. exact (f3_ctx_in _ _ H Hs). }
  rewrite E2. cbn [bind].
  change (run_pass PDisjunctionWithNullToOptional (nrfn_only ctx)) with (disjunction_with_null_to_optional (nrfn_only ctx)).
  assert (disjunction_with_null_to_optional (nrfn_only ctx) = Ok (chain3_out ctx)) as E3.
  { unfold disjunction_with_null_to_optional, visit_schemas_disj0, chain3_out, dw3_only. apply f3_mapM_map. intros s Hs.
    apply f3_dwnto_schema. exact (f3_ctx_in _ _ H2 Hs). }
  rewrite E3. cbn [bind]. unfold chain3_out in *.
  repeat (rewrite (fc_run_identity _ (dw3_only (nrfn_only ctx)) H3) by (simpl; tauto); cbn [bind]).
  reflexivity.
Qed.
