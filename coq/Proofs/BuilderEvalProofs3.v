(* C09 — round 3: Python counterparts (nested builders, call sequences) and Go reporting of a violated
   constraint on an APPENDED / INDEXED element.  (New file; Model files untouched.) *)
From Coq Require Import List String ZArith Bool Ascii Lia.
From Cog Require Import Model.IR Model.Json Model.Builders Model.BuildersEq Model.Spec16 Model.GoSem
  Model.BuilderEval Model.PyBuilderEval Model.BuilderSpec Proofs.BuilderEvalProofs Proofs.BuilderEvalProofs2.
Import ListNotations.
Local Open Scope list_scope.
Local Open Scope string_scope.

(* ================= Python: nested builders ================= *)

(* the nested builder built (Python build() cannot fail): the option sets exactly its field to the built object *)
Theorem py_nested_builder_success_proof e f o fs old a p nm w :
  struct_field_to_option f = Ok o -> f_name f <> "" -> f_type f = TRef a p nm ->
  gmap_find fs (f_name f) = Some old ->
  exists fs', py_option e o (GStruct fs) [AVal w] = GOk (GStruct fs') /\
              gmap_find fs' (f_name f) = Some w /\
              (forall g, g <> f_name f -> gmap_find fs' g = gmap_find fs g) /\
              map fst fs' = map fst fs.
Proof.
  intros D N T F. eapply (py_derived_option_sets_proof e f o fs old w []); eauto.
  rewrite T. reflexivity.
Qed.

(* a nested builder whose first option call raises: the whole argument expression raises *)
Theorem py_nested_builder_raises_proof k e p n ctor on args rest b cargs o0 o avs :
  locate_builder (be_builders e) p n = Some b ->
  List.length ctor = List.length (ct_args (b_ctor b)) ->
  omapM (py_arg k e) ctor = GOk cargs -> py_new_builder e b cargs = GOk o0 ->
  option_by_name b on = Some o -> omapM (py_arg k e) args = GOk avs ->
  py_option e o o0 avs = GPanic ->
  py_arg (S k) e (BBuild p n ctor ((on, args) :: rest)) = GPanic.
Proof.
  intros L LEN C N O A R. cbn [py_arg]. rewrite L, LEN, Nat.eqb_refl. cbn [negb]. rewrite C. cbn [obind].
  rewrite N. cbn [obind]. rewrite O, A. cbn [obind]. rewrite R. reflexivity.
Qed.

(* ... and the option call it is an argument of is the call that raises: the trace stops before it, the object
   under construction is not touched *)
Theorem py_call_with_raising_argument_proof fuel e b obj on args rest k o :
  option_by_name b on = Some o ->
  omapM (py_arg fuel e) args = GPanic ->
  py_run fuel e b obj ((on, args) :: rest) k = GOk ([], Some k).
Proof. intros O A. cbn [py_run]. rewrite O, A. reflexivity. Qed.

(* ================= Python: call sequences ================= *)
Lemma py_nil_checks_struct e env ncs : forall obj obj',
  (fix go (ncs : list nilcheck) (obj : gval) : outcome gval :=
     match ncs with [] => GOk obj | nc :: r => dob o' <- py_nil_check e env obj nc ; go r o' end) ncs obj = GOk obj' ->
  forallb (fun nc => wf_path (nc_path nc)) ncs = true -> is_struct_val obj = true -> is_struct_val obj' = true.
Proof.
  induction ncs as [|nc r IH]; intros obj obj' H W S.
  - inversion H; subst. exact S.
  - apply obind_ok in H. destruct H as [o1 [H1 H2]]. simpl in W. apply andb_true_iff in W. destruct W as [W1 W2].
    eapply IH; eauto. unfold py_nil_check in H1.
    destruct (path_get env (nc_path nc) obj) as [x|]; try discriminate.
    destruct x; try (inversion H1; subst; exact S).
    apply obind_ok in H1. destruct H1 as [ev [_ H1]]. eapply path_upd_struct; eauto.
Qed.

Lemma py_assignment_struct e env obj a obj' :
  py_assignment e env obj a = GOk obj' -> wf_assignment a = true -> is_struct_val obj = true -> is_struct_val obj' = true.
Proof.
  unfold py_assignment. intros H W S. unfold wf_assignment in W. apply andb_true_iff in W. destruct W as [W1 W2].
  apply obind_ok in H. destruct H as [oks [_ H]].
  destruct (negb (forallb (fun b : bool => b) oks)); try discriminate.
  apply obind_ok in H. destruct H as [obj1 [H1 H]]. apply obind_ok in H. destruct H as [v [_ H]].
  eapply path_upd_struct; eauto. eapply py_nil_checks_struct; eauto.
Qed.

Lemma py_assignments_struct e env l : forall obj obj',
  py_assignments e env obj l = GOk obj' -> forallb wf_assignment l = true -> is_struct_val obj = true -> is_struct_val obj' = true.
Proof.
  induction l as [|a r IH]; simpl; intros obj obj' H W S.
  - inversion H; subst. exact S.
  - apply andb_true_iff in W. destruct W as [W1 W2]. apply obind_ok in H. destruct H as [o1 [H1 H2]].
    eapply IH; eauto. eapply py_assignment_struct; eauto.
Qed.

Lemma py_option_struct e o obj args obj' :
  py_option e o obj args = GOk obj' -> wf_option o = true -> is_struct_val obj = true -> is_struct_val obj' = true.
Proof.
  unfold py_option. intros H W S. apply obind_ok in H. destruct H as [env [_ H]]. eapply py_assignments_struct; eauto.
Qed.

Lemma py_derived_option_result e f o obj v obj' :
  struct_field_to_option f = Ok o -> f_name f <> "" -> is_struct_val obj = true ->
  py_option e o obj [AVal v] = GOk obj' -> obj_field obj' (f_name f) = Some v.
Proof.
  intros D N S H. destruct (derived_option_shape _ _ D) as [cs ->].
  unfold py_option, bind_args in H. simpl in H. apply obind_ok in H. destruct H as [o1 [H H2]]. inversion H2; subst o1. clear H2.
  unfold py_assignment in H. cbn [as_constraints as_nilchecks as_path as_value as_method] in H.
  apply obind_ok in H. destruct H as [oks [_ H]].
  destruct (negb (forallb (fun b : bool => b) oks)); try discriminate.
  cbn [obind] in H. unfold py_value in H. cbn [as_value] in H. unfold py_simple_value, py_arg_value in H.
  simpl in H. rewrite (proj2 (seqb_eq (f_name f) (f_name f)) eq_refl) in H. simpl in H.
  unfold item_upd in H. simpl in H.
  destruct (seqb (f_name f) "") eqn:E; [apply seqb_eq in E; contradiction|].
  destruct obj as [| | | | | | | | |fs|]; try discriminate.
  apply obind_ok in H. destruct H as [fs' [U H]]. inversion H; subst.
  destruct (fields_upd_same _ _ _ _ U) as [old [new [_ [Hn Hf]]]].
  unfold py_assign_method in Hn. simpl in Hn. inversion Hn; subst.
  exact Hf.
Qed.

Theorem py_sequence_last_write_proof e b : forall calls obj objn,
  derived_builder b -> is_struct_val obj = true ->
  py_calls e b obj calls = GOk objn ->
  forall f o, In o (b_options b) -> struct_field_to_option f = Ok o -> f_name f <> "" ->
    match last_call (f_name f) calls with
    | None => obj_field objn (f_name f) = obj_field obj (f_name f)
    | Some [AVal v] => obj_field objn (f_name f) = Some v
    | Some _ => True
    end.
Proof.
  induction calls as [|[n args] r IH]; simpl; intros obj objn DB S H f o I D N.
  - inversion H. reflexivity.
  - destruct (option_by_name b n) as [o1|] eqn:EO; try discriminate.
    apply obind_ok in H. destruct H as [s1 [H1 H2]].
    assert (I1 := option_by_name_in _ _ _ EO). assert (N1 := option_by_name_name _ _ _ EO).
    destruct DB as [DO ND]. destruct (DO o1 I1) as [f1 [D1 Nf1]].
    destruct (derived_option_heads _ _ D1 Nf1) as [Hh [W1 Nm1]].
    assert (S1 := py_option_struct _ _ _ _ _ H1 W1 S).
    specialize (IH s1 objn (conj DO ND) S1 H2 f o I D N).
    destruct (last_call (f_name f) r) as [x|] eqn:EL; [exact IH|].
    destruct (seqb n (f_name f)) eqn:En.
    + apply seqb_eq in En. subst n.
      destruct (derived_option_heads _ _ D N) as [_ [_ Nm]].
      assert (o1 = o) by (eapply nodup_names_unique; eauto; congruence). subst o1.
      destruct args as [|av [|]]; auto; destruct av; auto.
      rewrite IH. eapply (py_derived_option_result e f o obj v s1); eauto.
    + apply seqb_neq in En. rewrite IH. eapply py_option_frame_proof; eauto.
      rewrite Hh. simpl. intros [X|[]]. apply En. congruence.
Qed.

(* ================= Go: a violated constraint on an appended / indexed element is reported ================= *)
Lemma vcheck_slice ctx path a et l :
  is_any (TArray a et) = false ->
  forall nl, vcheck ctx path (TArray a et) nl (GSlice l) =
  (fix go (l : list gval) (i : nat) {struct l} : list string :=
     match l with
     | [] => []
     | x :: r => (vcheck ctx (path ++ "[" ++ itoa i ++ "]") et (t_nullable et) x ++ go r (S i))%list
     end) l 0%nat.
Proof. intros A nl. cbn [vcheck]. reflexivity. Qed.

Lemma slice_check_last ctx path et : forall l i v,
  incl (vcheck ctx (path ++ "[" ++ itoa (i + List.length l) ++ "]") et (t_nullable et) v)
       ((fix go (l : list gval) (i : nat) {struct l} : list string :=
           match l with
           | [] => []
           | x :: r => (vcheck ctx (path ++ "[" ++ itoa i ++ "]") et (t_nullable et) x ++ go r (S i))%list
           end) (l ++ [v])%list i).
Proof.
  induction l as [|x r IH]; intros i v; simpl.
  - rewrite Nat.add_0_r, app_nil_r. apply incl_refl.
  - apply incl_appr. replace (i + S (List.length r))%nat with (S i + List.length r)%nat by lia. apply IH.
Qed.

Theorem go_append_violation_reported_proof e env b ob a dh fs f at_ ea k cs c arg v st fvs l cs0 old :
  locate_object (be_ctx e) (builder_for_pkg b) (builder_for_name b) = Some ob ->
  o_type ob = TStruct a dh fs -> nullable a = false ->
  In f fs -> NoDup (map f_name fs) -> f_name f <> "" ->
  f_type f = TArray at_ (TScalar ea k DNil cs) ->
  is_any (TScalar ea k DNil cs) = false -> nullable ea = false ->
  bs_obj st = GStruct fvs -> map fst fvs = map f_name fs ->
  gmap_find fvs (f_name f) = Some old -> (old = GNil /\ l = [] \/ old = GSlice l) ->
  arg_value e env arg = GOk (Some v) ->
  In c cs -> constraint_holds c v = Some false ->
  exists st',
    go_assignment e env st (mkAssignment [mkPathItem (f_name f) None (f_type f) None false]
                                         (AValue (Some arg) DNil None) "append" cs0 []) = GOk (st', true) /\
    exists ps, go_build e b st' = BRErr ps /\ In (f_name f ++ "[" ++ itoa (List.length l) ++ "]") ps.
Proof.
  intros L T N I ND NE FT NA NN S AL F OLD AV Ic V.
  assert (PI : plain_item (mkPathItem (f_name f) None (f_type f) None false)) by (repeat split; auto).
  assert (APP : assign_method "append" v old = GOk (GSlice (l ++ [v])%list)).
  { unfold assign_method. simpl. destruct OLD as [[-> ->]| ->]; reflexivity. }
  destruct (fields_upd_set fvs (f_name f) (assign_method "append" v) old _ F APP) as [fs' [U [G1 [G2 G3]]]].
  exists (mkBState (GStruct fs') (bs_errors st)). split.
  - unfold go_assignment. cbn [as_nilchecks as_path as_value as_method obind]. unfold go_value. cbn [as_value as_path].
    unfold go_simple_value. rewrite AV. cbn [obind]. unfold path_last_type. cbn [List.last pi_type].
    assert (MP : maybe_ptr (f_type f) v = v).
    { rewrite FT. unfold maybe_ptr, as_pointer. simpl. rewrite andb_false_r. reflexivity. }
    rewrite MP. cbn [path_upd]. rewrite (plain_item_upd _ _ _ _ PI). rewrite S. cbn [pi_id].
    change (fun x : gval => assign_method "append" v x) with (assign_method "append" v). rewrite U. reflexivity.
  - unfold go_build. cbn [bs_obj]. rewrite (validate_struct_object _ _ _ ob a dh fs fs' L T N).
    assert (RE : rtc (be_ctx e) (TScalar ea k DNil cs) = true).
    { destruct k; try discriminate; destruct cs; simpl; auto; contradiction. }
    assert (RF : rtc (be_ctx e) (f_type f) = true) by (rewrite FT; exact RE).
    assert (R : rtc (be_ctx e) (TStruct a dh fs) = true) by (simpl; apply existsb_exists; exists f; auto).
    rewrite R.
    assert (IN : In (f_name f ++ "[" ++ itoa (List.length l) ++ "]") (fields_check (be_ctx e) fs fs')).
    { eapply fields_check_in; eauto; try congruence.
      rewrite FT. rewrite vcheck_slice by reflexivity.
      apply (slice_check_last (be_ctx e) (f_name f) (TScalar ea k DNil cs) l 0%nat v). simpl.
      unfold t_nullable. simpl. rewrite NN. rewrite vcheck_scalar by exact NA. eapply scalar_errors_in; eauto. }
    destruct (fields_check (be_ctx e) fs fs') as [|p ps] eqn:E; [contradiction|].
    exists (p :: ps). split; auto.
Qed.

Lemma gmap_set_in kvs k (v : gval) : In (k, v) (gmap_set kvs k v).
Proof.
  induction kvs as [|[k' v'] r IH]; simpl; [left; reflexivity|].
  destruct (String.compare k k'); simpl; auto.
Qed.

Lemma vcheck_map ctx path a it vt kvs :
  is_any (TMap a it vt) = false ->
  forall nl, vcheck ctx path (TMap a it vt) nl (GMap kvs) =
  flat_map (fun kv => vcheck ctx (path ++ "[" ++ fst kv ++ "]") vt (t_nullable vt) (snd kv)) kvs.
Proof. intros A nl. cbn [vcheck]. reflexivity. Qed.

Theorem go_index_violation_reported_proof e env b ob a dh fs f at_ kt ea k cs c karg key arg v st fvs kvs cs0 old :
  locate_object (be_ctx e) (builder_for_pkg b) (builder_for_name b) = Some ob ->
  o_type ob = TStruct a dh fs -> nullable a = false ->
  In f fs -> NoDup (map f_name fs) -> f_name f <> "" ->
  f_type f = TMap at_ kt (TScalar ea k DNil cs) ->
  is_any (TScalar ea k DNil cs) = false -> nullable ea = false ->
  bs_obj st = GStruct fvs -> map fst fvs = map f_name fs ->
  gmap_find fvs (f_name f) = Some old -> (old = GNil /\ kvs = [] \/ old = GMap kvs) ->
  env_find env (a_name karg) = Some (AVal (GStr key)) ->
  arg_value e env arg = GOk (Some v) ->
  In c cs -> constraint_holds c v = Some false ->
  exists st',
    go_assignment e env st
      (mkAssignment [mkPathItem (f_name f) None (f_type f) None false;
                     mkPathItem "" (Some (mkPathIndex (Some karg) DNil)) (TScalar ea k DNil cs) None false]
                    (AValue (Some arg) DNil None) "index" cs0
                    [mkNilCheck [mkPathItem (f_name f) None (f_type f) None false] (f_type f)]) = GOk (st', true) /\
    exists ps, go_build e b st' = BRErr ps /\ In (f_name f ++ "[" ++ key ++ "]") ps.
Proof.
  intros L T N I ND NE FT NA NN S AL F OLD KEY AV Ic V.
  set (it1 := mkPathItem (f_name f) None (f_type f) None false).
  assert (PI : plain_item it1) by (repeat split; auto).
  assert (MID : if is_nil old then go_empty_value e (non_null (f_type f)) = GOk (GMap kvs) else GMap kvs = old).
  { destruct OLD as [[-> ->]| ->]; simpl; auto. rewrite FT. reflexivity. }
  destruct (go_nil_check_prefix e env fvs it1 (f_type f) old (GMap kvs) PI F MID) as [fs1 [NC [F1 [O1 K1]]]].
  set (ixit := mkPathItem "" (Some (mkPathIndex (Some karg) DNil)) (TScalar ea k DNil cs) None false).
  assert (INNER : item_upd env ixit (GMap kvs) (assign_method "index" v) = GOk (GMap (gmap_set kvs key v))).
  { unfold item_upd, ixit. cbn [pi_root pi_typehint pi_id pi_index orb]. simpl seqb. cbn [String.eqb].
    unfold index_upd, index_key. cbn [px_arg]. rewrite KEY. cbn [obind]. unfold assign_method. simpl. reflexivity. }
  destruct (fields_upd_set fs1 (f_name f) (fun x => item_upd env ixit x (assign_method "index" v)) _ _ F1 INNER)
    as [fs' [U [G1 [G2 G3]]]].
  exists (mkBState (GStruct fs') (bs_errors st)). split.
  - unfold go_assignment. cbn [as_nilchecks as_path as_value as_method]. rewrite S. fold it1. rewrite NC. cbn [obind].
    unfold go_value. cbn [as_value as_path]. unfold go_simple_value. rewrite AV. cbn [obind].
    unfold path_last_type. cbn [List.last pi_type].
    assert (MP : maybe_ptr (TScalar ea k DNil cs) v = v).
    { unfold maybe_ptr, as_pointer, t_nullable. simpl. rewrite NN. reflexivity. }
    change (pi_type ixit) with (TScalar ea k DNil cs). rewrite MP.
    cbn [path_upd]. rewrite (plain_item_upd _ _ _ _ PI). cbn [pi_id it1].
    change (fun x : gval => item_upd env ixit x (fun x0 : gval => assign_method "index" v x0))
      with (fun x : gval => item_upd env ixit x (assign_method "index" v)).
    rewrite U. reflexivity.
  - unfold go_build. cbn [bs_obj]. rewrite (validate_struct_object _ _ _ ob a dh fs fs' L T N).
    assert (RE : rtc (be_ctx e) (TScalar ea k DNil cs) = true).
    { destruct k; try discriminate; destruct cs; simpl; auto; contradiction. }
    assert (RF : rtc (be_ctx e) (f_type f) = true) by (rewrite FT; exact RE).
    assert (R : rtc (be_ctx e) (TStruct a dh fs) = true) by (simpl; apply existsb_exists; exists f; auto).
    rewrite R.
    assert (IN : In (f_name f ++ "[" ++ key ++ "]") (fields_check (be_ctx e) fs fs')).
    { assert (ALN : map fst fs' = map f_name fs) by (rewrite G3, K1; exact AL).
      apply (fields_check_in (be_ctx e) fs fs' f _ ALN ND I RF G1).
      rewrite FT. rewrite vcheck_map by reflexivity. apply in_flat_map. exists (key, v). split; [apply gmap_set_in|].
      simpl. unfold t_nullable. simpl. rewrite NN. rewrite vcheck_scalar by exact NA. eapply scalar_errors_in; eauto. }
    destruct (fields_check (be_ctx e) fs fs') as [|p ps] eqn:E; [contradiction|].
    exists (p :: ps). split; auto.
Qed.
