(* C08 — unfolding equations for decode / strict_val / strict_ok / rts (used by GoSemC08Strict.v).
   Kept in a file of their own: checking the unfolding of `decode` takes the kernel most of a minute. *)
From Coq Require Import List String ZArith Bool Ascii Arith Lia.
From Cog Require Import Model.GoSem Model.GoSemSpec08 Model.GoSemSpec08F Model.GoSemSpec01 Proofs.GoSemEqualsProofs.
Import ListNotations.
Local Open Scope list_scope.
Local Open Scope string_scope.

(* ====================================================================== *)
(* Unfolding decode / strict_val / strict_ok / rts                        *)
(* ====================================================================== *)
Definition is_jnull (j : json) : bool := match j with JNull => true | _ => false end.

Definition wrapd (t : ty) (r : dres) : dres :=
  if is_ptr t then match r with DSet v => DSet (GPtr v) | x => x end else r.

Definition dec_simple (ctx : schemas) (j : json) (pt : ty) : dres :=
  match pt with
  | TScalar _ k _ _ => decode_scalar pt k j
  | TEnum _ vs => match enum_base vs with TScalar _ k _ _ as b => decode_scalar b k j | _ => DUnm "enum base" end
  | TArray _ et =>
      match j with
      | JArr l =>
          let rs := map (fun x => decode ctx x et) l in
          match first_bad rs with
          | Some bad => bad
          | None => DSet (GSlice (map (dval (zero ctx et)) rs))
          end
      | _ => DErr
      end
  | TMap _ _ vt =>
      match j with
      | JObj ms =>
          let rs := map (fun kv => (fst kv, decode ctx (snd kv) vt)) ms in
          match first_bad (map snd rs) with
          | Some bad => bad
          | None => DSet (GMap (fold_left (fun acc kr => gmap_set acc (fst kr) (dval (zero ctx vt) (snd kr))) rs []))
          end
      | _ => DErr
      end
  | _ => DUnm "type kind"
  end.

Definition dec_union (ctx : schemas) (j : json) (fs : list field) :=
  fix try (bs : list field) : dres :=
    match bs with
    | [] => DErr
    | f :: r =>
        match dec_simple ctx j (non_null (f_type f)) with
        | DSet v =>
            DSet (set_field fs (f_name f)
                    match f_type f with TArray _ _ | TMap _ _ _ => v | _ => GPtr v end)
        | DKeep => DErr
        | DErr => try r
        | DUnm w => DUnm w
        end
    end.

Definition dec_struct (ctx : schemas) (j : json) (pt : ty) (fs : list field) : dres :=
  match union_scalars pt, union_refs pt with
  | Some _, _ => dec_union ctx j fs fs
  | None, Some d =>
      match j with
      | JObj ms =>
          match select_branch d (last_member (d_disc d) ms) with
          | None => DSet (all_nil fs)
          | Some n =>
              match field_by_ref_name fs n with
              | None => DUnm "mapping target is not a branch"
              | Some f =>
                  match payload_type ctx (f_type f) with
                  | PTy (TStruct _ [] bfs) =>
                      match decode_members (decode ctx) (zero ctx) bfs ms with
                      | DSet v => DSet (set_field fs (f_name f) (GPtr v))
                      | x => x
                      end
                  | PTy _ => DUnm "union branch is not a plain struct"
                  | PUnm w => DUnm w
                  end
              end
          end
      | _ => DErr
      end
  | None, None =>
      match j with
      | JObj ms => decode_members (decode ctx) (zero ctx) fs ms
      | _ => DErr
      end
  end.

(* (the kernel needs ~45 s to check this one unfolding: `decode` duplicates its local closures) *)
Lemma decode_eq ctx j t : is_jnull j = false ->
  decode ctx j t =
  match payload_type ctx t with
  | PUnm w => DUnm w
  | PTy pt =>
      wrapd t match pt with
              | TStruct _ _ fs => dec_struct ctx j pt fs
              | _ => dec_simple ctx j pt
              end
  end.
Proof.
  intros N. destruct j; try discriminate N; cbn [decode];
    unfold wrapd, dec_struct, dec_union, dec_simple; cbv zeta; reflexivity.
Qed.
Lemma decode_eq_unm ctx j t w : is_jnull j = false -> payload_type ctx t = PUnm w -> decode ctx j t = DUnm w.
Proof. intros N P. rewrite (decode_eq _ _ _ N), P. reflexivity. Qed.
Lemma decode_eq_simple ctx j t pt : is_jnull j = false -> payload_type ctx t = PTy pt -> is_struct pt = false ->
  decode ctx j t = wrapd t (dec_simple ctx j pt).
Proof. intros N P Z. rewrite (decode_eq _ _ _ N), P. destruct pt; try discriminate Z; reflexivity. Qed.
Lemma decode_eq_struct ctx j t a dh fs : is_jnull j = false -> payload_type ctx t = PTy (TStruct a dh fs) ->
  decode ctx j t = wrapd t (dec_struct ctx j (TStruct a dh fs) fs).
Proof. intros N P. rewrite (decode_eq _ _ _ N), P. reflexivity. Qed.

Definition std_res (ctx : schemas) (j : json) (t : ty) : sres :=
  match decode ctx j t with
  | DSet v => SOk v
  | DKeep => SOk (zero ctx t)
  | DErr => SErrAcc (zero ctx t)
  | DUnm w => SUnm w
  end.

Definition sv_union (ctx : schemas) (j : json) (fs : list field) :=
  fix try (bs : list field) : sres :=
    match bs with
    | [] => SAbort
    | f :: r =>
        let bt := non_null (f_type f) in
        let hold := fun v : gval =>
          set_field fs (f_name f) match f_type f with TArray _ _ | TMap _ _ _ => v | _ => GPtr v end in
        match decode ctx j bt with
        | DSet v => SOk (hold v)
        | DKeep => SOk (hold (zero ctx bt))
        | DErr => try r
        | DUnm w => SUnm w
        end
    end.

Definition sv_body (ctx : schemas) (j : json) (pt : ty) (fs : list field) : sres :=
  match union_scalars pt, union_refs pt with
  | Some _, _ => sv_union ctx j fs fs
  | None, Some d =>
      match j with
      | JObj ms =>
          match select_branch d (last_member (d_disc d) ms) with
          | None => SAbort
          | Some n =>
              match field_by_ref_name fs n with
              | None => SUnm "mapping target is not a branch"
              | Some f =>
                  match payload_type ctx (f_type f) with
                  | PTy (TStruct _ [] bfs) =>
                      match strict_members (strict_val ctx RField) (zero ctx) bfs ms with
                      | SOk v => SOk (set_field fs (f_name f) (GPtr v))
                      | SErrAcc _ => SAbort
                      | x => x
                      end
                  | PTy _ => SUnm "union branch is not a plain struct"
                  | PUnm w => SUnm w
                  end
              end
          end
      | _ => SAbort
      end
  | None, None =>
      match j with
      | JObj ms => strict_members (strict_val ctx RField) (zero ctx) fs ms
      | JNull => strict_members (strict_val ctx RField) (zero ctx) fs []
      | _ => SAbort
      end
  end.

Definition sv_arr (ctx : schemas) (t et : ty) (j : json) : sres :=
  match j with
  | JArr l =>
      let rs := map (fun x => strict_val ctx RElem x et) l in
      if (is_ref t && t_nullable t)%bool then
        match rs with
        | [] => SOk GNil
        | SAbort :: _ => SAbort
        | SUnm w :: _ => SUnm w
        | _ :: _ => SPanic
        end
      else
        match seq_results rs [] false with
        | inl stop => stop
        | inr (vals, err) =>
            let v := match vals with [] => GNil | _ => GSlice vals end in
            if err then SErrAcc v else SOk v
        end
  | JNull => SOk GNil
  | _ => SAbort
  end.

Definition sv_map (ctx : schemas) (t vt : ty) (j : json) : sres :=
  let wrap := fun m : gval => if is_ptr t then GPtr m else m in
  match j with
  | JObj ms =>
      let rs := map (fun kv => strict_val ctx RVal (snd kv) vt) ms in
      match seq_results rs [] false with
      | inl stop => stop
      | inr (vals, err) =>
          let v := wrap (GMap (fold_left (fun acc kv => gmap_set acc (fst kv) (snd kv))
                                         (combine (map fst ms) vals) [])) in
          if err then SErrAcc v else SOk v
      end
  | JNull => SOk (wrap (GMap []))
  | _ => SAbort
  end.

Lemma sv_eq_unm ctx src j t w : payload_type ctx t = PUnm w -> strict_val ctx src j t = SUnm w.
Proof. intros P. destruct j; cbn [strict_val]; rewrite P; reflexivity. Qed.
Lemma sv_eq_leaf ctx src j t pt : payload_type ctx t = PTy pt -> (is_scalar pt || is_enum pt)%bool = true ->
  strict_val ctx src j t = std_res ctx j t.
Proof.
  intros P Z. destruct j; cbn [strict_val]; rewrite P; destruct pt; try discriminate Z;
    unfold std_res; reflexivity.
Qed.
Lemma sv_eq_arr ctx src j t a et : payload_type ctx t = PTy (TArray a et) ->
  strict_val ctx src j t =
  if array_of_scalars ctx 8 (TArray a et) then std_res ctx j t else
  match src with RElem => SPanic | _ => sv_arr ctx t et j end.
Proof. intros P. destruct j; cbn [strict_val]; rewrite P; unfold std_res, sv_arr; cbv zeta; reflexivity. Qed.
Lemma sv_eq_map ctx src j t a it vt : payload_type ctx t = PTy (TMap a it vt) ->
  strict_val ctx src j t =
  if map_of_scalars ctx 8 (TMap a it vt) then std_res ctx j t else
  match src with RVal => SAbort | _ => sv_map ctx t vt j end.
Proof. intros P. destruct j; cbn [strict_val]; rewrite P; unfold std_res, sv_map; cbv zeta; reflexivity. Qed.
Lemma sv_eq_struct ctx src j t a dh fs : payload_type ctx t = PTy (TStruct a dh fs) ->
  strict_val ctx src j t =
  if negb (is_ref t) then SUnm "inline struct: the template has no case for it" else
  match sv_body ctx j (TStruct a dh fs) fs with
  | SOk v => SOk (if is_ptr t then GPtr v else v)
  | SErrAcc _ | SAbort => SErrAcc (if is_ptr t then GPtr (zero ctx (non_null t)) else zero ctx (non_null t))
  | SPanic => SPanic
  | SUnm w => SUnm w
  end.
Proof.
  intros P. destruct j; cbn [strict_val]; rewrite P; destruct (negb (is_ref t)); try reflexivity;
    unfold sv_body, sv_union; cbv zeta;
    match goal with |- match ?b with _ => _ end = _ => destruct b; reflexivity end.
Qed.
Lemma sv_eq_other ctx src j t pt : payload_type ctx t = PTy pt ->
  (is_scalar pt || is_enum pt || is_array pt || is_map pt || is_struct pt)%bool = false ->
  strict_val ctx src j t = SUnm "type kind".
Proof. intros P Z. destruct j; cbn [strict_val]; rewrite P; destruct pt; try discriminate Z; reflexivity. Qed.

Definition so_simple (ctx : schemas) (j : json) (pt : ty) : bool :=
  match pt with
  | TScalar _ k _ _ => json_fits_scalar pt k j
  | TEnum _ vs => match enum_base vs with TScalar _ k _ _ as b => json_fits_scalar b k j | _ => false end
  | TArray _ et => match j with JArr l => forallb (fun x => strict_ok ctx x et) l | _ => false end
  | TMap _ _ vt => match j with JObj ms => forallb (fun kv => strict_ok ctx (snd kv) vt) ms | _ => false end
  | _ => false
  end.

Definition so_member (ctx : schemas) (fs : list field) (kv : string * json) : bool :=
  match find (fun f => seqb (f_name f) (fst kv)) fs with
  | None => false
  | Some f =>
      match snd kv with
      | JNull => negb (f_required f && negb (t_nullable (f_type f)))
      | _ => strict_ok ctx (snd kv) (f_type f)
      end
  end.
Definition so_field (ms : list (string * json)) (f : field) : bool :=
  (negb (f_required f) || has_default (f_type f) || str_in (f_name f) (map fst ms))%bool.
Definition so_struct (ctx : schemas) (fs : list field) (ms : list (string * json)) : bool :=
  (members_nodup ms && forallb (so_member ctx fs) ms && forallb (so_field ms) fs)%bool.

Definition so_body (ctx : schemas) (j : json) (pt : ty) (fs : list field) : bool :=
  match union_scalars pt, union_refs pt with
  | Some _, _ => existsb (fun f => so_simple ctx j (non_null (f_type f))) fs
  | None, Some d =>
      match j with
      | JObj ms =>
          match select_branch d (last_member (d_disc d) ms) with
          | Some n =>
              match field_by_ref_name fs n with
              | Some f => match payload_type ctx (f_type f) with
                          | PTy (TStruct _ _ bfs) => so_struct ctx bfs ms
                          | _ => false end
              | None => false
              end
          | None => false
          end
      | _ => false
      end
  | None, None => match j with JObj ms => so_struct ctx fs ms | _ => false end
  end.

Lemma strict_ok_unfold ctx j t : strict_ok ctx j t =
  if is_jnull j then t_nullable t else
  match payload_type ctx t with
  | PUnm _ => false
  | PTy pt =>
      match pt with
      | TStruct _ _ fs => so_body ctx j pt fs
      | _ => so_simple ctx j pt
      end
  end.
Proof. destruct j; reflexivity. Qed.

Definition rs_simple (ctx : schemas) (t : ty) (j : json) (src : rawsrc) (pt : ty) : bool :=
  match pt with
  | TScalar _ k _ _ => scalar_safe pt k j
  | TEnum _ vs => match enum_base vs with TScalar _ k _ _ as b => scalar_safe b k j | _ => false end
  | TArray _ et =>
      match j with
      | JArr l =>
          (forallb (fun x => rts ctx RElem x et) l &&
           (array_of_scalars ctx 8 pt ||
            (match src with RElem => false | _ => true end &&
             (negb (is_ref t && t_nullable t) || match l with [] => true | _ => false end))))%bool
      | _ => true
      end
  | TMap _ _ vt =>
      match j with
      | JObj ms =>
          (forallb (fun kv => rts ctx RVal (snd kv) vt) ms &&
           (map_of_scalars ctx 8 pt || match src with RVal => false | _ => true end))%bool
      | _ => true
      end
  | _ => true
  end.

Definition rs_member (ctx : schemas) (fs : list field) (kv : string * json) : bool :=
  match find (fun f => seqb (f_name f) (fst kv)) fs with
  | None => true
  | Some f =>
      (rts ctx RField (snd kv) (f_type f) &&
       (f_required f || negb (is_empty_collection (snd kv))))%bool
  end.
Definition rs_struct (ctx : schemas) (fs : list field) (ms : list (string * json)) : bool :=
  (forallb (rs_member ctx fs) ms &&
   forallb (fun f => (negb (f_required f) || str_in (f_name f) (map fst ms))%bool) fs)%bool.

Definition rs_body (ctx : schemas) (t : ty) (j : json) (pt : ty) (fs : list field) : bool :=
  match union_scalars pt, union_refs pt with
  | Some _, _ => forallb (fun f => rs_simple ctx t j RField (non_null (f_type f))) fs
  | None, Some d =>
      match j with
      | JObj ms =>
          match select_branch d (last_member (d_disc d) ms) with
          | Some n =>
              match field_by_ref_name fs n with
              | Some f => match payload_type ctx (f_type f) with
                          | PTy (TStruct _ _ bfs) => rs_struct ctx bfs ms
                          | _ => false end
              | None => false
              end
          | None => false
          end
      | _ => true
      end
  | None, None => match j with JObj ms => rs_struct ctx fs ms | _ => true end
  end.

Lemma rts_unfold ctx src j t : rts ctx src j t =
  if is_jnull j then true else
  match payload_type ctx t with
  | PUnm _ => false
  | PTy pt =>
      match pt with
      | TStruct _ _ fs => rs_body ctx t j pt fs
      | _ => rs_simple ctx t j src pt
      end
  end.
Proof. destruct j; reflexivity. Qed.
