From Coq Require Import List String ZArith Bool Permutation Lia.
From Cog Require Import Model.OMap.
Import ListNotations.

Lemma keqb_eq a b : keqb a b = true <-> a = b.
Proof. apply String.eqb_eq. Qed.
Lemma keqb_neq a b : keqb a b = false <-> a <> b.
Proof. apply String.eqb_neq. Qed.
Lemma keqb_refl a : keqb a a = true.
Proof. apply String.eqb_refl. Qed.

Definition Inv (m : omap) : Prop :=
  NoDup (order m) /\ forall k, In k (order m) <-> records m k <> None.

Lemma inv_new : Inv onew.
Proof. split; [constructor|]. intros k; simpl; split; [tauto|congruence]. Qed.

Lemma oget_oset m k v x : oget (oset m k v) x = if keqb x k then v else oget m x.
Proof. unfold oget, oset, upd; simpl. destruct (keqb x k); reflexivity. Qed.

Lemma oget_oremove m k x : oget (oremove m k) x = if keqb x k then 0%Z else oget m x.
Proof. unfold oget, oremove, upd; simpl. destruct (keqb x k); reflexivity. Qed.

(* ---- pure facts about the spec ---- *)
Lemma sset_map_in (f : K -> V) k v l :
  NoDup l -> In k l ->
  sset (map (fun x => (x, f x)) l) k v = map (fun x => (x, if keqb x k then v else f x)) l.
Proof.
  induction l as [|x r IH]; intros Hnd Hin; [inversion Hin|].
  inversion Hnd as [|? ? Hx Hr]; subst. simpl.
  destruct (keqb x k) eqn:E.
  - apply keqb_eq in E; subst x. f_equal.
    apply map_ext_in. intros y Hy. destruct (keqb y k) eqn:E2; [|reflexivity].
    apply keqb_eq in E2; subst; contradiction.
  - f_equal. apply IH; [assumption|]. destruct Hin as [->|]; [|assumption].
    rewrite keqb_refl in E; discriminate.
Qed.

Lemma sset_map_notin (f : K -> V) k v l :
  ~ In k l -> sset (map (fun x => (x, f x)) l) k v = map (fun x => (x, f x)) l ++ [(k, v)].
Proof.
  induction l as [|x r IH]; intros Hn; [reflexivity|]. simpl.
  destruct (keqb x k) eqn:E.
  - apply keqb_eq in E; subst. exfalso; apply Hn; left; reflexivity.
  - f_equal. apply IH. intros H; apply Hn; right; exact H.
Qed.

Lemma sfind_map (f : K -> V) k l :
  sfind (map (fun x => (x, f x)) l) k = if existsb (fun x => keqb x k) l then Some (f k) else None.
Proof.
  induction l as [|x r IH]; [reflexivity|]. simpl.
  destruct (keqb x k) eqn:E; simpl; [|exact IH].
  apply keqb_eq in E; subst; reflexivity.
Qed.

Lemma existsb_keqb_in k l : existsb (fun x => keqb x k) l = true <-> In k l.
Proof.
  rewrite existsb_exists. split.
  - intros [x [Hx E]]. apply keqb_eq in E; subst; assumption.
  - intros H; exists k; split; [assumption|apply keqb_refl].
Qed.

Lemma sfind_abs m k : Inv m -> sfind (abs m) k = records m k.
Proof.
  intros [_ Hin]. unfold abs. rewrite sfind_map.
  destruct (existsb (fun x => keqb x k) (order m)) eqn:E.
  - apply existsb_keqb_in in E. apply Hin in E. unfold oget.
    destruct (records m k); [reflexivity|congruence].
  - destruct (records m k) eqn:R; [|reflexivity].
    assert (In k (order m)) as H by (apply Hin; congruence).
    apply existsb_keqb_in in H; congruence.
Qed.

Lemma filter_map_comm {A B} (g : A -> B) (p : B -> bool) l :
  filter p (map g l) = map g (filter (fun x => p (g x)) l).
Proof.
  induction l as [|x r IH]; [reflexivity|]. simpl. destruct (p (g x)); simpl; rewrite IH; reflexivity.
Qed.

Lemma insert_sorted_map {A B} (g : A -> B) (la : A -> A -> bool) (lb : B -> B -> bool) :
  (forall a b, lb (g a) (g b) = la a b) ->
  forall x l, insert_sorted lb (g x) (map g l) = map g (insert_sorted la x l).
Proof.
  intros H x l. induction l as [|y r IH]; [reflexivity|]. simpl. rewrite H.
  destruct (la y x); simpl; [|reflexivity]. rewrite IH; reflexivity.
Qed.

Lemma stable_sort_map {A B} (g : A -> B) (la : A -> A -> bool) (lb : B -> B -> bool) :
  (forall a b, lb (g a) (g b) = la a b) ->
  forall l, stable_sort lb (map g l) = map g (stable_sort la l).
Proof.
  intros H l. induction l as [|x r IH]; [reflexivity|]. simpl. rewrite IH.
  apply insert_sorted_map; assumption.
Qed.

Lemma insert_sorted_perm {A} (less : A -> A -> bool) x l : Permutation (insert_sorted less x l) (x :: l).
Proof.
  induction l as [|y r IH]; [apply Permutation_refl|]. simpl.
  destruct (less y x); [|apply Permutation_refl].
  eapply Permutation_trans; [apply perm_skip; exact IH|apply perm_swap].
Qed.

Lemma stable_sort_perm {A} (less : A -> A -> bool) l : Permutation (stable_sort less l) l.
Proof.
  induction l as [|x r IH]; [constructor|]. simpl.
  eapply Permutation_trans; [apply insert_sorted_perm|apply perm_skip; exact IH].
Qed.

Lemma NoDup_app_intro_single {A} (l : list A) k : NoDup l -> ~ In k l -> NoDup (l ++ [k]).
Proof.
  induction l as [|x r IH]; intros Hnd Hn; simpl.
  - constructor; [intros []|constructor].
  - inversion Hnd as [|? ? Hx Hr]; subst. constructor.
    + rewrite in_app_iff. intros [H|[H|[]]]; [contradiction|]. subst. apply Hn; left; reflexivity.
    + apply IH; [assumption|]. intros H; apply Hn; right; exact H.
Qed.

(* ---- each operation refines the spec and keeps the invariant ---- *)
Lemma oset_refines m k v : Inv m -> Inv (oset m k v) /\ abs (oset m k v) = sset (abs m) k v.
Proof.
  intros [Hnd Hin]. destruct (records m k) eqn:R.
  - assert (In k (order m)) as Hk by (apply Hin; congruence).
    split.
    + split; unfold oset; simpl; rewrite R; [assumption|].
      intros x. unfold upd. destruct (keqb x k) eqn:E.
      * apply keqb_eq in E; subst. split; [congruence|intros _; assumption].
      * apply Hin.
    + unfold abs at 1. replace (order (oset m k v)) with (order m) by (unfold oset; simpl; rewrite R; reflexivity).
      unfold abs. rewrite sset_map_in by assumption.
      apply map_ext. intros x. rewrite oget_oset. reflexivity.
  - assert (~ In k (order m)) as Hk by (intros H; apply Hin in H; congruence).
    assert (order (oset m k v) = order m ++ [k]) as Ho by (unfold oset; simpl; rewrite R; reflexivity).
    split.
    + split; rewrite Ho.
      * apply NoDup_app_intro_single; assumption.
      * intros x. rewrite in_app_iff. unfold oset, upd; simpl. destruct (keqb x k) eqn:E.
        -- apply keqb_eq in E; subst. split; [congruence|intros _; right; left; reflexivity].
        -- rewrite <- Hin. split; [intros [H|[H|[]]]; [assumption|]|tauto].
           subst. rewrite keqb_refl in E; discriminate.
    + unfold abs. rewrite Ho, map_app. simpl. rewrite oget_oset, keqb_refl.
      rewrite sset_map_notin by assumption. f_equal.
      apply map_ext_in. intros x Hx. rewrite oget_oset.
      destruct (keqb x k) eqn:E; [|reflexivity]. apply keqb_eq in E; subst; contradiction.
Qed.

Definition R (m : omap) (s : spec) : Prop := Inv m /\ abs m = s.

Lemma R_new : R onew [].
Proof. split; [apply inv_new|reflexivity]. Qed.

Lemma R_set m s k v : R m s -> R (oset m k v) (sset s k v).
Proof. intros [Hi <-]. destruct (oset_refines m k v Hi) as [H1 H2]. split; assumption. Qed.

Lemma R_get m s k : R m s -> oget m k = sget s k.
Proof. intros [Hi <-]. unfold sget. rewrite sfind_abs by assumption. reflexivity. Qed.

Lemma R_has m s k : R m s -> ohas m k = shas s k.
Proof. intros [Hi <-]. unfold shas. rewrite sfind_abs by assumption. reflexivity. Qed.

Lemma R_at m s i : R m s -> oat m i = sat s i.
Proof.
  intros [Hi <-]. unfold oat, sat, abs. rewrite nth_error_map.
  destruct (nth_error (order m) i); reflexivity.
Qed.

Lemma R_remove m s k : R m s -> R (oremove m k) (sremove s k).
Proof.
  intros [[Hnd Hin] <-]. split; [split|].
  - simpl. apply NoDup_filter; assumption.
  - intros x. simpl. rewrite filter_In. unfold upd. destruct (keqb x k) eqn:E; simpl.
    + split; [intros [_ H]; discriminate|congruence].
    + rewrite Hin. tauto.
  - unfold sremove, abs. rewrite filter_map_comm. simpl.
    apply map_ext_in. intros x Hx. apply filter_In in Hx. destruct Hx as [_ Hx].
    rewrite oget_oremove. destruct (keqb x k); [discriminate|reflexivity].
Qed.

Lemma R_len m s : R m s -> olen m = slen s.
Proof. intros [_ <-]. unfold olen, slen, abs. rewrite map_length. reflexivity. Qed.

Lemma R_iterate m s : R m s -> oiterate m = s.
Proof. intros [_ <-]. reflexivity. Qed.

Lemma R_values m s : R m s -> ovalues m = svalues s.
Proof. intros [_ <-]. unfold ovalues, svalues, abs. rewrite map_map. reflexivity. Qed.

(* folds of Set steps *)
Lemma R_fold_set {A} (key : A -> K) (val : A -> V) (keep : A -> bool) l : forall m s,
  R m s ->
  R (fold_left (fun acc a => if keep a then oset acc (key a) (val a) else acc) l m)
    (fold_left (fun acc a => if keep a then sset acc (key a) (val a) else acc) l s).
Proof.
  induction l as [|a r IH]; intros m s H; [exact H|]. simpl. apply IH.
  destruct (keep a); [apply R_set|]; assumption.
Qed.

Lemma sset_fresh s k v : ~ In k (map fst s) -> sset s k v = s ++ [(k, v)].
Proof.
  induction s as [|[k' v'] r IH]; intros Hn; [reflexivity|]. simpl.
  destruct (keqb k' k) eqn:E.
  - apply keqb_eq in E; subst. exfalso; apply Hn; left; reflexivity.
  - f_equal. apply IH. intros H; apply Hn; right; exact H.
Qed.

Lemma fold_sset_fresh (val : K -> V) (keep : K -> bool) l : forall s,
  NoDup l -> (forall k, In k l -> ~ In k (map fst s)) ->
  fold_left (fun acc k => if keep k then sset acc k (val k) else acc) l s
  = s ++ map (fun k => (k, val k)) (filter keep l).
Proof.
  induction l as [|x r IH]; intros s Hnd Hd; simpl; [rewrite app_nil_r; reflexivity|].
  inversion Hnd as [|? ? Hx Hr]; subst.
  destruct (keep x) eqn:E.
  - rewrite IH; [|assumption|].
    + rewrite sset_fresh by (apply Hd; left; reflexivity). rewrite <- app_assoc. reflexivity.
    + intros k Hk. rewrite sset_fresh by (apply Hd; left; reflexivity).
      rewrite map_app, in_app_iff. simpl. intros [H|[H|[]]].
      * apply (Hd k); [right; assumption|assumption].
      * subst. contradiction.
  - apply IH; [assumption|]. intros k Hk. apply Hd; right; assumption.
Qed.

Lemma R_mapf f m s : R m s -> R (omapf f m) (smapf f s).
Proof.
  intros [[Hnd Hin] <-]. unfold omapf, smapf.
  pose proof (R_fold_set (fun k => k) (fun k => f k (oget m k)) (fun _ => true) (order m) onew [] R_new) as H.
  simpl in H. replace (map _ (abs m)) with
    (fold_left (fun acc a => sset acc a (f a (oget m a))) (order m) []); [exact H|].
  pose proof (fold_sset_fresh (fun k => f k (oget m k)) (fun _ => true) (order m) [] Hnd) as H2.
  simpl in H2. rewrite H2 by (intros k _ []).
  unfold abs. rewrite map_map. simpl.
  replace (filter (fun _ => true) (order m)) with (order m); [reflexivity|].
  clear. induction (order m) as [|x r IH]; [reflexivity|]. simpl. rewrite <- IH. reflexivity.
Qed.

Lemma R_filter p m s : R m s -> R (ofilter p m) (sfilter p s).
Proof.
  intros [[Hnd Hin] <-]. unfold ofilter, sfilter.
  pose proof (R_fold_set (fun k => k) (fun k => oget m k) (fun k => p k (oget m k)) (order m) onew [] R_new) as H.
  simpl in H. replace (filter _ (abs m)) with
    (fold_left (fun acc a => if p a (oget m a) then sset acc a (oget m a) else acc) (order m) []); [exact H|].
  rewrite (fold_sset_fresh (fun k => oget m k) (fun k => p k (oget m k)) (order m) [] Hnd) by (intros k _ []).
  simpl. unfold abs. rewrite filter_map_comm. reflexivity.
Qed.

Lemma R_sort less m s : R m s -> R (osort less m) (ssort less s).
Proof.
  intros [[Hnd Hin] <-]. split; [split|]; simpl.
  - eapply Permutation_NoDup; [apply Permutation_sym, stable_sort_perm|assumption].
  - intros k. rewrite <- Hin. split; apply Permutation_in;
      [apply stable_sort_perm|apply Permutation_sym, stable_sort_perm].
  - unfold ssort, abs. simpl.
    rewrite (stable_sort_map (fun k => (k, oget m k)) less) by reflexivity.
    apply map_ext. intros k. reflexivity.
Qed.

Lemma R_unmarshal m s doc : R m s -> R (ounmarshal m doc) (sunmarshal s doc).
Proof.
  intros H. unfold ounmarshal, sunmarshal.
  pose proof (R_fold_set (@fst K V) (@snd K V) (fun _ => true) doc m s H) as H2. exact H2.
Qed.

Lemma R_frommap doc : R (ofrommap doc) (sfrommap doc).
Proof.
  unfold ofrommap, sfrommap.
  set (keys := stable_sort kless (dedup (map fst doc))).
  pose proof (R_fold_set (fun k => k)
     (fun k => match alist_get doc k with Some v => v | None => 0%Z end)
     (fun k => match alist_get doc k with Some _ => true | None => false end) keys onew [] R_new) as H.
  match goal with |- R ?a ?b => match type of H with R ?c ?d =>
     replace a with c; [replace b with d; [exact H|]|] end end.
  - clear H. generalize (@nil (K * V)). induction keys as [|k r IH]; intros s; [reflexivity|]. simpl.
    destruct (alist_get doc k); apply IH.
  - clear H. generalize onew. induction keys as [|k r IH]; intros s; [reflexivity|]. simpl.
    destruct (alist_get doc k); apply IH.
Qed.

(* ---- register files ---- *)
Definition RR (ms : list omap) (ss : list spec) : Prop := Forall2 R ms ss.

Lemma RR_nth ms ss r : RR ms ss ->
  match nth_error ms r, nth_error ss r with
  | Some m, Some s => R m s
  | None, None => True
  | _, _ => False
  end.
Proof.
  intros H. revert r. induction H as [|m s ms ss Hms _ IH]; intros [|r]; simpl; auto. apply IH.
Qed.

Lemma RR_set_nth ms ss r m s : RR ms ss -> R m s -> RR (set_nth ms r m) (set_nth ss r s).
Proof.
  intros H Hm. unfold RR in *. revert r.
  induction H as [|m0 s0 ms ss H0 H1 IH]; intros [|r]; simpl.
  - constructor.
  - constructor.
  - constructor; assumption.
  - constructor; [assumption|apply IH].
Qed.

Lemma RR_snoc ms ss m s : RR ms ss -> R m s -> RR (ms ++ [m]) (ss ++ [s]).
Proof. intros H Hm. apply Forall2_app; [assumption|constructor; [assumption|constructor]]. Qed.

Lemma step_refines ms ss o : RR ms ss ->
  snd (mstep ms o) = snd (sstep ss o) /\ RR (fst (mstep ms o)) (fst (sstep ss o)).
Proof.
  intros H.
  destruct o as [r k v|r k|r k|r i|r k|r|r|r|r f|r p|r l|r|r doc|doc|];
    try (pose proof (RR_nth ms ss r H) as Hr; unfold mstep, sstep;
         destruct (nth_error ms r) as [m|], (nth_error ss r) as [s|]; try contradiction;
         simpl; [|split; [reflexivity|assumption]]).
  - split; [reflexivity|]. apply RR_set_nth; [assumption|apply R_set; assumption].
  - rewrite (R_get m s k Hr). split; [reflexivity|assumption].
  - rewrite (R_has m s k Hr). split; [reflexivity|assumption].
  - rewrite (R_at m s i Hr). split; [reflexivity|assumption].
  - split; [reflexivity|]. apply RR_set_nth; [assumption|apply R_remove; assumption].
  - rewrite (R_len m s Hr). split; [reflexivity|assumption].
  - rewrite (R_iterate m s Hr). split; [reflexivity|assumption].
  - rewrite (R_values m s Hr). split; [reflexivity|assumption].
  - split; [reflexivity|]. apply RR_snoc; [assumption|apply R_mapf; assumption].
  - split; [reflexivity|]. apply RR_snoc; [assumption|apply R_filter; assumption].
  - split; [reflexivity|]. apply RR_set_nth; [assumption|apply R_sort; assumption].
  - unfold omarshal. rewrite (R_iterate m s Hr). split; [reflexivity|assumption].
  - split; [reflexivity|]. apply RR_set_nth; [assumption|apply R_unmarshal; assumption].
  - simpl. split; [reflexivity|]. apply RR_snoc; [assumption|apply R_frommap].
  - simpl. split; [reflexivity|]. apply RR_snoc; [assumption|apply R_new].
Qed.

Lemma run_refines h : forall ms ss, RR ms ss ->
  snd (mrun ms h) = snd (srun ss h) /\ RR (fst (mrun ms h)) (fst (srun ss h)).
Proof.
  induction h as [|o r IH]; intros ms ss H; simpl; [split; [reflexivity|assumption]|].
  destruct (step_refines ms ss o H) as [Ho Hr].
  destruct (mstep ms o) as [ms1 x], (sstep ss o) as [ss1 y]. simpl in *.
  destruct (IH ms1 ss1 Hr) as [Ho2 Hr2].
  destruct (mrun ms1 r) as [ms2 xs], (srun ss1 r) as [ss2 ys]. simpl in *.
  split; [congruence|assumption].
Qed.

Lemma observe_refines m s : R m s -> observe m = sobserve s.
Proof.
  intros H. unfold observe, sobserve.
  rewrite (R_len m s H), (R_values m s H). unfold omarshal. rewrite (R_iterate m s H).
  f_equal.
  - apply map_ext. intros k. apply R_has; assumption.
  - apply map_ext. intros k. apply R_get; assumption.
  - induction (seq 0 (slen s)) as [|i r IH]; [reflexivity|]. simpl.
    rewrite (R_at m s i H), IH. reflexivity.
Qed.

Lemma map_observe_refines ms ss : RR ms ss -> map observe ms = map sobserve ss.
Proof.
  intros H. induction H as [|m s ms ss Hm _ IH]; [reflexivity|]. simpl.
  rewrite (observe_refines m s Hm), IH. reflexivity.
Qed.

Lemma trace_refines h : forall ms ss, RR ms ss -> mtrace ms h = strace ss h.
Proof.
  induction h as [|o r IH]; intros ms ss H; simpl; [reflexivity|].
  destruct (step_refines ms ss o H) as [Ho Hr].
  destruct (mstep ms o) as [ms1 x], (sstep ss o) as [ss1 y]. simpl in *. subst y.
  rewrite (map_observe_refines ms1 ss1 Hr), (IH ms1 ss1 Hr). reflexivity.
Qed.

(* ---- the headline statements ---- *)
Theorem omap_refines_spec_proof : forall h,
  snd (mrun [onew] h) = snd (srun [[]] h) /\ Forall2 (fun m s => abs m = s) (fst (mrun [onew] h)) (fst (srun [[]] h)) /\ Forall Inv (fst (mrun [onew] h)).
Proof.
  intros h. destruct (run_refines h [onew] [[]]) as [H1 H2]; [constructor; [apply R_new|constructor]|].
  split; [assumption|]. split.
  - induction H2 as [|m s ms ss [_ Hm] _ IH]; constructor; assumption.
  - induction H2 as [|m s ms ss [Hm _] _ IH]; constructor; assumption.
Qed.

Theorem omap_trace_refines_spec_proof : forall h, mtrace [onew] h = strace [[]] h.
Proof. intros h. apply trace_refines. constructor; [apply R_new|constructor]. Qed.

Theorem omap_inv_reachable_proof : forall h, Forall Inv (fst (mrun [onew] h)).
Proof. intros h. apply omap_refines_spec_proof. Qed.

Theorem iterate_first_insertion_proof : forall m k v, Inv m -> ohas m k = false ->
  oiterate (oset m k v) = oiterate m ++ [(k, v)].
Proof.
  intros m k v Hi Hh. change (abs (oset m k v) = abs m ++ [(k, v)]).
  destruct (oset_refines m k v Hi) as [_ ->]. apply sset_fresh.
  intros Hin. unfold abs in Hin. rewrite map_map in Hin. simpl in Hin. rewrite map_id in Hin.
  apply Hi in Hin. unfold ohas in Hh. destruct (records m k); [discriminate|congruence].
Qed.

Theorem overwrite_keeps_position_proof : forall m k v, Inv m -> ohas m k = true ->
  map fst (oiterate (oset m k v)) = map fst (oiterate m) /\ forall k', oget (oset m k v) k' = if keqb k' k then v else oget m k'.
Proof.
  intros m k v Hi Hh. split; [|intros; apply oget_oset].
  unfold oiterate. rewrite !map_map. simpl. rewrite !map_id.
  unfold oset; simpl. unfold ohas in Hh. destruct (records m k); [reflexivity|discriminate].
Qed.

Theorem remove_preserves_relative_order_proof : forall m k, Inv m ->
  oiterate (oremove m k) = filter (fun p => negb (keqb (fst p) k)) (oiterate m) /\ Inv (oremove m k).
Proof.
  intros m k Hi. destruct (R_remove m (abs m) k) as [H1 H2]; [split; [assumption|reflexivity]|].
  split; assumption.
Qed.

Theorem len_counts_live_keys_proof : forall m live, Inv m ->
  NoDup live -> (forall k, In k live <-> ohas m k = true) -> olen m = List.length live.
Proof.
  intros m live [Hnd Hin] Hl Hlive. unfold olen. apply Permutation_length.
  apply NoDup_Permutation; [assumption|assumption|].
  intros k. rewrite Hin, Hlive. unfold ohas. destruct (records m k); split; congruence.
Qed.

Theorem marshal_unmarshal_roundtrip_proof : forall m, Inv m ->
  oiterate (ounmarshal onew (omarshal m)) = oiterate m /\ Inv (ounmarshal onew (omarshal m)).
Proof.
  intros m [Hnd Hin].
  destruct (R_unmarshal onew [] (omarshal m) R_new) as [Hi Ha]. split; [|assumption].
  change (abs (ounmarshal onew (omarshal m)) = abs m). rewrite Ha.
  unfold sunmarshal, omarshal, oiterate.
  pose proof (fold_sset_fresh (oget m) (fun _ => true) (order m) [] Hnd) as H.
  simpl in H. rewrite <- (map_id (order m)) at 1.
  assert (forall l s, fold_left (fun acc kv => sset acc (fst kv) (snd kv)) (map (fun k => (k, oget m k)) l) s
          = fold_left (fun acc k => sset acc k (oget m k)) l s) as E.
  { induction l as [|x r IH]; intros s; [reflexivity|]. simpl. apply IH. }
  rewrite map_id, E, H by (intros k _ []).
  replace (filter (fun _ => true) (order m)) with (order m); [reflexivity|].
  clear. induction (order m) as [|x r IH]; [reflexivity|]. simpl. rewrite <- IH. reflexivity.
Qed.

(* the only panic in the model is an out-of-range At *)
Theorem omap_no_panic_proof : forall regs o, snd (mstep regs o) = OutPanic ->
  exists r i m, o = OpAt r i /\ nth_error regs r = Some m /\ olen m <= i.
Proof.
  intros regs o. destruct o as [r k v|r k|r k|r i|r k|r|r|r|r f|r p|r l|r|r doc|doc|]; simpl;
    try (destruct (nth_error regs r) as [m|] eqn:E; simpl; discriminate); try discriminate.
  destruct (nth_error regs r) as [m|] eqn:E; simpl; [|discriminate].
  unfold oat. destruct (nth_error (order m) i) eqn:E2; [discriminate|]. intros _.
  exists r, i, m. split; [reflexivity|]. split; [assumption|]. unfold olen. apply nth_error_None; assumption.
Qed.
