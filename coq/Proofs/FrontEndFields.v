(* C01 front-end: the field-facts theorem (parse_jsonschema_keeps_constraints, partial form). *)
From Coq Require Import List String ZArith Bool Ascii Arith Lia.
From Cog Require Import Model.IR Model.Json Model.GoSemBase Model.GoSemValidate Model.Src Model.FrontEnd Model.FrontEndSpec.
From Cog Require Import Proofs.FrontEndLemmas.
Import ListNotations.
Local Open Scope list_scope.
Local Open Scope string_scope.

(* The statement as required is FALSE: a one-branch union whose branch carries constraints.  ir_core reads the
   single non-null branch of the disjunction as the member's scalar, src_constraints (SUnion _) is []. *)
Definition sU : src_schema :=
  mkSrc "p" "Root" [("Root", SStruct [mkSField "u" (SUnion [SInt "int64" (Some 1%Z) None None None]) true false false])].
Definition fU : sfield := mkSField "u" (SUnion [SInt "int64" (Some 1%Z) None None None]) true false false.

Example keeps_constraints_partial_counterexample :
  src_wf sU = true /\ In ("Root", SStruct [fU]) (src_defs sU) /\ In fU [fU] /\
  (sf_nullta fU = false \/ src_constraints (sf_type fU) = []) /\ field_kept sU "Root" fU = false.
Proof. vm_compute. repeat split; auto. Qed.

Lemma parse_jsonschema_keeps_constraints_partial_refuted :
  ~ (forall s obj fs f, src_wf s = true -> In (obj, SStruct fs) (src_defs s) -> In f fs ->
       (sf_nullta f = false \/ src_constraints (sf_type f) = []) -> field_kept s obj f = true).
Proof.
  intro H.
  assert (E : field_kept sU "Root" fU = true).
  { apply (H sU "Root" [fU] fU).
    - vm_compute. reflexivity.
    - simpl. left. reflexivity.
    - simpl. left. reflexivity.
    - left. reflexivity. }
  vm_compute in E. discriminate E.
Qed.


Definition nonnull (b : ty) : bool := negb (match b with TScalar _ KNull _ _ => true | _ => false end).

Lemma nonnull_js pkg t : nonnull (js_ty pkg t) = true.
Proof.
  pose proof (js_ty_not_null pkg t) as H. unfold nonnull. unfold is_null in H.
  destruct (js_ty pkg t); auto. destruct k; auto; try discriminate.
Qed.

Lemma filter_nonnull_map pkg bs : filter nonnull (map (js_ty pkg) bs) = map (js_ty pkg) bs.
Proof. induction bs as [|b r IH]; simpl; auto. rewrite nonnull_js, IH. reflexivity. Qed.
Lemma existsb_null_map pkg bs :
  existsb (fun b => match b with TScalar _ KNull _ _ => true | _ => false end) (map (js_ty pkg) bs) = false.
Proof.
  induction bs as [|b r IH]; simpl; auto. rewrite IH.
  pose proof (nonnull_js pkg b) as H. unfold nonnull in H. apply negb_true_iff in H. rewrite H. reflexivity.
Qed.

(* constraints of the IR type of a non-union member type *)
Lemma ir_constraints_js_scalar pkg t :
  match t with SUnion _ | SDUnion _ _ => False | _ => True end ->
  match js_ty pkg t with TScalar _ _ _ cs => cs | _ => [] end = src_constraints t.
Proof.
  destruct t; simpl; intros _; try reflexivity.
  - destruct v; reflexivity.
  - destruct fs; reflexivity.
Qed.

Lemma ir_constraints_nonunion pkg t :
  match t with SUnion _ | SDUnion _ _ => False | _ => True end ->
  ir_constraints (js_ty pkg t) = src_constraints t.
Proof.
  destruct t; simpl; intros F; try reflexivity; try tauto.
  - destruct v; reflexivity.
  - destruct fs; reflexivity.
Qed.

Lemma ir_core_wrap pkg t : ir_core (mk_disj [js_ty pkg t; t_null]) = js_ty pkg t.
Proof.
  unfold ir_core, mk_disj. cbn [d_branches filter].
  fold (nonnull (js_ty pkg t)). rewrite nonnull_js. reflexivity.
Qed.

Lemma js_plain_some t p : js_plain t = Some p ->
  match p with TScalar _ k _ cs => cs = [] /\ k <> KNull | _ => False end.
Proof.
  destruct t; simpl; intro H; try discriminate; inversion H; subst; simpl; split; auto; discriminate.
Qed.

Lemma field_facts pkg f :
  (negb (sf_nullta f) || (sf_null f && match js_plain (sf_type f) with Some _ => true | None => false end))%bool = true ->
  (sf_nullta f = false \/ src_constraints (sf_type f) = []) ->
  field_union_plain f = true ->
  let fld := js_field pkg f in
  f_required fld = sf_req f /\ ir_offers_null (f_type fld) = sf_null f /\
  constraints_eqv (ir_constraints (f_type fld)) (src_constraints (sf_type f)) = true.
Proof.
  intros HS HC HU. destruct f as [nm t rq nl ta]. unfold js_field, field_union_plain in *. cbn [sf_name sf_type sf_req sf_null sf_nullta f_required f_type] in *.
  split; [reflexivity|].
  destruct nl.
  - (* nullable *)
    destruct ta.
    + (* type array *)
      simpl in HS. destruct HC as [HC|HC]; [discriminate|].
      destruct (js_plain t) as [p|] eqn:P; [|discriminate].
      apply js_plain_some in P. destruct p; try tauto. destruct P as [P1 P2]. subst cs.
      split.
      * unfold ir_offers_null, mk_disj. cbn [d_branches existsb]. destruct k; try reflexivity.
      * unfold ir_constraints, ir_core, mk_disj. cbn [d_branches filter].
        destruct k; try congruence; cbn; rewrite HC; reflexivity.
    + destruct t; try (split; [ unfold ir_offers_null, mk_disj; cbn [d_branches existsb]; apply orb_true_r
                              | unfold ir_constraints; rewrite ir_core_wrap;
                                rewrite ir_constraints_js_scalar by exact I; apply constraints_eqv_src ]).
      * (* SUnion *)
        cbn [js_ty mk_disj d_branches d_disc d_mapping]. split.
        -- unfold ir_offers_null. cbn [d_branches]. rewrite existsb_app. simpl. apply orb_true_r.
        -- unfold ir_constraints, ir_core. cbn [d_branches]. rewrite filter_app. cbn [filter t_null negb app].
           fold nonnull. rewrite filter_nonnull_map, app_nil_r.
           destruct bs as [|b [|b2 r]]; try reflexivity.
           cbn [map]. destruct (src_constraints b) eqn:SC; [|discriminate].
           destruct b as [|? ? ? ? ?|? ? ? ? ?|? ?| | |cv|?|?|?|?|cfs|?|? ?]; simpl in *; try reflexivity; try (rewrite SC; reflexivity);
             try (destruct cv; reflexivity); try (destruct cfs; reflexivity).
      * (* SDUnion *)
        split.
        -- unfold ir_offers_null, mk_disj; cbn [d_branches existsb]; apply orb_true_r.
        -- unfold ir_constraints. rewrite ir_core_wrap. reflexivity.
  - (* not nullable *)
    destruct ta; [simpl in HS; discriminate|].
    destruct t as [|w ge gt le lt|w ge gt le lt|mn mx| | |cv|vals|et|vt|rn|cfs|bs|disc names].
    1-12: (split; [ first [reflexivity | destruct cv; reflexivity | destruct cfs; reflexivity]
                  | rewrite ir_constraints_nonunion by exact I; apply constraints_eqv_src ]).
    1-2: split.
    + cbn [js_ty mk_disj ir_offers_null d_branches]. apply existsb_null_map.
    + unfold ir_constraints, ir_core. cbn [js_ty mk_disj d_branches]. fold nonnull. rewrite filter_nonnull_map.
      destruct bs as [|b [|b2 r]]; try reflexivity.
      cbn [map]. destruct (src_constraints b) eqn:SC; [|discriminate].
      destruct b as [|? ? ? ? ?|? ? ? ? ?|? ?| | |cv|?|?|?|?|cfs|?|? ?]; simpl in *; try reflexivity; try (rewrite SC; reflexivity);
        try (destruct cv; reflexivity); try (destruct cfs; reflexivity).
    + cbn [js_ty mk_disj ir_offers_null d_branches].
      induction names; simpl; auto.
    + unfold ir_constraints, ir_core. cbn [js_ty mk_disj d_branches].
      assert (E : filter (fun b : ty => negb match b with TScalar _ KNull _ _ => true | _ => false end)
                    (map (fun n : string => TRef attrs0 pkg n) names) = map (fun n : string => TRef attrs0 pkg n) names).
      { induction names; simpl; auto. f_equal. auto. }
      rewrite E. destruct names as [|n [|n2 r]]; reflexivity.
Qed.

Lemma js_supported_struct fs : js_supported (SStruct fs) = true ->
  str_nodup (map sf_name fs) = true /\
  forall f, In f fs -> js_supported (sf_type f) = true /\
    (negb (sf_nullta f) || (sf_null f && match js_plain (sf_type f) with Some _ => true | None => false end))%bool = true.
Proof.
  intro H. change (js_supported (SStruct fs)) with
    (str_nodup (map sf_name fs) &&
       forallb (fun f => (js_supported (sf_type f) &&
                          (negb (sf_nullta f) || (sf_null f && match js_plain (sf_type f) with Some _ => true | None => false end)))%bool) fs)%bool in H.
  apply andb_true_iff in H. destruct H as [H1 H2]. split; auto.
  intros f I. rewrite forallb_forall in H2. specialize (H2 f I). apply andb_true_iff in H2. exact H2.
Qed.

Lemma parse_jsonschema_keeps_constraints_partial_weak :
  forall s obj fs f, src_wf s = true -> In (obj, SStruct fs) (src_defs s) -> In f fs ->
    (sf_nullta f = false \/ src_constraints (sf_type f) = []) -> field_union_plain f = true ->
    field_kept s obj f = true.
Proof.
  intros s obj fs f W I J HC HU.
  destruct (src_wf_parts s W) as [SUP [ND ALL]].
  destruct (ALL _ _ I) as [JS [TW [RE _]]].
  unfold field_kept, ir_field. rewrite (locate_parse s obj SUP), RE.
  rewrite (src_lookup_in _ _ _ ND I). cbn [option_map obj_of o_type].
  destruct fs as [|f0 fr]; [destruct J|].
  rewrite js_ty_struct. rewrite find_sort_fields.
  rewrite (find_map_field (js_field (src_pkg s))) by reflexivity.
  apply js_supported_struct in JS. destruct JS as [JN JF].
  rewrite (find_sfield_in (f0 :: fr) f JN J). cbn [option_map].
  destruct (JF f J) as [_ JF'].
  destruct (field_facts (src_pkg s) f JF' HC HU) as [A [B C]].
  rewrite A, B, C. rewrite !eqb_reflx. reflexivity.
Qed.
