(* C03: FieldsSetDefault.processObject. CURRENT code: the keys of DefaultValues are collected,
   sorted by (package, object, field) and applied in that order (Model/PermPasses.v). The loop over
   a GIVEN sequence is Model/Passes.v `fields_set_default_obj` (C15): applied directly to the map's
   iteration sequence it is the code before fix 2c4e6a0 - two keys matching one field
   (case-insensitive match): the last one iterated won. *)
From Coq Require Import List String Bool Arith Permutation.
From Cog Require Import Model.PermPasses Proofs.PermLemmas.
Import ListNotations.
Local Open Scope list_scope.

Definition fsd_step (o : object) (f' : field) (d : fsd_entry) : field :=
  let '(r, v) := d in
  if fieldref_matches r o f'
  then mkField (f_name f') (f_comments f') (set_default (f_type f') v) (f_required f')
  else f'.

Lemma fsd_obj_unfold : forall defs o,
  fields_set_default_obj defs o =
  match o_type o with
  | TStruct a dh fs => set_otype o (TStruct a dh (map (fun f => fold_left (fsd_step o) defs f) fs))
  | _ => o
  end.
Proof.
  intros. unfold fields_set_default_obj. destruct (o_type o); reflexivity.
Qed.

Lemma matches_name_only : forall r o f c t rq,
  fieldref_matches r o (mkField (f_name f) c t rq) = fieldref_matches r o f.
Proof. intros [[pkg obj] fld] o f c t rq. reflexivity. Qed.

Lemma fsd_step_comm : forall o (a : field) (d1 d2 : fsd_entry),
  (fieldref_matches (fst d1) o a = true -> fieldref_matches (fst d2) o a = true -> d1 = d2) ->
  fsd_step o (fsd_step o a d1) d2 = fsd_step o (fsd_step o a d2) d1.
Proof.
  intros o a [r1 v1] [r2 v2] Hu. simpl in Hu. unfold fsd_step.
  destruct (fieldref_matches r1 o a) eqn:M1; destruct (fieldref_matches r2 o a) eqn:M2;
    rewrite ?matches_name_only, ?M1, ?M2; auto.
  specialize (Hu eq_refl eq_refl). inversion Hu; subst. reflexivity.
Qed.

(* CURRENT code: for every order in which the map yields its (distinct) keys *)
Theorem FieldsSetDefault_processObject_invariant_proof : forall seq seq' o,
  NoDup (map fst seq) -> Permutation seq seq' ->
  FieldsSetDefault_processObject seq o = FieldsSetDefault_processObject seq' o.
Proof.
  intros seq seq' o Hnd Hp. unfold FieldsSetDefault_processObject, fsd_sorted.
  rewrite (sort_by_generic_key_perm_invariant _ _ (@fst _ dyn) leb3 leb3_total leb3_trans leb3_antisym seq seq' Hnd Hp).
  reflexivity.
Qed.

(* the UNSORTED variant: no two keys of the map match one and the same field: order-free *)
Theorem fields_set_default_unique_invariant_proof : forall defs defs' o, Permutation defs defs' ->
  (forall f d1 d2, In d1 defs -> In d2 defs ->
     fieldref_matches (fst d1) o f = true -> fieldref_matches (fst d2) o f = true -> d1 = d2) ->
  fields_set_default_obj defs o = fields_set_default_obj defs' o.
Proof.
  intros defs defs' o Hp Hu. rewrite !fsd_obj_unfold. destruct (o_type o); auto.
  f_equal. f_equal. apply map_ext. intros f.
  apply (fold_left_comm_perm_in _ _ (fsd_step o)); auto.
  intros acc x y Hx Hy. apply fsd_step_comm. intros. eapply Hu; eauto.
Qed.

(* the UNSORTED variant: two keys that differ only in case: the default that ends up on the field
   depended on the order - why the sort is needed *)
Definition fsd_obj : object :=
  mkObject "Config" [] (TStruct attrs0 [] [mkField "name" [] (TScalar attrs0 KString DNil []) false]) "pkg" "Config".
Theorem fields_set_default_two_keys_refuted_proof :
  exists defs defs' o, Permutation defs defs' /\ fields_set_default_obj defs o <> fields_set_default_obj defs' o.
Proof.
  exists [(("pkg", "Config", "name"), DStr "one"); (("pkg", "config", "NAME"), DStr "two")]%string,
         [(("pkg", "config", "NAME"), DStr "two"); (("pkg", "Config", "name"), DStr "one")]%string, fsd_obj.
  split; [apply perm_swap|]. vm_compute. discriminate.
Qed.
