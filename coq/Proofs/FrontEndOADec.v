(* C01 front-end, OpenAPI: printing a decimal constant and parsing it back.
     oa_roundtrip_int   : every integer (general, by induction on the digits)
   (the enumeration over small bounds that used to be here is replaced by FrontEndLemmas.FEDec.dec_roundtrip) *)
From Coq Require Import List String ZArith Bool Ascii Arith Lia.
From Cog Require Import Model.IR Model.Json Model.GoSemBase Model.GoSemValidate Model.Src Model.FrontEnd Model.FrontEndSpec.
Import ListNotations.
Local Open Scope list_scope.
Local Open Scope string_scope.

(* ---------- digits ---------- *)
Definition oa_plain_digit (c : ascii) : bool :=
  (match digit_val c with Some _ => true | None => false end &&
   negb (Ascii.eqb c "e") && negb (Ascii.eqb c ".") && negb (Ascii.eqb c "-") && negb (Ascii.eqb c "+"))%bool.

Lemma oa_digit_of_val z : (0 <= z < 10)%Z ->
  digit_val (digit_of z) = Some (Z.to_nat z) /\ oa_plain_digit (digit_of z) = true.
Proof.
  intro H.
  assert (E : (z = 0 \/ z = 1 \/ z = 2 \/ z = 3 \/ z = 4 \/ z = 5 \/ z = 6 \/ z = 7 \/ z = 8 \/ z = 9)%Z) by lia.
  destruct E as [E|[E|[E|[E|[E|[E|[E|[E|[E|E]]]]]]]]]; subst z; split; reflexivity.
Qed.

Lemma oa_str_list_app a b : str_list (a ++ b) = (str_list a ++ str_list b)%list.
Proof. induction a as [|c r IH]; simpl; auto. rewrite IH. reflexivity. Qed.

Lemma oa_z_digits_S f z acc :
  z_digits (S f) z acc =
  if Z.ltb z 10 then String (digit_of (z mod 10)) acc else z_digits f (z / 10) (String (digit_of (z mod 10)) acc).
Proof. reflexivity. Qed.

(* z_digits prints z (0 <= z < 2^(S f)) in front of the accumulator *)
Lemma oa_z_digits_spec : forall f z acc, (0 <= z < 2 ^ Z.of_nat (S f))%Z ->
  exists l, str_list (z_digits (S f) z acc) = (l ++ str_list acc)%list /\ l <> [] /\
            forallb oa_plain_digit l = true /\
            forall r a, digits_val (l ++ r)%list a = digits_val r (a * 10 ^ Z.of_nat (List.length l) + z)%Z.
Proof.
  induction f as [|f IH]; intros z acc H.
  - assert (Z : (z = 0 \/ z = 1)%Z) by (change (2 ^ Z.of_nat 1)%Z with 2%Z in H; lia).
    exists [digit_of z]. destruct Z; subst z; simpl; repeat split; try discriminate;
      intros r a; f_equal; lia.
  - rewrite oa_z_digits_S. destruct (Z.ltb z 10) eqn:L.
    + apply Z.ltb_lt in L. destruct (oa_digit_of_val (z mod 10)) as [D1 D2]; [apply Z.mod_pos_bound; lia|].
      exists [digit_of (z mod 10)]. split; [reflexivity|]. split; [discriminate|]. split; [cbn [forallb]; rewrite D2; reflexivity|].
      intros r a. cbn [app digits_val List.length]. rewrite D1. f_equal.
      rewrite Z2Nat.id by (apply Z.mod_pos_bound; lia). rewrite Z.mod_small by lia.
      change (10 ^ Z.of_nat 1)%Z with 10%Z. lia.
    + apply Z.ltb_ge in L.
      assert (B : (0 <= z / 10 < 2 ^ Z.of_nat (S f))%Z).
      { split; [apply Z.div_pos; lia|].
        apply Z.div_lt_upper_bound; [lia|].
        replace (Z.of_nat (S (S f))) with (Z.succ (Z.of_nat (S f))) in H by lia.
        rewrite Z.pow_succ_r in H by lia. lia. }
      destruct (IH (z / 10)%Z (String (digit_of (z mod 10)) acc) B) as [l [E [NE [FD DV]]]].
      destruct (oa_digit_of_val (z mod 10)) as [D1 D2]; [apply Z.mod_pos_bound; lia|].
      exists (l ++ [digit_of (z mod 10)])%list. split; [|split; [|split]].
      * rewrite E. cbn [str_list]. rewrite <- app_assoc. reflexivity.
      * destruct l; discriminate.
      * rewrite forallb_app, FD. cbn [forallb]. rewrite D2. reflexivity.
      * intros r a. rewrite <- app_assoc. cbn [app]. rewrite DV. cbn [digits_val]. rewrite D1. f_equal.
        rewrite Z2Nat.id by (apply Z.mod_pos_bound; lia).
        rewrite app_length. cbn [List.length]. rewrite Nat2Z.inj_add. rewrite Z.pow_add_r by lia.
        change (10 ^ Z.of_nat 1)%Z with 10%Z.
        pose proof (Z.div_mod z 10). lia.
Qed.

Lemma oa_nat_string_spec z : (0 <= z)%Z ->
  exists l, str_list (nat_string z) = l /\ l <> [] /\ forallb oa_plain_digit l = true /\ digits_val l 0 = Some z.
Proof.
  intro H. unfold nat_string.
  assert (B : (0 <= z < 2 ^ Z.of_nat (S (Z.to_nat (Z.log2_up (z + 1)))))%Z).
  { split; [exact H|]. rewrite Nat2Z.inj_succ. rewrite Z2Nat.id by apply Z.log2_up_nonneg.
    rewrite Z.pow_succ_r by apply Z.log2_up_nonneg.
    assert (z + 1 <= 2 ^ Z.log2_up (z + 1))%Z.
    { destruct (Z.eq_dec z 0) as [->|NZ]; [simpl; lia|]. apply Z.log2_up_spec. lia. }
    lia. }
  destruct (oa_z_digits_spec _ z "" B) as [l [E [NE [FD DV]]]].
  exists l. cbn [str_list] in E. rewrite app_nil_r in E. split; [exact E|]. split; [exact NE|]. split; [exact FD|].
  specialize (DV [] 0%Z). rewrite app_nil_r in DV. rewrite DV. reflexivity.
Qed.

Lemma oa_split_plain (c : ascii) l : forallb oa_plain_digit l = true -> (c = "e"%char \/ c = "."%char) -> split_at c l = (l, None).
Proof.
  intros H C. induction l as [|x r IH]; [reflexivity|].
  cbn [forallb] in H. apply andb_true_iff in H. destruct H as [H1 H2].
  cbn [split_at]. rewrite (IH H2).
  unfold oa_plain_digit in H1. repeat (apply andb_true_iff in H1; destruct H1 as [H1 ?]).
  destruct C; subst c.
  - destruct (Ascii.eqb x "e"); [discriminate|reflexivity].
  - destruct (Ascii.eqb x "."); [discriminate|reflexivity].
Qed.

Lemma oa_signed_plain l : l <> [] -> forallb oa_plain_digit l = true -> signed l = (false, l).
Proof.
  intros NE H. destruct l as [|x r]; [congruence|].
  cbn [forallb] in H. apply andb_true_iff in H. destruct H as [H1 _].
  unfold oa_plain_digit in H1. repeat (apply andb_true_iff in H1; destruct H1 as [H1 ?]).
  cbn [signed]. destruct (Ascii.eqb x "-"); [discriminate|]. destruct (Ascii.eqb x "+"); [discriminate|reflexivity].
Qed.

Lemma oa_parse_digits (neg : bool) l z : l <> [] -> forallb oa_plain_digit l = true -> digits_val l 0 = Some z ->
  signed (str_list (if neg then "-" else "") ++ l)%list = (neg, l) ->
  forall s, str_list s = (str_list (if neg then "-" else "") ++ l)%list ->
  parse_dec s = Some (if neg then (- z)%Z else z, 0%Z).
Proof.
  intros NE FD DV SG s ES. unfold parse_dec. rewrite ES, SG.
  rewrite (oa_split_plain "e" l FD) by auto. rewrite (oa_split_plain "." l FD) by auto.
  rewrite app_nil_r, DV. destruct l; [congruence|]. reflexivity.
Qed.

(* an integer printed by z_string is read back as that integer *)
Lemma oa_roundtrip_int m : parse_dec (z_string m) = Some (m, 0%Z).
Proof.
  unfold z_string. destruct (Z.ltb m 0) eqn:L.
  - apply Z.ltb_lt in L. destruct (oa_nat_string_spec (- m)%Z) as [l [E [NE [FD DV]]]]; [lia|].
    rewrite (oa_parse_digits true l (- m)%Z NE FD DV).
    + rewrite Z.opp_involutive. reflexivity.
    + reflexivity.
    + rewrite oa_str_list_app, E. reflexivity.
  - apply Z.ltb_ge in L. destruct (oa_nat_string_spec m L) as [l [E [NE [FD DV]]]].
    rewrite (oa_parse_digits false l m NE FD DV).
    + reflexivity.
    + cbn [str_list app]. apply oa_signed_plain; assumption.
    + rewrite E. reflexivity.
Qed.

Lemma oa_roundtrip_dec0 m : parse_dec (dec_string m 0) = Some (m, 0%Z).
Proof.
  unfold dec_string. cbn [Z.leb Z.compare]. change (10 ^ 0)%Z with 1%Z. rewrite Z.mul_1_r. apply oa_roundtrip_int.
Qed.
