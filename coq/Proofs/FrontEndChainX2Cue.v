(* CUE: ctx_supported of the post-chain context from chain_plain_cue and cue_no_bytes, the source-level safety predicate
   src_safe_cue, and the purely source-level round-trip corollary (instances of Proofs/FrontEndChainX2Sup.v fx2_ctx_supported
   and Proofs/FrontEndChainX2Safe.v Section SafeX). *)
From Coq Require Import List String ZArith Bool Ascii Lia.
From Cog Require Import Model.IR Model.Json Model.GoSemBase Model.GoSemDecode Model.GoSemValidate Model.GoSemStrict
  Model.GoSem Model.GoSemSpec08 Model.GoSemSpec01 Model.GoSemSpec01F Model.Src Model.FrontEnd Model.FrontEndSpec
  Model.FrontEndCue Model.FrontEndSpecCue Model.FrontEndSpecCue2
  Model.Passes Model.PassesChain Model.Process Gen.Chains_gen Model.FrontEndChainSpec Model.FrontEndChainSpec2
  Model.FrontEndChainSpecX Model.FrontEndChainSpecX2.
From Cog Require Import Proofs.FrontEndLemmas Proofs.FrontEndChainPasses Proofs.FrontEndChainAccept Proofs.FrontEndChain
  Proofs.FrontEndChain2Sup Proofs.FrontEndChain2Safe Proofs.FrontEndChainXPasses Proofs.FrontEndChainXAccept
  Proofs.FrontEndChainX Proofs.FrontEndCueOrder Proofs.FrontEndCueProofs Proofs.FrontEndChainX2Sup Proofs.FrontEndChainX2Safe.
Import ListNotations.
Local Open Scope string_scope.
Local Open Scope list_scope.

(* ---------- the constraints the CUE front-end produces are supported ---------- *)
Definition fx2_int_kind (k : skind) : bool :=
  match k with KInt8 | KInt16 | KInt32 | KInt64 | KUint8 | KUint16 | KUint32 | KUint64 => true | _ => false end.
Lemma fx2_int_kind_range k : fx2_int_kind k = true -> (exists r, int_range k = Some r) /\ is_float_kind k = false.
Proof. destruct k; intro H; try discriminate; split; try reflexivity; eexists; reflexivity. Qed.
Lemma fx2_cue_int_kind w : fx2_int_kind (cue_int_kind w) = true.
Proof. unfold cue_int_kind. repeat match goal with |- context [if ?c then _ else _] => destruct c end; reflexivity. Qed.

(* cue_int: an integer kind, nil value, comparison constraints with integer arguments *)
Lemma fx2_cue_int_shape w ge gt le lt : exists k cs, cue_int w ge gt le lt = TScalar attrs0 k DNil cs /\
  fx2_int_kind k = true /\ forallb (constraint_supported k) cs = true.
Proof.
  unfold cue_int. eexists. eexists. split; [reflexivity|].
  match goal with |- fx2_int_kind ?K = true /\ _ => assert (fx2_int_kind K = true) as HK end.
  { destruct (is_unsigned w).
    - destruct (is_some le || is_some lt)%bool; [reflexivity|apply fx2_cue_int_kind].
    - destruct ((is_some ge || is_some gt) && (is_some le || is_some lt))%bool; [|apply fx2_cue_int_kind].
      destruct (match ge with Some a => Z.leb 0 a | None => match gt with Some a => Z.leb 0 a | None => false end end); reflexivity. }
  split; [exact HK|]. destruct (fx2_int_kind_range _ HK) as [R F].
  match goal with |- forallb (constraint_supported ?K) _ = true => set (k := K) in * end.
  assert (forall op z, fc2_is_cmp op -> constraint_supported k (cstr op (DInt "int64" z)) = true) as C.
  { intros op z Hop. apply fx2_cmp_int; assumption. }
  rewrite !forallb_app. unfold opt_list.
  assert (fc2_is_cmp ">=" /\ fc2_is_cmp ">" /\ fc2_is_cmp "<=" /\ fc2_is_cmp "<") as [C1 [C2 [C3 C4]]]
    by (unfold fc2_is_cmp; tauto).
  apply andb_true_iff; split; [|apply andb_true_iff; split].
  - destruct ge as [a|]; [|destruct gt; cbn [forallb]; rewrite ?C; auto].
    match goal with |- context [if ?c then _ else _] => destruct c end; cbn [forallb]; rewrite ?C; auto.
  - destruct le; cbn [forallb]; rewrite ?C; auto.
  - destruct lt; cbn [forallb]; rewrite ?C; auto.
Qed.

Lemma fx2_cue_bounds_float k ge gt le lt : is_float_kind k = true ->
  forallb (constraint_supported k) (js_bounds ge gt le lt) = true.
Proof.
  intros F. unfold js_bounds, opt_list. rewrite !forallb_app.
  destruct ge as [[? ?]|], gt as [[? ?]|], le as [[? ?]|], lt as [[? ?]|]; cbn [forallb fst snd andb];
    rewrite ?(fx2_cmp_float k _ _ _ F); try reflexivity; unfold fc2_is_cmp; tauto.
Qed.
Lemma fx2_cue_lengths mn mx : forallb (constraint_supported KString) (cue_lengths mn mx) = true.
Proof. destruct mn, mx; reflexivity. Qed.

Lemma fx2_cue_ty_sup ctx pkg : forall t, sty_plain t = true ->
  (forall n, In n (refs_of t) -> exists o, locate_object ctx pkg n = Some o) ->
  ty_sup_pre ctx (cue_ty pkg t) = true.
Proof.
  induction t; intros P R; try discriminate; cbn [cue_ty].
  - reflexivity.
  - destruct (fx2_cue_int_shape w ge gt le lt) as [k [cs [E [_ C]]]]. rewrite E. exact C.
  - cbn [ty_sup_pre]. destruct (seqb w "float32"); apply fx2_cue_bounds_float; reflexivity.
  - apply fx2_cue_lengths.
  - reflexivity.
  - cbn [ty_sup_pre]. apply IHt; [exact P|exact R].
  - cbn [ty_sup_pre t_string andb]. apply IHt; [exact P|exact R].
  - cbn [ty_sup_pre]. destruct (R name (or_introl eq_refl)) as [o ->]. reflexivity.
Qed.

Lemma fx2_cue_locate_def s n : src_wf_cue s = true -> str_in n (map fst (src_defs s)) = true ->
  exists o, locate_object (parse_ctx_cue s) (src_pkg s) n = Some o.
Proof.
  intros W I. destruct (cue_wf_parts s W) as [J [N A]].
  apply str_in_In in I. apply in_map_iff in I. destruct I as [[k t] [E I]]. cbn [fst] in E. subst k.
  pose proof (cue_order_complete_holds s) as OC. unfold cue_order_complete in OC. rewrite forallb_forall in OC.
  specialize (OC _ I). cbn [fst] in OC.
  rewrite (cue_locate_parse s n J), OC, (src_lookup_in _ _ _ N I). eexists; reflexivity.
Qed.

Lemma fx2_cue_objects (Q : ty -> bool) s :
  (forall k t, In (k, t) (src_defs s) -> Q (cue_ty (src_pkg s) t) = true) ->
  cue_schema_supported s = true ->
  forallb (fun sc => forallb (fun ko => Q (o_type (snd ko))) (s_objects sc)) (parse_ctx_cue s) = true.
Proof.
  intros QT J. rewrite (cue_parse_ctx_eq s J). cbn [forallb s_objects]. rewrite andb_true_r.
  induction (cue_order s) as [|n r IH]; [reflexivity|]. cbn [flat_map]. unfold cue_objf at 1.
  destruct (src_lookup (src_defs s) n) as [t|] eqn:L; cbn [app forallb]; [|exact IH].
  rewrite IH, andb_true_r. cbn [snd cue_obj o_type]. apply (QT n t). exact (src_lookup_some_in _ _ _ L).
Qed.

Theorem chain_plain_cue_ctx_sup_pre s : chain_plain_cue s = true -> ctx_sup_pre (parse_ctx_cue s) = true.
Proof.
  intro H. destruct (fx_chain_plain_cue_parts s H) as [W [J [_ P]]]. destruct (cue_wf_parts s W) as [_ [_ A]].
  unfold ctx_sup_pre. apply fx2_cue_objects; [|exact J]. intros k t Hd.
  pose proof (P _ Hd) as Pd. cbn [snd] in Pd. destruct (A _ _ Hd) as [_ [_ [_ C]]].
  destruct t; try discriminate. destruct fs as [|f fs]; [discriminate|].
  cbn [sdef_plain] in Pd. rewrite cue_ty_struct. cbn [ty_sup_pre]. rewrite fc_forallb_map.
  apply forallb_forall. intros g Hg. pose proof (proj1 (forallb_forall _ _) Pd g Hg) as Pg.
  unfold sfield_plain in Pg. apply andb_true_iff in Pg. destruct Pg as [Pg Hp].
  apply andb_true_iff in Pg. destruct Pg as [Hn _]. apply negb_true_iff in Hn. unfold cue_field. cbn [f_type]. rewrite Hn.
  apply fx2_cue_ty_sup; [exact Hp|]. intros n Hn'. apply (fx2_cue_locate_def s n W).
  rewrite forallb_forall in C. apply C. cbn [refs_of]. apply in_flat_map. exists g. split; assumption.
Qed.

Theorem chain_plain_cue_ctx_no_bytes s : chain_plain_cue s = true -> cue_no_bytes s = true ->
  ctx_no_bytes (parse_ctx_cue s) = true.
Proof.
  intros H B. destruct (fx_chain_plain_cue_parts s H) as [_ [J _]].
  unfold ctx_no_bytes. apply fx2_cue_objects; [|exact J]. intros k t Hd.
  unfold cue_no_bytes in B. rewrite forallb_forall in B. exact (B _ Hd).
Qed.

(* ---------- 1 ---------- *)
Theorem chain_plain_cue_ctx_supported s : chain_plain_cue s = true -> cue_no_bytes s = true ->
  ctx_supported (nrfn_only (parse_ctx_cue s)) = true.
Proof.
  intros H B. apply fx2_ctx_supported;
    [apply chain_plain_cue_ctx_plain; exact H|apply chain_plain_cue_ctx_sup_pre; exact H|apply chain_plain_cue_ctx_no_bytes; assumption].
Qed.

(* ---------- 2 ---------- *)
Theorem src_valid_roundtrip_plain_cue_closed s tname d out :
  chain_plain_cue s = true -> cue_no_bytes s = true -> json_wf d = true ->
  process chain_go (parse_ctx_cue s) = Ok out ->
  str_in tname (map fst (src_defs s)) = true ->
  src_valid_doc "cue" s tname d = true ->
  roundtrip_safeF out (src_pkg s) tname d = true ->
  roundtrip_holds out (src_pkg s) tname d = true.
Proof.
  intros H B WF P IN SV RS.
  apply (src_valid_roundtrip_plain_cue s tname d out); try assumption.
  rewrite (chain_go_plain_explicit_cue s H) in P. inversion P; subst out. apply chain_plain_cue_ctx_supported; assumption.
Qed.

(* ---------- 3: the safety predicate ---------- *)
Lemma fx2_cue_shape pkg t : s_is_scalar t = true -> exists a k v cs, cue_ty pkg t = TScalar a k v cs.
Proof.
  destruct t; intro H; try discriminate; cbn [cue_ty]; try (repeat eexists; fail).
Qed.

Lemma fx2_cue_scalar_safe c pkg src t j b : s_is_scalar t = true -> fc_nonnull j = true -> sx_scalar_safe t j = true ->
  rtsF c src j (set_nullable (cue_ty pkg t) b) = true.
Proof.
  intros S N H. destruct t; try discriminate; cbn [cue_ty sx_scalar_safe] in *.
  - unfold t_bool. cbn [set_nullable set_attrs ty_attrs]. rewrite fc2_rtsF_scalar by exact N. destruct j; try discriminate; reflexivity.
  - destruct (fx2_cue_int_shape w ge gt le lt) as [k [cs [E [K _]]]]. rewrite E.
    cbn [set_nullable set_attrs ty_attrs]. rewrite fc2_rtsF_scalar by exact N.
    destruct j; try discriminate; destruct k; try discriminate; try reflexivity; exact H.
  - destruct (seqb w "float32") eqn:E; cbn [set_nullable set_attrs ty_attrs]; rewrite fc2_rtsF_scalar by exact N;
      destruct j; try discriminate; try reflexivity; exact H.
  - cbn [set_nullable set_attrs ty_attrs]. rewrite fc2_rtsF_scalar by exact N. destruct j; try discriminate; reflexivity.
  - cbn [set_nullable set_attrs ty_attrs]. rewrite fc2_rtsF_scalar by exact N. destruct j; try discriminate; try reflexivity; exact H.
Qed.

Lemma fx2_names_cue pkg sfs : map (fun f => f_name f) (map (cue_field pkg) sfs) = map sf_name sfs.
Proof. induction sfs as [|x r IH]; simpl; [reflexivity|]. rewrite IH. reflexivity. Qed.
Lemma fx2_cue_fld pkg sf : sfield_plain sf = true -> cue_field pkg sf = mkField (sf_name sf) [] (cue_ty pkg (sf_type sf)) (sf_req sf).
Proof.
  unfold sfield_plain. intro H. apply andb_true_iff in H. destruct H as [H _]. apply andb_true_iff in H. destruct H as [N _].
  apply negb_true_iff in N. unfold cue_field. rewrite N. reflexivity.
Qed.

Section SafeCue.
  Variable s : src_schema.
  Hypothesis Hs : chain_plain_cue s = true.
  Let defs := src_defs s.
  Let pkg := src_pkg s.
  Let out := nrfn_only (parse_ctx_cue s).

  Lemma fx2_cue_def n sfs : src_lookup defs n = Some (SStruct sfs) ->
    forallb sfield_plain sfs = true /\ str_nodup (map sf_name sfs) = true /\
    forall a, payload_type out (TRef a pkg n) = PTy (TStruct attrs0 [] (map nrfn_field (map (cue_field pkg) sfs))).
  Proof.
    intro L. destruct (fx_chain_plain_cue_parts s Hs) as [W [J [N P]]].
    destruct (cue_wf_parts s W) as [_ [_ A]].
    pose proof (src_lookup_some_in _ _ _ L) as I. pose proof (P _ I) as Pd. cbn [snd] in Pd.
    destruct (A _ _ I) as [JS _].
    destruct sfs as [|f fs]; [discriminate|]. cbn [sdef_plain] in Pd.
    repeat split; try assumption.
    - cbn [cue_supported] in JS. apply andb_true_iff in JS. exact (proj1 JS).
    - intro a. unfold out. apply (fx_payload_ref (parse_ctx_cue s) a pkg n (cue_obj pkg n (SStruct (f :: fs))) attrs0).
      + apply chain_plain_cue_ctx_plain. exact Hs.
      + pose proof (cue_order_complete_holds s) as OC. unfold cue_order_complete in OC. rewrite forallb_forall in OC.
        specialize (OC _ I). cbn [fst] in OC.
        unfold pkg. rewrite (cue_locate_parse s n J), OC. unfold defs in L. rewrite L. reflexivity.
      + reflexivity.
      + reflexivity.
  Qed.

  Theorem fx2_cue_src_safe_rtsF tname d : src_safe_cue s tname d = true -> roundtrip_safeF out pkg tname d = true.
  Proof.
    unfold src_safe_cue.
    apply (fx2_src_safe_rtsF defs pkg out (cue_ty pkg) (cue_field pkg) (map (cue_field pkg))).
    - reflexivity.
    - reflexivity.
    - reflexivity.
    - apply fx_cue_ty_plain.
    - apply fx2_cue_shape.
    - intros. apply fx2_cue_scalar_safe; assumption.
    - exact fx2_cue_def.
    - intros sfs k. apply find_map_field. intro; reflexivity.
    - intros sfs. rewrite fx2_names_cue. reflexivity.
    - intros p sfs. rewrite fc_forallb_map. reflexivity.
    - apply fx2_cue_fld.
  Qed.
End SafeCue.

Theorem src_safe_cue_roundtrip_safeF s tname d :
  chain_plain_cue s = true -> src_safe_cue s tname d = true ->
  roundtrip_safeF (nrfn_only (parse_ctx_cue s)) (src_pkg s) tname d = true.
Proof. intros H S. apply fx2_cue_src_safe_rtsF; assumption. Qed.

(* ---------- 4 ---------- *)
Theorem src_valid_roundtrip_source_cue s tname d :
  chain_plain_cue s = true -> cue_no_bytes s = true -> json_wf d = true ->
  str_in tname (map fst (src_defs s)) = true -> src_safe_cue s tname d = true ->
  src_valid_doc "cue" s tname d = true ->
  exists out, process chain_go (parse_ctx_cue s) = Ok out /\ roundtrip_holds out (src_pkg s) tname d = true.
Proof.
  intros H B WF IN SS SV. exists (nrfn_only (parse_ctx_cue s)). split; [apply chain_go_plain_explicit_cue; exact H|].
  apply (src_valid_roundtrip_plain_cue_closed s tname d _ H B WF (chain_go_plain_explicit_cue s H) IN SV).
  apply src_safe_cue_roundtrip_safeF; assumption.
Qed.

Lemma src_safe_cue_nonvacuous :
  chain_plain_cue sPlainCue = true /\ cue_no_bytes sPlainCue = true /\ json_wf dPlainCue = true /\
  str_in "Root" (map fst (src_defs sPlainCue)) = true /\ src_safe_cue sPlainCue "Root" dPlainCue = true /\
  src_valid_doc "cue" sPlainCue "Root" dPlainCue = true /\
  roundtrip_holds (nrfn_only (parse_ctx_cue sPlainCue)) (src_pkg sPlainCue) "Root" dPlainCue = true.
Proof. vm_compute. repeat split; reflexivity. Qed.

(* cue_no_bytes is what excludes the []byte witness of Proofs/FrontEndChainX.v *)
Lemma cue_no_bytes_excludes_bytes : chain_plain_cue sBytesCue = true /\ cue_no_bytes sBytesCue = false.
Proof. vm_compute. split; reflexivity. Qed.

Print Assumptions chain_plain_cue_ctx_supported.
Print Assumptions src_valid_roundtrip_plain_cue_closed.
Print Assumptions src_safe_cue_roundtrip_safeF.
Print Assumptions src_valid_roundtrip_source_cue.
Print Assumptions src_safe_cue_nonvacuous.
