package main

import (
	"bufio"
	"encoding/json"
	"fmt"
	"math/rand"
	"reflect"
	"sort"
	"strings"

	"github.com/grafana/cog/internal/ast"
	"github.com/grafana/cog/internal/ast/compiler"
	"github.com/grafana/cog/internal/orderedmap"
)

// C18: fill every field of an IR value by reflection, call the real DeepCopy, and print the
// original and the copy as labelled heap values (coq/Model/Heap.v): every pointer target,
// slice backing array, map header and ordered map carries a location number derived from real
// pointer identity, so sharing between copy and original is visible.

type copyJob struct {
	Root    string `json:"root"`
	Seed    int64  `json:"seed"`
	Depth   int    `json:"depth"`
	AnyMode string `json:"any"` // "scalar" | "container"
	// "" = the DeepCopy method; "process_empty" / "process_noop" (root Schema only) = the copy that
	// compiler.Passes.Process hands to a transformation chain (an empty chain / a chain of one no-op pass)
	Via string `json:"via"`
}

var copyRoots = map[string]reflect.Type{
	"Type": reflect.TypeOf(ast.Type{}), "Object": reflect.TypeOf(ast.Object{}), "Schema": reflect.TypeOf(ast.Schema{}),
	"Builder": reflect.TypeOf(ast.Builder{}), "Option": reflect.TypeOf(ast.Option{}), "Assignment": reflect.TypeOf(ast.Assignment{}),
	"BuilderFactory": reflect.TypeOf(ast.BuilderFactory{}), "Constructor": reflect.TypeOf(ast.Constructor{}),
	"StructField": reflect.TypeOf(ast.StructField{}), "PathItem": reflect.TypeOf(ast.PathItem{}),
	"AssignmentValue": reflect.TypeOf(ast.AssignmentValue{}), "OptionCallParameter": reflect.TypeOf(ast.OptionCallParameter{}),
	"Argument": reflect.TypeOf(ast.Argument{}), "DisjunctionType": reflect.TypeOf(ast.DisjunctionType{}),
	"EnumType": reflect.TypeOf(ast.EnumType{}), "ScalarType": reflect.TypeOf(ast.ScalarType{}),
}

type filler struct {
	rng     *rand.Rand
	anyMode string
}

var anyType = reflect.TypeOf((*any)(nil)).Elem()
var omapObjType = reflect.TypeOf(&orderedmap.Map[string, ast.Object]{})

func (f *filler) str() string {
	return []string{"a", "bb", "Foo", "x_y", ""}[f.rng.Intn(5)]
}

func (f *filler) anyValue(depth int) any {
	if f.anyMode == "container" && depth > 0 && f.rng.Intn(3) == 0 {
		switch f.rng.Intn(3) {
		case 0:
			return []any{f.anyValue(depth - 1), "s"}
		case 1:
			return map[string]any{"k": f.anyValue(depth - 1), "j": int64(3)}
		default:
			return ast.DisjunctionType{Branches: ast.Types{ast.String(), ast.NewRef("p", "X")}, Discriminator: "kind", DiscriminatorMapping: map[string]string{"a": "X"}}
		}
	}
	switch f.rng.Intn(5) {
	case 0:
		return nil
	case 1:
		return f.str()
	case 2:
		return int64(f.rng.Intn(100))
	case 3:
		return f.rng.Intn(2) == 0
	default:
		return float64(f.rng.Intn(10)) + 0.5
	}
}

func (f *filler) fill(v reflect.Value, depth int) {
	t := v.Type()
	if t == omapObjType {
		m := orderedmap.New[string, ast.Object]()
		if depth > 0 {
			for i := 0; i < 1+f.rng.Intn(2); i++ {
				var o ast.Object
				f.fill(reflect.ValueOf(&o).Elem(), depth-1)
				o.Name = fmt.Sprintf("O%d", i)
				m.Set(o.Name, o)
			}
			v.Set(reflect.ValueOf(m))
		} else {
			v.Set(reflect.ValueOf(m))
		}
		return
	}
	switch t.Kind() {
	case reflect.String:
		v.SetString(f.str())
	case reflect.Bool:
		v.SetBool(f.rng.Intn(2) == 0)
	case reflect.Int, reflect.Int64, reflect.Int32:
		v.SetInt(int64(f.rng.Intn(50)))
	case reflect.Interface:
		if t == anyType {
			x := f.anyValue(depth)
			if x != nil {
				v.Set(reflect.ValueOf(x))
			}
		}
	case reflect.Ptr:
		if depth > 0 && f.rng.Intn(4) != 0 {
			p := reflect.New(t.Elem())
			f.fill(p.Elem(), depth-1)
			v.Set(p)
		}
	case reflect.Slice:
		if depth > 0 && f.rng.Intn(5) != 0 {
			n := 1 + f.rng.Intn(2)
			s := reflect.MakeSlice(t, n, n+f.rng.Intn(2))
			for i := 0; i < n; i++ {
				f.fill(s.Index(i), depth-1)
			}
			v.Set(s)
		}
	case reflect.Map:
		if depth > 0 && f.rng.Intn(5) != 0 {
			m := reflect.MakeMap(t)
			for i := 0; i < 1+f.rng.Intn(2); i++ {
				k := reflect.New(t.Key()).Elem()
				k.SetString(fmt.Sprintf("k%d", i))
				e := reflect.New(t.Elem()).Elem()
				f.fill(e, depth-1)
				m.SetMapIndex(k, e)
			}
			v.Set(m)
		}
	case reflect.Struct:
		for i := 0; i < t.NumField(); i++ {
			if !t.Field(i).IsExported() {
				continue
			}
			f.fill(v.Field(i), depth-1)
		}
	}
}

// ---- Go value -> hval with location numbers ----
type labeller struct {
	ids map[uintptr]int
}

func (l *labeller) id(p uintptr) int {
	if v, ok := l.ids[p]; ok {
		return v
	}
	n := len(l.ids) + 1
	l.ids[p] = n
	return n
}

func gLoc(n int) string { return fmt.Sprintf("(Some %d)", n) }

func (l *labeller) hval(v reflect.Value) string {
	if !v.IsValid() {
		return "(Node TgAny None [])"
	}
	t := v.Type()
	if t == omapObjType {
		if v.IsNil() {
			return "(Node TgOMap None [])"
		}
		m := v.Interface().(*orderedmap.Map[string, ast.Object])
		var kids []string
		m.Iterate(func(k string, o ast.Object) {
			kids = append(kids, "("+gs(k)+", "+l.hval(reflect.ValueOf(o))+")")
		})
		// the location of an ordered map is its key-order slice's backing array (what a copy must
		// not share: Sort/Set/append go through it); an empty map has no such array yet
		orderField := v.Elem().FieldByName("order")
		if orderField.IsValid() && orderField.Kind() == reflect.Slice && orderField.Cap() > 0 {
			return "(Node TgOMap " + gLoc(l.id(orderField.Pointer())) + " " + gList(kids) + ")"
		}
		return "(Node TgOMap " + gLoc(l.id(v.Pointer())) + " " + gList(kids) + ")"
	}
	switch t.Kind() {
	case reflect.String:
		return "(Leaf " + gs(v.String()) + ")"
	case reflect.Bool, reflect.Int, reflect.Int64, reflect.Int32, reflect.Int8, reflect.Int16, reflect.Uint8, reflect.Uint16, reflect.Uint32, reflect.Uint64, reflect.Float64, reflect.Float32:
		return "(Leaf " + gs(fmt.Sprintf("%v", v.Interface())) + ")"
	case reflect.Interface:
		if v.IsNil() {
			return "(Node TgAny None [])"
		}
		return "(Node TgAny None [(\"\", " + l.hval(v.Elem()) + ")])"
	case reflect.Ptr:
		if v.IsNil() {
			return "(Node TgPtr None [])"
		}
		return "(Node TgPtr " + gLoc(l.id(v.Pointer())) + " [(\"\", " + l.hval(v.Elem()) + ")])"
	case reflect.Slice:
		if v.Len() == 0 {
			return "(Node TgSlice None [])"
		}
		kids := make([]string, v.Len())
		for i := 0; i < v.Len(); i++ {
			kids[i] = "(\"\", " + l.hval(v.Index(i)) + ")"
		}
		return "(Node TgSlice " + gLoc(l.id(v.Pointer())) + " " + gList(kids) + ")"
	case reflect.Map:
		if v.Len() == 0 {
			return "(Node TgMap None [])"
		}
		keys := v.MapKeys()
		sort.Slice(keys, func(i, j int) bool { return keys[i].String() < keys[j].String() })
		kids := make([]string, len(keys))
		for i, k := range keys {
			kids[i] = "(" + gs(k.String()) + ", " + l.hval(v.MapIndex(k)) + ")"
		}
		return "(Node TgMap " + gLoc(l.id(v.Pointer())) + " " + gList(kids) + ")"
	case reflect.Struct:
		var kids []string
		for i := 0; i < t.NumField(); i++ {
			if !t.Field(i).IsExported() {
				continue
			}
			kids = append(kids, "("+gs(t.Field(i).Name)+", "+l.hval(v.Field(i))+")")
		}
		return "(Node (TgStruct " + gs(t.Name()) + ") None " + gList(kids) + ")"
	}
	return "(Leaf " + gs("<"+t.String()+">") + ")"
}

// ---- independent reflection diff: which type-level field paths are dropped / shared ----
type differ struct {
	origLocs map[uintptr]string
	issues   map[string]bool
}

func (d *differ) collect(v reflect.Value, path string) {
	if !v.IsValid() {
		return
	}
	t := v.Type()
	if t == omapObjType {
		if !v.IsNil() {
			d.origLocs[v.Pointer()] = path
			v.Interface().(*orderedmap.Map[string, ast.Object]).Iterate(func(_ string, o ast.Object) {
				d.collect(reflect.ValueOf(o), path+"[]")
			})
		}
		return
	}
	switch t.Kind() {
	case reflect.Interface:
		if !v.IsNil() {
			d.collect(v.Elem(), path+"(any)")
		}
	case reflect.Ptr:
		if !v.IsNil() {
			d.origLocs[v.Pointer()] = path
			d.collect(v.Elem(), path)
		}
	case reflect.Slice:
		if v.Len() > 0 {
			d.origLocs[v.Pointer()] = path
			for i := 0; i < v.Len(); i++ {
				d.collect(v.Index(i), path+"[]")
			}
		}
	case reflect.Map:
		if v.Len() > 0 {
			d.origLocs[v.Pointer()] = path
			for _, k := range v.MapKeys() {
				d.collect(v.MapIndex(k), path+"[]")
			}
		}
	case reflect.Struct:
		for i := 0; i < t.NumField(); i++ {
			if t.Field(i).IsExported() {
				d.collect(v.Field(i), path+"."+t.Field(i).Name)
			}
		}
	}
}

func isEmptyish(v reflect.Value) bool {
	if !v.IsValid() {
		return true
	}
	switch v.Kind() {
	case reflect.Slice, reflect.Map:
		return v.Len() == 0
	case reflect.Ptr, reflect.Interface:
		return v.IsNil()
	}
	return v.IsZero()
}

func (d *differ) compare(o, c reflect.Value, path string) {
	if !o.IsValid() || !c.IsValid() {
		if o.IsValid() != c.IsValid() {
			d.issues[path+":dropped"] = true
		}
		return
	}
	t := o.Type()
	if t == omapObjType {
		if o.IsNil() || c.IsNil() {
			if o.IsNil() != c.IsNil() {
				d.issues[path+":dropped"] = true
			}
			return
		}
		if o.Pointer() == c.Pointer() {
			d.issues[path+":shared"] = true
		}
		oo, co := o.Elem().FieldByName("order"), c.Elem().FieldByName("order")
		if oo.IsValid() && co.IsValid() && oo.Cap() > 0 && co.Cap() > 0 && oo.Pointer() == co.Pointer() {
			d.issues[path+".order:shared"] = true
		}
		om := o.Interface().(*orderedmap.Map[string, ast.Object])
		cm := c.Interface().(*orderedmap.Map[string, ast.Object])
		if om.Len() != cm.Len() {
			d.issues[path+":dropped"] = true
			return
		}
		for i := 0; i < om.Len(); i++ {
			d.compare(reflect.ValueOf(om.At(i)), reflect.ValueOf(cm.At(i)), path+"[]")
		}
		return
	}
	switch t.Kind() {
	case reflect.Interface:
		if o.IsNil() || c.IsNil() {
			if o.IsNil() != c.IsNil() {
				d.issues[path+":dropped"] = true
			}
			return
		}
		if o.Elem().Type() != c.Elem().Type() {
			d.issues[path+":changed"] = true
			return
		}
		d.compare(o.Elem(), c.Elem(), path+"(any)")
	case reflect.Ptr:
		if o.IsNil() || c.IsNil() {
			if o.IsNil() != c.IsNil() {
				d.issues[path+":dropped"] = true
			}
			return
		}
		if o.Pointer() == c.Pointer() {
			d.issues[path+":shared"] = true
		}
		d.compare(o.Elem(), c.Elem(), path)
	case reflect.Slice:
		if o.Len() != c.Len() {
			d.issues[path+":dropped"] = true
			return
		}
		if o.Len() > 0 && o.Pointer() == c.Pointer() {
			d.issues[path+":shared"] = true
		}
		for i := 0; i < o.Len(); i++ {
			d.compare(o.Index(i), c.Index(i), path+"[]")
		}
	case reflect.Map:
		if o.Len() != c.Len() {
			d.issues[path+":dropped"] = true
			return
		}
		if o.Len() > 0 && o.Pointer() == c.Pointer() {
			d.issues[path+":shared"] = true
		}
		for _, k := range o.MapKeys() {
			cv := c.MapIndex(k)
			if !cv.IsValid() {
				d.issues[path+":dropped"] = true
				continue
			}
			d.compare(o.MapIndex(k), cv, path+"[]")
		}
	case reflect.Struct:
		for i := 0; i < t.NumField(); i++ {
			if t.Field(i).IsExported() {
				d.compare(o.Field(i), c.Field(i), path+"."+t.Field(i).Name)
			}
		}
	default:
		if !reflect.DeepEqual(o.Interface(), c.Interface()) {
			d.issues[path+":changed"] = true
		}
	}
}

func init() {
	commands["copy"] = func(in *bufio.Scanner, out *bufio.Writer) error {
		for in.Scan() {
			var job copyJob
			if err := json.Unmarshal(in.Bytes(), &job); err != nil {
				return err
			}
			line := func() (line string) {
				defer func() {
					if r := recover(); r != nil {
						line = "PANIC\t" + strings.ReplaceAll(fmt.Sprint(r), "\n", " ")
					}
				}()
				t, ok := copyRoots[job.Root]
				if !ok {
					return "PANIC\tunknown root " + job.Root
				}
				f := &filler{rng: rand.New(rand.NewSource(job.Seed)), anyMode: job.AnyMode}
				orig := reflect.New(t)
				f.fill(orig.Elem(), job.Depth)
				cp := reflect.New(t)
				if job.Via == "" {
					m := orig.MethodByName("DeepCopy")
					if !m.IsValid() {
						return "PANIC\tno DeepCopy on " + job.Root
					}
					cp.Elem().Set(m.Call(nil)[0])
				} else {
					schema, ok := orig.Interface().(*ast.Schema)
					if !ok {
						return "PANIC\tvia " + job.Via + " needs root Schema"
					}
					passes := compiler.Passes{}
					if job.Via == "process_noop" {
						passes = compiler.Passes{&compiler.PrefixObjectNames{Prefix: ""}}
					}
					out, err := passes.Process(ast.Schemas{schema})
					if err != nil || len(out) != 1 {
						return "PANIC\tPasses.Process: " + fmt.Sprint(err)
					}
					cp.Elem().Set(reflect.ValueOf(*out[0]))
				}
				l := &labeller{ids: map[uintptr]int{}}
				ho := l.hval(orig.Elem())
				hc := l.hval(cp.Elem())
				d := &differ{origLocs: map[uintptr]string{}, issues: map[string]bool{}}
				d.compare(orig.Elem(), cp.Elem(), job.Root)
				issues := make([]string, 0, len(d.issues))
				for k := range d.issues {
					issues = append(issues, k)
				}
				sort.Strings(issues)
				ib, _ := json.Marshal(issues)
				return "OK\t" + gs(job.Root) + "\t" + ho + "\t" + hc + "\t" + string(ib)
			}()
			fmt.Fprintln(out, line)
		}
		return in.Err()
	}
}
