package main

import (
	"bufio"
	"encoding/json"
	"fmt"
	"sort"
	"strings"

	"github.com/grafana/cog/internal/ast"
	"github.com/grafana/cog/internal/ast/compiler"
	cogyaml "github.com/grafana/cog/internal/yaml"
)

// C15/C05/C06/C04: apply compiler passes to an IR given as JSON; print the input IR, the passes
// really applied and the outcome as Gallina terms (coq/Model/IR.v, coq/Model/Passes.v).

type jPass struct {
	P        string                     `json:"p"`
	Pkg      string                     `json:"pkg"`
	Obj      string                     `json:"obj"`
	Fld      string                     `json:"fld"`
	To       string                     `json:"to"`
	ToPkg    string                     `json:"topkg"`
	Refs     [][]string                 `json:"refs"`
	Fields   []jField                   `json:"fields"`
	As       *jType                     `json:"as"`
	Comments *[]string                  `json:"comments"`
	Omit     []string                   `json:"omit"`
	Defs     []jDefault                 `json:"defs"`
	Hints    map[string]json.RawMessage `json:"hints"`
	Kinds    []string                   `json:"kinds"`
	Str      string                     `json:"str"`
}

type jDefault struct {
	Ref []string        `json:"ref"`
	Val json.RawMessage `json:"val"`
}

type passJob struct {
	Schemas []jSchema `json:"schemas"`
	Passes  []jPass   `json:"passes"`
	Yaml    string    `json:"yaml"`   // when set, passes are loaded through the real YAML loader instead
	Direct  bool      `json:"direct"` // call each pass's Process directly instead of Passes.Process (no DeepCopy)
	Lang    string    `json:"lang"`   // when set, the passes are the built-in chain of that output language
}

func objRefs(refs [][]string) []compiler.ObjectReference {
	out := make([]compiler.ObjectReference, 0, len(refs))
	for _, r := range refs {
		out = append(out, compiler.ObjectReference{Package: r[0], Object: r[1]})
	}
	return out
}

func fieldRefs(refs [][]string) []compiler.FieldReference {
	out := make([]compiler.FieldReference, 0, len(refs))
	for _, r := range refs {
		out = append(out, compiler.FieldReference{Package: r[0], Object: r[1], Field: r[2]})
	}
	return out
}

func buildPass(j jPass) compiler.Pass {
	switch j.P {
	case "rename_object":
		return &compiler.RenameObject{From: compiler.ObjectReference{Package: j.Pkg, Object: j.Obj}, To: j.To}
	case "omit":
		return &compiler.Omit{Objects: objRefs(j.Refs)}
	case "omit_fields":
		return &compiler.OmitFields{Fields: fieldRefs(j.Refs)}
	case "add_fields":
		fs := make([]ast.StructField, 0, len(j.Fields))
		for _, f := range j.Fields {
			fs = append(fs, ast.StructField{Name: f.Name, Comments: f.Comments, Type: loadType(f.Type), Required: f.Req})
		}
		return &compiler.AddFields{Object: compiler.ObjectReference{Package: j.Pkg, Object: j.Obj}, Fields: fs}
	case "add_object":
		p := &compiler.AddObject{Object: compiler.ObjectReference{Package: j.Pkg, Object: j.Obj}, As: loadType(j.As)}
		if j.Comments != nil {
			p.Comments = *j.Comments
		}
		return p
	case "duplicate_object":
		return &compiler.DuplicateObject{Object: compiler.ObjectReference{Package: j.Pkg, Object: j.Obj}, As: compiler.ObjectReference{Package: j.ToPkg, Object: j.To}, OmitFields: j.Omit}
	case "retype_object":
		p := &compiler.RetypeObject{Object: compiler.ObjectReference{Package: j.Pkg, Object: j.Obj}, As: loadType(j.As)}
		if j.Comments != nil {
			p.Comments = *j.Comments
		}
		return p
	case "retype_field":
		p := &compiler.RetypeField{Field: compiler.FieldReference{Package: j.Pkg, Object: j.Obj, Field: j.Fld}, As: loadType(j.As)}
		if j.Comments != nil {
			p.Comments = *j.Comments
		}
		return p
	case "fields_set_required":
		return &compiler.FieldsSetRequired{Fields: fieldRefs(j.Refs)}
	case "fields_set_not_required":
		return &compiler.FieldsSetNotRequired{Fields: fieldRefs(j.Refs)}
	case "fields_set_default":
		m := map[compiler.FieldReference]any{}
		for _, d := range j.Defs {
			m[compiler.FieldReference{Package: d.Ref[0], Object: d.Ref[1], Field: d.Ref[2]}] = loadDyn(d.Val)
		}
		return &compiler.FieldsSetDefault{DefaultValues: m}
	case "replace_reference":
		return &compiler.ReplaceReference{From: compiler.ObjectReference{Package: j.Pkg, Object: j.Obj}, To: compiler.ObjectReference{Package: j.ToPkg, Object: j.To}}
	case "constant_to_enum":
		return &compiler.ConstantToEnum{Objects: objRefs(j.Refs)}
	case "trim_enum_values":
		return &compiler.TrimEnumValues{}
	case "hint_object":
		h := ast.JenniesHints{}
		for k, v := range j.Hints {
			h[k] = loadDyn(v)
		}
		return &compiler.HintObject{Object: compiler.ObjectReference{Package: j.Pkg, Object: j.Obj}, Hints: h}
	case "schema_set_identifier":
		return &compiler.SchemaSetIdentifier{Package: j.Pkg, Identifier: j.Str}
	case "schema_set_entry_point":
		return &compiler.SchemaSetEntrypoint{Package: j.Pkg, EntryPoint: j.Str}
	case "prefix_object_names":
		return &compiler.PrefixObjectNames{Prefix: j.Str}
	case "append_comment_objects":
		return &compiler.AppendCommentObjects{Comment: j.Str}
	case "anonymous_structs_to_named":
		return &compiler.AnonymousStructsToNamed{}
	case "not_required_field_as_nullable_type":
		return &compiler.NotRequiredFieldAsNullableType{}
	case "disjunction_with_null_to_optional":
		return &compiler.DisjunctionWithNullToOptional{}
	case "disjunction_of_constants_to_enum":
		return &compiler.DisjunctionOfConstantsToEnum{}
	case "anonymous_enum_to_explicit_type":
		return &compiler.AnonymousEnumToExplicitType{}
	case "prefix_enum_values":
		return &compiler.PrefixEnumValues{}
	case "flatten_disjunctions":
		return &compiler.FlattenDisjunctions{}
	case "disjunction_of_anonymous_structs_to_explicit":
		return &compiler.DisjunctionOfAnonymousStructsToExplicit{}
	case "disjunction_infer_mapping":
		return &compiler.DisjunctionInferMapping{}
	case "undiscriminated_disjunction_to_any":
		return &compiler.UndiscriminatedDisjunctionToAny{}
	case "disjunction_to_type":
		return &compiler.DisjunctionToType{}
	case "remove_intersections":
		return &compiler.RemoveIntersections{}
	case "sanitize_enum_member_names":
		return &compiler.SanitizeEnumMemberNames{}
	case "inline_objects_with_types":
		ks := make([]ast.Kind, len(j.Kinds))
		for i, k := range j.Kinds {
			ks[i] = ast.Kind(k)
		}
		return &compiler.InlineObjectsWithTypes{InlineTypes: ks}
	case "rename_numeric_enum_values":
		return &compiler.RenameNumericEnumValues{}
	case "infer_entrypoint":
		return &compiler.InferEntrypoint{}
	case "unspec":
		return &compiler.Unspec{}
	case "name_anonymous_struct":
		return &compiler.NameAnonymousStruct{Field: compiler.FieldReference{Package: j.Pkg, Object: j.Obj, Field: j.Fld}, As: j.To}
	case "disjunction_with_constant_to_default":
		return &compiler.DisjunctionWithConstantToDefault{}
	case "dataquery_identification":
		return &compiler.DataqueryIdentification{}
	case "filter_schemas":
		return &compiler.FilterSchemas{AllowedObjects: objRefs(j.Refs)}
	}
	panic("unknown pass " + j.P)
}

func gObjRef(r compiler.ObjectReference) string {
	return "(" + gs(r.Package) + ", " + gs(r.Object) + ")"
}
func gObjRefs(rs []compiler.ObjectReference) string {
	items := make([]string, len(rs))
	for i, r := range rs {
		items[i] = gObjRef(r)
	}
	return gList(items)
}
func gFieldRef(r compiler.FieldReference) string {
	return "(" + gs(r.Package) + ", " + gs(r.Object) + ", " + gs(r.Field) + ")"
}
func gFieldRefs(rs []compiler.FieldReference) string {
	items := make([]string, len(rs))
	for i, r := range rs {
		items[i] = gFieldRef(r)
	}
	return gList(items)
}
func gOptStrs(l []string) string {
	if l == nil {
		return "None"
	}
	return "(Some " + gStrs(l) + ")"
}

func gPass(p compiler.Pass) string {
	switch x := p.(type) {
	case *compiler.RenameObject:
		return fmt.Sprintf("(PRenameObject %s %s %s)", gs(x.From.Package), gs(x.From.Object), gs(x.To))
	case *compiler.Omit:
		return "(POmit " + gObjRefs(x.Objects) + ")"
	case *compiler.OmitFields:
		return "(POmitFields " + gFieldRefs(x.Fields) + ")"
	case *compiler.AddFields:
		fs := make([]string, len(x.Fields))
		for i, f := range x.Fields {
			fs[i] = gField(f)
		}
		return fmt.Sprintf("(PAddFields %s %s %s)", gs(x.Object.Package), gs(x.Object.Object), gList(fs))
	case *compiler.AddObject:
		return fmt.Sprintf("(PAddObject %s %s %s %s)", gs(x.Object.Package), gs(x.Object.Object), gType(x.As), gStrs(x.Comments))
	case *compiler.DuplicateObject:
		return fmt.Sprintf("(PDuplicateObject %s %s %s %s %s)", gs(x.Object.Package), gs(x.Object.Object), gs(x.As.Package), gs(x.As.Object), gStrs(x.OmitFields))
	case *compiler.RetypeObject:
		return fmt.Sprintf("(PRetypeObject %s %s %s %s)", gs(x.Object.Package), gs(x.Object.Object), gType(x.As), gOptStrs(x.Comments))
	case *compiler.RetypeField:
		return fmt.Sprintf("(PRetypeField %s %s %s %s %s)", gs(x.Field.Package), gs(x.Field.Object), gs(x.Field.Field), gType(x.As), gOptStrs(x.Comments))
	case *compiler.FieldsSetRequired:
		return "(PFieldsSetRequired " + gFieldRefs(x.Fields) + ")"
	case *compiler.FieldsSetNotRequired:
		return "(PFieldsSetNotRequired " + gFieldRefs(x.Fields) + ")"
	case *compiler.FieldsSetDefault:
		keys := make([]compiler.FieldReference, 0, len(x.DefaultValues))
		for k := range x.DefaultValues {
			keys = append(keys, k)
		}
		sort.Slice(keys, func(i, j int) bool {
			a, b := keys[i], keys[j]
			if a.Package != b.Package {
				return a.Package < b.Package
			}
			if a.Object != b.Object {
				return a.Object < b.Object
			}
			return a.Field < b.Field
		})
		items := make([]string, len(keys))
		for i, k := range keys {
			items[i] = "(" + gs(k.Package) + ", " + gs(k.Object) + ", " + gs(k.Field) + ", " + gDyn(x.DefaultValues[k]) + ")"
		}
		return "(PFieldsSetDefault " + gList(items) + ")"
	case *compiler.ReplaceReference:
		return fmt.Sprintf("(PReplaceReference %s %s %s %s)", gs(x.From.Package), gs(x.From.Object), gs(x.To.Package), gs(x.To.Object))
	case *compiler.ConstantToEnum:
		return "(PConstantToEnum " + gObjRefs(x.Objects) + ")"
	case *compiler.TrimEnumValues, compiler.TrimEnumValues:
		return "PTrimEnumValues"
	case *compiler.HintObject:
		keys := make([]string, 0, len(x.Hints))
		for k := range x.Hints {
			keys = append(keys, k)
		}
		sort.Strings(keys)
		items := make([]string, len(keys))
		for i, k := range keys {
			items[i] = "(" + gs(k) + ", " + gDyn(x.Hints[k]) + ")"
		}
		return fmt.Sprintf("(PHintObject %s %s %s)", gs(x.Object.Package), gs(x.Object.Object), gList(items))
	case *compiler.SchemaSetIdentifier:
		return fmt.Sprintf("(PSchemaSetIdentifier %s %s)", gs(x.Package), gs(x.Identifier))
	case *compiler.SchemaSetEntrypoint:
		return fmt.Sprintf("(PSchemaSetEntrypoint %s %s)", gs(x.Package), gs(x.EntryPoint))
	case *compiler.PrefixObjectNames:
		return "(PPrefixObjectNames " + gs(x.Prefix) + ")"
	case *compiler.AppendCommentObjects:
		return "(PAppendCommentObjects " + gs(x.Comment) + ")"
	case *compiler.AnonymousStructsToNamed:
		return "PAnonymousStructsToNamed"
	case *compiler.NotRequiredFieldAsNullableType:
		return "PNotRequiredFieldAsNullableType"
	case *compiler.DisjunctionWithNullToOptional:
		return "PDisjunctionWithNullToOptional"
	case *compiler.DisjunctionOfConstantsToEnum:
		return "PDisjunctionOfConstantsToEnum"
	case *compiler.AnonymousEnumToExplicitType:
		return "PAnonymousEnumToExplicitType"
	case *compiler.PrefixEnumValues:
		return "PPrefixEnumValues"
	case *compiler.FlattenDisjunctions:
		return "PFlattenDisjunctions"
	case *compiler.DisjunctionOfAnonymousStructsToExplicit:
		return "PDisjunctionOfAnonymousStructsToExplicit"
	case *compiler.DisjunctionInferMapping:
		return "PDisjunctionInferMapping"
	case *compiler.UndiscriminatedDisjunctionToAny:
		return "PUndiscriminatedDisjunctionToAny"
	case *compiler.DisjunctionToType:
		return "PDisjunctionToType"
	case *compiler.RemoveIntersections:
		return "PRemoveIntersections"
	case *compiler.SanitizeEnumMemberNames:
		return "PSanitizeEnumMemberNames"
	case *compiler.InlineObjectsWithTypes:
		ks := make([]string, len(x.InlineTypes))
		for i, k := range x.InlineTypes {
			ks[i] = gs(string(k))
		}
		return "(PInlineObjectsWithTypes " + gList(ks) + ")"
	case *compiler.RenameNumericEnumValues:
		return "PRenameNumericEnumValues"
	case *compiler.InferEntrypoint:
		return "PInferEntrypoint"
	case *compiler.Unspec:
		return "PUnspec"
	case *compiler.NameAnonymousStruct:
		return fmt.Sprintf("(PNameAnonymousStruct %s %s %s %s)", gs(x.Field.Package), gs(x.Field.Object), gs(x.Field.Field), gs(x.As))
	case *compiler.DisjunctionWithConstantToDefault:
		return "PDisjunctionWithConstantToDefault"
	case *compiler.DataqueryIdentification:
		return "PDataqueryIdentification"
	case *compiler.FilterSchemas:
		return "(PFilterSchemas " + gObjRefs(x.AllowedObjects) + ")"
	}
	return "(PUnknown " + gs(fmt.Sprintf("%T", p)) + ")"
}

func gPasses(ps compiler.Passes) string {
	items := make([]string, len(ps))
	for i, p := range ps {
		items[i] = gPass(p)
	}
	return gList(items)
}

func runPasses(passes compiler.Passes, schemas ast.Schemas, direct bool) (out string) {
	defer func() {
		if r := recover(); r != nil {
			msg := fmt.Sprint(r)
			if len(msg) > 200 {
				msg = msg[:200]
			}
			out = "(Panic " + gs(msg) + ")"
		}
	}()
	var res ast.Schemas
	var err error
	if direct {
		res = schemas
		for _, p := range passes {
			res, err = p.Process(res)
			if err != nil {
				break
			}
		}
	} else {
		res, err = passes.Process(schemas)
	}
	if err != nil {
		return "(Err " + gs("error") + ")"
	}
	return "(Ok " + gSchemas(res) + ")"
}

// one result line:  INPUT <tab> PASSES <tab> OUTCOME <tab> INPUT-AFTER  (input printed again after
// the run: Passes.Process must not have changed it)
func init() {
	commands["passes"] = func(in *bufio.Scanner, out *bufio.Writer) error {
		for in.Scan() {
			var job passJob
			if err := json.Unmarshal(in.Bytes(), &job); err != nil {
				return err
			}
			line := func() (line string) {
				defer func() {
					if r := recover(); r != nil {
						line = "LOADPANIC\t" + strings.ReplaceAll(fmt.Sprint(r), "\n", " ")
					}
				}()
				schemas := loadSchemas(job.Schemas)
				var passes compiler.Passes
				if job.Yaml != "" {
					var err error
					passes, err = cogyaml.NewCompilerLoader().Load(strings.NewReader(job.Yaml))
					if err != nil {
						return "YAMLERR\t" + strings.ReplaceAll(err.Error(), "\n", " ")
					}
				} else if job.Lang != "" {
					passes = languageChain(job.Lang)
				} else {
					for _, jp := range job.Passes {
						passes = append(passes, buildPass(jp))
					}
				}
				before := gSchemas(schemas)
				gp := gPasses(passes)
				res := runPasses(passes, schemas, job.Direct)
				after := gSchemas(schemas)
				return before + "\t" + gp + "\t" + res + "\t" + after
			}()
			fmt.Fprintln(out, strings.ReplaceAll(line, "\n", " "))
		}
		return in.Err()
	}
}
