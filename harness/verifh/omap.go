package main

import (
	"bufio"
	"bytes"
	"encoding/json"
	"fmt"
	"os"
	"sort"
	"strings"

	"github.com/grafana/cog/internal/orderedmap"
)

// C19: run operation histories on the real ordered map; print, per operation, its output and
// the observation of every register as a Gallina term of type `trace` (Model/OMap.v).

type omapOp struct {
	Op  string   `json:"op"`
	R   int      `json:"r"`
	K   string   `json:"k"`
	V   int64    `json:"v"`
	I   int      `json:"i"`
	F   string   `json:"f"`
	Doc []omapKV `json:"doc"`
}

type omapKV struct {
	K string `json:"k"`
	V int64  `json:"v"`
}

type omapJob struct {
	Ops []omapOp `json:"ops"`
}

type om = orderedmap.Map[string, int64]

var omapAlphabet = []string{"a", "b", "cc", "zz"}

func gStr(s string) string { return fmt.Sprintf("%q", s) }
func gZ(v int64) string {
	if v < 0 {
		return fmt.Sprintf("(%d)%%Z", v)
	}
	return fmt.Sprintf("%d%%Z", v)
}
func gPairs(keys []string, vals []int64) string {
	parts := make([]string, len(keys))
	for i := range keys {
		parts[i] = fmt.Sprintf("(%s, %s)", gStr(keys[i]), gZ(vals[i]))
	}
	return "[" + strings.Join(parts, "; ") + "]"
}
func gZs(vals []int64) string {
	parts := make([]string, len(vals))
	for i := range vals {
		parts[i] = gZ(vals[i])
	}
	return "[" + strings.Join(parts, "; ") + "]"
}
func gBools(vals []bool) string {
	parts := make([]string, len(vals))
	for i := range vals {
		parts[i] = fmt.Sprintf("%t", vals[i])
	}
	return "[" + strings.Join(parts, "; ") + "]"
}

// parse the bytes MarshalJSON produced, keeping member order
func marshalProbeOK() bool {
	keys := []string{"q\"t", "b\\s", "d\x7fl", "c\x01l", "e\x1bc", "n\u00e9", "t\tb", "<&>", "\U0001F600"}
	probe := orderedmap.New[string, int64]()
	for i, k := range keys {
		probe.Set(k, int64(i))
	}
	raw, err := json.Marshal(probe)
	if err != nil {
		return false
	}
	jk, jv, err := orderedMembers(raw)
	if err != nil || len(jk) != len(keys) {
		return false
	}
	for i := range keys {
		if jk[i] != keys[i] || jv[i] != int64(i) {
			return false
		}
	}
	return true
}

func orderedMembers(raw []byte) ([]string, []int64, error) {
	dec := json.NewDecoder(bytes.NewReader(raw))
	t, err := dec.Token()
	if err != nil {
		return nil, nil, err
	}
	if d, ok := t.(json.Delim); !ok || d != '{' {
		return nil, nil, fmt.Errorf("not an object")
	}
	var keys []string
	var vals []int64
	for dec.More() {
		t, err = dec.Token()
		if err != nil {
			return nil, nil, err
		}
		k, ok := t.(string)
		if !ok {
			return nil, nil, fmt.Errorf("non-string key")
		}
		var v int64
		if err := dec.Decode(&v); err != nil {
			return nil, nil, err
		}
		keys = append(keys, k)
		vals = append(vals, v)
	}
	if _, err = dec.Token(); err != nil {
		return nil, nil, err
	}
	if dec.More() {
		return nil, nil, fmt.Errorf("trailing data")
	}
	return keys, vals, nil
}

func omapObserve(m *om) (res string) {
	defer func() {
		if r := recover(); r != nil {
			// an observation must never panic: report an impossible length so that it
			// cannot equal any model observation
			res = "{| o_len := 999999; o_iter := []; o_vals := []; o_has := []; o_get := []; o_at := []; o_json := [] |}"
		}
	}()
	var ik []string
	var iv []int64
	m.Iterate(func(k string, v int64) { ik = append(ik, k); iv = append(iv, v) })
	has := make([]bool, len(omapAlphabet))
	get := make([]int64, len(omapAlphabet))
	for i, k := range omapAlphabet {
		has[i] = m.Has(k)
		get[i] = m.Get(k)
	}
	var at []int64
	for i := 0; i < m.Len(); i++ {
		at = append(at, m.At(i))
	}
	raw, err := json.Marshal(m)
	var jk []string
	var jv []int64
	if err == nil {
		jk, jv, err = orderedMembers(raw)
	}
	if err != nil {
		jk, jv = []string{"<marshal error: " + err.Error() + ">"}, []int64{0}
	}
	return fmt.Sprintf("{| o_len := %d; o_iter := %s; o_vals := %s; o_has := %s; o_get := %s; o_at := %s; o_json := %s |}",
		m.Len(), gPairs(ik, iv), gZs(m.Values()), gBools(has), gZs(get), gZs(at), gPairs(jk, jv))
}

func docJSON(doc []omapKV) (string, []string, []int64) {
	var sb strings.Builder
	var keys []string
	var vals []int64
	sb.WriteByte('{')
	for i, kv := range doc {
		if i > 0 {
			sb.WriteByte(',')
		}
		kb, _ := json.Marshal(kv.K)
		sb.Write(kb)
		sb.WriteByte(':')
		fmt.Fprintf(&sb, "%d", kv.V)
		keys = append(keys, kv.K)
		vals = append(vals, kv.V)
	}
	sb.WriteByte('}')
	return sb.String(), keys, vals
}

func omapStep(regs *[]*om, op omapOp) (out string) {
	defer func() {
		if r := recover(); r != nil {
			out = "OutPanic"
		}
	}()
	needsReg := op.Op != "frommap" && op.Op != "new"
	var m *om
	if needsReg {
		if op.R < 0 || op.R >= len(*regs) {
			return "OutNoReg"
		}
		m = (*regs)[op.R]
	}
	switch op.Op {
	case "set":
		m.Set(op.K, op.V)
		return "OutUnit"
	case "get":
		return "(OutV " + gZ(m.Get(op.K)) + ")"
	case "has":
		return fmt.Sprintf("(OutB %t)", m.Has(op.K))
	case "at":
		return "(OutV " + gZ(m.At(op.I)) + ")"
	case "remove":
		m.Remove(op.K)
		return "OutUnit"
	case "len":
		return fmt.Sprintf("(OutN %d)", m.Len())
	case "iterate":
		var ik []string
		var iv []int64
		m.Iterate(func(k string, v int64) { ik = append(ik, k); iv = append(iv, v) })
		return "(OutPairs " + gPairs(ik, iv) + ")"
	case "values":
		return "(OutVals " + gZs(m.Values()) + ")"
	case "map":
		var f func(k string, v int64) int64
		switch op.F {
		case "VAdd1":
			f = func(_ string, v int64) int64 { return v + 1 }
		case "VConst7":
			f = func(_ string, _ int64) int64 { return 7 }
		default: // VKeyLen
			f = func(k string, v int64) int64 { return v + int64(len(k)) }
		}
		*regs = append(*regs, m.Map(f))
		return "OutUnit"
	case "filter":
		var p func(k string, v int64) bool
		switch op.F {
		case "PEven":
			p = func(_ string, v int64) bool { return v%2 == 0 }
		case "PNotA":
			p = func(k string, _ int64) bool { return k != "a" }
		case "PNone":
			p = func(string, int64) bool { return false }
		default: // PAll
			p = func(string, int64) bool { return true }
		}
		*regs = append(*regs, m.Filter(p))
		return "OutUnit"
	case "sort":
		var l func(a, b string) bool
		switch op.F {
		case "LAsc":
			l = func(a, b string) bool { return a < b }
		case "LDesc":
			l = func(a, b string) bool { return b < a }
		case "LNever":
			l = func(a, b string) bool { return false }
		default: // LLen
			l = func(a, b string) bool { return len(a) < len(b) }
		}
		m.Sort(l)
		return "OutUnit"
	case "marshal":
		raw, err := json.Marshal(m)
		if err != nil {
			return "OutPanic"
		}
		jk, jv, err := orderedMembers(raw)
		if err != nil {
			return "OutPanic"
		}
		// the text pipeline to Coq carries plain keys only: keys that need JSON escaping (quote, backslash, DEL,
		// control characters, non-ASCII, invalid UTF-8 is excluded) are probed here, on the same encoder, and a
		// probe that does not decode back to the same keys in the same order makes this marshal step fail
		if !marshalProbeOK() {
			return "OutPanic"
		}
		return "(OutPairs " + gPairs(jk, jv) + ")"
	case "unmarshal":
		text, _, _ := docJSON(op.Doc)
		if err := json.Unmarshal([]byte(text), m); err != nil {
			fmt.Fprintln(os.Stderr, "unmarshal:", err, text)
			return "OutPanic"
		}
		return "OutUnit"
	case "frommap":
		_, keys, vals := docJSON(op.Doc)
		gm := map[string]int64{}
		for i := range keys {
			gm[keys[i]] = vals[i]
		}
		*regs = append(*regs, orderedmap.FromMap(gm))
		return "OutUnit"
	case "new":
		*regs = append(*regs, orderedmap.New[string, int64]())
		return "OutUnit"
	}
	return "OutNoReg"
}

func init() {
	commands["omap"] = func(in *bufio.Scanner, out *bufio.Writer) error {
		for in.Scan() {
			var job omapJob
			if err := json.Unmarshal(in.Bytes(), &job); err != nil {
				return err
			}
			regs := []*om{orderedmap.New[string, int64]()}
			steps := make([]string, 0, len(job.Ops))
			for _, op := range job.Ops {
				o := omapStep(&regs, op)
				obs := make([]string, len(regs))
				for i, m := range regs {
					obs[i] = omapObserve(m)
				}
				steps = append(steps, fmt.Sprintf("(%s, [%s])", o, strings.Join(obs, "; ")))
			}
			fmt.Fprintf(out, "[%s]\n", strings.Join(steps, "; "))
		}
		return in.Err()
	}
	_ = sort.Strings
}
