package main

import (
	"bufio"
	"context"
	"encoding/json"
	"fmt"
	"os"
	"strings"

	"cuelang.org/go/cue/cuecontext"
	"github.com/getkin/kin-openapi/openapi3"
	"github.com/grafana/cog/internal/ast"
	"github.com/grafana/cog/internal/ast/compiler"
	"github.com/grafana/cog/internal/jennies/golang"
	"github.com/grafana/cog/internal/jennies/java"
	jsonschemajenny "github.com/grafana/cog/internal/jennies/jsonschema"
	openapijenny "github.com/grafana/cog/internal/jennies/openapi"
	"github.com/grafana/cog/internal/jennies/php"
	"github.com/grafana/cog/internal/jennies/python"
	"github.com/grafana/cog/internal/jennies/typescript"
	"github.com/grafana/cog/internal/jsonschema"
	"github.com/grafana/cog/internal/openapi"
	"github.com/grafana/cog/internal/simplecue"
)

// the built-in transformation chain of an output language, as cog itself builds it
func languageChain(lang string) compiler.Passes {
	switch lang {
	case "go":
		return golang.New(golang.Config{}).CompilerPasses()
	case "java":
		return java.New(java.Config{}).CompilerPasses()
	case "php":
		return php.New(php.Config{}).CompilerPasses()
	case "python":
		return python.New(python.Config{}).CompilerPasses()
	case "typescript":
		return typescript.New(typescript.Config{}).CompilerPasses()
	case "jsonschema":
		return jsonschemajenny.New(jsonschemajenny.Config{}).CompilerPasses()
	case "openapi":
		return openapijenny.New(openapijenny.Config{}).CompilerPasses()
	}
	panic("unknown language " + lang)
}

type parseJob struct {
	Format  string `json:"format"` // jsonschema | openapi | cue
	Path    string `json:"path"`
	Text    string `json:"text"`
	Pkg     string `json:"pkg"`
	Scratch string `json:"scratch"`
	// CUE only: simplecue.Config.ForceNamedEnvelope
	Envelope string `json:"envelope"`
}

func parseSchema(job parseJob) (*ast.Schema, error) {
	text := job.Text
	if text == "" {
		raw, err := os.ReadFile(job.Path)
		if err != nil {
			return nil, err
		}
		text = string(raw)
	}
	switch job.Format {
	case "jsonschema":
		return jsonschema.GenerateAST(strings.NewReader(text), jsonschema.Config{Package: job.Pkg})
	case "openapi":
		loader := openapi3.NewLoader()
		doc, err := loader.LoadFromData([]byte(text))
		if err != nil {
			return nil, err
		}
		return openapi.GenerateAST(context.Background(), doc, openapi.Config{Package: job.Pkg})
	case "cue":
		val := cuecontext.New().CompileString(text)
		if val.Err() != nil {
			return nil, val.Err()
		}
		return simplecue.GenerateAST(val, simplecue.Config{Package: job.Pkg, ForceNamedEnvelope: job.Envelope})
	}
	return nil, fmt.Errorf("unknown format %s", job.Format)
}

// parse: one line per job:  OK <tab> (format, [schema])   |  ERR <tab> msg  |  PANIC <tab> msg
func init() {
	commands["parse"] = func(in *bufio.Scanner, out *bufio.Writer) error {
		for in.Scan() {
			var job parseJob
			if err := json.Unmarshal(in.Bytes(), &job); err != nil {
				return err
			}
			line := func() (line string) {
				defer func() {
					if r := recover(); r != nil {
						line = "PANIC\t" + strings.ReplaceAll(fmt.Sprint(r), "\n", " ")
					}
				}()
				s, err := parseSchema(job)
				if err != nil {
					return "ERR\t" + strings.ReplaceAll(err.Error(), "\n", " ")
				}
				return "OK\t(" + gs(job.Format) + ", " + gSchemas(ast.Schemas{s}) + ")"
			}()
			fmt.Fprintln(out, strings.ReplaceAll(line, "\n", " "))
		}
		return in.Err()
	}
}
