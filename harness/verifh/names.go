package main

import (
	"bufio"
	"encoding/json"
	"fmt"

	"github.com/grafana/cog/internal/tools"
)

// tools_names: cog's identifier helpers on given strings (validates the ASCII models in Coq)
func init() {
	commands["names"] = func(in *bufio.Scanner, out *bufio.Writer) error {
		for in.Scan() {
			var s string
			if err := json.Unmarshal(in.Bytes(), &s); err != nil {
				return err
			}
			fmt.Fprintf(out, "(%s, %s, %s)\n", gs(s), gs(tools.UpperCamelCase(s)), gs(tools.LowerCamelCase(s)))
		}
		return in.Err()
	}
}
