// Harness injected into /repo's module at build time with `go build -overlay` (never committed
// to /repo). Each sub-command reads JSON lines on stdin and prints one result line per job.
package main

import (
	"bufio"
	"fmt"
	"os"
)

var commands = map[string]func(in *bufio.Scanner, out *bufio.Writer) error{}

func main() {
	if len(os.Args) < 2 {
		fmt.Fprintln(os.Stderr, "usage: verifh <command>")
		os.Exit(2)
	}
	cmd, ok := commands[os.Args[1]]
	if !ok {
		fmt.Fprintf(os.Stderr, "unknown command %q\n", os.Args[1])
		os.Exit(2)
	}
	in := bufio.NewScanner(os.Stdin)
	in.Buffer(make([]byte, 1<<20), 1<<28)
	out := bufio.NewWriterSize(os.Stdout, 1<<20)
	err := cmd(in, out)
	out.Flush()
	if err != nil {
		fmt.Fprintln(os.Stderr, "error:", err)
		os.Exit(1)
	}
}
