package main

import (
	"fmt"

	"github.com/grafana/cog/internal/ast"
)

// ---------- builder IR -> Gallina (coq/Model/Builders.v) ----------

func gArgument(a ast.Argument) string {
	return "(mkArg " + gs(a.Name) + " " + gType(a.Type) + ")"
}

func gOptArgument(a *ast.Argument) string {
	if a == nil {
		return "None"
	}
	return "(Some " + gArgument(*a) + ")"
}

func gPath(p ast.Path) string {
	items := make([]string, len(p))
	for i, it := range p {
		idx := "None"
		if it.Index != nil {
			idx = "(Some (mkPathIndex " + gOptArgument(it.Index.Argument) + " " + gDyn(it.Index.Constant) + "))"
		}
		hint := "None"
		if it.TypeHint != nil {
			hint = "(Some " + gType(*it.TypeHint) + ")"
		}
		items[i] = fmt.Sprintf("(mkPathItem %s %s %s %s %t)", gs(it.Identifier), idx, gType(it.Type), hint, it.Root)
	}
	return gList(items)
}

func gAValue(v ast.AssignmentValue) string {
	env := "None"
	if v.Envelope != nil {
		vals := make([]string, len(v.Envelope.Values))
		for i, ev := range v.Envelope.Values {
			vals[i] = "(" + gPath(ev.Path) + ", " + gAValue(ev.Value) + ")"
		}
		env = "(Some (" + gType(v.Envelope.Type) + ", " + gList(vals) + "))"
	}
	return "(AValue " + gOptArgument(v.Argument) + " " + gDyn(v.Constant) + " " + env + ")"
}

func gAssignment(a ast.Assignment) string {
	cs := make([]string, len(a.Constraints))
	for i, c := range a.Constraints {
		cs[i] = "(mkAConstraint " + gArgument(c.Argument) + " " + gs(string(c.Op)) + " " + gDyn(c.Parameter) + ")"
	}
	ncs := make([]string, len(a.NilChecks))
	for i, n := range a.NilChecks {
		ncs[i] = "(mkNilCheck " + gPath(n.Path) + " " + gType(n.EmptyValueType) + ")"
	}
	return "(mkAssignment " + gPath(a.Path) + " " + gAValue(a.Value) + " " + gs(string(a.Method)) + " " + gList(cs) + " " + gList(ncs) + ")"
}

func gAssignments(as []ast.Assignment) string {
	items := make([]string, len(as))
	for i, a := range as {
		items[i] = gAssignment(a)
	}
	return gList(items)
}

func gArguments(as []ast.Argument) string {
	items := make([]string, len(as))
	for i, a := range as {
		items[i] = gArgument(a)
	}
	return gList(items)
}

func gOption(o ast.Option) string {
	def := "None"
	if o.Default != nil {
		vals := make([]string, len(o.Default.ArgsValues))
		for i, v := range o.Default.ArgsValues {
			vals[i] = gDyn(v)
		}
		def = "(Some " + gList(vals) + ")"
	}
	return "(mkOption " + gs(o.Name) + " " + gStrs(o.Comments) + " " + gArguments(o.Args) + " " + gAssignments(o.Assignments) + " " + def + ")"
}

func gOCParam(p ast.OptionCallParameter) string {
	c := "None"
	if p.Constant != nil {
		c = "(Some (" + gType(p.Constant.Type) + ", " + gDyn(p.Constant.Value) + "))"
	}
	f := "None"
	if p.Factory != nil {
		ps := make([]string, len(p.Factory.Parameters))
		for i, x := range p.Factory.Parameters {
			ps[i] = gOCParam(x)
		}
		f = "(Some (" + gs(p.Factory.Ref.Package) + ", " + gs(p.Factory.Ref.Builder) + ", " + gs(p.Factory.Ref.Factory) + ", " + gList(ps) + "))"
	}
	return "(OCParam " + gOptArgument(p.Argument) + " " + c + " " + f + ")"
}

func gFactory(f ast.BuilderFactory) string {
	calls := make([]string, len(f.OptionCalls))
	for i, c := range f.OptionCalls {
		ps := make([]string, len(c.Parameters))
		for j, p := range c.Parameters {
			ps[j] = gOCParam(p)
		}
		calls[i] = "(mkOptionCall " + gs(c.Name) + " " + gList(ps) + ")"
	}
	return "(mkFactory " + gs(f.Name) + " " + gStrs(f.Comments) + " " + gArguments(f.Args) + " " + gList(calls) + ")"
}

func gBuilder(b ast.Builder) string {
	props := make([]string, len(b.Properties))
	for i, p := range b.Properties {
		props[i] = gField(p)
	}
	opts := make([]string, len(b.Options))
	for i, o := range b.Options {
		opts[i] = gOption(o)
	}
	facts := make([]string, len(b.Factories))
	for i, f := range b.Factories {
		facts[i] = gFactory(f)
	}
	ctor := "(mkConstructor " + gArguments(b.Constructor.Args) + " " + gAssignments(b.Constructor.Assignments) + ")"
	return "(mkBuilder " + gObject(b.For) + " " + gs(b.Package) + " " + gs(b.Name) + " " + gList(props) + " " + ctor + " " + gList(opts) + " " + gList(facts) + ")"
}

func gBuilders(bs []ast.Builder) string {
	items := make([]string, len(bs))
	for i, b := range bs {
		items[i] = gBuilder(b)
	}
	return gList(items)
}

