package main

import (
	"bufio"
	"context"
	"encoding/json"
	"fmt"
	"os"
	"path/filepath"
	"sort"
	"strings"

	"github.com/grafana/cog/internal/ast"
	"github.com/grafana/cog/internal/codegen"
	"github.com/grafana/cog/internal/languages"
	"github.com/grafana/cog/internal/tools"
)

// Command `gen` (C09 / C14): one job per line
//
//	{"id": "...", "config": "/abs/pipeline.yaml", "outdir": "/abs/dir"}
//
// The real pipeline is loaded with codegen.PipelineFromFile, the schemas are parsed and, for every
// configured output language, the language context is derived exactly as Pipeline.Run does
// (ContextForLanguage: language chain, BuilderGenerator.FromAST, the configured veneers,
// languages.GenerateBuilderNilChecks).  Per language the post-chain schemas and the builder IR the
// jennies generate from are printed as Gallina terms (coq/Model/IR.v, Builders.v) and as cog's own
// JSON (for the argument generators); then Pipeline.Run writes the files below "outdir" (the pipeline
// file sets output.directory to '%l', so Go lands in outdir/go and Python in outdir/python).
//
// Result line: one JSON object {"id", "status": "OK"|"ERR"|"PANIC", "stage", "message",
//
//	"langs": {"go": {"schemas": gallina, "builders": gallina, "schemas_json": ..., "builders_json": ...,
//	                 "objects": [...], "names": [...]}, "python": {...}},
//	"files": [...]}
type genJob struct {
	ID     string `json:"id"`
	Config string `json:"config"`
	Outdir string `json:"outdir"`
}

type objSummary struct {
	Pkg    string   `json:"pkg"`
	GoPkg  string   `json:"gopkg"`
	Name   string   `json:"name"`
	Go     string   `json:"go"`
	Kind   string   `json:"kind"`
	Union  string   `json:"union"`
	Fields []string `json:"fields"`
	// Ctor: the Go jenny prints New<Name>() (struct objects, and references whose referent is a struct object)
	Ctor bool `json:"ctor"`
}

// identifiers the jennies derive for one builder: Go `New<Go>Builder`, method `<GoOpt>`; Python class
// `<Py>` of module builders.<pymod>, method `<pyopt>` (+ "_val" when the option name is a Python keyword:
// decided by the Python driver with keyword.iskeyword)
type builderNames struct {
	Pkg     string            `json:"pkg"`
	Name    string            `json:"name"`
	ForPkg  string            `json:"for_pkg"`
	ForName string            `json:"for_name"`
	GoPkg   string            `json:"gopkg"`
	Go      string            `json:"go"`
	PyMod   string            `json:"pymod"`
	Py      string            `json:"py"`
	Options map[string]string `json:"go_options"`
	PyOpts  map[string]string `json:"py_options"`
}

type langOut struct {
	Schemas      string          `json:"schemas"`
	Builders     string          `json:"builders"`
	SchemasJSON  json.RawMessage `json:"schemas_json"`
	BuildersJSON json.RawMessage `json:"builders_json"`
	Objects      []objSummary    `json:"objects"`
	Names        []builderNames  `json:"names"`
}

type genOut struct {
	ID      string             `json:"id"`
	Status  string             `json:"status"`
	Stage   string             `json:"stage"`
	Message string             `json:"message"`
	Pre     string             `json:"pre"`
	Langs   map[string]langOut `json:"langs"`
	Files   []string           `json:"files"`
}

func oneLine(s string) string {
	s = strings.ReplaceAll(s, "\n", " ")
	s = strings.ReplaceAll(s, "\t", " ")
	if len(s) > 600 {
		s = s[:600]
	}
	return s
}

func lastSegment(pkg string) string {
	parts := strings.Split(pkg, "/")
	return parts[len(parts)-1]
}

func goPkgName(pkg string) string {
	return strings.ToLower(tools.CleanupNames(lastSegment(pkg)))
}

func objectSummary(schemas ast.Schemas) []objSummary {
	var out []objSummary
	for _, s := range schemas {
		if s == nil || s.Objects == nil {
			continue
		}
		s.Objects.Iterate(func(_ string, o ast.Object) {
			sum := objSummary{Pkg: s.Package, GoPkg: goPkgName(s.Package), Name: o.Name,
				Go: tools.UpperCamelCase(o.Name), Kind: string(o.Type.Kind)}
			if o.Type.IsRef() {
				if referred, found := schemas.LocateObjectByRef(*o.Type.Ref); found && referred.Type.IsStruct() {
					sum.Ctor = true
				}
			}
			if o.Type.IsStruct() {
				sum.Ctor = true
				if o.Type.HasHint(ast.HintDisjunctionOfScalars) {
					sum.Union = "scalars"
				}
				if o.Type.HasHint(ast.HintDiscriminatedDisjunctionOfRefs) {
					sum.Union = "refs"
				}
				for _, f := range o.Type.Struct.Fields {
					sum.Fields = append(sum.Fields, f.Name)
				}
			}
			out = append(out, sum)
		})
	}
	return out
}

func namesOf(bs ast.Builders) []builderNames {
	out := make([]builderNames, 0, len(bs))
	for _, b := range bs {
		n := builderNames{Pkg: b.Package, Name: b.Name, ForPkg: b.For.SelfRef.ReferredPkg, ForName: b.For.SelfRef.ReferredType,
			GoPkg: goPkgName(b.Package), Go: tools.UpperCamelCase(b.Name),
			PyMod: strings.ToLower(b.Package), Py: tools.UpperCamelCase(b.Name),
			Options: map[string]string{}, PyOpts: map[string]string{}}
		for _, o := range b.Options {
			n.Options[o.Name] = tools.UpperCamelCase(o.Name)
			n.PyOpts[o.Name] = tools.SnakeCase(strings.TrimLeft(o.Name, "$_"))
		}
		out = append(out, n)
	}
	return out
}

func runGen(job genJob) (res genOut) {
	res = genOut{ID: job.ID, Status: "OK", Stage: "load", Langs: map[string]langOut{}}
	defer func() {
		if r := recover(); r != nil {
			res.Status = "PANIC"
			res.Message = oneLine(fmt.Sprint(r))
		}
	}()
	fail := func(err error) genOut {
		res.Status = "ERR"
		res.Message = oneLine(err.Error())
		return res
	}
	ctx := context.Background()
	pipeline, err := codegen.PipelineFromFile(job.Config)
	if err != nil {
		return fail(err)
	}
	res.Stage = "parse"
	schemas, err := pipeline.LoadSchemas(ctx)
	if err != nil {
		return fail(err)
	}
	res.Pre = gSchemas(schemas)
	res.Stage = "chain"
	targets, err := pipeline.OutputLanguages()
	if err != nil {
		return fail(err)
	}
	names := make([]string, 0, len(targets))
	for name := range targets {
		names = append(names, name)
	}
	sort.Strings(names)
	for _, name := range names {
		var lctx languages.Context
		lctx, err = pipeline.ContextForLanguage(targets[name], schemas)
		if err != nil {
			return fail(err)
		}
		sj, err := json.Marshal(lctx.Schemas)
		if err != nil {
			return fail(err)
		}
		bj, err := json.Marshal(lctx.Builders)
		if err != nil {
			return fail(err)
		}
		res.Langs[name] = langOut{Schemas: gSchemas(lctx.Schemas), Builders: gBuilders(lctx.Builders),
			SchemasJSON: sj, BuildersJSON: bj, Objects: objectSummary(lctx.Schemas), Names: namesOf(lctx.Builders)}
	}
	res.Stage = "generate"
	fs, err := pipeline.Run(ctx)
	if err != nil {
		return fail(err)
	}
	res.Stage = "write"
	for _, f := range fs.AsFiles() {
		p := filepath.Join(job.Outdir, f.RelativePath)
		if err := os.MkdirAll(filepath.Dir(p), 0o755); err != nil {
			return fail(err)
		}
		if err := os.WriteFile(p, f.Data, 0o644); err != nil {
			return fail(err)
		}
		res.Files = append(res.Files, f.RelativePath)
	}
	sort.Strings(res.Files)
	res.Stage = ""
	return res
}

func init() {
	commands["gen"] = func(in *bufio.Scanner, out *bufio.Writer) error {
		for in.Scan() {
			var job genJob
			if err := json.Unmarshal(in.Bytes(), &job); err != nil {
				return err
			}
			b, err := json.Marshal(runGen(job))
			if err != nil {
				return err
			}
			out.Write(b)
			out.WriteByte('\n')
			out.Flush()
		}
		return in.Err()
	}
}
