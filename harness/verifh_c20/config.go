package main

import (
	"bufio"
	"encoding/json"
	"fmt"
	"os"
	"path/filepath"
	"strings"

	"github.com/grafana/cog/internal/codegen"
	"github.com/grafana/cog/internal/veneers/rewrite"
	cogyaml "github.com/grafana/cog/internal/yaml"
)

// `config <scratchdir>`: every job is {"loader": "pipeline"|"compiler_passes"|"veneers", "doc": "<yaml text>"}.
// The REAL loaders are used: codegen.PipelineFromFile (through a file under <scratchdir>),
// yaml.NewCompilerLoader().Load, yaml.NewVeneersLoader().RewriterFrom (through a file; its `load`
// is unexported). Result: {"ok":bool,"class":<coarse error class>,"err":<text>,"stage2":<text>}.
func init() { commands["config"] = cmdConfig }

type configJob struct {
	Loader string `json:"loader"`
	Doc    string `json:"doc"`
}

type configResult struct {
	OK     bool   `json:"ok"`
	Class  string `json:"class"`
	Err    string `json:"err,omitempty"`
	Stage2 string `json:"stage2,omitempty"`
}

func classify(err error) string {
	msg := err.Error()
	switch {
	case strings.Contains(msg, "not found in type"):
		return "unknown_field"
	case strings.Contains(msg, "already defined"):
		return "dup_key"
	case strings.Contains(msg, "cannot unmarshal"):
		return "type"
	case strings.Contains(msg, "empty "):
		return "empty"
	case strings.Contains(msg, "missing '") || strings.Contains(msg, "is required"):
		return "missing"
	case msg == "EOF":
		return "eof"
	case strings.Contains(msg, "invalid object reference") || strings.Contains(msg, "invalid field reference") ||
		strings.Contains(msg, "is incorrect"):
		return "value_format"
	case strings.HasPrefix(msg, "yaml: "):
		return "syntax"
	}
	return "other"
}

func runConfigJob(dir string, n int, job configJob) (res configResult) {
	defer func() {
		if r := recover(); r != nil {
			res = configResult{OK: false, Class: "panic", Err: fmt.Sprint(r)}
		}
	}()
	fail := func(err error) configResult {
		msg := err.Error()
		if len(msg) > 300 {
			msg = msg[:300]
		}
		return configResult{OK: false, Class: classify(err), Err: msg}
	}
	withFile := func(f func(path string) configResult) configResult {
		path := filepath.Join(dir, fmt.Sprintf("c20_%d_%d.yaml", os.Getpid(), n))
		if err := os.WriteFile(path, []byte(job.Doc), 0o600); err != nil {
			return configResult{OK: false, Class: "harness", Err: err.Error()}
		}
		defer os.Remove(path)
		return f(path)
	}
	switch job.Loader {
	case "pipeline":
		return withFile(func(path string) configResult {
			pipeline, err := codegen.PipelineFromFile(path)
			if err != nil {
				return fail(err)
			}
			// later stages (not part of loading; reported for information only)
			var stage2 []string
			if _, err := pipeline.OutputLanguages(); err != nil {
				stage2 = append(stage2, "OutputLanguages: "+err.Error())
			}
			for _, input := range pipeline.Inputs {
				if input == nil {
					continue
				}
				if err := input.InterpolateParameters(func(s string) string { return s }); err != nil {
					stage2 = append(stage2, "Input: "+err.Error())
				}
			}
			return configResult{OK: true, Class: "ok", Stage2: strings.Join(stage2, "; ")}
		})
	case "compiler_passes":
		_, err := cogyaml.NewCompilerLoader().Load(strings.NewReader(job.Doc))
		if err != nil {
			return fail(err)
		}
		return configResult{OK: true, Class: "ok"}
	case "veneers":
		return withFile(func(path string) configResult {
			_, err := cogyaml.NewVeneersLoader().RewriterFrom([]string{path}, rewrite.Config{})
			if err != nil {
				return fail(err)
			}
			return configResult{OK: true, Class: "ok"}
		})
	}
	return configResult{OK: false, Class: "harness", Err: "unknown loader " + job.Loader}
}

func cmdConfig(args []string, in *bufio.Scanner, out *bufio.Writer) error {
	if len(args) < 1 {
		return fmt.Errorf("usage: config <scratchdir>")
	}
	dir := args[0]
	n := 0
	for in.Scan() {
		line := in.Bytes()
		if len(strings.TrimSpace(string(line))) == 0 {
			continue
		}
		var job configJob
		if err := json.Unmarshal(line, &job); err != nil {
			return fmt.Errorf("bad job: %w", err)
		}
		n++
		res := runConfigJob(dir, n, job)
		b, _ := json.Marshal(res)
		out.Write(b)
		out.WriteByte('\n')
	}
	return in.Err()
}
