package main

import (
	"bufio"
	"encoding"
	"encoding/json"
	"fmt"
	"go/ast"
	"go/parser"
	"go/token"
	"os"
	"path/filepath"
	"reflect"
	"sort"
	"strconv"
	"strings"

	"github.com/grafana/cog/internal/codegen"
	cogyaml "github.com/grafana/cog/internal/yaml"
	"gopkg.in/yaml.v3"
)

// `keys <repo>`: the loader side of the C20 translator.
//
//  1. For each of the three loader roots (codegen.Pipeline, yaml.Compiler, yaml.Veneers) walk, by
//     reflection over the types compiled from /repo's working tree, everything yaml.v3 can decode
//     into, applying yaml.v3's own naming rules (getStructInfo in yaml.v3/yaml.go): unexported
//     fields skipped, `yaml:"-"` skipped, explicit tag name, else the lower-cased field name,
//     `,inline` structs flattened / inline maps as "extra keys allowed", pointers looked through,
//     slices and maps descended, `any` free-form, types with their own UnmarshalYAML opaque.
//  2. With go/parser over internal/yaml/*.go: every As… method, classified as a union dispatch
//     (if-chain over the receiver's nil-able members ending in an error) or a plain conversion,
//     with the members dispatched (in order), the conversions called on members / on the
//     receiver, and the `== ""` guards.
//  3. With go/parser over internal/codegen and internal/yaml: every yaml.NewDecoder / yaml.Unmarshal
//     and whether KnownFields(true) is applied to it in the same function.
func init() { commands["keys"] = cmdKeys }

type jnode map[string]any

type jfield struct {
	Key     string `json:"key"`
	GoField string `json:"go_field"` // path of Go field names (inline structs: Outer.Inner)
	GoType  string `json:"go_type"`
	Nilable bool   `json:"nilable"`
	Node    jnode  `json:"node"`
}

type jobjdef struct {
	GoType string   `json:"go_type"`
	Fields []jfield `json:"fields"`
	Extra  jnode    `json:"extra"` // nil = closed (KnownFields applies); else inline map value node
	Inline []string `json:"inline"` // Go types of structs flattened into this one
}

type jforest struct {
	RootType string              `json:"root_type"`
	Root     jnode               `json:"root"`
	Defs     map[string]*jobjdef `json:"defs"`
	Order    []string            `json:"order"`
	Opaque   []string            `json:"opaque"`
}

type walker struct {
	forest *jforest
	names  map[reflect.Type]string
	used   map[string]reflect.Type
}

var (
	yamlUnmarshalerT = reflect.TypeOf((*yaml.Unmarshaler)(nil)).Elem()
	textUnmarshalerT = reflect.TypeOf((*encoding.TextUnmarshaler)(nil)).Elem()
)

type obsoleteUnmarshaler interface {
	UnmarshalYAML(unmarshal func(interface{}) error) error
}

var obsoleteUnmarshalerT = reflect.TypeOf((*obsoleteUnmarshaler)(nil)).Elem()

func customYAML(t reflect.Type) bool {
	if t.Kind() == reflect.Interface {
		return false
	}
	pt := reflect.PointerTo(t)
	return t.Implements(yamlUnmarshalerT) || pt.Implements(yamlUnmarshalerT) ||
		t.Implements(obsoleteUnmarshalerT) || pt.Implements(obsoleteUnmarshalerT)
}

func (w *walker) typeName(t reflect.Type, hint string) string {
	if n, ok := w.names[t]; ok {
		return n
	}
	name := hint
	if t.Name() != "" {
		parts := strings.Split(t.PkgPath(), "/")
		name = parts[len(parts)-1] + "." + t.Name()
	}
	base := name
	for i := 2; ; i++ {
		if _, taken := w.used[name]; !taken {
			break
		}
		name = base + "~" + strconv.Itoa(i)
	}
	w.names[t] = name
	w.used[name] = t
	return name
}

func (w *walker) opaque(t reflect.Type, why string) jnode {
	s := t.String() + ": " + why
	for _, o := range w.forest.Opaque {
		if o == s {
			return jnode{"k": "unknown", "why": s}
		}
	}
	w.forest.Opaque = append(w.forest.Opaque, s)
	return jnode{"k": "unknown", "why": s}
}

func (w *walker) node(t reflect.Type, hint string) jnode {
	if customYAML(t) {
		return w.opaque(t, "custom UnmarshalYAML")
	}
	switch t.Kind() {
	case reflect.Ptr:
		return w.node(t.Elem(), hint)
	case reflect.Struct:
		name := w.typeName(t, hint)
		if _, done := w.forest.Defs[name]; !done {
			def := &jobjdef{GoType: t.PkgPath() + "." + t.Name(), Fields: []jfield{}, Inline: []string{}}
			w.forest.Defs[name] = def
			w.forest.Order = append(w.forest.Order, name)
			w.structFields(t, name, "", def)
		}
		return jnode{"k": "obj", "ref": name}
	case reflect.Slice, reflect.Array:
		if t.Elem().Kind() == reflect.Uint8 {
			return jnode{"k": "scalar", "t": "string"}
		}
		return jnode{"k": "seq", "e": w.node(t.Elem(), hint+"[]")}
	case reflect.Map:
		return jnode{"k": "map", "e": w.node(t.Elem(), hint+"{}")}
	case reflect.Interface:
		if t.NumMethod() == 0 {
			return jnode{"k": "any"}
		}
		return w.opaque(t, "non-empty interface")
	case reflect.String:
		return jnode{"k": "scalar", "t": "string"}
	case reflect.Bool:
		return jnode{"k": "scalar", "t": "bool"}
	case reflect.Int, reflect.Int8, reflect.Int16, reflect.Int32, reflect.Int64,
		reflect.Uint, reflect.Uint8, reflect.Uint16, reflect.Uint32, reflect.Uint64, reflect.Uintptr:
		return jnode{"k": "scalar", "t": "int"}
	case reflect.Float32, reflect.Float64:
		return jnode{"k": "scalar", "t": "float"}
	}
	if reflect.PointerTo(t).Implements(textUnmarshalerT) {
		return jnode{"k": "scalar", "t": "string"}
	}
	return w.opaque(t, "kind "+t.Kind().String())
}

// structFields mirrors yaml.v3 getStructInfo.
func (w *walker) structFields(t reflect.Type, defName, goPrefix string, def *jobjdef) {
	for i := 0; i < t.NumField(); i++ {
		field := t.Field(i)
		if field.PkgPath != "" && !field.Anonymous {
			continue // private field
		}
		tag := field.Tag.Get("yaml")
		if tag == "" && !strings.Contains(string(field.Tag), ":") {
			tag = string(field.Tag)
		}
		if tag == "-" {
			continue
		}
		inline := false
		fields := strings.Split(tag, ",")
		if len(fields) > 1 {
			for _, flag := range fields[1:] {
				if flag == "inline" {
					inline = true
				}
			}
			tag = fields[0]
		}
		if inline {
			ft := field.Type
			if ft.Kind() == reflect.Ptr {
				ft = ft.Elem()
			}
			switch ft.Kind() {
			case reflect.Map:
				def.Extra = w.node(ft.Elem(), defName+"#inline")
			case reflect.Struct:
				def.Inline = append(def.Inline, ft.PkgPath()+"."+ft.Name())
				w.structFields(ft, defName, goPrefix+field.Name+".", def)
			default:
				def.Extra = w.opaque(ft, "inline on a non-struct, non-map field")
			}
			continue
		}
		key := tag
		if key == "" {
			key = strings.ToLower(field.Name)
		}
		nilable := false
		switch field.Type.Kind() {
		case reflect.Ptr, reflect.Map, reflect.Slice, reflect.Interface:
			nilable = true
		}
		def.Fields = append(def.Fields, jfield{
			Key: key, GoField: goPrefix + field.Name, GoType: field.Type.String(), Nilable: nilable,
			Node: w.node(field.Type, defName+"#"+key),
		})
	}
}

func reflectForest(root any) *jforest {
	t := reflect.TypeOf(root)
	f := &jforest{RootType: t.String(), Defs: map[string]*jobjdef{}, Order: []string{}, Opaque: []string{}}
	w := &walker{forest: f, names: map[reflect.Type]string{}, used: map[string]reflect.Type{}}
	f.Root = w.node(t, "root")
	return f
}

// ---------------------------------------------------------------- go/parser part

type jmember struct {
	Field string   `json:"field"`
	Calls []string `json:"calls"`
}

type jmethod struct {
	Recv          string     `json:"recv"`
	Name          string     `json:"name"`
	Kind          string     `json:"kind"` // union | plain
	Members       []jmember  `json:"members"`
	EmptyRejected bool       `json:"empty_rejected"`
	SelfCalls     []string   `json:"self_calls"`
	FieldCalls    []jmember  `json:"field_calls"`
	NonEmpty      [][]string `json:"nonempty"`
	File          string     `json:"file"`
}

type jdecoder struct {
	File        string `json:"file"`
	Func        string `json:"func"`
	Call        string `json:"call"`
	Var         string `json:"var"`
	KnownFields bool   `json:"known_fields"`
}

func recvInfo(fd *ast.FuncDecl) (recvName, recvType string) {
	if fd.Recv == nil || len(fd.Recv.List) == 0 {
		return "", ""
	}
	f := fd.Recv.List[0]
	if len(f.Names) > 0 {
		recvName = f.Names[0].Name
	}
	t := f.Type
	if st, ok := t.(*ast.StarExpr); ok {
		t = st.X
	}
	if id, ok := t.(*ast.Ident); ok {
		recvType = id.Name
	}
	return
}

// recv.F  ->  F
func recvField(e ast.Expr, recv string) (string, bool) {
	sel, ok := e.(*ast.SelectorExpr)
	if !ok {
		return "", false
	}
	id, ok := sel.X.(*ast.Ident)
	if !ok || id.Name != recv {
		return "", false
	}
	return sel.Sel.Name, true
}

func isNil(e ast.Expr) bool {
	id, ok := e.(*ast.Ident)
	return ok && id.Name == "nil"
}

// calls of As… methods inside n: on the receiver itself (promoted or own) and on receiver.F
func asCalls(n ast.Node, recv string) (self []string, onField []jmember) {
	byField := map[string][]string{}
	var order []string
	ast.Inspect(n, func(x ast.Node) bool {
		call, ok := x.(*ast.CallExpr)
		if !ok {
			return true
		}
		sel, ok := call.Fun.(*ast.SelectorExpr)
		if !ok || !strings.HasPrefix(sel.Sel.Name, "As") {
			return true
		}
		if id, ok := sel.X.(*ast.Ident); ok && id.Name == recv {
			self = append(self, sel.Sel.Name)
			return true
		}
		if f, ok := recvField(sel.X, recv); ok {
			if _, seen := byField[f]; !seen {
				order = append(order, f)
			}
			byField[f] = append(byField[f], sel.Sel.Name)
		}
		return true
	})
	for _, f := range order {
		onField = append(onField, jmember{Field: f, Calls: byField[f]})
	}
	return
}

// cond is  recv.A == "" && recv.B == "" …
func emptyStringGuard(cond ast.Expr, recv string) ([]string, bool) {
	switch c := cond.(type) {
	case *ast.ParenExpr:
		return emptyStringGuard(c.X, recv)
	case *ast.BinaryExpr:
		if c.Op == token.LAND {
			l, ok1 := emptyStringGuard(c.X, recv)
			r, ok2 := emptyStringGuard(c.Y, recv)
			return append(l, r...), ok1 && ok2
		}
		if c.Op == token.EQL {
			if lit, ok := c.Y.(*ast.BasicLit); ok && lit.Kind == token.STRING && lit.Value == `""` {
				if f, ok := recvField(c.X, recv); ok {
					return []string{f}, true
				}
			}
		}
	}
	return nil, false
}

func returnsError(body *ast.BlockStmt) bool {
	if len(body.List) == 0 {
		return false
	}
	ret, ok := body.List[len(body.List)-1].(*ast.ReturnStmt)
	if !ok || len(ret.Results) == 0 {
		return false
	}
	return !isNil(ret.Results[len(ret.Results)-1])
}

func analyseAsMethod(fd *ast.FuncDecl, file string) jmethod {
	recv, recvType := recvInfo(fd)
	m := jmethod{Recv: recvType, Name: fd.Name.Name, Kind: "plain", Members: []jmember{}, SelfCalls: []string{},
		FieldCalls: []jmember{}, NonEmpty: [][]string{}, File: file}
	stmts := fd.Body.List
	// union shape: if recv.F != nil {...} … ; return …
	isUnion := len(stmts) >= 2
	var members []jmember
	if isUnion {
		for _, st := range stmts[:len(stmts)-1] {
			ifs, ok := st.(*ast.IfStmt)
			if !ok || ifs.Init != nil || ifs.Else != nil {
				isUnion = false
				break
			}
			be, ok := ifs.Cond.(*ast.BinaryExpr)
			if !ok || be.Op != token.NEQ || !isNil(be.Y) {
				isUnion = false
				break
			}
			f, ok := recvField(be.X, recv)
			if !ok {
				isUnion = false
				break
			}
			_, onField := asCalls(ifs.Body, recv)
			calls := []string{}
			for _, fc := range onField {
				if fc.Field == f {
					calls = fc.Calls
				}
			}
			members = append(members, jmember{Field: f, Calls: calls})
		}
		if _, ok := stmts[len(stmts)-1].(*ast.ReturnStmt); !ok {
			isUnion = false
		}
	}
	if isUnion {
		m.Kind = "union"
		m.Members = members
		m.EmptyRejected = returnsError(fd.Body)
		return m
	}
	self, onField := asCalls(fd.Body, recv)
	for _, s := range self {
		if s != fd.Name.Name {
			m.SelfCalls = append(m.SelfCalls, s)
		}
	}
	if onField != nil {
		m.FieldCalls = onField
	}
	for _, st := range stmts {
		if ifs, ok := st.(*ast.IfStmt); ok && ifs.Init == nil {
			if fs, ok := emptyStringGuard(ifs.Cond, recv); ok && returnsError(ifs.Body) {
				m.NonEmpty = append(m.NonEmpty, fs)
			}
		}
	}
	return m
}

func yamlImportName(f *ast.File) string {
	for _, imp := range f.Imports {
		if imp.Path.Value == `"gopkg.in/yaml.v3"` {
			if imp.Name != nil {
				return imp.Name.Name
			}
			return "yaml"
		}
	}
	return ""
}

func analyseDecoders(f *ast.File, file string) []jdecoder {
	yn := yamlImportName(f)
	if yn == "" {
		return nil
	}
	var out []jdecoder
	for _, decl := range f.Decls {
		fd, ok := decl.(*ast.FuncDecl)
		if !ok || fd.Body == nil {
			continue
		}
		fname := fd.Name.Name
		if _, rt := recvInfo(fd); rt != "" {
			fname = rt + "." + fname
		}
		isYamlCall := func(e ast.Expr, name string) bool {
			call, ok := e.(*ast.CallExpr)
			if !ok {
				return false
			}
			sel, ok := call.Fun.(*ast.SelectorExpr)
			if !ok || sel.Sel.Name != name {
				return false
			}
			id, ok := sel.X.(*ast.Ident)
			return ok && id.Name == yn
		}
		vars := map[string]bool{}
		var order []string
		strict := map[string]bool{}
		ast.Inspect(fd.Body, func(x ast.Node) bool {
			switch s := x.(type) {
			case *ast.AssignStmt:
				for i, rhs := range s.Rhs {
					if isYamlCall(rhs, "NewDecoder") && i < len(s.Lhs) {
						if id, ok := s.Lhs[i].(*ast.Ident); ok {
							vars[id.Name] = true
							order = append(order, id.Name)
						}
					}
				}
			case *ast.CallExpr:
				if isYamlCall(s, "Unmarshal") {
					out = append(out, jdecoder{File: file, Func: fname, Call: "Unmarshal", KnownFields: false})
				}
				if sel, ok := s.Fun.(*ast.SelectorExpr); ok && sel.Sel.Name == "KnownFields" && len(s.Args) == 1 {
					if id, ok := sel.X.(*ast.Ident); ok {
						if arg, ok := s.Args[0].(*ast.Ident); ok && arg.Name == "true" {
							strict[id.Name] = true
						}
					}
				}
				// yaml.NewDecoder(r).Decode(x): a decoder that is never bound cannot be made strict
				if sel, ok := s.Fun.(*ast.SelectorExpr); ok && isYamlCall(sel.X, "NewDecoder") {
					out = append(out, jdecoder{File: file, Func: fname, Call: "NewDecoder(unbound)", KnownFields: false})
				}
			}
			return true
		})
		for _, v := range order {
			out = append(out, jdecoder{File: file, Func: fname, Call: "NewDecoder", Var: v, KnownFields: strict[v]})
		}
	}
	return out
}

func parseDir(repo, rel string) (map[string]*ast.File, error) {
	dir := filepath.Join(repo, rel)
	entries, err := os.ReadDir(dir)
	if err != nil {
		return nil, err
	}
	fset := token.NewFileSet()
	files := map[string]*ast.File{}
	for _, e := range entries {
		n := e.Name()
		if e.IsDir() || !strings.HasSuffix(n, ".go") || strings.HasSuffix(n, "_test.go") {
			continue
		}
		f, err := parser.ParseFile(fset, filepath.Join(dir, n), nil, parser.SkipObjectResolution)
		if err != nil {
			return nil, err
		}
		files[filepath.Join(rel, n)] = f
	}
	return files, nil
}

func cmdKeys(args []string, in *bufio.Scanner, out *bufio.Writer) error {
	if len(args) < 1 {
		return fmt.Errorf("usage: keys <repo>")
	}
	repo := args[0]
	res := map[string]any{
		"files": map[string]*jforest{
			"pipeline":        reflectForest(&codegen.Pipeline{}),
			"compiler_passes": reflectForest(&cogyaml.Compiler{}),
			"veneers":         reflectForest(&cogyaml.Veneers{}),
		},
	}
	methods := []jmethod{}
	decoders := []jdecoder{}
	for _, rel := range []string{"internal/yaml", "internal/codegen"} {
		files, err := parseDir(repo, rel)
		if err != nil {
			return err
		}
		names := make([]string, 0, len(files))
		for n := range files {
			names = append(names, n)
		}
		sort.Strings(names)
		for _, n := range names {
			f := files[n]
			decoders = append(decoders, analyseDecoders(f, n)...)
			if rel != "internal/yaml" {
				continue
			}
			for _, decl := range f.Decls {
				fd, ok := decl.(*ast.FuncDecl)
				if !ok || fd.Body == nil || fd.Recv == nil || !strings.HasPrefix(fd.Name.Name, "As") {
					continue
				}
				methods = append(methods, analyseAsMethod(fd, n))
			}
		}
	}
	res["methods"] = methods
	res["decoders"] = decoders
	b, err := json.Marshal(res)
	if err != nil {
		return err
	}
	out.Write(b)
	out.WriteByte('\n')
	return nil
}
