// C20 harness, injected into /repo's module at build time with `go build -overlay` (never
// committed to /repo).
//
//	verifh_c20 keys <repo>          loader-side translator: key forests (reflection, yaml.v3 naming
//	                                rules), union registries and decoder table (go/parser) -> JSON
//	verifh_c20 config <scratchdir>  run the REAL loaders on YAML documents (JSON lines on stdin),
//	                                one result line per job
package main

import (
	"bufio"
	"fmt"
	"os"
)

var commands = map[string]func(args []string, in *bufio.Scanner, out *bufio.Writer) error{}

func main() {
	if len(os.Args) < 2 {
		fmt.Fprintln(os.Stderr, "usage: verifh_c20 <command> [args]")
		os.Exit(2)
	}
	cmd, ok := commands[os.Args[1]]
	if !ok {
		fmt.Fprintf(os.Stderr, "unknown command %q\n", os.Args[1])
		os.Exit(2)
	}
	in := bufio.NewScanner(os.Stdin)
	in.Buffer(make([]byte, 1<<20), 1<<28)
	out := bufio.NewWriterSize(os.Stdout, 1<<20)
	err := cmd(os.Args[2:], in, out)
	out.Flush()
	if err != nil {
		fmt.Fprintln(os.Stderr, "error:", err)
		os.Exit(1)
	}
}
