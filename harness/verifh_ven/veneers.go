package main

// C17 harness: builders from the real FromAST, rewritten by the real veneers machinery
// (rewrite.Rewriter.ApplyTo), rules either loaded through the real YAML veneers loader or
// constructed directly through the Go rule constructors.  Everything is printed as Gallina terms
// of coq/Model/Veneers.v (yaml-level rule descriptions) and coq/Model/Builders.v (builders).

import (
	"bufio"
	"encoding/json"
	"fmt"
	"os"
	"path/filepath"
	"sort"
	"strings"

	"github.com/grafana/cog/internal/ast"
	"github.com/grafana/cog/internal/veneers"
	"github.com/grafana/cog/internal/veneers/builder"
	"github.com/grafana/cog/internal/veneers/option"
	"github.com/grafana/cog/internal/veneers/rewrite"
	cogyaml "github.com/grafana/cog/internal/yaml"
	"gopkg.in/yaml.v3"
)

// ---------- job JSON (mirrors the YAML veneer format; embedded types are jType, values jDyn) ----------

type jArg struct {
	Name string `json:"name"`
	Type *jType `json:"type"`
}

type jBSel struct {
	ByObject  *string `json:"by_object"`
	ByName    *string `json:"by_name"`
	ByVariant *string `json:"by_variant"`
	GFD       *bool   `json:"generated_from_disjunction"`
}

type jVValue struct {
	Argument *jArg           `json:"argument"`
	Constant json.RawMessage `json:"constant"`
	Envelope *struct {
		Values []struct {
			Field string  `json:"field"`
			Value jVValue `json:"value"`
		} `json:"values"`
	} `json:"envelope"`
}

type jVAssignment struct {
	Path   string  `json:"path"`
	Method string  `json:"method"`
	Value  jVValue `json:"value"`
}

type jVOption struct {
	Name        string         `json:"name"`
	Comments    []string       `json:"comments"`
	Arguments   []jArg         `json:"arguments"`
	Assignments []jVAssignment `json:"assignments"`
}

type jOCParam struct {
	Argument *jArg `json:"argument"`
	Constant *struct {
		Type  *jType          `json:"type"`
		Value json.RawMessage `json:"value"`
	} `json:"constant"`
	Factory *struct {
		Ref struct {
			Package string `json:"package"`
			Builder string `json:"builder"`
			Factory string `json:"factory"`
		} `json:"ref"`
		Parameters []jOCParam `json:"parameters"`
	} `json:"factory"`
}

type jFactory struct {
	Name      string   `json:"name"`
	Comments  []string `json:"comments"`
	Arguments []jArg   `json:"arguments"`
	Options   []struct {
		Name       string     `json:"name"`
		Parameters []jOCParam `json:"parameters"`
	} `json:"options"`
}

type jBRule struct {
	Omit   *jBSel `json:"omit"`
	Rename *struct {
		jBSel
		As string `json:"as"`
	} `json:"rename"`
	MergeInto *struct {
		Destination    string            `json:"destination"`
		Source         string            `json:"source"`
		UnderPath      string            `json:"under_path"`
		ExcludeOptions []string          `json:"exclude_options"`
		RenameOptions  map[string]string `json:"rename_options"`
	} `json:"merge_into"`
	Compose *struct {
		jBSel
		SourceBuilderName        string            `json:"source_builder_name"`
		PluginDiscriminatorField string            `json:"plugin_discriminator_field"`
		ExcludeOptions           []string          `json:"exclude_options"`
		CompositionMap           map[string]string `json:"composition_map"`
		ComposedBuilderName      string            `json:"composed_builder_name"`
		PreserveOriginalBuilders bool              `json:"preserve_original_builders"`
	} `json:"compose"`
	Properties *struct {
		jBSel
		Set []jField `json:"set"`
	} `json:"properties"`
	Duplicate *struct {
		jBSel
		As             string   `json:"as"`
		ExcludeOptions []string `json:"exclude_options"`
	} `json:"duplicate"`
	Initialize *struct {
		jBSel
		Set []struct {
			Property string          `json:"property"`
			Value    json.RawMessage `json:"value"`
		} `json:"set"`
	} `json:"initialize"`
	Promote *struct {
		jBSel
		Options []string `json:"options"`
	} `json:"promote_options_to_constructor"`
	AddOption *struct {
		jBSel
		Option jVOption `json:"option"`
	} `json:"add_option"`
	AddFactory *struct {
		jBSel
		Factory jFactory `json:"factory"`
	} `json:"add_factory"`
}

type jOSel struct {
	ByName    *string `json:"by_name"`
	ByBuilder *string `json:"by_builder"`
	ByNames   *struct {
		Object  string   `json:"object"`
		Builder string   `json:"builder"`
		Options []string `json:"options"`
	} `json:"by_names"`
}

type jORule struct {
	Omit   *jOSel `json:"omit"`
	Rename *struct {
		jOSel
		As string `json:"as"`
	} `json:"rename"`
	RenameArguments *struct {
		jOSel
		As []string `json:"as"`
	} `json:"rename_arguments"`
	UnfoldBoolean *struct {
		jOSel
		TrueAs  string `json:"true_as"`
		FalseAs string `json:"false_as"`
	} `json:"unfold_boolean"`
	SFAArguments *struct {
		jOSel
		Fields *[]string `json:"fields"`
	} `json:"struct_fields_as_arguments"`
	SFAOptions *struct {
		jOSel
		Fields *[]string `json:"fields"`
	} `json:"struct_fields_as_options"`
	ArrayToAppend        *jOSel `json:"array_to_append"`
	MapToIndex           *jOSel `json:"map_to_index"`
	DisjunctionAsOptions *struct {
		jOSel
		ArgumentIndex int `json:"argument_index"`
	} `json:"disjunction_as_options"`
	Duplicate *struct {
		jOSel
		As string `json:"as"`
	} `json:"duplicate"`
	AddAssignment *struct {
		jOSel
		Assignment jVAssignment `json:"assignment"`
	} `json:"add_assignment"`
	AddComments *struct {
		jOSel
		Comments []string `json:"comments"`
	} `json:"add_comments"`
}

type jFile struct {
	Language string   `json:"language"`
	Package  string   `json:"package"`
	Builders []jBRule `json:"builders"`
	Options  []jORule `json:"options"`
	Yaml     string   `json:"yaml"` // the same file rendered as YAML text (used when via == "yaml")
}

type venJob struct {
	Schemas  []jSchema `json:"schemas"`
	Language string    `json:"language"`
	Via      string    `json:"via"` // "yaml" | "direct"
	Files    []jFile   `json:"files"`
	Report   bool      `json:"report"` // also print the sharing report (dev aid)
}

// ---------- job JSON -> the exported structs of internal/yaml (plain construction, no method of theirs) ----------

func cArg(a jArg) ast.Argument { return ast.Argument{Name: a.Name, Type: loadType(a.Type)} }

func cArgs(as []jArg) []ast.Argument {
	if as == nil {
		return nil
	}
	out := make([]ast.Argument, len(as))
	for i, a := range as {
		out[i] = cArg(a)
	}
	return out
}

func cBSel(s jBSel) cogyaml.BuilderSelector {
	return cogyaml.BuilderSelector{ByObject: s.ByObject, ByName: s.ByName, ByVariant: s.ByVariant, GeneratedFromDisjunction: s.GFD}
}

func cVValue(v jVValue) veneers.AssignmentValue {
	out := veneers.AssignmentValue{Constant: loadDyn(v.Constant)}
	if v.Argument != nil {
		a := cArg(*v.Argument)
		out.Argument = &a
	}
	if v.Envelope != nil {
		env := veneers.AssignmentEnvelope{}
		for _, ev := range v.Envelope.Values {
			env.Values = append(env.Values, veneers.EnvelopeFieldValue{Field: ev.Field, Value: cVValue(ev.Value)})
		}
		out.Envelope = &env
	}
	return out
}

func cVAssignment(a jVAssignment) veneers.Assignment {
	return veneers.Assignment{Path: a.Path, Method: ast.AssignmentMethod(a.Method), Value: cVValue(a.Value)}
}

func cVOption(o jVOption) veneers.Option {
	out := veneers.Option{Name: o.Name, Comments: o.Comments, Arguments: cArgs(o.Arguments)}
	for _, a := range o.Assignments {
		out.Assignments = append(out.Assignments, cVAssignment(a))
	}
	return out
}

func cOCParam(p jOCParam) ast.OptionCallParameter {
	out := ast.OptionCallParameter{}
	if p.Argument != nil {
		a := cArg(*p.Argument)
		out.Argument = &a
	}
	if p.Constant != nil {
		out.Constant = &ast.TypedConstant{Type: loadType(p.Constant.Type), Value: loadDyn(p.Constant.Value)}
	}
	if p.Factory != nil {
		fc := ast.FactoryCall{Ref: ast.FactoryRef{Package: p.Factory.Ref.Package, Builder: p.Factory.Ref.Builder, Factory: p.Factory.Ref.Factory}}
		for _, x := range p.Factory.Parameters {
			fc.Parameters = append(fc.Parameters, cOCParam(x))
		}
		out.Factory = &fc
	}
	return out
}

func cFactory(f jFactory) ast.BuilderFactory {
	out := ast.BuilderFactory{Name: f.Name, Comments: f.Comments, Args: cArgs(f.Arguments)}
	for _, c := range f.Options {
		call := ast.OptionCall{Name: c.Name}
		for _, p := range c.Parameters {
			call.Parameters = append(call.Parameters, cOCParam(p))
		}
		out.OptionCalls = append(out.OptionCalls, call)
	}
	return out
}

func cBRule(r jBRule) cogyaml.BuilderRule {
	out := cogyaml.BuilderRule{}
	if r.Omit != nil {
		s := cBSel(*r.Omit)
		out.Omit = &s
	}
	if r.Rename != nil {
		out.Rename = &cogyaml.RenameBuilder{BuilderSelector: cBSel(r.Rename.jBSel), As: r.Rename.As}
	}
	if r.MergeInto != nil {
		m := r.MergeInto
		out.MergeInto = &cogyaml.MergeInto{Destination: m.Destination, Source: m.Source, UnderPath: m.UnderPath, ExcludeOptions: m.ExcludeOptions, RenameOptions: m.RenameOptions}
	}
	if r.Compose != nil {
		c := r.Compose
		out.ComposeBuilders = &cogyaml.ComposeBuilders{BuilderSelector: cBSel(c.jBSel), SourceBuilderName: c.SourceBuilderName,
			PluginDiscriminatorField: c.PluginDiscriminatorField, ExcludeOptions: c.ExcludeOptions, CompositionMap: c.CompositionMap,
			ComposedBuilderName: c.ComposedBuilderName, PreserveOriginalBuilders: c.PreserveOriginalBuilders}
	}
	if r.Properties != nil {
		p := &cogyaml.Properties{BuilderSelector: cBSel(r.Properties.jBSel)}
		for _, f := range r.Properties.Set {
			p.Set = append(p.Set, ast.StructField{Name: f.Name, Comments: f.Comments, Type: loadType(f.Type), Required: f.Req})
		}
		out.Properties = p
	}
	if r.Duplicate != nil {
		out.Duplicate = &cogyaml.Duplicate{BuilderSelector: cBSel(r.Duplicate.jBSel), As: r.Duplicate.As, ExcludeOptions: r.Duplicate.ExcludeOptions}
	}
	if r.Initialize != nil {
		in := &cogyaml.Initialize{BuilderSelector: cBSel(r.Initialize.jBSel)}
		for _, s := range r.Initialize.Set {
			in.Set = append(in.Set, cogyaml.Initialization{Property: s.Property, Value: loadDyn(s.Value)})
		}
		out.Initialize = in
	}
	if r.Promote != nil {
		out.PromoteOptsToConstructor = &cogyaml.PromoteOptsToConstructor{BuilderSelector: cBSel(r.Promote.jBSel), Options: r.Promote.Options}
	}
	if r.AddOption != nil {
		out.AddOption = &cogyaml.AddOption{BuilderSelector: cBSel(r.AddOption.jBSel), Option: cVOption(r.AddOption.Option)}
	}
	if r.AddFactory != nil {
		out.AddFactory = &cogyaml.AddFactory{BuilderSelector: cBSel(r.AddFactory.jBSel), Factory: cFactory(r.AddFactory.Factory)}
	}
	return out
}

func cOSel(s jOSel) cogyaml.OptionSelector {
	out := cogyaml.OptionSelector{ByName: s.ByName, ByBuilder: s.ByBuilder}
	if s.ByNames != nil {
		out.ByNames = &cogyaml.ByNamesSelector{Object: s.ByNames.Object, Builder: s.ByNames.Builder, Options: s.ByNames.Options}
	}
	return out
}

func cORule(r jORule) cogyaml.OptionRule {
	out := cogyaml.OptionRule{}
	if r.Omit != nil {
		s := cOSel(*r.Omit)
		out.Omit = &s
	}
	if r.Rename != nil {
		out.Rename = &cogyaml.RenameOption{OptionSelector: cOSel(r.Rename.jOSel), As: r.Rename.As}
	}
	if r.RenameArguments != nil {
		out.RenameArguments = &cogyaml.RenameArguments{OptionSelector: cOSel(r.RenameArguments.jOSel), As: r.RenameArguments.As}
	}
	if r.UnfoldBoolean != nil {
		out.UnfoldBoolean = &cogyaml.UnfoldBoolean{OptionSelector: cOSel(r.UnfoldBoolean.jOSel), TrueAs: r.UnfoldBoolean.TrueAs, FalseAs: r.UnfoldBoolean.FalseAs}
	}
	if r.SFAArguments != nil {
		x := &cogyaml.StructFieldsAsArguments{OptionSelector: cOSel(r.SFAArguments.jOSel)}
		if r.SFAArguments.Fields != nil {
			x.Fields = append([]string{}, (*r.SFAArguments.Fields)...)
		}
		out.StructFieldsAsArguments = x
	}
	if r.SFAOptions != nil {
		x := &cogyaml.StructFieldsAsOptions{OptionSelector: cOSel(r.SFAOptions.jOSel)}
		if r.SFAOptions.Fields != nil {
			x.Fields = append([]string{}, (*r.SFAOptions.Fields)...)
		}
		out.StructFieldsAsOptions = x
	}
	if r.ArrayToAppend != nil {
		out.ArrayToAppend = &cogyaml.ArrayToAppend{OptionSelector: cOSel(*r.ArrayToAppend)}
	}
	if r.MapToIndex != nil {
		out.MapToIndex = &cogyaml.MapToIndex{OptionSelector: cOSel(*r.MapToIndex)}
	}
	if r.DisjunctionAsOptions != nil {
		out.DisjunctionAsOptions = &cogyaml.DisjunctionAsOptions{OptionSelector: cOSel(r.DisjunctionAsOptions.jOSel), ArgumentIndex: r.DisjunctionAsOptions.ArgumentIndex}
	}
	if r.Duplicate != nil {
		out.Duplicate = &cogyaml.DuplicateOption{OptionSelector: cOSel(r.Duplicate.jOSel), As: r.Duplicate.As}
	}
	if r.AddAssignment != nil {
		out.AddAssignment = &cogyaml.AddAssignment{OptionSelector: cOSel(r.AddAssignment.jOSel), Assignment: cVAssignment(r.AddAssignment.Assignment)}
	}
	if r.AddComments != nil {
		out.AddComments = &cogyaml.AddComments{OptionSelector: cOSel(r.AddComments.jOSel), Comments: r.AddComments.Comments}
	}
	return out
}

func cFile(f jFile) cogyaml.Veneers {
	out := cogyaml.Veneers{Language: f.Language, Package: f.Package}
	for _, r := range f.Builders {
		out.Builders = append(out.Builders, cBRule(r))
	}
	for _, r := range f.Options {
		out.Options = append(out.Options, cORule(r))
	}
	return out
}

// ---------- internal/yaml structs -> Gallina (coq/Model/Veneers.v, yaml-level rules) ----------

func gOptStr(s *string) string {
	if s == nil {
		return "None"
	}
	return "(Some " + gs(*s) + ")"
}

func gOptStrs(l []string) string {
	if l == nil {
		return "None"
	}
	return "(Some " + gStrs(l) + ")"
}

func gStrMap(m map[string]string) string { return gMapping(m) }

func gYBSel(s cogyaml.BuilderSelector) string {
	gfd := "None"
	if s.GeneratedFromDisjunction != nil {
		gfd = fmt.Sprintf("(Some %t)", *s.GeneratedFromDisjunction)
	}
	return "(mkYBSel " + gOptStr(s.ByObject) + " " + gOptStr(s.ByName) + " " + gOptStr(s.ByVariant) + " " + gfd + ")"
}

func gVValue(v veneers.AssignmentValue) string {
	env := "None"
	if v.Envelope != nil {
		vals := make([]string, len(v.Envelope.Values))
		for i, ev := range v.Envelope.Values {
			vals[i] = "(" + gs(ev.Field) + ", " + gVValue(ev.Value) + ")"
		}
		env = "(Some " + gList(vals) + ")"
	}
	return "(VValue " + gOptArgument(v.Argument) + " " + gDyn(v.Constant) + " " + env + ")"
}

func gVAssignment(a veneers.Assignment) string {
	return "(mkVAssignment " + gs(a.Path) + " " + gs(string(a.Method)) + " " + gVValue(a.Value) + ")"
}

func gVOption(o veneers.Option) string {
	as := make([]string, len(o.Assignments))
	for i, a := range o.Assignments {
		as[i] = gVAssignment(a)
	}
	return "(mkVOption " + gs(o.Name) + " " + gStrs(o.Comments) + " " + gArguments(o.Arguments) + " " + gList(as) + ")"
}

func gYBRule(r cogyaml.BuilderRule) string {
	var ms []string
	if r.Omit != nil {
		ms = append(ms, "(YBOmit "+gYBSel(*r.Omit)+")")
	}
	if r.Rename != nil {
		ms = append(ms, "(YBRename "+gYBSel(r.Rename.BuilderSelector)+" "+gs(r.Rename.As)+")")
	}
	if r.MergeInto != nil {
		m := r.MergeInto
		ms = append(ms, "(YBMergeInto "+gs(m.Destination)+" "+gs(m.Source)+" "+gs(m.UnderPath)+" "+gStrs(m.ExcludeOptions)+" "+gStrMap(m.RenameOptions)+")")
	}
	if r.ComposeBuilders != nil {
		c := r.ComposeBuilders
		ms = append(ms, fmt.Sprintf("(YBCompose (mkYCompose %s %s %s %s %s %s %t))", gYBSel(c.BuilderSelector), gs(c.SourceBuilderName),
			gs(c.PluginDiscriminatorField), gStrs(c.ExcludeOptions), gStrMap(c.CompositionMap), gs(c.ComposedBuilderName), c.PreserveOriginalBuilders))
	}
	if r.Properties != nil {
		fs := make([]string, len(r.Properties.Set))
		for i, f := range r.Properties.Set {
			fs[i] = gField(f)
		}
		ms = append(ms, "(YBProperties "+gYBSel(r.Properties.BuilderSelector)+" "+gList(fs)+")")
	}
	if r.Duplicate != nil {
		ms = append(ms, "(YBDuplicate "+gYBSel(r.Duplicate.BuilderSelector)+" "+gs(r.Duplicate.As)+" "+gStrs(r.Duplicate.ExcludeOptions)+")")
	}
	if r.Initialize != nil {
		set := make([]string, len(r.Initialize.Set))
		for i, s := range r.Initialize.Set {
			set[i] = "(" + gs(s.Property) + ", " + gDyn(s.Value) + ")"
		}
		ms = append(ms, "(YBInitialize "+gYBSel(r.Initialize.BuilderSelector)+" "+gList(set)+")")
	}
	if r.PromoteOptsToConstructor != nil {
		ms = append(ms, "(YBPromote "+gYBSel(r.PromoteOptsToConstructor.BuilderSelector)+" "+gStrs(r.PromoteOptsToConstructor.Options)+")")
	}
	if r.AddOption != nil {
		ms = append(ms, "(YBAddOption "+gYBSel(r.AddOption.BuilderSelector)+" "+gVOption(r.AddOption.Option)+")")
	}
	if r.AddFactory != nil {
		ms = append(ms, "(YBAddFactory "+gYBSel(r.AddFactory.BuilderSelector)+" "+gFactory(r.AddFactory.Factory)+")")
	}
	return gList(ms)
}

func gYOSel(s cogyaml.OptionSelector) string {
	bn := "None"
	if s.ByNames != nil {
		bn = "(Some (mkYByNames " + gs(s.ByNames.Object) + " " + gs(s.ByNames.Builder) + " " + gStrs(s.ByNames.Options) + "))"
	}
	return "(mkYOSel " + gOptStr(s.ByName) + " " + gOptStr(s.ByBuilder) + " " + bn + ")"
}

func gYORule(r cogyaml.OptionRule) string {
	var ms []string
	if r.Omit != nil {
		ms = append(ms, "(YOOmit "+gYOSel(*r.Omit)+")")
	}
	if r.Rename != nil {
		ms = append(ms, "(YORename "+gYOSel(r.Rename.OptionSelector)+" "+gs(r.Rename.As)+")")
	}
	if r.RenameArguments != nil {
		ms = append(ms, "(YORenameArguments "+gYOSel(r.RenameArguments.OptionSelector)+" "+gStrs(r.RenameArguments.As)+")")
	}
	if r.UnfoldBoolean != nil {
		ms = append(ms, "(YOUnfoldBoolean "+gYOSel(r.UnfoldBoolean.OptionSelector)+" "+gs(r.UnfoldBoolean.TrueAs)+" "+gs(r.UnfoldBoolean.FalseAs)+")")
	}
	if r.StructFieldsAsArguments != nil {
		ms = append(ms, "(YOStructFieldsAsArguments "+gYOSel(r.StructFieldsAsArguments.OptionSelector)+" "+gOptStrs(r.StructFieldsAsArguments.Fields)+")")
	}
	if r.StructFieldsAsOptions != nil {
		ms = append(ms, "(YOStructFieldsAsOptions "+gYOSel(r.StructFieldsAsOptions.OptionSelector)+" "+gOptStrs(r.StructFieldsAsOptions.Fields)+")")
	}
	if r.ArrayToAppend != nil {
		ms = append(ms, "(YOArrayToAppend "+gYOSel(r.ArrayToAppend.OptionSelector)+")")
	}
	if r.MapToIndex != nil {
		ms = append(ms, "(YOMapToIndex "+gYOSel(r.MapToIndex.OptionSelector)+")")
	}
	if r.DisjunctionAsOptions != nil {
		ms = append(ms, "(YODisjunctionAsOptions "+gYOSel(r.DisjunctionAsOptions.OptionSelector)+" "+gZZ(int64(r.DisjunctionAsOptions.ArgumentIndex))+")")
	}
	if r.Duplicate != nil {
		ms = append(ms, "(YODuplicate "+gYOSel(r.Duplicate.OptionSelector)+" "+gs(r.Duplicate.As)+")")
	}
	if r.AddAssignment != nil {
		ms = append(ms, "(YOAddAssignment "+gYOSel(r.AddAssignment.OptionSelector)+" "+gVAssignment(r.AddAssignment.Assignment)+")")
	}
	if r.AddComments != nil {
		ms = append(ms, "(YOAddComments "+gYOSel(r.AddComments.OptionSelector)+" "+gStrs(r.AddComments.Comments)+")")
	}
	return gList(ms)
}

func gVFile(v cogyaml.Veneers) string {
	bs := make([]string, len(v.Builders))
	for i, r := range v.Builders {
		bs[i] = gYBRule(r)
	}
	os_ := make([]string, len(v.Options))
	for i, r := range v.Options {
		os_[i] = gYORule(r)
	}
	return "(mkVFile " + gs(v.Language) + " " + gs(v.Package) + " " + gList(bs) + " " + gList(os_) + ")"
}

// ---------- direct construction through the Go rule constructors (own dispatch; the code of
// internal/yaml is not involved on this path) ----------

type loadErr struct{ msg string }

func dBSel(pkg string, s cogyaml.BuilderSelector) builder.Selector {
	switch {
	case s.ByObject != nil:
		return builder.ByObjectName(pkg, *s.ByObject)
	case s.ByName != nil:
		return builder.ByName(pkg, *s.ByName)
	case s.ByVariant != nil:
		return builder.ByVariant(ast.SchemaVariant(*s.ByVariant))
	case s.GeneratedFromDisjunction != nil:
		return builder.StructGeneratedFromDisjunction()
	}
	panic(loadErr{"empty selector"})
}

func dBRule(pkg string, r cogyaml.BuilderRule) builder.RewriteRule {
	switch {
	case r.Omit != nil:
		return builder.Omit(dBSel(pkg, *r.Omit))
	case r.Rename != nil:
		return builder.Rename(dBSel(pkg, r.Rename.BuilderSelector), r.Rename.As)
	case r.MergeInto != nil:
		m := r.MergeInto
		return builder.MergeInto(builder.ByName(pkg, m.Destination), m.Source, m.UnderPath, m.ExcludeOptions, m.RenameOptions)
	case r.ComposeBuilders != nil:
		c := r.ComposeBuilders
		return builder.ComposeBuilders(dBSel(pkg, c.BuilderSelector), builder.CompositionConfig{
			SourceBuilderName: c.SourceBuilderName, PluginDiscriminatorField: c.PluginDiscriminatorField, ExcludeOptions: c.ExcludeOptions,
			CompositionMap: c.CompositionMap, ComposedBuilderName: c.ComposedBuilderName, PreserveOriginalBuilders: c.PreserveOriginalBuilders})
	case r.Properties != nil:
		return builder.Properties(dBSel(pkg, r.Properties.BuilderSelector), r.Properties.Set)
	case r.Duplicate != nil:
		return builder.Duplicate(dBSel(pkg, r.Duplicate.BuilderSelector), r.Duplicate.As, r.Duplicate.ExcludeOptions)
	case r.Initialize != nil:
		var st []builder.Initialization
		if r.Initialize.Set != nil {
			st = []builder.Initialization{}
		}
		for _, s := range r.Initialize.Set {
			st = append(st, builder.Initialization{PropertyPath: s.Property, Value: s.Value})
		}
		return builder.Initialize(dBSel(pkg, r.Initialize.BuilderSelector), st)
	case r.PromoteOptsToConstructor != nil:
		return builder.PromoteOptionsToConstructor(dBSel(pkg, r.PromoteOptsToConstructor.BuilderSelector), r.PromoteOptsToConstructor.Options)
	case r.AddOption != nil:
		return builder.AddOption(dBSel(pkg, r.AddOption.BuilderSelector), r.AddOption.Option)
	case r.AddFactory != nil:
		return builder.AddFactory(dBSel(pkg, r.AddFactory.BuilderSelector), r.AddFactory.Factory)
	}
	panic(loadErr{"empty rule"})
}

func dOSel(pkg string, s cogyaml.OptionSelector) option.Selector {
	switch {
	case s.ByName != nil:
		obj, opt, found := strings.Cut(*s.ByName, ".")
		if !found {
			panic(loadErr{"no object name"})
		}
		return option.ByName(pkg, obj, opt)
	case s.ByBuilder != nil:
		b, opt, found := strings.Cut(*s.ByBuilder, ".")
		if !found {
			panic(loadErr{"no builder name"})
		}
		return option.ByBuilder(pkg, b, opt)
	case s.ByNames != nil:
		if s.ByNames.Object == "" && s.ByNames.Builder == "" {
			panic(loadErr{"object or builder required"})
		}
		if s.ByNames.Builder != "" {
			return option.ByBuilder(pkg, s.ByNames.Builder, s.ByNames.Options...)
		}
		return option.ByName(pkg, s.ByNames.Object, s.ByNames.Options...)
	}
	panic(loadErr{"empty selector"})
}

func dORule(pkg string, r cogyaml.OptionRule) option.RewriteRule {
	switch {
	case r.Omit != nil:
		return option.Omit(dOSel(pkg, *r.Omit))
	case r.Rename != nil:
		return option.Rename(dOSel(pkg, r.Rename.OptionSelector), r.Rename.As)
	case r.RenameArguments != nil:
		return option.RenameArguments(dOSel(pkg, r.RenameArguments.OptionSelector), r.RenameArguments.As)
	case r.UnfoldBoolean != nil:
		return option.UnfoldBoolean(dOSel(pkg, r.UnfoldBoolean.OptionSelector), option.BooleanUnfold{OptionTrue: r.UnfoldBoolean.TrueAs, OptionFalse: r.UnfoldBoolean.FalseAs})
	case r.StructFieldsAsArguments != nil:
		return option.StructFieldsAsArguments(dOSel(pkg, r.StructFieldsAsArguments.OptionSelector), r.StructFieldsAsArguments.Fields...)
	case r.StructFieldsAsOptions != nil:
		return option.StructFieldsAsOptions(dOSel(pkg, r.StructFieldsAsOptions.OptionSelector), r.StructFieldsAsOptions.Fields...)
	case r.ArrayToAppend != nil:
		return option.ArrayToAppend(dOSel(pkg, r.ArrayToAppend.OptionSelector))
	case r.MapToIndex != nil:
		return option.MapToIndex(dOSel(pkg, r.MapToIndex.OptionSelector))
	case r.DisjunctionAsOptions != nil:
		return option.DisjunctionAsOptions(dOSel(pkg, r.DisjunctionAsOptions.OptionSelector), r.DisjunctionAsOptions.ArgumentIndex)
	case r.Duplicate != nil:
		return option.Duplicate(dOSel(pkg, r.Duplicate.OptionSelector), r.Duplicate.As)
	case r.AddAssignment != nil:
		return option.AddAssignment(dOSel(pkg, r.AddAssignment.OptionSelector), r.AddAssignment.Assignment)
	case r.AddComments != nil:
		return option.AddComments(dOSel(pkg, r.AddComments.OptionSelector), r.AddComments.Comments)
	}
	panic(loadErr{"empty rule"})
}

func directRewriter(files []cogyaml.Veneers) (rw *rewrite.Rewriter, err error) {
	defer func() {
		if r := recover(); r != nil {
			if le, ok := r.(loadErr); ok {
				rw, err = nil, fmt.Errorf("%s", le.msg)
				return
			}
			panic(r)
		}
	}()
	var lrs []rewrite.LanguageRules
	for _, f := range files {
		if f.Package == "" {
			return nil, fmt.Errorf("missing package")
		}
		lr := rewrite.LanguageRules{Language: f.Language}
		for _, r := range f.Builders {
			lr.BuilderRules = append(lr.BuilderRules, dBRule(f.Package, r))
		}
		for _, r := range f.Options {
			lr.OptionRules = append(lr.OptionRules, dORule(f.Package, r))
		}
		lrs = append(lrs, lr)
	}
	return rewrite.NewRewrite(lrs, rewrite.Config{}), nil
}

// ---------- sharing report (dev aid): which cells of the result are physically shared ----------

func sharingReport(bs []ast.Builder) string {
	type holder struct{ where string }
	argPtrs := map[*ast.Argument][]string{}
	argArrays := map[*ast.Argument][]string{}
	for _, b := range bs {
		bname := b.Package + "." + b.Name
		note := func(where string, as []ast.Assignment) {
			for j, a := range as {
				if a.Value.Argument != nil {
					argPtrs[a.Value.Argument] = append(argPtrs[a.Value.Argument], fmt.Sprintf("%s/%s/asg%d", bname, where, j))
				}
			}
		}
		note("ctor", b.Constructor.Assignments)
		if len(b.Constructor.Args) > 0 {
			argArrays[&b.Constructor.Args[0]] = append(argArrays[&b.Constructor.Args[0]], bname+"/ctor")
		}
		for _, o := range b.Options {
			note(o.Name, o.Assignments)
			if len(o.Args) > 0 {
				argArrays[&o.Args[0]] = append(argArrays[&o.Args[0]], bname+"/"+o.Name)
			}
		}
	}
	var out []string
	for _, hs := range argPtrs {
		if len(hs) > 1 {
			sort.Strings(hs)
			out = append(out, "ptr{"+strings.Join(hs, ",")+"}")
		}
	}
	for _, hs := range argArrays {
		if len(hs) > 1 {
			sort.Strings(hs)
			out = append(out, "args{"+strings.Join(hs, ",")+"}")
		}
	}
	sort.Strings(out)
	return strings.Join(out, " ")
}

// ---------- the command ----------
// veneers <scratchdir>: one line per job:
//   SCHEMAS <tab> FILES <tab> LANGUAGE <tab> BEFORE <tab> OUTCOME        (all Gallina)
//   BEFORE  = the builders the real FromAST derived
//   OUTCOME = (Ok [builders]) | (Err "...") | (Panic "...")
// or LOADPANIC/YAMLDECODE <tab> message when the job itself cannot be set up.

func runVenJob(job venJob, scratch string, seq int) (line string) {
	stage := "load"
	var head string
	defer func() {
		if r := recover(); r != nil {
			msg := fmt.Sprint(r)
			if len(msg) > 200 {
				msg = msg[:200]
			}
			msg = strings.ReplaceAll(msg, "\n", " ")
			if stage != "apply" {
				line = "LOADPANIC\t" + stage + ": " + msg
				return
			}
			line = head + "\t(Panic " + gs(msg) + ")"
		}
	}()
	schemas := loadSchemas(job.Schemas)
	gSch := gSchemas(schemas)
	stage = "fromast"
	before := (&ast.BuilderGenerator{}).FromAST(schemas)
	gBefore := gBuilders(before)

	stage = "rules"
	var files []cogyaml.Veneers
	var rewriter *rewrite.Rewriter
	var lerr error
	if job.Via == "yaml" {
		var names []string
		for i, f := range job.Files {
			name := filepath.Join(scratch, fmt.Sprintf("ven_%d_%d_%d.yaml", os.Getpid(), seq, i))
			if err := os.WriteFile(name, []byte(f.Yaml), 0o600); err != nil {
				panic(err)
			}
			names = append(names, name)
			// our own decode of the same text, only to print what the rules say
			var v cogyaml.Veneers
			dec := yaml.NewDecoder(strings.NewReader(f.Yaml))
			dec.KnownFields(true)
			if err := dec.Decode(&v); err != nil {
				for _, n := range names {
					os.Remove(n)
				}
				return "YAMLDECODE\t" + strings.ReplaceAll(err.Error(), "\n", " ")
			}
			files = append(files, v)
		}
		rewriter, lerr = cogyaml.NewVeneersLoader().RewriterFrom(names, rewrite.Config{})
		for _, n := range names {
			os.Remove(n)
		}
	} else {
		for _, f := range job.Files {
			files = append(files, cFile(f))
		}
		rewriter, lerr = directRewriter(files)
	}
	gFiles := make([]string, len(files))
	for i, f := range files {
		gFiles[i] = gVFile(f)
	}
	head = gSch + "\t" + gList(gFiles) + "\t" + gs(job.Language) + "\t" + gBefore
	if lerr != nil {
		return head + "\t(Err " + gs("load") + ")"
	}
	stage = "apply"
	after, err := rewriter.ApplyTo(schemas, before, job.Language)
	if err != nil {
		return head + "\t(Err " + gs("apply") + ")"
	}
	line = head + "\t(Ok " + gBuilders(after) + ")"
	if job.Report {
		line += "\t" + sharingReport(after) + "\t" + gBuilders(before)
	}
	return line
}

func init() {
	commands["veneers"] = func(in *bufio.Scanner, out *bufio.Writer) error {
		scratch := os.TempDir()
		if len(os.Args) > 2 {
			scratch = os.Args[2]
		}
		seq := 0
		for in.Scan() {
			var job venJob
			if err := json.Unmarshal(in.Bytes(), &job); err != nil {
				return err
			}
			seq++
			fmt.Fprintln(out, strings.ReplaceAll(runVenJob(job, scratch, seq), "\n", " "))
		}
		return in.Err()
	}
}
