package main

import (
	"encoding/json"
	"fmt"
	"sort"
	"strconv"
	"strings"

	"github.com/grafana/cog/internal/ast"
)

// ---------- job JSON -> ast ----------

// comment slices come out of encoding/json with spare capacity; clip it so that an append made by a
// veneer never lands in an array this loader shares between builders (writes into shared spare
// capacity are outside the C17 model; see checks/c17.py TRUSTED)
func clipStrs(l []string) []string { return l[:len(l):len(l)] }

type jDyn struct {
	T string          `json:"t"`
	V json.RawMessage `json:"v"`
}

func loadDyn(raw json.RawMessage) any {
	if len(raw) == 0 || string(raw) == "null" {
		return nil
	}
	var d jDyn
	if err := json.Unmarshal(raw, &d); err != nil {
		panic(fmt.Sprintf("bad dyn %s: %v", raw, err))
	}
	switch d.T {
	case "bool":
		var b bool
		_ = json.Unmarshal(d.V, &b)
		return b
	case "str":
		var s string
		_ = json.Unmarshal(d.V, &s)
		return s
	case "int":
		var i int64
		_ = json.Unmarshal(d.V, &i)
		return int(i)
	case "int64":
		var i int64
		_ = json.Unmarshal(d.V, &i)
		return i
	case "int32":
		var i int64
		_ = json.Unmarshal(d.V, &i)
		return int32(i)
	case "uint8":
		var i int64
		_ = json.Unmarshal(d.V, &i)
		return uint8(i)
	case "uint16":
		var i int64
		_ = json.Unmarshal(d.V, &i)
		return uint16(i)
	case "uint32":
		var i int64
		_ = json.Unmarshal(d.V, &i)
		return uint32(i)
	case "uint64":
		var i int64
		_ = json.Unmarshal(d.V, &i)
		return uint64(i)
	case "int8":
		var i int64
		_ = json.Unmarshal(d.V, &i)
		return int8(i)
	case "int16":
		var i int64
		_ = json.Unmarshal(d.V, &i)
		return int16(i)
	case "float64":
		var s string
		_ = json.Unmarshal(d.V, &s)
		f, _ := strconv.ParseFloat(s, 64)
		return f
	case "float32":
		var s string
		_ = json.Unmarshal(d.V, &s)
		f, _ := strconv.ParseFloat(s, 32)
		return float32(f)
	case "number":
		var s string
		_ = json.Unmarshal(d.V, &s)
		return json.Number(s)
	case "list":
		var l []json.RawMessage
		_ = json.Unmarshal(d.V, &l)
		out := make([]any, len(l))
		for i := range l {
			out[i] = loadDyn(l[i])
		}
		return out
	case "map":
		var m map[string]json.RawMessage
		_ = json.Unmarshal(d.V, &m)
		out := make(map[string]any, len(m))
		for k, v := range m {
			out[k] = loadDyn(v)
		}
		return out
	}
	panic("unknown dyn type " + d.T)
}

type jConstraint struct {
	Op   string            `json:"op"`
	Args []json.RawMessage `json:"args"`
}

type jField struct {
	Name     string   `json:"name"`
	Comments []string `json:"comments"`
	Type     *jType   `json:"type"`
	Req      bool     `json:"req"`
}

type jEnumVal struct {
	Type *jType          `json:"type"`
	Name string          `json:"name"`
	Val  json.RawMessage `json:"val"`
}

type jType struct {
	K        string                     `json:"k"`
	Null     bool                       `json:"null"`
	Def      json.RawMessage            `json:"def"`
	Hints    map[string]json.RawMessage `json:"hints"`
	NilHints bool                       `json:"nilhints"`
	Sk       string                     `json:"sk"`
	Val      json.RawMessage            `json:"val"`
	Cs       []jConstraint              `json:"cs"`
	Pkg      string                     `json:"pkg"`
	Name     string                     `json:"name"`
	V        *jType                     `json:"v"`
	I        *jType                     `json:"i"`
	Fields   []jField                   `json:"fields"`
	Dh       map[string]*jType          `json:"dh"`
	Values   []jEnumVal                 `json:"values"`
	Branches []*jType                   `json:"branches"`
	Disc     string                     `json:"disc"`
	Mapping  map[string]string          `json:"mapping"`
	Variant  string                     `json:"variant"`
	Kind     string                     `json:"kind"`
}

func loadType(j *jType) ast.Type {
	if j == nil {
		return ast.Type{}
	}
	t := ast.Type{Nullable: j.Null, Default: loadDyn(j.Def)}
	if !j.NilHints {
		t.Hints = ast.JenniesHints{}
	}
	for k, v := range j.Hints {
		if t.Hints == nil {
			t.Hints = ast.JenniesHints{}
		}
		t.Hints[k] = loadDyn(v)
	}
	switch j.K {
	case "scalar":
		t.Kind = ast.KindScalar
		sc := &ast.ScalarType{ScalarKind: ast.ScalarKind(j.Sk), Value: loadDyn(j.Val)}
		for _, c := range j.Cs {
			args := make([]any, len(c.Args))
			for i := range c.Args {
				args[i] = loadDyn(c.Args[i])
			}
			sc.Constraints = append(sc.Constraints, ast.TypeConstraint{Op: ast.Op(c.Op), Args: args})
		}
		t.Scalar = sc
	case "ref":
		t.Kind = ast.KindRef
		t.Ref = &ast.RefType{ReferredPkg: j.Pkg, ReferredType: j.Name}
	case "cref":
		t.Kind = ast.KindConstantRef
		t.ConstantReference = &ast.ConstantReferenceType{ReferredPkg: j.Pkg, ReferredType: j.Name, ReferenceValue: loadDyn(j.Val)}
	case "array":
		t.Kind = ast.KindArray
		t.Array = &ast.ArrayType{ValueType: loadType(j.V)}
	case "map":
		t.Kind = ast.KindMap
		t.Map = &ast.MapType{IndexType: loadType(j.I), ValueType: loadType(j.V)}
	case "struct":
		t.Kind = ast.KindStruct
		st := &ast.StructType{Fields: []ast.StructField{}}
		for _, f := range j.Fields {
			st.Fields = append(st.Fields, ast.StructField{Name: f.Name, Comments: clipStrs(f.Comments), Type: loadType(f.Type), Required: f.Req})
		}
		t.Struct = st
		for k, d := range j.Dh {
			dt := loadType(d)
			if t.Hints == nil {
				t.Hints = ast.JenniesHints{}
			}
			t.Hints[k] = *dt.Disjunction
		}
	case "enum":
		t.Kind = ast.KindEnum
		en := &ast.EnumType{}
		for _, v := range j.Values {
			en.Values = append(en.Values, ast.EnumValue{Type: loadType(v.Type), Name: v.Name, Value: loadDyn(v.Val)})
		}
		t.Enum = en
	case "disj":
		t.Kind = ast.KindDisjunction
		d := &ast.DisjunctionType{Discriminator: j.Disc, DiscriminatorMapping: j.Mapping}
		for _, b := range j.Branches {
			d.Branches = append(d.Branches, loadType(b))
		}
		t.Disjunction = d
	case "inter":
		t.Kind = ast.KindIntersection
		in := &ast.IntersectionType{}
		for _, b := range j.Branches {
			in.Branches = append(in.Branches, loadType(b))
		}
		t.Intersection = in
	case "slot":
		t.Kind = ast.KindComposableSlot
		t.ComposableSlot = &ast.ComposableSlotType{Variant: ast.SchemaVariant(j.Variant)}
	case "bad":
		t.Kind = ast.Kind(j.Kind)
	default:
		panic("unknown type kind " + j.K)
	}
	return t
}

type jObject struct {
	Name     string   `json:"name"`
	Comments []string `json:"comments"`
	Type     *jType   `json:"type"`
	SelfPkg  *string  `json:"selfpkg"`
	SelfName *string  `json:"selfname"`
}

type jSchema struct {
	Pkg  string `json:"pkg"`
	Meta struct {
		Kind    string `json:"kind"`
		Variant string `json:"variant"`
		ID      string `json:"id"`
	} `json:"meta"`
	Entry     string    `json:"entry"`
	EntryType *jType    `json:"entrytype"`
	Objects   []jObject `json:"objects"`
}

func loadSchema(j jSchema) *ast.Schema {
	s := ast.NewSchema(j.Pkg, ast.SchemaMeta{Kind: ast.SchemaKind(j.Meta.Kind), Variant: ast.SchemaVariant(j.Meta.Variant), Identifier: j.Meta.ID})
	s.EntryPoint = j.Entry
	s.EntryPointType = loadType(j.EntryType)
	for _, o := range j.Objects {
		obj := ast.NewObject(j.Pkg, o.Name, loadType(o.Type))
		obj.Comments = clipStrs(o.Comments)
		if o.SelfPkg != nil {
			obj.SelfRef.ReferredPkg = *o.SelfPkg
		}
		if o.SelfName != nil {
			obj.SelfRef.ReferredType = *o.SelfName
		}
		s.AddObject(obj)
	}
	return s
}

func loadSchemas(js []jSchema) ast.Schemas {
	out := make(ast.Schemas, 0, len(js))
	for _, j := range js {
		out = append(out, loadSchema(j))
	}
	return out
}

// ---------- ast -> Gallina (types of coq/Model/IR.v) ----------

func gs(s string) string { return "\"" + strings.ReplaceAll(s, "\"", "\"\"") + "\"" }

func gList(items []string) string { return "[" + strings.Join(items, "; ") + "]" }

func gStrs(l []string) string {
	items := make([]string, len(l))
	for i, s := range l {
		items[i] = gs(s)
	}
	return gList(items)
}

func gZZ(v int64) string {
	if v < 0 {
		return fmt.Sprintf("(%d)%%Z", v)
	}
	return fmt.Sprintf("%d%%Z", v)
}

func gDyn(v any) string {
	switch x := v.(type) {
	case nil:
		return "DNil"
	case bool:
		return fmt.Sprintf("(DBool %t)", x)
	case string:
		return "(DStr " + gs(x) + ")"
	case int:
		return "(DInt " + gs("int") + " " + gZZ(int64(x)) + ")"
	case int8:
		return "(DInt " + gs("int8") + " " + gZZ(int64(x)) + ")"
	case int16:
		return "(DInt " + gs("int16") + " " + gZZ(int64(x)) + ")"
	case int32:
		return "(DInt " + gs("int32") + " " + gZZ(int64(x)) + ")"
	case int64:
		return "(DInt " + gs("int64") + " " + gZZ(x) + ")"
	case uint8:
		return "(DInt " + gs("uint8") + " " + gZZ(int64(x)) + ")"
	case uint16:
		return "(DInt " + gs("uint16") + " " + gZZ(int64(x)) + ")"
	case uint32:
		return "(DInt " + gs("uint32") + " " + gZZ(int64(x)) + ")"
	case uint64:
		return "(DInt " + gs("uint64") + " " + gZZ(int64(x)) + ")"
	case float64:
		return "(DFloat " + gs("float64") + " " + gs(strconv.FormatFloat(x, 'g', -1, 64)) + ")"
	case float32:
		return "(DFloat " + gs("float32") + " " + gs(strconv.FormatFloat(float64(x), 'g', -1, 32)) + ")"
	case json.Number:
		return "(DFloat " + gs("json.Number") + " " + gs(string(x)) + ")"
	case []any:
		items := make([]string, len(x))
		for i := range x {
			items[i] = gDyn(x[i])
		}
		return "(DList " + gList(items) + ")"
	case map[string]any:
		keys := make([]string, 0, len(x))
		for k := range x {
			keys = append(keys, k)
		}
		sort.Strings(keys)
		items := make([]string, len(keys))
		for i, k := range keys {
			items[i] = "(" + gs(k) + ", " + gDyn(x[k]) + ")"
		}
		return "(DMap " + gList(items) + ")"
	}
	return "(DOther " + gs(fmt.Sprintf("%T", v)) + " " + gs(fmt.Sprintf("%v", v)) + ")"
}

func isDisjHint(v any) bool {
	switch v.(type) {
	case ast.DisjunctionType, *ast.DisjunctionType:
		return true
	}
	return false
}

func gAttrs(t ast.Type) string {
	keys := make([]string, 0, len(t.Hints))
	for k, v := range t.Hints {
		if isDisjHint(v) {
			continue
		}
		keys = append(keys, k)
	}
	sort.Strings(keys)
	items := make([]string, len(keys))
	for i, k := range keys {
		items[i] = "(" + gs(k) + ", " + gDyn(t.Hints[k]) + ")"
	}
	if !t.Nullable && t.Default == nil && len(items) == 0 {
		return "A0"
	}
	return fmt.Sprintf("{| nullable := %t; dflt := %s; hints := %s |}", t.Nullable, gDyn(t.Default), gList(items))
}

func gMapping(m map[string]string) string {
	keys := make([]string, 0, len(m))
	for k := range m {
		keys = append(keys, k)
	}
	sort.Strings(keys)
	items := make([]string, len(keys))
	for i, k := range keys {
		items[i] = "(" + gs(k) + ", " + gs(m[k]) + ")"
	}
	return gList(items)
}

func gDisj(d ast.DisjunctionType) string {
	items := make([]string, len(d.Branches))
	for i, b := range d.Branches {
		items[i] = gType(b)
	}
	return fmt.Sprintf("(mkDisj %s %s %s)", gList(items), gs(d.Discriminator), gMapping(d.DiscriminatorMapping))
}

func gField(f ast.StructField) string {
	return fmt.Sprintf("(mkField %s %s %s %t)", gs(f.Name), gStrs(f.Comments), gType(f.Type), f.Required)
}

func gType(t ast.Type) string {
	a := gAttrs(t)
	bad := func() string { return "(TBad " + a + " " + gs(string(t.Kind)) + ")" }
	switch t.Kind {
	case ast.KindDisjunction:
		if t.Disjunction == nil {
			return bad()
		}
		return "(TDisj " + a + " " + gDisj(*t.Disjunction) + ")"
	case ast.KindArray:
		if t.Array == nil {
			return bad()
		}
		return "(TArray " + a + " " + gType(t.Array.ValueType) + ")"
	case ast.KindEnum:
		if t.Enum == nil {
			return bad()
		}
		items := make([]string, len(t.Enum.Values))
		for i, v := range t.Enum.Values {
			items[i] = fmt.Sprintf("(mkEnumVal %s %s %s)", gType(v.Type), gs(v.Name), gDyn(v.Value))
		}
		return "(TEnum " + a + " " + gList(items) + ")"
	case ast.KindMap:
		if t.Map == nil {
			return bad()
		}
		return "(TMap " + a + " " + gType(t.Map.IndexType) + " " + gType(t.Map.ValueType) + ")"
	case ast.KindStruct:
		if t.Struct == nil {
			return bad()
		}
		var dh []string
		keys := make([]string, 0)
		for k, v := range t.Hints {
			if isDisjHint(v) {
				keys = append(keys, k)
			}
		}
		sort.Strings(keys)
		for _, k := range keys {
			switch d := t.Hints[k].(type) {
			case ast.DisjunctionType:
				dh = append(dh, "("+gs(k)+", "+gDisj(d)+")")
			case *ast.DisjunctionType:
				dh = append(dh, "("+gs(k)+", "+gDisj(*d)+")")
			}
		}
		fs := make([]string, len(t.Struct.Fields))
		for i, f := range t.Struct.Fields {
			fs[i] = gField(f)
		}
		return "(TStruct " + a + " " + gList(dh) + " " + gList(fs) + ")"
	case ast.KindRef:
		if t.Ref == nil {
			return bad()
		}
		return "(TRef " + a + " " + gs(t.Ref.ReferredPkg) + " " + gs(t.Ref.ReferredType) + ")"
	case ast.KindConstantRef:
		if t.ConstantReference == nil {
			return bad()
		}
		return "(TConstRef " + a + " " + gs(t.ConstantReference.ReferredPkg) + " " + gs(t.ConstantReference.ReferredType) + " " + gDyn(t.ConstantReference.ReferenceValue) + ")"
	case ast.KindScalar:
		if t.Scalar == nil {
			return bad()
		}
		cs := make([]string, len(t.Scalar.Constraints))
		for i, c := range t.Scalar.Constraints {
			args := make([]string, len(c.Args))
			for j, x := range c.Args {
				args[j] = gDyn(x)
			}
			cs[i] = fmt.Sprintf("{| c_op := %s; c_args := %s |}", gs(string(c.Op)), gList(args))
		}
		return "(TScalar " + a + " " + gSkind(t.Scalar.ScalarKind) + " " + gDyn(t.Scalar.Value) + " " + gList(cs) + ")"
	case ast.KindIntersection:
		if t.Intersection == nil {
			return bad()
		}
		items := make([]string, len(t.Intersection.Branches))
		for i, b := range t.Intersection.Branches {
			items[i] = gType(b)
		}
		return "(TInter " + a + " " + gList(items) + ")"
	case ast.KindComposableSlot:
		if t.ComposableSlot == nil {
			return bad()
		}
		return "(TSlot " + a + " " + gs(string(t.ComposableSlot.Variant)) + ")"
	}
	return bad()
}

func gSkind(k ast.ScalarKind) string {
	switch k {
	case ast.KindNull:
		return "KNull"
	case ast.KindAny:
		return "KAny"
	case ast.KindBytes:
		return "KBytes"
	case ast.KindString:
		return "KString"
	case ast.KindFloat32:
		return "KFloat32"
	case ast.KindFloat64:
		return "KFloat64"
	case ast.KindUint8:
		return "KUint8"
	case ast.KindUint16:
		return "KUint16"
	case ast.KindUint32:
		return "KUint32"
	case ast.KindUint64:
		return "KUint64"
	case ast.KindInt8:
		return "KInt8"
	case ast.KindInt16:
		return "KInt16"
	case ast.KindInt32:
		return "KInt32"
	case ast.KindInt64:
		return "KInt64"
	case ast.KindBool:
		return "KBool"
	}
	return "(KOther " + gs(string(k)) + ")"
}

func gObject(o ast.Object) string {
	return fmt.Sprintf("(mkObject %s %s %s %s %s)", gs(o.Name), gStrs(o.Comments), gType(o.Type), gs(o.SelfRef.ReferredPkg), gs(o.SelfRef.ReferredType))
}

func gSchema(s *ast.Schema) string {
	var objs []string
	if s.Objects != nil {
		s.Objects.Iterate(func(k string, o ast.Object) {
			objs = append(objs, "("+gs(k)+", "+gObject(o)+")")
		})
	}
	meta := fmt.Sprintf("{| m_kind := %s; m_variant := %s; m_identifier := %s |}", gs(string(s.Metadata.Kind)), gs(string(s.Metadata.Variant)), gs(s.Metadata.Identifier))
	return fmt.Sprintf("(mkSchema %s %s %s %s %s)", gs(s.Package), meta, gs(s.EntryPoint), gType(s.EntryPointType), gList(objs))
}

func gSchemas(ss ast.Schemas) string {
	items := make([]string, len(ss))
	for i, s := range ss {
		if s == nil {
			items[i] = "(mkSchema \"<nil>\" {| m_kind := \"\"; m_variant := \"\"; m_identifier := \"\" |} \"\" ty_zero [])"
			continue
		}
		items[i] = gSchema(s)
	}
	return gList(items)
}
