package main

import (
	"bufio"
	"context"
	"encoding/json"
	"fmt"
	"os"
	"path/filepath"
	"strings"

	"github.com/grafana/cog/internal/ast"
	"github.com/grafana/cog/internal/codegen"
	"github.com/grafana/cog/internal/jennies/golang"
	"github.com/grafana/cog/internal/languages"
	"github.com/grafana/cog/internal/tools"
)

// Command `gen`: one job per line
//
//	{"id": "...", "config": "/abs/pipeline.yaml", "outdir": "/abs/dir", "lang": "go"}
//
// For each job the real pipeline is loaded with codegen.PipelineFromFile (strict YAML, the same
// entry point as `cog generate`), the schemas are parsed (LoadSchemas: front-end + input
// transformations + common passes) and the language context is derived exactly as Pipeline.Run
// does (ContextForLanguage: language chain + final passes).  Both IRs are printed as Gallina
// terms of coq/Model/IR.v; then Pipeline.Run produces the files, written below "outdir".
//
// Result line:  id <tab> OK <tab> PRE-CHAIN-IR <tab> POST-CHAIN-IR <tab> file;file;...
//
//	id <tab> ERR|PANIC <tab> stage <tab> message
type genJob struct {
	ID     string `json:"id"`
	Config string `json:"config"`
	Outdir string `json:"outdir"`
	Lang   string `json:"lang"`
	NoGen  bool   `json:"nogen"` // only print the IRs
}

func oneLine(s string) string {
	s = strings.ReplaceAll(s, "\n", " ")
	s = strings.ReplaceAll(s, "\t", " ")
	if len(s) > 600 {
		s = s[:600]
	}
	return s
}

func runGen(job genJob) (line string) {
	stage := "load"
	defer func() {
		if r := recover(); r != nil {
			line = job.ID + "\tPANIC\t" + stage + "\t" + oneLine(fmt.Sprint(r))
		}
	}()
	ctx := context.Background()
	pipeline, err := codegen.PipelineFromFile(job.Config)
	if err != nil {
		return job.ID + "\tERR\t" + stage + "\t" + oneLine(err.Error())
	}
	stage = "parse"
	schemas, err := pipeline.LoadSchemas(ctx)
	if err != nil {
		return job.ID + "\tERR\t" + stage + "\t" + oneLine(err.Error())
	}
	pre := gSchemas(schemas)
	stage = "chain"
	targets, err := pipeline.OutputLanguages()
	if err != nil {
		return job.ID + "\tERR\t" + stage + "\t" + oneLine(err.Error())
	}
	lang := job.Lang
	if lang == "" {
		lang = golang.LanguageRef
	}
	var target languages.Language
	for name, t := range targets {
		if name == lang {
			target = t
		}
	}
	if target == nil {
		return job.ID + "\tERR\t" + stage + "\tlanguage " + lang + " not configured"
	}
	lctx, err := pipeline.ContextForLanguage(target, schemas)
	if err != nil {
		return job.ID + "\tERR\t" + stage + "\t" + oneLine(err.Error())
	}
	post := gSchemas(lctx.Schemas)
	var names []string
	if !job.NoGen {
		stage = "generate"
		fs, err := pipeline.Run(ctx)
		if err != nil {
			return job.ID + "\tERR\t" + stage + "\t" + oneLine(err.Error())
		}
		stage = "write"
		for _, f := range fs.AsFiles() {
			p := filepath.Join(job.Outdir, f.RelativePath)
			if err := os.MkdirAll(filepath.Dir(p), 0o755); err != nil {
				return job.ID + "\tERR\t" + stage + "\t" + oneLine(err.Error())
			}
			if err := os.WriteFile(p, f.Data, 0o644); err != nil {
				return job.ID + "\tERR\t" + stage + "\t" + oneLine(err.Error())
			}
			names = append(names, f.RelativePath)
		}
	}
	return job.ID + "\tOK\t" + pre + "\t" + post + "\t" + strings.Join(names, ";") + "\t" + objectSummary(lctx.Schemas)
}

// objectSummary lists, as JSON, the objects of the post-chain context with the Go identifiers the
// Go jenny derives for them (tools.UpperCamelCase, as golang.formatObjectName/formatPackageName do),
// so that the driver generator can emit a `switch` over them without parsing the Gallina term.
type objSummary struct {
	Pkg    string   `json:"pkg"`
	GoPkg  string   `json:"gopkg"`
	Name   string   `json:"name"`
	Go     string   `json:"go"`
	Kind   string   `json:"kind"`
	Union  string   `json:"union"`  // "scalars" | "refs" | ""
	Fields []string `json:"fields"` // struct field names (IR names)
}

func objectSummary(schemas ast.Schemas) string {
	var out []objSummary
	for _, s := range schemas {
		if s == nil || s.Objects == nil {
			continue
		}
		s.Objects.Iterate(func(_ string, o ast.Object) {
			sum := objSummary{Pkg: s.Package, GoPkg: strings.ToLower(tools.CleanupNames(lastSegment(s.Package))), Name: o.Name,
				Go: tools.UpperCamelCase(o.Name), Kind: string(o.Type.Kind)}
			if o.Type.IsStruct() {
				if o.Type.HasHint(ast.HintDisjunctionOfScalars) {
					sum.Union = "scalars"
				}
				if o.Type.HasHint(ast.HintDiscriminatedDisjunctionOfRefs) {
					sum.Union = "refs"
				}
				for _, f := range o.Type.Struct.Fields {
					sum.Fields = append(sum.Fields, f.Name)
				}
			}
			out = append(out, sum)
		})
	}
	b, _ := json.Marshal(out)
	return string(b)
}

func lastSegment(pkg string) string {
	parts := strings.Split(pkg, "/")
	return parts[len(parts)-1]
}

func init() {
	commands["gen"] = func(in *bufio.Scanner, out *bufio.Writer) error {
		for in.Scan() {
			var job genJob
			if err := json.Unmarshal(in.Bytes(), &job); err != nil {
				return err
			}
			fmt.Fprintln(out, strings.ReplaceAll(runGen(job), "\n", " "))
			out.Flush()
		}
		return in.Err()
	}
}
