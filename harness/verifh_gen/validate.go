package main

import (
	"bufio"
	"bytes"
	"encoding/json"
	"fmt"
	"os"
	"strings"

	"cuelang.org/go/cue"
	"cuelang.org/go/cue/cuecontext"
	"github.com/getkin/kin-openapi/openapi3"
	schemaparser "github.com/santhosh-tekuri/jsonschema/v5"
)

// Command `validate`: reference validators that are cog dependencies (available offline).
//
//	{"id": "...", "format": "openapi"|"cue"|"jsonschema", "path": "/abs/schema file",
//	 "type": "Root", "docs": ["<json text>", ...]}
//
// openapi    : kin-openapi  components.schemas[type].VisitJSON(doc)  (format validation on)
// cue        : CUE          lookup(#type or type).Unify(doc).Validate(Concrete)
// jsonschema : santhosh-tekuri/jsonschema v5 (the library cog itself parses with; used as a
//
//	cross-check of python `jsonschema`, which is the reference for that format)
//
// Result line:  id <tab> OK <tab> 1/0 per document (1 = accepted), e.g. 1101
//
//	id <tab> ERR <tab> message     (schema itself could not be loaded)
type valJob struct {
	ID     string   `json:"id"`
	Format string   `json:"format"`
	Path   string   `json:"path"`
	Type   string   `json:"type"`
	Docs   []string `json:"docs"`
}

func decodeGeneric(doc string) (any, error) {
	var v any
	dec := json.NewDecoder(strings.NewReader(doc))
	if err := dec.Decode(&v); err != nil {
		return nil, err
	}
	return v, nil
}

func runValidate(job valJob) (line string) {
	defer func() {
		if r := recover(); r != nil {
			line = job.ID + "\tERR\tpanic: " + oneLine(fmt.Sprint(r))
		}
	}()
	text, err := os.ReadFile(job.Path)
	if err != nil {
		return job.ID + "\tERR\t" + oneLine(err.Error())
	}
	var verdicts bytes.Buffer
	switch job.Format {
	case "openapi":
		loader := openapi3.NewLoader()
		doc, err := loader.LoadFromData(text)
		if err != nil {
			return job.ID + "\tERR\t" + oneLine(err.Error())
		}
		ref := doc.Components.Schemas[job.Type]
		if ref == nil || ref.Value == nil {
			return job.ID + "\tERR\tno schema " + job.Type
		}
		for _, d := range job.Docs {
			v, err := decodeGeneric(d)
			if err != nil {
				verdicts.WriteByte('0')
				continue
			}
			if err := ref.Value.VisitJSON(v, openapi3.EnableFormatValidation()); err != nil {
				verdicts.WriteByte('0')
			} else {
				verdicts.WriteByte('1')
			}
		}
	case "cue":
		cctx := cuecontext.New()
		root := cctx.CompileBytes(text)
		if root.Err() != nil {
			return job.ID + "\tERR\t" + oneLine(root.Err().Error())
		}
		def := root.LookupPath(cue.ParsePath("#" + job.Type))
		if !def.Exists() {
			def = root.LookupPath(cue.ParsePath(job.Type))
		}
		if !def.Exists() {
			return job.ID + "\tERR\tno definition " + job.Type
		}
		for _, d := range job.Docs {
			dv := cctx.CompileBytes([]byte(d))
			if dv.Err() != nil {
				verdicts.WriteByte('0')
				continue
			}
			u := def.Unify(dv)
			if err := u.Validate(cue.Concrete(true)); err != nil {
				verdicts.WriteByte('0')
			} else {
				verdicts.WriteByte('1')
			}
		}
	case "jsonschema":
		compiler := schemaparser.NewCompiler()
		compiler.AssertFormat = true
		if err := compiler.AddResource("schema", bytes.NewReader(text)); err != nil {
			return job.ID + "\tERR\t" + oneLine(err.Error())
		}
		loc := "schema"
		if job.Type != "" {
			loc = "schema#/definitions/" + job.Type
		}
		sch, err := compiler.Compile(loc)
		if err != nil {
			return job.ID + "\tERR\t" + oneLine(err.Error())
		}
		for _, d := range job.Docs {
			var v any
			dec := json.NewDecoder(strings.NewReader(d))
			dec.UseNumber()
			if err := dec.Decode(&v); err != nil {
				verdicts.WriteByte('0')
				continue
			}
			if err := sch.Validate(v); err != nil {
				verdicts.WriteByte('0')
			} else {
				verdicts.WriteByte('1')
			}
		}
	default:
		return job.ID + "\tERR\tunknown format " + job.Format
	}
	return job.ID + "\tOK\t" + verdicts.String()
}

func init() {
	commands["validate"] = func(in *bufio.Scanner, out *bufio.Writer) error {
		for in.Scan() {
			var job valJob
			if err := json.Unmarshal(in.Bytes(), &job); err != nil {
				return err
			}
			fmt.Fprintln(out, runValidate(job))
			out.Flush()
		}
		return in.Err()
	}
}
