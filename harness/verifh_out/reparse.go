package main

import (
	"bufio"
	"bytes"
	"context"
	"encoding/json"
	"fmt"
	"os"

	"github.com/getkin/kin-openapi/openapi3"
	"github.com/grafana/cog/internal/ast"
	"github.com/grafana/cog/internal/jsonschema"
	"github.com/grafana/cog/internal/openapi"
	schemaparser "github.com/santhosh-tekuri/jsonschema/v5"
)

// Command `reparse`: an EMITTED document is fed back to cog's own front-end and to the independent
// loaders that are cog dependencies.
//
//	{"id","format":"jsonschema"|"openapi","path","pkg"}
//
// result: {"id","status":"OK"|"ERR"|"PANIC","message",
//
//	"loader": "ok" | "<error>"      jsonschema: santhosh-tekuri compiler (draft-07 meta-schema validation)
//	                                openapi   : kin-openapi LoadFromData
//	"validate": "ok" | "<error>"    openapi only: kin-openapi T.Validate
//	"ir": Gallina term, "facts": canonical facts of the re-parsed schema}
type reparseJob struct {
	ID     string `json:"id"`
	Format string `json:"format"`
	Path   string `json:"path"`
	Pkg    string `json:"pkg"`
}

type reparseResult struct {
	ID       string          `json:"id"`
	Status   string          `json:"status"`
	Message  string          `json:"message,omitempty"`
	Loader   string          `json:"loader,omitempty"`
	Validate string          `json:"validate,omitempty"`
	IR       string          `json:"ir,omitempty"`
	Facts    json.RawMessage `json:"facts,omitempty"`
}

func runReparse(job reparseJob) (res reparseResult) {
	res = reparseResult{ID: job.ID, Status: "OK"}
	defer func() {
		if r := recover(); r != nil {
			res.Status, res.Message = "PANIC", oneLine(fmt.Sprint(r))
		}
	}()
	text, err := os.ReadFile(job.Path)
	if err != nil {
		res.Status, res.Message = "ERR", oneLine(err.Error())
		return res
	}
	var schema *ast.Schema
	switch job.Format {
	case "jsonschema":
		compiler := schemaparser.NewCompiler()
		if err := compiler.AddResource("schema", bytes.NewReader(text)); err != nil {
			res.Loader = oneLine(err.Error())
		} else if _, err := compiler.Compile("schema"); err != nil {
			res.Loader = oneLine(err.Error())
		} else {
			res.Loader = "ok"
		}
		schema, err = jsonschema.GenerateAST(bytes.NewReader(text), jsonschema.Config{Package: job.Pkg})
	case "openapi":
		loader := openapi3.NewLoader()
		doc, lerr := loader.LoadFromData(text)
		if lerr != nil {
			res.Loader = oneLine(lerr.Error())
			res.Status, res.Message = "ERR", res.Loader
			return res
		}
		res.Loader = "ok"
		if verr := doc.Validate(context.Background(), openapi3.DisableExamplesValidation()); verr != nil {
			res.Validate = oneLine(verr.Error())
		} else {
			res.Validate = "ok"
		}
		schema, err = openapi.GenerateAST(context.Background(), doc, openapi.Config{Package: job.Pkg, Validate: true}) // the default of the openapi input (no_validate: false)
	default:
		err = fmt.Errorf("unknown format %s", job.Format)
	}
	if err != nil {
		res.Status, res.Message = "ERR", oneLine(err.Error())
		return res
	}
	res.IR = gSchemas(ast.Schemas{schema})
	res.Facts = schemasFacts(ast.Schemas{schema})
	return res
}

func init() {
	commands["reparse"] = func(in *bufio.Scanner, out *bufio.Writer) error {
		for in.Scan() {
			var job reparseJob
			if err := json.Unmarshal(in.Bytes(), &job); err != nil {
				return err
			}
			printJSON(out, runReparse(job))
		}
		return in.Err()
	}
}
