package main

import (
	"bufio"
	"context"
	"encoding/json"
	"fmt"
	"os"
	"path/filepath"
	"sort"
	"strconv"
	"strings"
	"time"

	"github.com/grafana/codejen"
	"github.com/grafana/cog/internal/ast"
	"github.com/grafana/cog/internal/codegen"
	"github.com/grafana/cog/internal/jennies/common"
	"github.com/grafana/cog/internal/languages"
	"github.com/grafana/cog/internal/tools"
	"gopkg.in/yaml.v3"
)

// Harness of the "emitted artefacts" properties C12 and C02 (overlay-injected as /repo/cmd/verifh_out,
// never committed).  Commands (JSON lines in, one JSON object per line out):
//
//	gen     {"id","config","outdir","irlangs":["go","jsonschema"],"nogen":bool}
//	        the real pipeline (codegen.PipelineFromFile + Pipeline.Run = `cog generate`); additionally the
//	        context every language of `irlangs` receives (Pipeline.ContextForLanguage) as a Gallina term of
//	        coq/Model/IR.v, as an object summary and as canonical "facts" JSON.
//	genir   {"id","schemas":[IR JSON of harness/verifh/ir.go],"outdir","output":{...},"langs":[{"go":{...}},...],
//	         "irlangs":[...]}
//	        directly constructed IRs: per configured language the loop body of Pipeline.Run
//	        (ContextForLanguage, Jennies(config), PathPrefixer, GenerateFS) on the given schemas.
//	reparse {"id","format":"jsonschema"|"openapi","path","pkg"}
//	        cog's own front-end on an emitted document; for OpenAPI also kin-openapi's loader + Validate.
type genJob struct {
	ID      string   `json:"id"`
	Config  string   `json:"config"`
	Outdir  string   `json:"outdir"`
	IRLangs []string `json:"irlangs"`
	NoGen   bool     `json:"nogen"`
}

type langResult struct {
	Status  string   `json:"status"` // OK | ERR | PANIC
	Message string   `json:"message,omitempty"`
	Files   []string `json:"files,omitempty"`
}

type genResult struct {
	ID      string                     `json:"id"`
	Status  string                     `json:"status"` // OK | ERR | PANIC
	Stage   string                     `json:"stage,omitempty"`
	Message string                     `json:"message,omitempty"`
	PreIR   string                     `json:"pre_ir,omitempty"`
	IR      map[string]string          `json:"ir,omitempty"`
	Objects map[string][]objSummary    `json:"objects,omitempty"`
	Facts   map[string]json.RawMessage `json:"facts,omitempty"`
	Files   []string                   `json:"files,omitempty"`
	Langs   map[string]*langResult     `json:"langs,omitempty"`
}

func oneLine(s string) string {
	s = strings.ReplaceAll(s, "\n", " ")
	s = strings.ReplaceAll(s, "\t", " ")
	if len(s) > 800 {
		s = s[:800]
	}
	return s
}

type objSummary struct {
	Pkg    string   `json:"pkg"`
	GoPkg  string   `json:"gopkg"`
	Name   string   `json:"name"`
	Go     string   `json:"go"`
	Kind   string   `json:"kind"`
	Union  string   `json:"union"`
	Fields []string `json:"fields"`
}

func lastSegment(pkg string) string {
	parts := strings.Split(pkg, "/")
	return parts[len(parts)-1]
}

func objectSummary(schemas ast.Schemas) []objSummary {
	out := []objSummary{}
	for _, s := range schemas {
		if s == nil || s.Objects == nil {
			continue
		}
		s.Objects.Iterate(func(_ string, o ast.Object) {
			sum := objSummary{Pkg: s.Package, GoPkg: strings.ToLower(tools.CleanupNames(lastSegment(s.Package))), Name: o.Name,
				Go: tools.UpperCamelCase(o.Name), Kind: string(o.Type.Kind), Fields: []string{}}
			if o.Type.IsStruct() {
				if o.Type.HasHint(ast.HintDisjunctionOfScalars) {
					sum.Union = "scalars"
				}
				if o.Type.HasHint(ast.HintDiscriminatedDisjunctionOfRefs) {
					sum.Union = "refs"
				}
				for _, f := range o.Type.Struct.Fields {
					sum.Fields = append(sum.Fields, f.Name)
				}
			}
			out = append(out, sum)
		})
	}
	return out
}

// ---------- canonical facts of an IR: what C12 says must be carried over ----------
type tFacts struct {
	Kind     string      `json:"kind"`
	Nullable bool        `json:"nullable,omitempty"`
	Scalar   string      `json:"scalar,omitempty"`
	Cs       [][2]any    `json:"cs,omitempty"`
	Const    *anyBox     `json:"const,omitempty"`
	Enum     []any       `json:"enum,omitempty"`
	Fields   []fFacts    `json:"fields,omitempty"`
	Of       *tFacts     `json:"of,omitempty"`
	Ref      string      `json:"ref,omitempty"`
	RefPkg   string      `json:"refpkg,omitempty"`
	Branches []tFacts    `json:"branches,omitempty"`
	Default  *anyBox     `json:"default,omitempty"`
	DateTime bool        `json:"datetime,omitempty"`
	Hints    []string    `json:"hints,omitempty"`
	Extra    interface{} `json:"extra,omitempty"`
}

type anyBox struct{ V any }

func (b anyBox) MarshalJSON() ([]byte, error) { return json.Marshal(b.V) }

type fFacts struct {
	Name     string `json:"name"`
	Required bool   `json:"req"`
	Type     tFacts `json:"t"`
}

func typeFacts(t ast.Type) tFacts {
	f := tFacts{Kind: string(t.Kind), Nullable: t.Nullable}
	if t.Default != nil {
		f.Default = &anyBox{t.Default}
	}
	switch {
	case t.Kind == ast.KindScalar && t.Scalar != nil:
		f.Scalar = string(t.Scalar.ScalarKind)
		for _, c := range t.Scalar.Constraints {
			var a any
			if len(c.Args) > 0 {
				a = c.Args[0]
			}
			f.Cs = append(f.Cs, [2]any{string(c.Op), a})
		}
		if t.Scalar.Value != nil {
			f.Const = &anyBox{t.Scalar.Value}
		}
		f.DateTime = t.HasHint(ast.HintStringFormatDateTime)
	case t.Kind == ast.KindEnum && t.Enum != nil:
		f.Enum = []any{}
		for _, v := range t.Enum.Values {
			f.Enum = append(f.Enum, v.Value)
		}
	case t.Kind == ast.KindStruct && t.Struct != nil:
		f.Fields = []fFacts{}
		for _, fd := range t.Struct.Fields {
			f.Fields = append(f.Fields, fFacts{Name: fd.Name, Required: fd.Required, Type: typeFacts(fd.Type)})
		}
	case t.Kind == ast.KindArray && t.Array != nil:
		of := typeFacts(t.Array.ValueType)
		f.Of = &of
	case t.Kind == ast.KindMap && t.Map != nil:
		of := typeFacts(t.Map.ValueType)
		f.Of = &of
	case t.Kind == ast.KindRef && t.Ref != nil:
		f.Ref, f.RefPkg = t.Ref.ReferredType, t.Ref.ReferredPkg
	case t.Kind == ast.KindConstantRef && t.ConstantReference != nil:
		f.Ref, f.RefPkg = t.ConstantReference.ReferredType, t.ConstantReference.ReferredPkg
		f.Const = &anyBox{t.ConstantReference.ReferenceValue}
	case t.Kind == ast.KindDisjunction && t.Disjunction != nil:
		for _, b := range t.Disjunction.Branches {
			f.Branches = append(f.Branches, typeFacts(b))
		}
	case t.Kind == ast.KindIntersection && t.Intersection != nil:
		for _, b := range t.Intersection.Branches {
			f.Branches = append(f.Branches, typeFacts(b))
		}
	}
	return f
}

type oFacts struct {
	Name string `json:"name"`
	Type tFacts `json:"t"`
}
type sFacts struct {
	Pkg     string   `json:"pkg"`
	Entry   string   `json:"entry"`
	Objects []oFacts `json:"objects"`
}

func schemasFacts(schemas ast.Schemas) json.RawMessage {
	out := []sFacts{}
	for _, s := range schemas {
		if s == nil || s.Objects == nil {
			continue
		}
		sf := sFacts{Pkg: s.Package, Entry: s.EntryPoint, Objects: []oFacts{}}
		s.Objects.Iterate(func(_ string, o ast.Object) {
			sf.Objects = append(sf.Objects, oFacts{Name: o.Name, Type: typeFacts(o.Type)})
		})
		out = append(out, sf)
	}
	b, err := json.Marshal(out)
	if err != nil {
		b, _ = json.Marshal(map[string]string{"error": err.Error()})
	}
	return b
}

func writeFiles(fs *codejen.FS, outdir string) ([]string, error) {
	var names []string
	for _, f := range fs.AsFiles() {
		p := filepath.Join(outdir, f.RelativePath)
		if err := os.MkdirAll(filepath.Dir(p), 0o755); err != nil {
			return nil, err
		}
		if err := os.WriteFile(p, f.Data, 0o644); err != nil {
			return nil, err
		}
		names = append(names, f.RelativePath)
	}
	sort.Strings(names)
	return names, nil
}

func runGen(job genJob) (res genResult) {
	res = genResult{ID: job.ID, Status: "OK", Stage: "load"}
	defer func() {
		if r := recover(); r != nil {
			res.Status, res.Message = "PANIC", oneLine(fmt.Sprint(r))
		}
	}()
	fail := func(err error) genResult {
		res.Status, res.Message = "ERR", oneLine(err.Error())
		return res
	}
	ctx := context.Background()
	pipeline, err := codegen.PipelineFromFile(job.Config)
	if err != nil {
		return fail(err)
	}
	res.Stage = "parse"
	schemas, err := pipeline.LoadSchemas(ctx)
	if err != nil {
		return fail(err)
	}
	res.PreIR = gSchemas(schemas)
	res.Stage = "chain"
	targets, err := pipeline.OutputLanguages()
	if err != nil {
		return fail(err)
	}
	res.IR, res.Objects, res.Facts = map[string]string{}, map[string][]objSummary{}, map[string]json.RawMessage{}
	for _, lang := range job.IRLangs {
		target := targets[lang]
		if target == nil {
			return fail(fmt.Errorf("language %s not configured", lang))
		}
		lctx, err := pipeline.ContextForLanguage(target, schemas)
		if err != nil {
			return fail(err)
		}
		res.IR[lang] = gSchemas(lctx.Schemas)
		res.Objects[lang] = objectSummary(lctx.Schemas)
		res.Facts[lang] = schemasFacts(lctx.Schemas)
	}
	if !job.NoGen {
		res.Stage = "generate"
		fs, err := pipeline.Run(ctx)
		if err != nil {
			return fail(err)
		}
		res.Stage = "write"
		names, err := writeFiles(fs, job.Outdir)
		if err != nil {
			return fail(err)
		}
		res.Files = names
	}
	res.Stage = ""
	return res
}

// ---------- directly constructed IRs ----------
type genIRJob struct {
	NoGen   bool             `json:"nogen"` // chains and IR printing only
	Timeout int              `json:"timeout_s"`
	ID      string           `json:"id"`
	Schemas []jSchema        `json:"schemas"`
	Outdir  string           `json:"outdir"`
	Output  map[string]any   `json:"output"` // types / builders / converters / api_reference
	Langs   []map[string]any `json:"langs"`  // [{"go": {...}}, {"python": {...}}]  (the YAML shape of output.languages)
	IRLangs []string         `json:"irlangs"`
}

func runGenIR(job genIRJob) (res genResult) {
	res = genResult{ID: job.ID, Status: "OK", Stage: "load", Langs: map[string]*langResult{}}
	defer func() {
		if r := recover(); r != nil {
			res.Status, res.Message = "PANIC", oneLine(fmt.Sprint(r))
		}
	}()
	fail := func(err error) genResult {
		res.Status, res.Message = "ERR", oneLine(err.Error())
		return res
	}
	schemas := loadSchemas(job.Schemas)
	res.PreIR = gSchemas(schemas)
	// the output section goes through the real YAML decoder of the pipeline
	outDoc := map[string]any{"directory": "%l"}
	for k, v := range job.Output {
		outDoc[k] = v
	}
	outDoc["languages"] = job.Langs
	raw, err := yaml.Marshal(map[string]any{"output": outDoc})
	if err != nil {
		return fail(err)
	}
	pipeline, err := codegen.NewPipeline()
	if err != nil {
		return fail(err)
	}
	dec := yaml.NewDecoder(strings.NewReader(string(raw)))
	dec.KnownFields(true)
	if err := dec.Decode(pipeline); err != nil {
		return fail(err)
	}
	res.Stage = "chain"
	targets, err := pipeline.OutputLanguages()
	if err != nil {
		return fail(err)
	}
	names := make([]string, 0, len(targets))
	for n := range targets {
		names = append(names, n)
	}
	sort.Strings(names)
	res.IR, res.Objects, res.Facts = map[string]string{}, map[string][]objSummary{}, map[string]json.RawMessage{}
	cfg := languages.Config{Debug: pipeline.Debug, Types: pipeline.Output.Types, Builders: pipeline.Output.Builders,
		Converters: pipeline.Output.Converters, APIReference: pipeline.Output.APIReference}
	wantIR := map[string]bool{}
	for _, l := range job.IRLangs {
		wantIR[l] = true
	}
	for _, lang := range names {
		target := targets[lang]
		lr := &langResult{Status: "OK"}
		res.Langs[lang] = lr
		func() {
			defer func() {
				if r := recover(); r != nil {
					lr.Status, lr.Message = "PANIC", oneLine(fmt.Sprint(r))
				}
			}()
			// the body of the loop of Pipeline.Run
			lctx, err := pipeline.ContextForLanguage(target, schemas)
			if err != nil {
				lr.Status, lr.Message = "ERR", "chain: "+oneLine(err.Error())
				return
			}
			if wantIR[lang] {
				res.IR[lang] = gSchemas(lctx.Schemas)
				res.Objects[lang] = objectSummary(lctx.Schemas)
				res.Facts[lang] = schemasFacts(lctx.Schemas)
			}
			if job.NoGen {
				return
			}
			jennies := target.Jennies(cfg)
			jennies.AddPostprocessors(common.PathPrefixer(lang))
			fs, err := jennies.GenerateFS(lctx)
			if err != nil {
				lr.Status, lr.Message = "ERR", oneLine(err.Error())
				return
			}
			files, err := writeFiles(fs, job.Outdir)
			if err != nil {
				lr.Status, lr.Message = "ERR", "write: "+oneLine(err.Error())
				return
			}
			lr.Files = files
		}()
	}
	res.Stage = ""
	return res
}

func printJSON(out *bufio.Writer, v any) {
	b, err := json.Marshal(v)
	if err != nil {
		b, _ = json.Marshal(map[string]string{"status": "ERR", "message": "cannot print result: " + err.Error()})
	}
	out.Write(b)
	out.WriteByte('\n')
	out.Flush()
}

// watchdog: a job that does not return within `limit` is reported as TIMEOUT and abandoned (its goroutine keeps
// spinning until the process exits; a fatal error such as a stack overflow still kills the process and is
// handled by the caller's bisection).
func withWatchdog(id string, limit time.Duration, f func() genResult) genResult {
	done := make(chan genResult, 1)
	go func() { done <- f() }()
	select {
	case r := <-done:
		return r
	case <-time.After(limit):
		return genResult{ID: id, Status: "TIMEOUT", Stage: "generate", Message: "no result within " + limit.String()}
	}
}

func jobLimit() time.Duration {
	if v := os.Getenv("VERIFH_JOB_TIMEOUT_S"); v != "" {
		if n, err := strconv.Atoi(v); err == nil && n > 0 {
			return time.Duration(n) * time.Second
		}
	}
	return 15 * time.Second
}

func init() {
	commands["gen"] = func(in *bufio.Scanner, out *bufio.Writer) error {
		for in.Scan() {
			var job genJob
			if err := json.Unmarshal(in.Bytes(), &job); err != nil {
				return err
			}
			printJSON(out, withWatchdog(job.ID, jobLimit(), func() genResult { return runGen(job) }))
		}
		return in.Err()
	}
	commands["genir"] = func(in *bufio.Scanner, out *bufio.Writer) error {
		for in.Scan() {
			var job genIRJob
			if err := json.Unmarshal(in.Bytes(), &job); err != nil {
				return err
			}
			limit := jobLimit()
			if job.Timeout > 0 {
				limit = time.Duration(job.Timeout) * time.Second
			}
			printJSON(out, withWatchdog(job.ID, limit, func() genResult { return runGenIR(job) }))
		}
		return in.Err()
	}
}
