//go:build veriforder

package main

import "github.com/grafana/cog/internal/verifhorder"

// forced build: files that range over maps are replaced (overlay, build time only) by copies
// iterating in the order set here.
const forcedBuild = true

func setOrder(def string, sites map[string]string) { verifhorder.Reset(def, sites) }
func orderHits() map[string]int                   { return verifhorder.Hits }
func resetHits()                                  { verifhorder.Hits = map[string]int{} }
