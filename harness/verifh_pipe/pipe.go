package main

import (
	"bufio"
	"context"
	"crypto/sha256"
	"encoding/hex"
	"encoding/json"
	"fmt"
	"sort"
	"strings"

	"github.com/grafana/codejen"
	"github.com/grafana/cog/internal/ast"
	"github.com/grafana/cog/internal/ast/compiler"
	"github.com/grafana/cog/internal/codegen"
	"github.com/grafana/cog/internal/languages"
)

// ---- job / result of `run`: the pipeline of `cog generate` + the IR `cog inspect` prints,
// repeated n times in this process; distinct observables are reported with their counts.
type orderSpec struct {
	Default string            `json:"default"`
	Sites   map[string]string `json:"sites"`
}

type runJob struct {
	Config     string            `json:"config"`
	Parameters map[string]string `json:"parameters"`
	N          int               `json:"n"`
	Orders     []orderSpec       `json:"orders"` // run i uses Orders[i % len]; forced build only
	Inspect    bool              `json:"inspect"`
	Detail     bool              `json:"detail"` // include texts of what differs between variants
}

type variant struct {
	Count    int               `json:"count"`
	First    int               `json:"first"` // index of the first run with this observable
	Order    *orderSpec        `json:"order,omitempty"`
	Status   string            `json:"status"` // Ok | Err | Panic
	ErrText  string            `json:"err_text,omitempty"`
	Files    map[string]string `json:"files"` // path -> sha256 of contents
	FilesSha string            `json:"files_sha"`
	IR       map[string]string `json:"ir"` // what -> sha256 of the JSON `cog inspect` prints
	PkgOrder []string          `json:"pkg_order"`
	Texts    map[string]string `json:"texts,omitempty"`
	texts    map[string]string
}

type runResult struct {
	Runs     int            `json:"runs"`
	Variants []*variant     `json:"variants"`
	Hits     map[string]int `json:"hits,omitempty"`
	Forced   bool           `json:"forced"`
}

func sha(b []byte) string {
	h := sha256.Sum256(b)
	return hex.EncodeToString(h[:])
}

type dummyLanguage struct{}

func (language dummyLanguage) Name() string { return "dummy" }
func (language dummyLanguage) Jennies(_ languages.Config) *codejen.JennyList[languages.Context] {
	return nil
}
func (language dummyLanguage) CompilerPasses() compiler.Passes { return nil }

func loadPipeline(config string, params map[string]string) (*codegen.Pipeline, error) {
	// exactly what cmd/cli/generate and cmd/cli/inspect do
	return codegen.PipelineFromFile(config, codegen.Parameters(params))
}

func sortedLanguages(p *codegen.Pipeline) ([]string, languages.Languages, error) {
	ls, err := p.OutputLanguages()
	if err != nil {
		return nil, nil, err
	}
	names := make([]string, 0, len(ls))
	for n := range ls {
		names = append(names, n)
	}
	sort.Strings(names)
	return names, ls, nil
}

func oneRun(job runJob) (v *variant) {
	v = &variant{Status: "Ok", Files: map[string]string{}, IR: map[string]string{}, texts: map[string]string{}}
	defer func() {
		if r := recover(); r != nil {
			v.Status = "Panic"
			v.ErrText = fmt.Sprint(r)
		}
	}()
	ctx := context.Background()
	pipeline, err := loadPipeline(job.Config, job.Parameters)
	if err != nil {
		v.Status, v.ErrText = "Err", "config: "+err.Error()
		return v
	}
	fs, err := pipeline.Run(ctx)
	if err != nil {
		v.Status, v.ErrText = "Err", err.Error()
		return v
	}
	for _, f := range fs.AsFiles() {
		v.Files[f.RelativePath] = sha(f.Data)
		v.texts["file:"+f.RelativePath] = string(f.Data)
	}
	if job.Inspect {
		// `cog inspect` builds its own pipeline from the same file
		ip, err := loadPipeline(job.Config, job.Parameters)
		if err != nil {
			v.Status, v.ErrText = "Err", "config: "+err.Error()
			return v
		}
		schemas, err := ip.LoadSchemas(ctx)
		if err != nil {
			v.Status, v.ErrText = "Err", "inspect: "+err.Error()
			return v
		}
		for _, s := range schemas {
			v.PkgOrder = append(v.PkgOrder, s.Package)
		}
		put := func(what string, val any) {
			b, err := json.MarshalIndent(val, "", "  ")
			if err != nil {
				b = []byte("marshal error: " + err.Error())
			}
			v.IR[what] = sha(b)
			v.texts["ir:"+what] = string(b)
		}
		names, ls, err := sortedLanguages(ip)
		if err != nil {
			v.Status, v.ErrText = "Err", "inspect: "+err.Error()
			return v
		}
		all := append([]string{""}, names...)
		for _, name := range all {
			var lang languages.Language = dummyLanguage{}
			if name != "" {
				lang = ls[name]
			}
			c, err := ip.ContextForLanguage(lang, schemas)
			if err != nil {
				v.IR["types:"+name] = "Err"
				continue
			}
			put("types:"+name, c.Schemas)    // cog inspect --ir types [--language name]
			if ip.Output.Builders {
				put("builders:"+name, c) // cog inspect --ir builders [--language name]
			}
		}
	}
	return v
}

func (v *variant) key() string {
	paths := make([]string, 0, len(v.Files))
	for p := range v.Files {
		paths = append(paths, p)
	}
	sort.Strings(paths)
	var b strings.Builder
	for _, p := range paths {
		b.WriteString(p + "\x00" + v.Files[p] + "\n")
	}
	v.FilesSha = sha([]byte(b.String()))
	irs := make([]string, 0, len(v.IR))
	for k := range v.IR {
		irs = append(irs, k)
	}
	sort.Strings(irs)
	var c strings.Builder
	for _, k := range irs {
		c.WriteString(k + "=" + v.IR[k] + ";")
	}
	return v.Status + "|" + v.FilesSha + "|" + c.String()
}

func doRun(job runJob) runResult {
	res := runResult{Forced: forcedBuild}
	if job.N <= 0 {
		job.N = 1
	}
	resetHits()
	seen := map[string]*variant{}
	for i := 0; i < job.N; i++ {
		var spec *orderSpec
		if len(job.Orders) > 0 {
			spec = &job.Orders[i%len(job.Orders)]
			setOrder(spec.Default, spec.Sites)
		} else {
			setOrder("native", nil)
		}
		v := oneRun(job)
		k := v.key()
		if old, ok := seen[k]; ok {
			old.Count++
			continue
		}
		v.Count, v.First, v.Order = 1, i, spec
		seen[k] = v
		res.Variants = append(res.Variants, v)
	}
	res.Runs = job.N
	if job.Detail && len(res.Variants) > 1 {
		a := res.Variants[0]
		for _, b := range res.Variants[1:] {
			b.Texts = map[string]string{}
			if a.Texts == nil {
				a.Texts = map[string]string{}
			}
			for k, t := range b.texts {
				if a.texts[k] != t {
					b.Texts[k] = clip(t)
					a.Texts[k] = clip(a.texts[k])
				}
			}
			for k, t := range a.texts {
				if _, ok := b.texts[k]; !ok {
					a.Texts[k] = clip(t)
				}
			}
		}
	}
	if h := orderHits(); h != nil {
		res.Hits = map[string]int{}
		for k, n := range h {
			res.Hits[k] = n
		}
	}
	return res
}

func clip(s string) string {
	if len(s) > 20000 {
		return s[:20000] + "...[clipped]"
	}
	return s
}

func init() {
	commands["run"] = func(in *bufio.Scanner, out *bufio.Writer) error {
		return jobLoop(in, out, func(line []byte) (any, error) {
			var job runJob
			if err := json.Unmarshal(line, &job); err != nil {
				return nil, err
			}
			return doRun(job), nil
		})
	}
}

var _ = ast.Schemas{}
