package main

import (
	"bufio"
	"context"
	"encoding/json"
	"fmt"
	"reflect"
	"sort"

	"github.com/grafana/cog/internal/ast"
	"github.com/grafana/cog/internal/languages"
	cogyaml "github.com/grafana/cog/internal/yaml"
)

// snapshot: a deep copy of any Go value into a neutral tree (map[string]any / []any / scalars),
// made by this reflection walker - NOT by cog's DeepCopy (whose faithfulness is C18's subject).
// Unexported fields (orderedmap records/order) are read too. Pointers are followed; the IR is a
// tree, a depth bound guards against accidental cycles.
func snapshot(v reflect.Value, depth int) any {
	if depth > 200 {
		return "<depth>"
	}
	switch v.Kind() {
	case reflect.Invalid:
		return nil
	case reflect.Bool:
		return v.Bool()
	case reflect.Int, reflect.Int8, reflect.Int16, reflect.Int32, reflect.Int64:
		return fmt.Sprintf("%s:%d", v.Type().String(), v.Int())
	case reflect.Uint, reflect.Uint8, reflect.Uint16, reflect.Uint32, reflect.Uint64, reflect.Uintptr:
		return fmt.Sprintf("%s:%d", v.Type().String(), v.Uint())
	case reflect.Float32, reflect.Float64:
		return fmt.Sprintf("%s:%v", v.Type().String(), v.Float())
	case reflect.String:
		return "s:" + v.String()
	case reflect.Ptr:
		if v.IsNil() {
			return nil
		}
		return map[string]any{"*": snapshot(v.Elem(), depth+1)}
	case reflect.Interface:
		if v.IsNil() {
			return nil
		}
		e := v.Elem()
		return map[string]any{"any:" + e.Type().String(): snapshot(e, depth+1)}
	case reflect.Slice, reflect.Array:
		if v.Kind() == reflect.Slice && v.IsNil() {
			return []any{}
		}
		out := make([]any, v.Len())
		for i := 0; i < v.Len(); i++ {
			out[i] = snapshot(v.Index(i), depth+1)
		}
		return out
	case reflect.Map:
		out := map[string]any{}
		it := v.MapRange()
		for it.Next() {
			out["k:"+fmt.Sprint(snapshot(it.Key(), depth+1))] = snapshot(it.Value(), depth+1)
		}
		return out
	case reflect.Struct:
		out := map[string]any{}
		t := v.Type()
		for i := 0; i < v.NumField(); i++ {
			if t.Field(i).Name == "PassesTrail" || t.Field(i).Name == "VeneerTrail" {
				continue // debug information, not part of the observable
			}
			out[t.Field(i).Name] = snapshot(v.Field(i), depth+1)
		}
		return out
	case reflect.Func, reflect.Chan, reflect.UnsafePointer:
		return "<" + v.Kind().String() + ">"
	}
	return "<?>"
}

// diffPaths lists where two snapshots differ (at most max entries).
func diffPaths(a, b any, path string, out *[]string, max int) {
	if len(*out) >= max {
		return
	}
	if reflect.DeepEqual(a, b) {
		return
	}
	switch x := a.(type) {
	case map[string]any:
		y, ok := b.(map[string]any)
		if !ok {
			*out = append(*out, path)
			return
		}
		keys := map[string]bool{}
		for k := range x {
			keys[k] = true
		}
		for k := range y {
			keys[k] = true
		}
		ks := make([]string, 0, len(keys))
		for k := range keys {
			ks = append(ks, k)
		}
		sort.Strings(ks)
		for _, k := range ks {
			xv, okx := x[k]
			yv, oky := y[k]
			if !okx || !oky {
				*out = append(*out, path+"/"+k)
				continue
			}
			diffPaths(xv, yv, path+"/"+k, out, max)
		}
	case []any:
		y, ok := b.([]any)
		if !ok || len(x) != len(y) {
			*out = append(*out, path+"[len]")
			return
		}
		for i := range x {
			diffPaths(x[i], y[i], fmt.Sprintf("%s[%d]", path, i), out, max)
		}
	default:
		*out = append(*out, path)
	}
}

// ---- `mutate`: do the transformation chains modify the schemas they are handed?
type mutateJob struct {
	Config     string            `json:"config"`
	Parameters map[string]string `json:"parameters"`
	Order      string            `json:"order"` // forced build: sorted | reverse | native
}

type stageDiff struct {
	Stage string   `json:"stage"`
	Lang  string   `json:"lang"`
	Paths []string `json:"paths"`
}

type mutateResult struct {
	Status      string            `json:"status"`
	ErrText     string            `json:"err_text,omitempty"`
	Languages   []string          `json:"languages"`
	Packages    []string          `json:"packages"`
	Objects     int               `json:"objects"`
	Mutations   []stageDiff       `json:"mutations"`
	CtxAlone    map[string]string `json:"ctx_alone"`  // language -> sha of the context computed from fresh schemas
	CtxShared   map[string]string `json:"ctx_shared"` // language -> sha of the context computed after every other language ran on the same schemas
	SnapshotSha string            `json:"snapshot_sha"`
}

func snapOf(s ast.Schemas) any { return snapshot(reflect.ValueOf(s), 0) }

func ctxSha(c languages.Context) string {
	b, err := json.Marshal(snapshot(reflect.ValueOf(c), 0))
	if err != nil {
		return "marshal:" + err.Error()
	}
	return sha(b)
}

func doMutate(job mutateJob) (res mutateResult) {
	res = mutateResult{Status: "Ok", CtxAlone: map[string]string{}, CtxShared: map[string]string{}}
	defer func() {
		if r := recover(); r != nil {
			res.Status, res.ErrText = "Panic", fmt.Sprint(r)
		}
	}()
	ctx := context.Background()
	if job.Order != "" {
		setOrder(job.Order, nil)
	} else {
		setOrder("native", nil)
	}
	p, err := loadPipeline(job.Config, job.Parameters)
	if err != nil {
		res.Status, res.ErrText = "Err", err.Error()
		return
	}
	names, ls, err := sortedLanguages(p)
	if err != nil {
		res.Status, res.ErrText = "Err", err.Error()
		return
	}
	res.Languages = names
	shared, err := p.LoadSchemas(ctx)
	if err != nil {
		res.Status, res.ErrText = "Err", err.Error()
		return
	}
	for _, s := range shared {
		res.Packages = append(res.Packages, s.Package)
		res.Objects += s.Objects.Len()
	}
	snap0 := snapOf(shared)
	b, _ := json.Marshal(snap0)
	res.SnapshotSha = sha(b)
	check := func(stage, lang string) {
		now := snapOf(shared)
		if !reflect.DeepEqual(snap0, now) {
			var paths []string
			diffPaths(snap0, now, "", &paths, 8)
			res.Mutations = append(res.Mutations, stageDiff{Stage: stage, Lang: lang, Paths: paths})
			snap0 = now // report each stage's own damage once
		}
	}
	// copies for the "alone" contexts, taken before anything ran (Schemas.DeepCopy: C18)
	pristine := map[string]ast.Schemas{}
	for _, name := range names {
		pristine[name] = shared.DeepCopy()
	}
	// (a) each language's chain alone, through compiler.Passes.Process
	for _, name := range names {
		_, _ = ls[name].CompilerPasses().Process(shared)
		check("Passes.Process", name)
	}
	// (a') the user-configured chain (transformations.schemas) applied once more to the shared schemas
	if common, err := cogyaml.NewCompilerLoader().PassesFrom(p.Transforms.CommonPassesFiles); err == nil && len(common) > 0 {
		_, _ = common.Process(shared)
		check("Passes.Process", "configured-chain")
		// ... and to the consolidated schemas it was written for (what LoadSchemas hands it)
		var raw ast.Schemas
		ok := true
		for _, input := range p.Inputs {
			ss, err := input.LoadSchemas(ctx)
			if err != nil {
				ok = false
				break
			}
			raw = append(raw, ss...)
		}
		if ok {
			if raw, err = raw.Consolidate(); err == nil {
				before := snapOf(raw)
				_, _ = common.Process(raw)
				after := snapOf(raw)
				if !reflect.DeepEqual(before, after) {
					var paths []string
					diffPaths(before, after, "", &paths, 8)
					res.Mutations = append(res.Mutations, stageDiff{Stage: "Passes.Process", Lang: "configured-chain-on-consolidated-inputs", Paths: paths})
				}
			}
		}
	}
	// (b) contexts: alone, on a copy taken before any chain ran ...
	for _, name := range names {
		fresh := pristine[name]
		c, err := p.ContextForLanguage(ls[name], fresh)
		if err != nil {
			res.CtxAlone[name] = "Err"
			continue
		}
		res.CtxAlone[name] = ctxSha(c)
	}
	// ... versus on the shared schemas, after every other language (what Pipeline.Run does)
	for i := range names {
		for j, other := range names {
			if j == i {
				continue
			}
			_, _ = p.ContextForLanguage(ls[other], shared)
			check("ContextForLanguage", other)
		}
		c, err := p.ContextForLanguage(ls[names[i]], shared)
		check("ContextForLanguage", names[i])
		if err != nil {
			res.CtxShared[names[i]] = "Err"
			continue
		}
		res.CtxShared[names[i]] = ctxSha(c)
	}
	return
}

func init() {
	commands["mutate"] = func(in *bufio.Scanner, out *bufio.Writer) error {
		return jobLoop(in, out, func(line []byte) (any, error) {
			var job mutateJob
			if err := json.Unmarshal(line, &job); err != nil {
				return nil, err
			}
			return doMutate(job), nil
		})
	}
}
