// Package verifhorder is injected (build-time overlay only, never written to /repo) next to
// rewritten copies of the files that range over maps: `for k, v := range m` becomes an
// iteration over Pairs(m, site), whose key order the harness dictates per site. Used to SEARCH
// for order dependence deterministically; the all-orders claim is carried by the Coq theorems.
package verifhorder

import (
	"fmt"
	"sort"
)

type Pair[K comparable, V any] struct {
	K K
	V V
}

// Default is the order used at sites without an entry in Sites: native | sorted | reverse.
var Default = "native"

// Sites maps a site id (file:func:operand#ordinal) to its order.
var Sites = map[string]string{}

// Hits counts, per site, the iterations over a map holding at least two entries.
var Hits = map[string]int{}

func Reset(def string, sites map[string]string) {
	Default = def
	Sites = sites
	if Sites == nil {
		Sites = map[string]string{}
	}
}

func Pairs[M ~map[K]V, K comparable, V any](m M, site string) []Pair[K, V] {
	out := make([]Pair[K, V], 0, len(m))
	for k, v := range m {
		out = append(out, Pair[K, V]{k, v})
	}
	if len(out) >= 2 {
		Hits[site]++
	}
	mode, ok := Sites[site]
	if !ok {
		mode = Default
	}
	if mode == "native" {
		return out
	}
	keys := make([]string, len(out))
	idx := make([]int, len(out))
	for i, p := range out {
		if s, ok := any(p.K).(string); ok {
			keys[i] = s
		} else {
			keys[i] = fmt.Sprintf("%v", p.K)
		}
		idx[i] = i
	}
	sort.SliceStable(idx, func(a, b int) bool {
		if mode == "reverse" {
			return keys[idx[a]] > keys[idx[b]]
		}
		return keys[idx[a]] < keys[idx[b]]
	})
	res := make([]Pair[K, V], len(out))
	for i, j := range idx {
		res[i] = out[j]
	}
	return res
}
