//go:build !veriforder

package main

// plain build: /repo's sources unmodified, Go's own map order.
const forcedBuild = false

func setOrder(def string, sites map[string]string) {}
func orderHits() map[string]int                   { return nil }
func resetHits()                                  {}
