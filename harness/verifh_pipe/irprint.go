// Gallina printers for the IR (copied from harness/verifh/ir.go; constructor order follows coq/Model/IR.v).
package main

import (
	"encoding/json"
	"fmt"
	"sort"
	"strconv"
	"strings"

	"github.com/grafana/cog/internal/ast"
)

func gs(s string) string { return "\"" + strings.ReplaceAll(s, "\"", "\"\"") + "\"" }

func gList(items []string) string { return "[" + strings.Join(items, "; ") + "]" }

func gStrs(l []string) string {
	items := make([]string, len(l))
	for i, s := range l {
		items[i] = gs(s)
	}
	return gList(items)
}

func gZZ(v int64) string {
	if v < 0 {
		return fmt.Sprintf("(%d)%%Z", v)
	}
	return fmt.Sprintf("%d%%Z", v)
}

func gDyn(v any) string {
	switch x := v.(type) {
	case nil:
		return "DNil"
	case bool:
		return fmt.Sprintf("(DBool %t)", x)
	case string:
		return "(DStr " + gs(x) + ")"
	case int:
		return "(DInt " + gs("int") + " " + gZZ(int64(x)) + ")"
	case int8:
		return "(DInt " + gs("int8") + " " + gZZ(int64(x)) + ")"
	case int16:
		return "(DInt " + gs("int16") + " " + gZZ(int64(x)) + ")"
	case int32:
		return "(DInt " + gs("int32") + " " + gZZ(int64(x)) + ")"
	case int64:
		return "(DInt " + gs("int64") + " " + gZZ(x) + ")"
	case uint8:
		return "(DInt " + gs("uint8") + " " + gZZ(int64(x)) + ")"
	case uint16:
		return "(DInt " + gs("uint16") + " " + gZZ(int64(x)) + ")"
	case uint32:
		return "(DInt " + gs("uint32") + " " + gZZ(int64(x)) + ")"
	case uint64:
		return "(DInt " + gs("uint64") + " " + gZZ(int64(x)) + ")"
	case float64:
		return "(DFloat " + gs("float64") + " " + gs(strconv.FormatFloat(x, 'g', -1, 64)) + ")"
	case float32:
		return "(DFloat " + gs("float32") + " " + gs(strconv.FormatFloat(float64(x), 'g', -1, 32)) + ")"
	case json.Number:
		return "(DFloat " + gs("json.Number") + " " + gs(string(x)) + ")"
	case []any:
		items := make([]string, len(x))
		for i := range x {
			items[i] = gDyn(x[i])
		}
		return "(DList " + gList(items) + ")"
	case map[string]any:
		keys := make([]string, 0, len(x))
		for k := range x {
			keys = append(keys, k)
		}
		sort.Strings(keys)
		items := make([]string, len(keys))
		for i, k := range keys {
			items[i] = "(" + gs(k) + ", " + gDyn(x[k]) + ")"
		}
		return "(DMap " + gList(items) + ")"
	}
	return "(DOther " + gs(fmt.Sprintf("%T", v)) + " " + gs(fmt.Sprintf("%v", v)) + ")"
}

func isDisjHint(v any) bool {
	switch v.(type) {
	case ast.DisjunctionType, *ast.DisjunctionType:
		return true
	}
	return false
}

func gAttrs(t ast.Type) string {
	keys := make([]string, 0, len(t.Hints))
	for k, v := range t.Hints {
		if isDisjHint(v) {
			continue
		}
		keys = append(keys, k)
	}
	sort.Strings(keys)
	items := make([]string, len(keys))
	for i, k := range keys {
		items[i] = "(" + gs(k) + ", " + gDyn(t.Hints[k]) + ")"
	}
	if !t.Nullable && t.Default == nil && len(items) == 0 {
		return "A0"
	}
	return fmt.Sprintf("{| nullable := %t; dflt := %s; hints := %s |}", t.Nullable, gDyn(t.Default), gList(items))
}

func gMapping(m map[string]string) string {
	keys := make([]string, 0, len(m))
	for k := range m {
		keys = append(keys, k)
	}
	sort.Strings(keys)
	items := make([]string, len(keys))
	for i, k := range keys {
		items[i] = "(" + gs(k) + ", " + gs(m[k]) + ")"
	}
	return gList(items)
}

func gDisj(d ast.DisjunctionType) string {
	items := make([]string, len(d.Branches))
	for i, b := range d.Branches {
		items[i] = gType(b)
	}
	return fmt.Sprintf("(mkDisj %s %s %s)", gList(items), gs(d.Discriminator), gMapping(d.DiscriminatorMapping))
}

func gField(f ast.StructField) string {
	return fmt.Sprintf("(mkField %s %s %s %t)", gs(f.Name), gStrs(f.Comments), gType(f.Type), f.Required)
}

func gType(t ast.Type) string {
	a := gAttrs(t)
	bad := func() string { return "(TBad " + a + " " + gs(string(t.Kind)) + ")" }
	switch t.Kind {
	case ast.KindDisjunction:
		if t.Disjunction == nil {
			return bad()
		}
		return "(TDisj " + a + " " + gDisj(*t.Disjunction) + ")"
	case ast.KindArray:
		if t.Array == nil {
			return bad()
		}
		return "(TArray " + a + " " + gType(t.Array.ValueType) + ")"
	case ast.KindEnum:
		if t.Enum == nil {
			return bad()
		}
		items := make([]string, len(t.Enum.Values))
		for i, v := range t.Enum.Values {
			items[i] = fmt.Sprintf("(mkEnumVal %s %s %s)", gType(v.Type), gs(v.Name), gDyn(v.Value))
		}
		return "(TEnum " + a + " " + gList(items) + ")"
	case ast.KindMap:
		if t.Map == nil {
			return bad()
		}
		return "(TMap " + a + " " + gType(t.Map.IndexType) + " " + gType(t.Map.ValueType) + ")"
	case ast.KindStruct:
		if t.Struct == nil {
			return bad()
		}
		var dh []string
		keys := make([]string, 0)
		for k, v := range t.Hints {
			if isDisjHint(v) {
				keys = append(keys, k)
			}
		}
		sort.Strings(keys)
		for _, k := range keys {
			switch d := t.Hints[k].(type) {
			case ast.DisjunctionType:
				dh = append(dh, "("+gs(k)+", "+gDisj(d)+")")
			case *ast.DisjunctionType:
				dh = append(dh, "("+gs(k)+", "+gDisj(*d)+")")
			}
		}
		fs := make([]string, len(t.Struct.Fields))
		for i, f := range t.Struct.Fields {
			fs[i] = gField(f)
		}
		return "(TStruct " + a + " " + gList(dh) + " " + gList(fs) + ")"
	case ast.KindRef:
		if t.Ref == nil {
			return bad()
		}
		return "(TRef " + a + " " + gs(t.Ref.ReferredPkg) + " " + gs(t.Ref.ReferredType) + ")"
	case ast.KindConstantRef:
		if t.ConstantReference == nil {
			return bad()
		}
		return "(TConstRef " + a + " " + gs(t.ConstantReference.ReferredPkg) + " " + gs(t.ConstantReference.ReferredType) + " " + gDyn(t.ConstantReference.ReferenceValue) + ")"
	case ast.KindScalar:
		if t.Scalar == nil {
			return bad()
		}
		cs := make([]string, len(t.Scalar.Constraints))
		for i, c := range t.Scalar.Constraints {
			args := make([]string, len(c.Args))
			for j, x := range c.Args {
				args[j] = gDyn(x)
			}
			cs[i] = fmt.Sprintf("{| c_op := %s; c_args := %s |}", gs(string(c.Op)), gList(args))
		}
		return "(TScalar " + a + " " + gSkind(t.Scalar.ScalarKind) + " " + gDyn(t.Scalar.Value) + " " + gList(cs) + ")"
	case ast.KindIntersection:
		if t.Intersection == nil {
			return bad()
		}
		items := make([]string, len(t.Intersection.Branches))
		for i, b := range t.Intersection.Branches {
			items[i] = gType(b)
		}
		return "(TInter " + a + " " + gList(items) + ")"
	case ast.KindComposableSlot:
		if t.ComposableSlot == nil {
			return bad()
		}
		return "(TSlot " + a + " " + gs(string(t.ComposableSlot.Variant)) + ")"
	}
	return bad()
}

func gSkind(k ast.ScalarKind) string {
	switch k {
	case ast.KindNull:
		return "KNull"
	case ast.KindAny:
		return "KAny"
	case ast.KindBytes:
		return "KBytes"
	case ast.KindString:
		return "KString"
	case ast.KindFloat32:
		return "KFloat32"
	case ast.KindFloat64:
		return "KFloat64"
	case ast.KindUint8:
		return "KUint8"
	case ast.KindUint16:
		return "KUint16"
	case ast.KindUint32:
		return "KUint32"
	case ast.KindUint64:
		return "KUint64"
	case ast.KindInt8:
		return "KInt8"
	case ast.KindInt16:
		return "KInt16"
	case ast.KindInt32:
		return "KInt32"
	case ast.KindInt64:
		return "KInt64"
	case ast.KindBool:
		return "KBool"
	}
	return "(KOther " + gs(string(k)) + ")"
}

func gObject(o ast.Object) string {
	return fmt.Sprintf("(mkObject %s %s %s %s %s)", gs(o.Name), gStrs(o.Comments), gType(o.Type), gs(o.SelfRef.ReferredPkg), gs(o.SelfRef.ReferredType))
}

func gSchema(s *ast.Schema) string {
	var objs []string
	if s.Objects != nil {
		s.Objects.Iterate(func(k string, o ast.Object) {
			objs = append(objs, "("+gs(k)+", "+gObject(o)+")")
		})
	}
	meta := fmt.Sprintf("{| m_kind := %s; m_variant := %s; m_identifier := %s |}", gs(string(s.Metadata.Kind)), gs(string(s.Metadata.Variant)), gs(s.Metadata.Identifier))
	return fmt.Sprintf("(mkSchema %s %s %s %s %s)", gs(s.Package), meta, gs(s.EntryPoint), gType(s.EntryPointType), gList(objs))
}

func gSchemas(ss ast.Schemas) string {
	items := make([]string, len(ss))
	for i, s := range ss {
		if s == nil {
			items[i] = "(mkSchema \"<nil>\" {| m_kind := \"\"; m_variant := \"\"; m_identifier := \"\" |} \"\" ty_zero [])"
			continue
		}
		items[i] = gSchema(s)
	}
	return gList(items)
}
