package main

import (
	"bufio"
	"context"
	"encoding/json"
	"fmt"

	"github.com/grafana/cog/internal/ast"
)

// `consolidate`: what the inputs of a pipeline parse to (one ast.Schemas per input, in input
// order, input-level transformations applied), and what Schemas.Consolidate makes of their
// concatenation - both as Gallina terms for coq/Model/Pipeline.v.
type consolidateResult struct {
	Status  string `json:"status"` // Ok | Err | Panic | LoadErr
	ErrText string `json:"err_text,omitempty"`
	Inputs  string `json:"inputs"` // Gallina: schemas
	Output  string `json:"output"` // Gallina: schemas (when Ok)
	NIn     int    `json:"n_in"`
	NOut    int    `json:"n_out"`
	Objects int    `json:"objects"`
}

func doConsolidate(config string, params map[string]string) (res consolidateResult) {
	defer func() {
		if r := recover(); r != nil {
			res.Status, res.ErrText = "Panic", fmt.Sprint(r)
		}
	}()
	p, err := loadPipeline(config, params)
	if err != nil {
		return consolidateResult{Status: "LoadErr", ErrText: err.Error()}
	}
	var all ast.Schemas
	for _, input := range p.Inputs {
		schemas, err := input.LoadSchemas(context.Background())
		if err != nil {
			return consolidateResult{Status: "LoadErr", ErrText: err.Error()}
		}
		all = append(all, schemas...)
	}
	res.NIn = len(all)
	for _, s := range all {
		res.Objects += s.Objects.Len()
	}
	res.Inputs = gSchemas(all)
	out, err := all.Consolidate()
	if err != nil {
		res.Status, res.ErrText = "Err", err.Error()
		return res
	}
	res.Status = "Ok"
	res.NOut = len(out)
	res.Output = gSchemas(out)
	return res
}

func init() {
	commands["consolidate"] = func(in *bufio.Scanner, out *bufio.Writer) error {
		return jobLoop(in, out, func(line []byte) (any, error) {
			var job mutateJob
			if err := json.Unmarshal(line, &job); err != nil {
				return nil, err
			}
			return doConsolidate(job.Config, job.Parameters), nil
		})
	}
}
