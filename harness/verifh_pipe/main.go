// verifh_pipe: correspondence harness for C03 (determinism) and C07 (independence). Injected into
// /repo's module at build time with `go build -overlay` as cmd/verifh_pipe (never committed to
// /repo). Each sub-command reads JSON lines on stdin and prints one JSON result line per job.
package main

import (
	"bufio"
	"encoding/json"
	"fmt"
	"os"
	"path/filepath"
	"time"
)

// jobLoop runs one job per input line under a wall-clock watchdog. A job that does not finish
// (a pass looping on aliased schemas, say) cannot be killed inside the process: its line becomes
// {"status":"Timeout"}, every remaining job is answered {"status":"Skipped"} and the process
// exits; the driver re-submits the skipped ones to a fresh process.
func jobLoop(in *bufio.Scanner, out *bufio.Writer, handle func(line []byte) (any, error)) error {
	timedOut := false
	for in.Scan() {
		line := append([]byte(nil), in.Bytes()...)
		if timedOut {
			out.WriteString("{\"status\":\"Skipped\",\"skipped\":true}\n")
			continue
		}
		var hdr struct {
			Config   string `json:"config"`
			TimeoutS int    `json:"timeout_s"`
		}
		if err := json.Unmarshal(line, &hdr); err != nil {
			return err
		}
		if !filepath.IsAbs(hdr.Config) {
			return fmt.Errorf("config must be absolute: %s", hdr.Config)
		}
		// relative paths in the configuration are relative to the case directory
		if err := os.Chdir(filepath.Dir(hdr.Config)); err != nil {
			return err
		}
		if hdr.TimeoutS <= 0 {
			hdr.TimeoutS = 60
		}
		type answer struct {
			v   any
			err error
		}
		ch := make(chan answer, 1)
		go func() {
			v, err := handle(line)
			ch <- answer{v, err}
		}()
		select {
		case a := <-ch:
			if a.err != nil {
				return a.err
			}
			b, _ := json.Marshal(a.v)
			out.Write(b)
			out.WriteByte('\n')
		case <-time.After(time.Duration(hdr.TimeoutS) * time.Second):
			timedOut = true
			out.WriteString("{\"status\":\"Timeout\",\"timeout\":true}\n")
		}
		out.Flush()
	}
	out.Flush()
	if timedOut {
		os.Exit(0)
	}
	return nil
}

var commands = map[string]func(in *bufio.Scanner, out *bufio.Writer) error{}

func main() {
	if len(os.Args) < 2 {
		fmt.Fprintln(os.Stderr, "usage: verifh_pipe <command>")
		os.Exit(2)
	}
	cmd, ok := commands[os.Args[1]]
	if !ok {
		fmt.Fprintf(os.Stderr, "unknown command %q\n", os.Args[1])
		os.Exit(2)
	}
	in := bufio.NewScanner(os.Stdin)
	in.Buffer(make([]byte, 1<<20), 1<<28)
	out := bufio.NewWriterSize(os.Stdout, 1<<20)
	err := cmd(in, out)
	out.Flush()
	if err != nil {
		fmt.Fprintln(os.Stderr, "error:", err)
		os.Exit(1)
	}
}
