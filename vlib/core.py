"""Shared plumbing for every property check: Coq build, Go harness build (overlay), running
cases through coqc, verdicts, evidence, known findings, replay files."""
import fcntl
import hashlib
import json
import os
import random
import re
import shutil
import subprocess
import sys
import time

VERIF = os.path.dirname(os.path.dirname(os.path.abspath(__file__)))
REPO = os.environ.get("VERIF_REPO", "/repo")
COQ = os.path.join(VERIF, "coq")
NCPU = os.cpu_count() or 4

GOENV = dict(os.environ, GOFLAGS="-mod=mod", GOPROXY="off", GOSUMDB="off", GOTOOLCHAIN="local",
             CGO_ENABLED="0")
# keep Go's build cache out of /tmp and persistent across checks
GOENV.setdefault("GOCACHE", os.path.join(VERIF, ".cache", "go-build"))


class Ctx:
    """One check run."""

    def __init__(self, prop, tier, seed):
        self.prop = prop
        self.tier = tier
        self.seed = seed
        self.rng = random.Random(seed)
        self.t0 = time.time()
        self.scratch = os.path.join(VERIF, "scratch", "%s_%d" % (prop, os.getpid()))
        shutil.rmtree(self.scratch, ignore_errors=True)
        os.makedirs(self.scratch)
        self.log_lines = []

    def log(self, *a):
        s = " ".join(str(x) for x in a)
        self.log_lines.append(s)
        print("[%s %6.1fs] %s" % (self.prop, time.time() - self.t0, s), flush=True)

    def cleanup(self):
        shutil.rmtree(self.scratch, ignore_errors=True)
        try:
            os.rmdir(os.path.join(VERIF, "scratch"))
        except OSError:
            pass


# ------------------------------------------------------------------ locking
class Lock:
    def __init__(self, name="coq"):
        self.path = os.path.join(VERIF, ".lock_" + name)

    def __enter__(self):
        self.f = open(self.path, "w")
        fcntl.flock(self.f, fcntl.LOCK_EX)
        return self

    def __exit__(self, *a):
        fcntl.flock(self.f, fcntl.LOCK_UN)
        self.f.close()


def sh(cmd, cwd=None, env=None, timeout=1800, input=None):
    p = subprocess.run(cmd, cwd=cwd, env=env, timeout=timeout, input=input,
                       stdout=subprocess.PIPE, stderr=subprocess.STDOUT, text=True,
                       shell=isinstance(cmd, str))
    return p.returncode, p.stdout


# ------------------------------------------------------------------ Coq
def coq_project_files():
    out = []
    for d in ("Lib", "Model", "Gen", "Proofs", "Props"):
        base = os.path.join(COQ, d)
        for root, _, files in os.walk(base):
            for f in sorted(files):
                if f.endswith(".v"):
                    out.append(os.path.relpath(os.path.join(root, f), COQ))
    return sorted(out)


def coq_makefile():
    files = coq_project_files()
    proj = "-Q . Cog\n-arg -w -arg -notation-overridden,-deprecated-hint-without-locality,-deprecated-instance-without-locality\n" + "\n".join(files) + "\n"
    pp = os.path.join(COQ, "_CoqProject")
    old = open(pp).read() if os.path.exists(pp) else None
    if old != proj or not os.path.exists(os.path.join(COQ, "Makefile.coq")):
        with open(pp, "w") as f:
            f.write(proj)
        rc, out = sh(["coq_makefile", "-f", "_CoqProject", "-o", "Makefile.coq"], cwd=COQ)
        if rc != 0:
            raise RuntimeError("coq_makefile failed:\n" + out)


def coq_make(targets=None, timeout=3000):
    """Full .vo build of the requested targets (or everything). Returns (ok, log)."""
    with Lock("coq"):
        coq_makefile()
        cmd = ["make", "-f", "Makefile.coq", "-j%d" % NCPU, "-k"]
        if targets:
            cmd += targets
        rc, out = sh(cmd, cwd=COQ, timeout=timeout)
        return rc == 0, out


def write_if_changed(path, content):
    old = open(path).read() if os.path.exists(path) else None
    if old != content:
        os.makedirs(os.path.dirname(path), exist_ok=True)
        with open(path, "w") as f:
            f.write(content)
        return True
    return False


def coqc_file(path, timeout=1800, workdir=None):
    """Compile one .v file outside the project (scratch case files, Props re-check)."""
    cmd = ["coqc", "-Q", COQ, "Cog", "-w", "-notation-overridden", path]
    try:
        rc, out = sh(cmd, cwd=workdir or os.path.dirname(path), timeout=timeout)
    except subprocess.TimeoutExpired:
        return 124, "coqc timeout on " + path
    return rc, out


def props_check(ctx, props_rel):
    """Re-compile Props/Cxx.v (into scratch) to collect the theorem list and the literal Print
    Assumptions output. Returns dict(ok, theorems, assumptions, error, failing_theorem)."""
    src = os.path.join(COQ, props_rel)
    text = open(src).read()
    theorems = re.findall(r"^(?:Theorem|Lemma)\s+(\w+)", text, re.M)
    tmp = os.path.join(ctx.scratch, "PropsRecheck_" + os.path.basename(props_rel))
    shutil.copy(src, tmp)
    rc, out = coqc_file(tmp)
    res = {"ok": rc == 0, "theorems": theorems, "assumptions": [], "error": None,
           "failing_theorem": None}
    if rc == 0:
        blocks = re.split(r"\n(?=Closed under the global context|Axioms:)", "\n" + out)
        ass = [b.strip() for b in blocks if b.strip()]
        res["assumptions"] = ass
    else:
        res["error"] = out[-3000:]
        m = re.search(r"line (\d+)", out)
        if m:
            line = int(m.group(1))
            before = text.split("\n")[:line]
            names = re.findall(r"^(?:Theorem|Lemma)\s+(\w+)", "\n".join(before), re.M)
            if names:
                res["failing_theorem"] = names[-1]
    return res


def locate_coq_failure(make_log):
    """From a make log, name the first file/lemma that no longer checks."""
    m = re.search(r'File "\./([^"]+)", line (\d+)', make_log)
    if not m:
        return None, None, make_log[-2000:]
    rel, line = m.group(1), int(m.group(2))
    name = None
    try:
        before = open(os.path.join(COQ, rel)).read().split("\n")[:line]
        names = re.findall(r"^(?:Theorem|Lemma|Definition|Example|Fixpoint)\s+(\w+)", "\n".join(before), re.M)
        if names:
            name = names[-1]
    except OSError:
        pass
    i = make_log.find(m.group(0))
    return rel, name, make_log[i:i + 1500]


def coq_eval_lists(ctx, name, preamble, defs, timeout=1800):
    """Write scratch/<name>.v = preamble + defs, where defs is a list of
    (ident, gallina_term_of_type_list_nat). Compiles it and returns {ident: [nat...]}.
    Raises RuntimeError with the coqc output when the file does not compile (e.g. arity
    mismatch between printed implementation data and the model's types)."""
    path = os.path.join(ctx.scratch, name + ".v")
    with open(path, "w") as f:
        f.write(preamble + "\n")
        for ident, term in defs:
            f.write("Definition %s := Eval vm_compute in (%s).\n" % (ident, term))
            f.write('Print %s.\n' % ident)
    rc, out = coqc_file(path, timeout=timeout)
    if rc != 0:
        raise RuntimeError("coqc failed on %s:\n%s" % (path, out[-3000:]))
    flat = re.sub(r"\s+", " ", out)
    res = {}
    for ident, _ in defs:
        m = re.search(r"\b%s = (\[[^\]]*\]|nil)" % re.escape(ident), flat)
        if not m:
            raise RuntimeError("cannot find %s in coqc output:\n%s" % (ident, out[-2000:]))
        body = m.group(1)
        if body == "nil":
            res[ident] = []
        else:
            res[ident] = [int(x) for x in re.findall(r"\d+", body)]
    return res


def parallel(fn, items, workers=None):
    from concurrent.futures import ThreadPoolExecutor
    with ThreadPoolExecutor(max_workers=workers or NCPU) as ex:
        return list(ex.map(fn, items))


# ------------------------------------------------------------------ Go harness
def build_harness(ctx, name="verifh"):
    """go build -overlay: inject /verif/harness/<name>/*.go as /repo/cmd/<name>/ and
    /verif/harness/inject/<pkg path>/*.go as add-only files of existing packages.
    /repo's working tree is never written."""
    replace = {}
    src = os.path.join(VERIF, "harness", name)
    for f in sorted(os.listdir(src)):
        if f.endswith(".go"):
            replace[os.path.join(REPO, "cmd", name, f)] = os.path.join(src, f)
    inj = os.path.join(VERIF, "harness", "inject")
    if os.path.isdir(inj):
        for root, _, files in os.walk(inj):
            for f in files:
                if f.endswith(".go"):
                    rel = os.path.relpath(os.path.join(root, f), inj)
                    replace[os.path.join(REPO, rel)] = os.path.join(root, f)
    ov = os.path.join(ctx.scratch, "overlay_%s.json" % name)
    with open(ov, "w") as f:
        json.dump({"Replace": replace}, f)
    binp = os.path.join(ctx.scratch, name)
    rc, out = sh(["go", "build", "-overlay", ov, "-o", binp, "./cmd/" + name], cwd=REPO, env=GOENV,
                 timeout=900)
    if rc != 0:
        raise HarnessBuildError(out)
    return binp


class HarnessBuildError(Exception):
    pass


def run_harness(binp, command, job_lines, timeout=900, args=()):
    data = "\n".join(job_lines) + "\n"
    p = subprocess.run([binp, command, *args], input=data, stdout=subprocess.PIPE, stderr=subprocess.PIPE,
                       text=True, timeout=timeout, env=GOENV)
    if p.returncode != 0:
        raise RuntimeError("harness %s failed (%d): %s" % (command, p.returncode, p.stderr[-2000:]))
    return p.stdout.split("\n")[:-1] if p.stdout.endswith("\n") else p.stdout.split("\n")


def run_harness_robust(binp, command, job_lines, timeout=900, args=(), chunk=200):
    """Like run_harness, but a job that kills the harness process (fatal error such as a stack
    overflow, or a hang) yields None for that job instead of failing the whole run."""
    out = [None] * len(job_lines)

    def run_range(lo, hi, tmo):
        try:
            p = subprocess.run([binp, command, *args], input="\n".join(job_lines[lo:hi]) + "\n",
                               stdout=subprocess.PIPE, stderr=subprocess.PIPE, text=True, timeout=tmo, env=GOENV)
            lines = p.stdout.split("\n")
            if lines and lines[-1] == "":
                lines.pop()
            if p.returncode == 0 and len(lines) == hi - lo:
                out[lo:hi] = lines
                return True
        except subprocess.TimeoutExpired:
            pass
        return False

    def solve(lo, hi, tmo):
        if run_range(lo, hi, tmo):
            return
        if hi - lo == 1:
            out[lo] = None
            return
        mid = (lo + hi) // 2
        solve(lo, mid, max(20, tmo // 2))
        solve(mid, hi, max(20, tmo // 2))

    ranges = [(i, min(i + chunk, len(job_lines))) for i in range(0, len(job_lines), chunk)]
    parallel(lambda r: solve(r[0], r[1], timeout), ranges)
    return out


# ------------------------------------------------------------------ findings / verdicts
def load_known_findings():
    p = os.path.join(VERIF, "known_findings.json")
    if not os.path.exists(p):
        return []
    return json.load(open(p)).get("findings", [])


def match_finding(prop, sig, findings):
    """sig: dict of strings describing a failure. A finding matches when every key of its
    matcher is present in sig and the regex fully matches."""
    for f in findings:
        if f.get("property") != prop or f.get("status") != "open":
            continue
        ok = True
        for k, pat in f.get("matcher", {}).items():
            v = sig.get(k)
            if v is None or not re.fullmatch(pat, str(v), re.S):
                ok = False
                break
        if ok:
            return f
    return None


def write_replay(ctx, kind, payload):
    d = os.path.join(VERIF, "replays", ctx.prop)
    os.makedirs(d, exist_ok=True)
    body = dict(property=ctx.prop, kind=kind, seed=ctx.seed, tier=ctx.tier, **payload)
    blob = json.dumps(body, indent=1, sort_keys=True, default=str)
    h = hashlib.sha256(blob.encode()).hexdigest()[:12]
    path = os.path.join(d, "%s_%s.json" % (kind, h))
    with open(path, "w") as f:
        f.write(blob + "\n")
    return os.path.relpath(path, VERIF)


def write_evidence(ctx, coverage, assumptions, violations, extra=None):
    ev = {
        "property_id": ctx.prop,
        "tier": ctx.tier,
        "seed": ctx.seed,
        "level": "proof",
        "coverage": coverage,
        "assumptions": assumptions,
        "wall_s": round(time.time() - ctx.t0, 2),
        "violations": violations,
    }
    if extra:
        ev.update(extra)
    # a run against another tree (VERIF_REPO: seeded-change evaluation) must not overwrite the evidence of /repo
    evdir = os.path.join(VERIF, "evidence") if not os.environ.get("VERIF_REPO") else os.path.join(VERIF, "scratch", "evidence_other_tree")
    os.makedirs(evdir, exist_ok=True)
    with open(os.path.join(evdir, ctx.prop + ".json"), "w") as f:
        json.dump(ev, f, indent=1, sort_keys=True, default=str)
        f.write("\n")


KERNEL_TB = [
    "Coq 8.16.1 kernel and its vm_compute (used for finite facts and for evaluating the model in the correspondence check); native_compute not used",
    "no extraction: the model is run inside Coq only",
    "no Axiom/Parameter/Admitted in /verif/coq (grep-checked by check.py --audit); Print Assumptions output of this property's theorems recorded under coverage.print_assumptions",
]


def canon_hash(x):
    return hashlib.sha256(json.dumps(x, sort_keys=True, default=str).encode()).hexdigest()


class Verdict:
    """Collects failures of one run and turns them into output lines + exit status."""

    def __init__(self, ctx):
        self.ctx = ctx
        self.findings = load_known_findings()
        self.known_hit = {}
        self.violations = []   # (replay path, suffix)
        self.seen = set()

    def propfail(self, sig, payload):
        """A concrete input on which the property fails on the implementation."""
        f = match_finding(self.ctx.prop, sig, self.findings)
        if f is not None:
            self.known_hit.setdefault(f["id"], f)
            return "known"
        # several independent causes on one input ("a+b"): known iff every single cause is a known finding
        if isinstance(sig.get("cause"), str) and "+" in sig["cause"]:
            fs = [match_finding(self.ctx.prop, dict(sig, cause=c), self.findings) for c in sig["cause"].split("+")]
            if all(x is not None for x in fs):
                for x in fs:
                    self.known_hit.setdefault(x["id"], x)
                return "known"
        key = canon_hash(sig)
        if key in self.seen:
            return "dup"
        self.seen.add(key)
        self.ctx.log("property failure (not a known finding):", json.dumps(sig, sort_keys=True))
        if len(self.violations) < int(os.environ.get("VERIF_MAX_REPLAYS", "5")):
            path = write_replay(self.ctx, "failing-input", dict(signature=sig, **payload))
            self.violations.append((path, ""))
        return "violation"

    def unproved(self, kind, payload):
        """A proof obligation or the correspondence no longer checks and no failing input was
        found."""
        path = write_replay(self.ctx, kind, payload)
        self.violations.append((path, " no-failing-input-found"))

    def finish(self):
        # every listed open finding of the property is announced; the ones this run reproduced are marked
        listed = {f["id"]: f for f in self.findings if f.get("property") == self.ctx.prop and f.get("status") == "open"}
        listed.update(self.known_hit)
        for fid, f in sorted(listed.items()):
            mark = "[reproduced in this run]" if fid in self.known_hit else "[listed; not exercised by this run's inputs]"
            print("KNOWN-FINDING: property=%s %s %s: %s" % (self.ctx.prop, fid, mark, f.get("what", "")))
        for path, suffix in self.violations:
            print("VIOLATION property=%s replay=%s%s" % (self.ctx.prop, path, suffix))
        sys.stdout.flush()
        return 1 if self.violations else 0
