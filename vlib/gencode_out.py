"""Infrastructure of the "emitted artefacts" properties C12 (JSON Schema / OpenAPI documents) and C02 (every
generated file of every language is well-formed).  Built on vlib/gencode.py (Batch, Campaign, ref_validate:
read its docstring first); nothing here edits that module.

Own overlay harness: /verif/harness/verifh_out (commands gen, genir, reparse -- see gen.go).

===================================================== API =====================================================
harness(ctx) -> path                      build (once per run) the overlay harness verifh_out from core.REPO

OutBatch(ctx, name, go_opts=None, package_root="verifgen", output_opts=None,
         extra_langs=(("jsonschema", {}), ("openapi", {})), irlangs=("go", "jsonschema"))
    a gencode.Batch whose pipelines configure, next to Go, the given extra output languages (same output
    directory: <module>/<pkg>.jsonschema.json, <module>/<pkg>.openapi.json next to <module>/<gopkg>/types_gen.go).
    .generate()       real pipeline through verifh_out `gen`; .gen[sid] as in Batch (post_ir = the Go context);
                      .ir[sid][lang] Gallina term of the context language `lang` receives, .facts[sid][lang]
                      canonical facts (python value), .objects[sid][lang] object summaries
    .emitted(sid, kind)  path of the emitted document, kind "jsonschema" | "openapi"
    (build_driver / run / ok_sids / ... inherited)

run_genir(ctx, jobs)                      verifh_out `genir` on directly constructed IRs -> result dicts (None = process died)
reparse(ctx, items)                       items [{"format","path","pkg"}] -> result dicts of verifh_out `reparse`
py_validate(ctx, items)                   items [{"path","type","docs":[json text]}] -> per item
                                          {"schema_ok": bool, "schema_error": str, "docs": [{"ok", "kw", "ipath",
                                          "spath", "itype"}]}   python jsonschema Draft7 (check_schema + validate
                                          with date-time format checking), first error of each rejected document
doc_refs(doc, kind) / dangling_refs(doc, kind) / definitions_of(doc, kind)   structure of an emitted document
load_json(path)                           exact-decimal JSON (srcgen.loads)

--- C02 ---
FLAGS, flag_sets(tier, rng)               the option vector and its covering array (quick: pairwise; thorough: all
                                          128 Go vectors x a pairwise array of the remaining flags)
pipeline_yaml(inputs_yaml, flags, package_root, directory)   the pipeline file for one flag vector
go_check(moddir, package_root)            go.mod + `go build ./...` + `go vet ./...` -> [{"pkg","stage","msg"}]
py_check(pydir)                           py_compile of every file + import of every module -> [{"file","stage","msg"}]
java_check(ctx, javadir)                  javac against drivers/java/stubs -> [{"file","stage","msg"}]
scan_placeholders(root, files, table)     byte scan -> [{"file","lang","text","line"}]
classify_go / classify_py / classify_java normalised cause of a compiler message (signature material)
"""
import itertools
import json
import os
import re
import shutil
import subprocess
import sys

from gen import srcgen
from vlib import core, gencode

_harness_cache = {}


def harness(ctx):
    key = id(ctx)
    if key not in _harness_cache:
        _harness_cache[key] = core.build_harness(ctx, "verifh_out")
    return _harness_cache[key]


def _run_json(binp, command, jobs, timeout=600, workers=None):
    lines = [json.dumps(j) for j in jobs]
    n = len(lines)
    if not n:
        return []
    workers = workers or core.NCPU
    chunk = max(1, (n + workers - 1) // workers)
    outs = core.run_harness_robust(binp, command, lines, timeout=timeout, chunk=chunk)
    res = []
    for o in outs:
        res.append(None if o is None else json.loads(o))
    return res


def load_json(path):
    return srcgen.loads(open(path).read())


# ====================================================================== C12: Go + JSON Schema + OpenAPI batch
class OutBatch(gencode.Batch):
    def __init__(self, ctx, name, go_opts=None, package_root="verifgen", output_opts=None,
                 extra_langs=(("jsonschema", {}), ("openapi", {})), irlangs=("go", "jsonschema")):
        super().__init__(ctx, name, go_opts=go_opts, package_root=package_root, output_opts=output_opts)
        self.extra_langs = [(k, dict(v)) for k, v in extra_langs]
        self.irlangs = list(irlangs)
        self.ir, self.facts, self.objects = {}, {}, {}

    def add(self, schema, fmt, closed=False, text=None):
        sid = schema["pkg"]
        assert sid not in self.schemas, sid
        d = os.path.join(self.in_dir, sid)
        os.makedirs(d)
        if text is None:
            text = srcgen.render(schema, fmt, closed=closed)
        if fmt == "cue":
            path = os.path.join(d, sid + ".cue")
            inp = "  - cue:\n      entrypoint: '%s'\n      package: %s\n" % (d, sid)
        elif fmt == "jsonschema":
            path = os.path.join(d, "schema.json")
            inp = "  - jsonschema:\n      path: '%s'\n      package: %s\n" % (path, sid)
        elif fmt == "openapi":
            path = os.path.join(d, "openapi.json")
            inp = "  - openapi:\n      path: '%s'\n      package: %s\n" % (path, sid)
        else:
            raise ValueError(fmt)
        with open(path, "w") as f:
            f.write(text)
        out = "output:\n  directory: '.'\n  types: true\n"
        for k, v in self.output_opts.items():
            out += "  %s: %s\n" % (k, json.dumps(v))
        out += "  languages:\n    - go:\n        package_root: '%s'\n" % self.package_root
        for k, v in self.go_opts.items():
            out += "        %s: %s\n" % (k, json.dumps(v))
        for lang, opts in self.extra_langs:
            out += "    - %s: %s\n" % (lang, json.dumps(opts))
        cfg = os.path.join(self.in_dir, sid + ".yaml")
        with open(cfg, "w") as f:
            f.write("inputs:\n" + inp + out)
        self.schemas[sid] = (schema, fmt, path, cfg)
        return sid

    def generate(self):
        binp = harness(self.ctx)
        sids = list(self.schemas)
        jobs = [{"id": sid, "config": self.schemas[sid][3], "outdir": self.module_dir, "irlangs": self.irlangs}
                for sid in sids]
        outs = _run_json(binp, "gen", jobs)
        for sid, r in zip(sids, outs):
            if r is None:
                self.gen[sid] = gencode.GenResult("FATAL", "process", "harness process died (fatal error or timeout)")
                continue
            if r["status"] == "OK":
                self.ir[sid] = r.get("ir") or {}
                self.facts[sid] = r.get("facts") or {}
                self.objects[sid] = r.get("objects") or {}
                self.gen[sid] = gencode.GenResult("OK", pre_ir=r.get("pre_ir", ""), post_ir=self.ir[sid].get("go", ""),
                                                  files=r.get("files") or [], objects=self.objects[sid].get("go") or [])
            else:
                self.gen[sid] = gencode.GenResult(r["status"], r.get("stage", ""), r.get("message", ""))
        return self.gen

    def emitted(self, sid, kind):
        return os.path.join(self.module_dir, "%s.%s.json" % (sid, kind))


def run_genir(ctx, jobs, timeout=600):
    return _run_json(harness(ctx), "genir", jobs, timeout=timeout)


def reparse(ctx, items):
    jobs = [{"id": str(i), "format": it["format"], "path": it["path"], "pkg": it["pkg"]} for i, it in enumerate(items)]
    return _run_json(harness(ctx), "reparse", jobs)


# ---------------------------------------------------------------------- python jsonschema with diagnosis
_PY_VALIDATOR = r'''
import json, sys, re
import jsonschema
fc = jsonschema.FormatChecker()
_dt = re.compile(r"^\d{4}-(0[1-9]|1[0-2])-(0[1-9]|[12]\d|3[01])[Tt]([01]\d|2[0-3]):[0-5]\d:([0-5]\d|60)(\.\d+)?([Zz]|[+-]([01]\d|2[0-3]):[0-5]\d)$")
@fc.checks("date-time")
def _is_dt(v):
    return not isinstance(v, str) or bool(_dt.match(v))
def tname(x):
    if x is None: return "null"
    if isinstance(x, bool): return "boolean"
    if isinstance(x, (int, float)): return "number"
    if isinstance(x, str): return "string"
    if isinstance(x, list): return "array"
    return "object"
for line in sys.stdin:
    job = json.loads(line)
    out = {"schema_ok": True, "schema_error": "", "docs": []}
    try:
        schema = json.load(open(job["path"]))
        jsonschema.Draft7Validator.check_schema(schema)
        if job.get("type"):
            schema = dict(schema); schema["$ref"] = "#/definitions/" + job["type"]
        v = jsonschema.Draft7Validator(schema, format_checker=fc)
    except Exception as e:
        out["schema_ok"] = False
        out["schema_error"] = (type(e).__name__ + ": " + str(e))[:300].replace("\n", " ")
        print(json.dumps(out)); continue
    for d in job["docs"]:
        try:
            doc = json.loads(d)
            errs = list(v.iter_errors(doc))
            err = max(errs, key=jsonschema.exceptions.relevance) if errs else None
            if err is None:
                out["docs"].append({"ok": True})
            else:
                # descend into anyOf: the branch the instance was meant for is the one whose errors do not include a
                # failed constant / enumeration (discriminator) and that has the fewest errors
                while err.context:
                    groups = {}
                    for e in err.context:
                        groups.setdefault(e.relative_schema_path[0] if e.relative_schema_path else 0, []).append(e)
                    def score(es):
                        # a branch of another JSON type altogether is the least likely addressee
                        top = any(x.validator == "type" and len(x.relative_path) == 0 and
                                  (not x.relative_schema_path or len(x.relative_schema_path) <= 3) for x in es)
                        return (top, any(x.validator in ("const", "enum") for x in es), len(es))
                    best = sorted(groups.items(), key=lambda kv: (score(kv[1]), kv[0]))[0][1]
                    err = max(best, key=jsonschema.exceptions.relevance)
                out["docs"].append({"ok": False, "kw": err.validator, "ipath": [str(p) for p in err.absolute_path],
                                    "spath": [str(p) for p in err.absolute_schema_path][-6:], "itype": tname(err.instance),
                                    "sval": json.dumps(err.validator_value)[:80]})
        except jsonschema.exceptions.RefResolutionError as e:
            out["docs"].append({"ok": False, "kw": "$ref-unresolvable", "ipath": [], "spath": [], "itype": "", "sval": str(e)[:80]})
        except Exception as e:
            out["docs"].append({"ok": False, "kw": "validator-exception:" + type(e).__name__, "ipath": [], "spath": [], "itype": "", "sval": str(e)[:80]})
    print(json.dumps(out))
'''


def py_validate(ctx, items):
    res = [None] * len(items)
    if not items:
        return res
    script = os.path.join(ctx.scratch, "_py_validator_out.py")
    with open(script, "w") as f:
        f.write(_PY_VALIDATOR)
    idx = list(range(len(items)))
    chunk = max(1, (len(idx) + core.NCPU - 1) // core.NCPU)

    def run_py(rng):
        lines = [json.dumps({"path": items[i]["path"], "type": items[i].get("type"), "docs": items[i]["docs"]}) for i in rng]
        p = subprocess.run(["python3-vt", script], input="\n".join(lines) + "\n", stdout=subprocess.PIPE,
                           stderr=subprocess.PIPE, text=True, timeout=900)
        got = [x for x in p.stdout.split("\n") if x.startswith("{")]
        if len(got) != len(rng):
            raise RuntimeError("python jsonschema validator failed: " + p.stderr[-1500:])
        for i, g in zip(rng, got):
            res[i] = json.loads(g)

    core.parallel(run_py, [idx[i:i + chunk] for i in range(0, len(idx), chunk)])
    return res


# ---------------------------------------------------------------------- structure of an emitted document
def definitions_of(doc, kind):
    if kind == "openapi":
        return ((doc.get("components") or {}).get("schemas")) or {}
    return doc.get("definitions") or {}


def _ref_prefix(kind):
    return "#/components/schemas/" if kind == "openapi" else "#/definitions/"


def _walk_schema(s, path, out):
    """yield every `$ref` at a SCHEMA position (property names are not keywords)"""
    if not isinstance(s, dict):
        return
    if "$ref" in s and isinstance(s["$ref"], str):
        out.append((path, s["$ref"]))
    for k in ("items", "additionalProperties", "not"):
        if isinstance(s.get(k), dict):
            _walk_schema(s[k], path + (k,), out)
    for k in ("anyOf", "oneOf", "allOf"):
        if isinstance(s.get(k), list):
            for i, b in enumerate(s[k]):
                _walk_schema(b, path + (k, i), out)
    if isinstance(s.get("properties"), dict):
        for n, p in s["properties"].items():
            _walk_schema(p, path + ("properties", n), out)


def doc_refs(doc, kind):
    out = []
    if kind == "jsonschema" and isinstance(doc.get("$ref"), str):
        out.append((("$ref",), doc["$ref"]))
    for n, d in definitions_of(doc, kind).items():
        _walk_schema(d, (n,), out)
    return out


def dangling_refs(doc, kind):
    defs = definitions_of(doc, kind)
    pre = _ref_prefix(kind)
    bad = []
    for path, r in doc_refs(doc, kind):
        if not r.startswith(pre) or r[len(pre):] not in defs:
            bad.append((path, r))
    return bad


# ====================================================================== C02
# the option vector of the property: output options and per-language flags
GO_FLAGS = ("go.generate_json_marshaller", "go.generate_strict_unmarshaller", "go.generate_equal", "go.generate_validate",
            "go.any_as_interface", "go.skip_runtime", "builders")
OTHER_FLAGS = ("converters", "api_reference", "python.generate_json_marshaller", "python.skip_runtime",
               "java.generate_json_marshaller", "java.skip_runtime", "typescript.skip_runtime",
               "typescript.enums_as_union_types", "typescript.skip_index", "php.generate_json_marshaller")
FLAGS = GO_FLAGS + OTHER_FLAGS


def pairwise(names, rng):
    """greedy pairwise covering array over boolean factors -> list of dicts"""
    need = {(a, va, b, vb) for a, b in itertools.combinations(names, 2) for va in (False, True) for vb in (False, True)}
    rows = []
    while need:
        best, best_cov = None, -1
        for _ in range(60):
            row = {n: rng.random() < 0.5 for n in names}
            # bias: satisfy one still-needed pair
            a, va, b, vb = rng.choice(sorted(need))
            row[a], row[b] = va, vb
            cov = sum(1 for (x, vx, y, vy) in need if row[x] == vx and row[y] == vy)
            if cov > best_cov:
                best, best_cov = row, cov
        rows.append(best)
        need = {(x, vx, y, vy) for (x, vx, y, vy) in need if not (best[x] == vx and best[y] == vy)}
    return rows


def covering(names, strength, rng):
    """greedy covering array of the given strength over boolean factors -> list of dicts"""
    need = set()
    for combo in itertools.combinations(names, strength):
        for vals in itertools.product((False, True), repeat=strength):
            need.add(tuple(zip(combo, vals)))
    rows = []
    while need:
        best, best_cov = None, -1
        pool = sorted(need)
        for _ in range(40):
            row = {n: rng.random() < 0.5 for n in names}
            for n, v in rng.choice(pool):
                row[n] = v
            cov = sum(1 for t in need if all(row[n] == v for n, v in t))
            if cov > best_cov:
                best, best_cov = row, cov
        rows.append(best)
        need = {t for t in need if not all(best[n] == v for n, v in t)}
    return rows


# the conjunctions of Go options under which the method templates CALL a method of another type
# (coq/Model/GoDecl.v common_methods): each is combined with every other option switched off
GO_CALL_CONDITIONS = (
    {"go.generate_json_marshaller": True, "go.generate_strict_unmarshaller": True, "go.skip_runtime": False},
    {"go.generate_equal": True},
    {"go.generate_validate": True, "go.skip_runtime": False},
    {"builders": True, "go.skip_runtime": False},
)


def targeted_go_vectors(rng):
    rows = []
    for cond in GO_CALL_CONDITIONS:
        for x in GO_FLAGS:
            if x in cond:
                continue
            row = {n: rng.random() < 0.5 for n in GO_FLAGS}
            row.update(cond)
            row[x] = False
            rows.append(row)
    return rows


def flag_sets(tier, rng):
    """quick: 3-way covering of the Go options + the targeted vectors, each completed by a row of a pairwise array of
    the other options; thorough: all 128 Go vectors x the pairwise array"""
    others = pairwise(list(OTHER_FLAGS), rng)
    if tier != "thorough":
        # every language: pairwise over all options, plus the two corners
        rows = pairwise(list(FLAGS), rng)
        rows.insert(0, {n: False for n in FLAGS})
        rows.insert(1, dict({n: True for n in FLAGS}, **{"go.skip_runtime": False, "python.skip_runtime": False,
                                                         "java.skip_runtime": False, "typescript.skip_runtime": False}))
        # Go only (cheap): 3-way covering of the Go options and the targeted vectors
        seen = {tuple(r[n] for n in GO_FLAGS) for r in rows}
        for r in covering(list(GO_FLAGS), 3, rng) + targeted_go_vectors(rng):
            key = tuple(r[n] for n in GO_FLAGS)
            if key in seen:
                continue
            seen.add(key)
            row = dict({n: False for n in FLAGS}, **r)
            row["_go_only"] = True
            rows.append(row)
        return rows
    rows = []
    for k, bits in enumerate(itertools.product((False, True), repeat=len(GO_FLAGS))):
        row = dict(zip(GO_FLAGS, bits))
        row.update(others[k % len(others)])
        rows.append(row)
    return rows


def flags_key(flags):
    return "".join("1" if flags[n] else "0" for n in FLAGS)


def flags_on(flags):
    return [n for n in FLAGS if flags[n]]


LANGS = ("go", "python", "java", "typescript", "php", "jsonschema", "openapi")


def lang_configs(flags, package_root):
    """the `output.languages` list (python value) for a flag vector"""
    def sub(lang):
        return {n.split(".", 1)[1]: True for n in FLAGS if n.startswith(lang + ".") and flags[n]}
    go = dict(sub("go"), package_root=package_root)
    if flags.get("_go_only"):
        return [{"go": go}]
    return [{"go": go}, {"python": sub("python")}, {"java": sub("java")}, {"typescript": sub("typescript")},
            {"php": sub("php")}, {"jsonschema": {}}, {"openapi": {}}]


def output_options(flags):
    return {"types": True, "builders": bool(flags["builders"]), "converters": bool(flags["converters"]),
            "api_reference": bool(flags["api_reference"])}


def pipeline_yaml(inputs_yaml, flags, package_root, directory="%l"):
    doc = dict(output_options(flags), directory=directory, languages=lang_configs(flags, package_root))
    # JSON is YAML: the output section is printed as flow JSON
    return "inputs:\n" + inputs_yaml + "output: " + json.dumps(doc) + "\n"


def input_yaml(fmt, path, pkg, cue_dir=None):
    if fmt == "cue":
        return "  - cue:\n      entrypoint: '%s'\n      package: %s\n" % (cue_dir, pkg)
    return "  - %s:\n      path: '%s'\n      package: %s\n" % (fmt, path, pkg)


# ---------------------------------------------------------------------- compilers
GO_ERR = re.compile(r"^(?:vet: )?(?:\./)?([A-Za-z0-9_./-]+\.go):(\d+):(\d+): (.*)$")


def go_check(moddir, package_root, vet=True, timeout=900):
    """`go build ./...` then `go vet ./...` in moddir (go.mod written here).  Returns a list of
    {"pkg": first path segment, "file", "line", "stage": "build"|"vet", "msg"}."""
    if not os.path.isdir(moddir):
        return []
    with open(os.path.join(moddir, "go.mod"), "w") as f:
        f.write("module %s\n\ngo 1.21\n" % package_root)
    env = dict(core.GOENV, GOFLAGS="-mod=mod")
    out = []

    def parse(text, stage):
        found = False
        for ln in text.split("\n"):
            m = GO_ERR.match(ln.strip())
            if m and "go.dev/issue/50729" in m.group(4):
                # `go vet`'s type checker on a type alias inside a recursive type: a limitation of the toolchain
                # (the compiler accepts the package), not a diagnostic about the generated code
                found = True
                continue
            if m:
                found = True
                out.append({"pkg": m.group(1).split("/")[0], "file": m.group(1), "line": int(m.group(2)),
                            "stage": stage, "msg": m.group(4)})
        return found

    rc, text = core.sh(["go", "build", "./..."], cwd=moddir, env=env, timeout=timeout)
    if rc != 0 and not parse(text, "build"):
        out.append({"pkg": "", "file": "", "line": 0, "stage": "build", "msg": text[-600:]})
    if vet:
        bad = {e["pkg"] for e in out}
        rc, text = core.sh(["go", "vet", "./..."], cwd=moddir, env=env, timeout=timeout)
        if rc != 0:
            before = len(out)
            parse(text, "vet")
            # vet repeats type errors of packages that do not build: keep only what is new
            out[before:] = [e for e in out[before:] if e["pkg"] not in bad]
            if len(out) == before and not bad and "vet:" in text and "go.dev/issue/50729" not in text:
                out.append({"pkg": "", "file": "", "line": 0, "stage": "vet", "msg": text[-600:]})
    return out


GO_CLASSES = [
    (r"struct field \w+ repeats json tag .*", "repeated-json-tag"),
    (r"undefined: cog\.Dump", "undefined-cog.Dump"),
    (r"undefined: unknown", "placeholder-type-unknown"),
    (r"undefined: cog\b.*|undefined: cog$|could not import .*/cog\b.*|package .*/cog is not in std.*", "runtime-package-missing"),
    (r"undefined: variants\..*|could not import .*/cog/variants.*|package .*/cog/variants is not in std.*", "variants-package-missing"),
    (r"package .* is not in std.*|could not import .*", "imported-package-missing"),
    (r".* redeclared in this block", "duplicate-declaration"),
    (r".*other declaration of .*", "duplicate-declaration"),
    (r"duplicate field .*|.* redeclared", "duplicate-declaration"),
    (r"method .* already declared.*|field and method with the same name .*", "duplicate-declaration"),
    (r"duplicate case .* in (expression )?switch.*|duplicate key .* in map literal", "duplicate-case"),
    (r"cannot use \"[^\"]*\" \(untyped string constant\) as (float|int|uint|bool)\w* value.*", "string-literal-for-number"),
    (r"cannot use \"[^\"]*\" \(untyped string constant\) as .*", "string-literal-mistyped"),
    (r"cannot use \[\]string\{.*", "list-default-as-string-slice"),
    (r"cannot use .* \(untyped (int|float|bool|nil|rune) constant.*\) as .*|cannot use nil as .*", "literal-mistyped"),
    (r"cannot use .* as .* value in .*", "value-mistyped"),
    (r".*constant .* overflows .*|cannot use .* \(truncated\).*|.* \(untyped float constant\) truncated to .*", "constant-overflows"),
    (r"\"[a-z/]+\" imported and not used", "unused-import"),
    (r".* imported as \w+ and not used|\"[^\"]+\" imported and not used", "unused-import"),
    (r"declared and not used: .*|.* declared and not used", "unused-variable"),
    (r"undefined: .*", "undefined-identifier"),
    (r".* undefined \(type .* has no (field or )?method .*\)", "undefined-method-or-field"),
    (r"invalid recursive type .*|.* refers to .*|invalid recursive type: .*", "invalid-recursive-type"),
    (r"invalid operation: .* \(mismatched types .*\)", "mismatched-types"),
    (r"invalid operation: .*", "invalid-operation"),
    (r"invalid map key type .*|invalid composite literal type .*", "invalid-type-in-declaration"),
    (r"cannot convert .*", "cannot-convert"),
    (r"missing return", "missing-return"),
    (r"syntax error: .*|expected .*", "syntax-error"),
    (r".* is not a type", "not-a-type"),
    (r"import cycle not allowed.*", "import-cycle"),
    (r"struct field tag .*|.*possible misuse of .*|.*self-assignment.*|.*unreachable code.*|.*composite literal uses unkeyed fields", "vet-diagnostic"),
]


def classify_go(msg):
    for pat, name in GO_CLASSES:
        if re.fullmatch(pat, msg, re.S):
            return name
    return "other:" + re.sub(r"[A-Za-z_][A-Za-z0-9_.]*|\d+|\"[^\"]*\"", "_", msg)[:60]


def py_check(pydir, pkgname, timeout=300):
    """py_compile of every .py file, then import of every module as member of the package `pkgname`
    (the generated tree uses relative imports across models/builders/cog)."""
    out = []
    root = os.path.join(pydir, pkgname)
    if not os.path.isdir(root):
        return out
    script = r'''
import sys, os, py_compile, importlib, json
root, pkg = sys.argv[1], sys.argv[2]
sys.path.insert(0, os.path.dirname(root))
sys.dont_write_bytecode = True
res = []
mods = []
for d, _, fs in os.walk(root):
    for f in sorted(fs):
        if not f.endswith(".py"): continue
        p = os.path.join(d, f)
        try:
            compile(open(p, encoding="utf-8").read(), p, "exec", dont_inherit=True)
        except Exception as e:
            res.append({"file": os.path.relpath(p, root), "stage": "py_compile",
                        "msg": (type(e).__name__ + ": " + str(e))[-300:] + " | " + (getattr(e, "text", "") or "").strip()[:120]})
            continue
        rel = os.path.relpath(p, os.path.dirname(root))[:-3].replace(os.sep, ".")
        if rel.endswith(".__init__"): rel = rel[:-9]
        mods.append((rel, os.path.relpath(p, root)))
for m, rel in mods:
    try:
        importlib.import_module(m)
    except BaseException as e:
        res.append({"file": rel, "stage": "import", "msg": (type(e).__name__ + ": " + str(e))[:400]})
print(json.dumps(res))
'''
    p = subprocess.run([sys.executable, "-c", script, root, pkgname], stdout=subprocess.PIPE, stderr=subprocess.PIPE,
                       text=True, timeout=timeout)
    lines = [x for x in p.stdout.split("\n") if x.startswith("[")]
    if not lines:
        return [{"file": "", "stage": "import", "msg": "python checker died: " + p.stderr[-400:]}]
    return json.loads(lines[-1])


PY_CLASSES = [
    (r"circular import", "packages-refer-to-each-other"),
    (r"TypeError: '.*' already defined as", "enum-with-repeated-member"),
    (r"typing\.Union\[\]", "empty-union-type"),
    (r"IndentationError: expected an indented block after function definition.*", "function-without-body"),
    (r"SyntaxError: duplicate argument .*", "duplicate-declaration"),
    (r"SyntaxError: .*|IndentationError: .*", "syntax-error"),
    (r"NameError: name 'unknown' is not defined", "placeholder-type-unknown"),
    (r"NameError: .*", "undefined-name"),
    (r"ImportError: .*|ModuleNotFoundError: .*", "import-error"),
    (r"AttributeError: .*", "attribute-error"),
    (r"TypeError: .*", "type-error"),
]


def classify_py(msg):
    for pat, name in PY_CLASSES:
        if re.search(pat, msg, re.S):
            return name
    return "other:" + msg.split(":")[0][:40]


_stub_cache = {}


def java_stubs(ctx):
    key = id(ctx)
    if key not in _stub_cache:
        src = os.path.join(core.VERIF, "drivers", "java", "stubs")
        dst = os.path.join(ctx.scratch, "jackson_stub_classes")
        os.makedirs(dst, exist_ok=True)
        files = [os.path.join(d, f) for d, _, fs in os.walk(src) for f in fs if f.endswith(".java")]
        rc, out = core.sh(["javac", "-proc:none", "-nowarn", "-d", dst] + files, timeout=300)
        if rc != 0:
            raise RuntimeError("the Jackson stubs do not compile:\n" + out[-2000:])
        _stub_cache[key] = dst
    return _stub_cache[key]


JAVA_ERR = re.compile(r"^(.*\.java):(\d+): error: (.*)$")


def java_check(ctx, javadir, timeout=600):
    files = [os.path.join(d, f) for d, _, fs in os.walk(javadir) for f in fs if f.endswith(".java")]
    if not files:
        return []
    cls = os.path.join(javadir, "_classes")
    os.makedirs(cls, exist_ok=True)
    argf = os.path.join(javadir, "_files.txt")
    with open(argf, "w") as f:
        f.write("\n".join(files) + "\n")
    rc, text = core.sh(["javac", "-proc:none", "-nowarn", "-Xmaxerrs", "400", "-cp", java_stubs(ctx), "-d", cls, "@" + argf],
                       timeout=timeout)
    shutil.rmtree(cls, ignore_errors=True)
    out = []
    if rc != 0:
        lines = text.split("\n")
        for i, ln in enumerate(lines):
            m = JAVA_ERR.match(ln)
            if m:
                msg = m.group(3)
                # `cannot find symbol` carries its symbol two lines below
                extra = ""
                for nxt in lines[i + 1:i + 5]:
                    if nxt.strip().startswith("symbol:"):
                        extra = " " + re.sub(r"\s+", " ", nxt.strip())
                        break
                out.append({"file": os.path.relpath(m.group(1), javadir), "line": int(m.group(2)), "stage": "javac",
                            "msg": msg + extra})
        if not out:
            out.append({"file": "", "line": 0, "stage": "javac", "msg": text[-600:]})
    return out


JAVA_CLASSES = [
    (r"cannot inherit from final .*", "alias-of-enum-as-subclass"),
    (r"enum constant expected here", "enum-member-name-not-an-identifier"),
    (r"cannot find symbol symbol: class unknown\b.*", "placeholder-type-unknown"),
    (r"cannot find symbol symbol: (class|variable) (UnknownDataquery|Registry|Dataquery|PanelConfig)\b.*", "foundation-sdk-class-missing"),
    (r"package com\.grafana\.foundation.* does not exist", "foundation-sdk-class-missing"),
    (r"package com\.fasterxml.* does not exist|cannot find symbol symbol: .*(Json|Jackson|ObjectMapper).*", "jackson-surface-missing-from-stubs"),
    (r"cannot find symbol.*", "undefined-symbol"),
    (r"package .* does not exist", "package-missing"),
    (r"incompatible types: .*", "incompatible-types"),
    (r"(variable|method|class|constructor) .* is already defined in .*|duplicate class: .*", "duplicate-declaration"),
    (r"duplicate case label|duplicate .*", "duplicate-case"),
    (r"(class|enum|interface) .* is public, should be declared in a file named .*", "class-file-name-mismatch"),
    (r"';' expected|<identifier> expected|illegal start of .*|not a statement|class, interface, enum, or record expected|.* expected|unclosed .*|illegal character.*|reached end of file while parsing", "syntax-error"),
    (r"integer number too large.*|.*number too large.*", "constant-overflows"),
    (r"name clash: .*|.* have the same erasure.*", "duplicate-declaration"),
    (r"unreported exception .*", "unreported-exception"),
    (r"bad operand types .*|incomparable types: .*", "mismatched-types"),
]


def classify_java(msg):
    for pat, name in JAVA_CLASSES:
        if re.fullmatch(pat, msg, re.S):
            return name
    return "other:" + re.sub(r"[A-Za-z_][A-Za-z0-9_.]*|\d+", "_", msg)[:60]


# ---------------------------------------------------------------------- placeholder scan
LANG_OF_EXT = {".go": "go", ".py": "python", ".java": "java", ".ts": "typescript", ".php": "php", ".json": "json", ".md": "docs"}


def strip_comments_and_strings(text, lang):
    """code with comments and string literals blanked (same length, newlines kept): identifier-like
    placeholders are only meaningful in code position"""
    if lang == "python":
        pat = r'("""[\s\S]*?"""|\'\'\'[\s\S]*?\'\'\'|#[^\n]*|"(?:\\.|[^"\\\n])*"|\'(?:\\.|[^\'\\\n])*\')'
    elif lang == "php":
        pat = r'(/\*[\s\S]*?\*/|//[^\n]*|#[^\n]*|"(?:\\.|[^"\\])*"|\'(?:\\.|[^\'\\])*\')'
    elif lang == "go":
        pat = r'(/\*[\s\S]*?\*/|//[^\n]*|"(?:\\.|[^"\\\n])*"|`[^`]*`|\'(?:\\.|[^\'\\\n])*\')'
    else:
        pat = r'(/\*[\s\S]*?\*/|//[^\n]*|"(?:\\.|[^"\\\n])*"|\'(?:\\.|[^\'\\\n])*\'|`(?:\\.|[^`\\])*`)'
    return re.sub(pat, lambda m: re.sub(r"[^\n]", " ", m.group(0)), text)


def scan_placeholders(root, files, table):
    """table: [{"text", "lang", "mode": "word"|"substring", ...}] (coq/Gen/Placeholders_gen.v's twin JSON).
    word placeholders (identifier-like, e.g. `unknown`) are searched as whole words in CODE position of files of
    their own language; substring placeholders anywhere in any file of their language."""
    hits = []
    by_lang = {}
    for p in table:
        by_lang.setdefault(p["lang"], []).append(p)
    for rel in files:
        ext = os.path.splitext(rel)[1]
        lang = LANG_OF_EXT.get(ext)
        if lang is None:
            continue
        # which language tree does the file belong to (docs / json live under a language directory)
        top = rel.split("/")[0]
        plang = lang if lang in by_lang else top
        cands = by_lang.get(plang, [])
        if not cands:
            continue
        try:
            text = open(os.path.join(root, rel), encoding="utf-8", errors="replace").read()
        except OSError:
            continue
        code = None
        for p in cands:
            if p["mode"] == "word":
                if lang != plang:
                    continue          # identifier placeholders only in source files of the language
                if code is None:
                    code = strip_comments_and_strings(text, lang)
                m = re.search(r"(?<![A-Za-z0-9_$.])" + re.escape(p["text"]) + r"(?![A-Za-z0-9_$])", code)
                hay = code
            else:
                m = re.search(re.escape(p["text"]), text)
                hay = text
            if m:
                line = hay.count("\n", 0, m.start()) + 1
                hits.append({"file": rel, "lang": plang, "text": p["text"], "line": line,
                             "context": text.split("\n")[line - 1].strip()[:160]})
    return hits
