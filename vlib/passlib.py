"""Running (schemas, pass list) cases on the implementation and evaluating them in Coq."""
import json

from vlib import core

PREAMBLE = ("From Cog Require Import %s.\nImport ListNotations.\nLocal Open Scope string_scope.\n")


def run_jobs(binp, jobs, timeout=900):
    """jobs: list of dicts for `verifh passes`. Returns list of dict(status, input, passes, outcome, after)."""
    lines = core.run_harness_robust(binp, "passes", [json.dumps(j) for j in jobs], timeout=timeout)
    out = []
    for ln in lines:
        if ln is None:
            out.append({"status": "FATAL"})
            continue
        parts = ln.split("\t")
        if parts[0] in ("LOADPANIC", "YAMLERR"):
            out.append({"status": parts[0], "detail": parts[1] if len(parts) > 1 else ""})
            continue
        if len(parts) != 4:
            out.append({"status": "BADLINE", "detail": ln[:300]})
            continue
        out.append({"status": "OK", "input": parts[0], "passes": parts[1], "outcome": parts[2], "after": parts[3]})
    return out


def case_term(r):
    return "(%s, %s, %s, %s)" % (r["input"], r["passes"], r["outcome"], r["after"])


def eval_cases(ctx, name, results, defs, imports="Model.Spec15", case_type="pcase", shard=150, timeout=1800):
    """results: list from run_jobs (only status OK entries are evaluated).  defs: list of
    (ident, coq function pcase->bool).  Returns {ident: [indices into results]}."""
    idx = [i for i, r in enumerate(results) if r["status"] == "OK"]
    shards = [idx[i:i + shard] for i in range(0, len(idx), shard)]

    def do(k):
        ids = shards[k]
        cases = "[" + ";\n".join(case_term(results[i]) for i in ids) + "]"
        pre = PREAMBLE % imports + "Definition cases : list %s :=\n%s.\n" % (case_type, cases)
        r = core.coq_eval_lists(ctx, "%s_%d" % (name, k), pre, [(ident, "indices (%s) cases" % fn) for ident, fn in defs], timeout=timeout)
        return {ident: [ids[x] for x in r[ident]] for ident, _ in defs}

    parts = core.parallel(do, list(range(len(shards))))
    out = {ident: [] for ident, _ in defs}
    for p in parts:
        for k, v in p.items():
            out[k] += v
    for k in out:
        out[k].sort()
    return out
