"""Infrastructure of C09 / C14: from construct-grammar schemas (+ builder veneers) to RUNNING the BUILDERS and
CONVERTERS cog generated for them (Go and Python).  Built next to vlib/gencode.py (same conventions; that file is
not modified): this module has its own harness (harness/verifh_bld: prints, per output language, the post-chain
schemas AND the builder IR the jennies generate from -- after veneers and GenerateBuilderNilChecks -- as Gallina terms
and as cog's own JSON), its own Go driver (drivers/go_bld: executes *builder programs* by reflection over the
generated API, reads builder.internal / builder.errors, runs converters) and a Python driver (drivers/python_bld).

    BldBatch(ctx, name, converters=False, python=True, go_opts=None)
        .add(schema, fmt, veneers=None, text=None) -> sid     veneers: list of option-rule dicts, e.g.
                                                              {"struct_fields_as_options": {"by_name": "Root.anon"}}
        .generate()             .gen[sid] = {"status","stage","message","langs": {"go": {...}, "python": {...}}, "files"}
        .build_go_driver()      go.mod + cmd/driver (drivers/go_bld/main.go + generated dispatch.go) in <root>/out/go;
                                packages that do not compile are dropped (.compile_errors[sid])
        .run_go(jobs) / .run_py(jobs)     jobs: driver job dicts (see the drivers) with "sid"; results aligned, None = died
        .stage2(exprs)          C14: compile and run Go expressions over the generated builder API
    IR(lang_out)                navigation over cog's JSON IR (objects, builders, resolve) for the argument generators
    ArgGen(rng, ir)             argument values for options: valid / constraint-violating / failing nested builders,
                                as abstract ARGs rendered for the Go driver, the Python driver and Gallina
    dump_to_gallina(dump)       driver DUMP -> Gallina `gval`
"""
import json
import os
import re
import shutil
import subprocess
from decimal import Decimal

from gen import srcgen
from vlib import core, gencode

GO_DRIVER = os.path.join(core.VERIF, "drivers", "go_bld", "main.go")
GO_DUMP = os.path.join(core.VERIF, "drivers", "go_bld", "dump.go.txt")
PY_DRIVER = os.path.join(core.VERIF, "drivers", "python_bld", "driver.py")

_harness_cache = {}


def harness(ctx):
    key = id(ctx)
    if key not in _harness_cache:
        _harness_cache[key] = core.build_harness(ctx, "verifh_bld")
    return _harness_cache[key]


def yaml_scalar(v):
    return json.dumps(v)


def render_veneers(pkg, rules):
    """veneer rules -> veneers YAML (internal/yaml/veneers.go); JSON is YAML.
    rules: a list of option rules, or {"builders": [builder rules], "options": [option rules]}"""
    if isinstance(rules, dict):
        doc = {"language": "all", "package": pkg, "builders": rules.get("builders") or [], "options": rules.get("options") or []}
    else:
        doc = {"language": "all", "package": pkg, "options": rules}
    return json.dumps(doc, indent=1) + "\n"


class BldBatch:
    def __init__(self, ctx, name, converters=False, python=True, go_opts=None, package_root="verifgen"):
        self.ctx = ctx
        self.name = name
        self.root = os.path.join(ctx.scratch, name)
        self.in_dir = os.path.join(self.root, "in")
        self.out_dir = os.path.join(self.root, "out")
        shutil.rmtree(self.root, ignore_errors=True)
        os.makedirs(self.in_dir)
        os.makedirs(self.out_dir)
        self.module_dir = os.path.join(self.out_dir, "go")
        self.py_dir = os.path.join(self.out_dir, "python")
        self.package_root = package_root
        self.converters = converters
        self.python = python
        self.go_opts = dict(gencode.GO_OPTS_DEFAULT if go_opts is None else go_opts)
        self.schemas = {}        # sid -> dict(schema, fmt, path, cfg, text, veneers)
        self.gen = {}
        self.compile_errors = {}
        self.import_fixups = {}
        self.driver = None

    # ------------------------------------------------------------ inputs
    def _input(self, d, pkg, fmt, text):
        if fmt == "cue":
            path = os.path.join(d, pkg + ".cue")
            inp = "  - cue:\n      entrypoint: '%s'\n      package: %s\n" % (d, pkg)
        elif fmt == "jsonschema":
            path = os.path.join(d, "schema.json")
            inp = "  - jsonschema:\n      path: '%s'\n      package: %s\n" % (path, pkg)
        elif fmt == "openapi":
            path = os.path.join(d, "openapi.json")
            inp = "  - openapi:\n      path: '%s'\n      package: %s\n" % (path, pkg)
        else:
            raise ValueError(fmt)
        with open(path, "w") as f:
            f.write(text)
        return path, inp

    def add(self, schema, fmt, veneers=None, text=None, closed=False, extra_inputs=None, passes=None):
        """extra_inputs: [(package, format, schema text)] further inputs of the same pipeline (other packages);
        passes: schema transformations (internal/yaml compiler passes) applied to all inputs"""
        sid = schema["pkg"]
        assert sid not in self.schemas, sid
        d = os.path.join(self.in_dir, sid)
        os.makedirs(d)
        if text is None:
            text = srcgen.render(schema, fmt, closed=closed)
        path, inp = self._input(d, sid, fmt, text)
        for k, (xpkg, xfmt, xtext) in enumerate(extra_inputs or []):
            xd = os.path.join(self.in_dir, "%s_x%d" % (sid, k))
            os.makedirs(xd)
            inp += self._input(xd, xpkg, xfmt, xtext)[1]
        cfg_text = "inputs:\n" + inp
        if veneers or passes:
            cfg_text += "transformations:\n"
        if passes:
            pfile = os.path.join(self.in_dir, sid + "_passes.yaml")
            with open(pfile, "w") as f:
                f.write(json.dumps({"passes": passes}, indent=1) + "\n")
            cfg_text += "  schemas:\n    - '%s'\n" % pfile
        if veneers:
            vdir = os.path.join(self.in_dir, sid + "_veneers")
            os.makedirs(vdir)
            with open(os.path.join(vdir, "veneers.yaml"), "w") as f:
                f.write(render_veneers(sid, veneers))
            cfg_text += "  builders:\n    - '%s'\n" % vdir
        out = "output:\n  directory: '%l'\n  types: true\n  builders: true\n"
        if self.converters:
            out += "  converters: true\n"
        out += "  languages:\n    - go:\n        package_root: '%s'\n" % self.package_root
        for k, v in self.go_opts.items():
            out += "        %s: %s\n" % (k, json.dumps(v))
        if self.python:
            out += "    - python:\n        generate_json_marshaller: true\n"
        cfg = os.path.join(self.in_dir, sid + ".yaml")
        with open(cfg, "w") as f:
            f.write(cfg_text + out)
        self.schemas[sid] = {"schema": schema, "fmt": fmt, "path": path, "cfg": cfg, "text": text, "veneers": veneers or [],
                             "extra_inputs": [list(x) for x in (extra_inputs or [])], "passes": passes or []}
        return sid

    # ------------------------------------------------------------ cog
    def generate(self):
        binp = harness(self.ctx)
        sids = list(self.schemas)
        lines = [json.dumps({"id": sid, "config": self.schemas[sid]["cfg"], "outdir": self.out_dir}) for sid in sids]
        n = len(lines)
        chunk = max(1, (n + core.NCPU - 1) // core.NCPU)
        outs = core.run_harness_robust(binp, "gen", lines, timeout=600, chunk=chunk)
        for sid, ln in zip(sids, outs):
            if ln is None:
                self.gen[sid] = {"status": "FATAL", "stage": "process", "message": "harness process died", "langs": {}, "files": []}
            else:
                self.gen[sid] = json.loads(ln, parse_float=Decimal)
        return self.gen

    def ok_sids(self):
        return [s for s in self.schemas if self.gen.get(s, {}).get("status") == "OK" and s not in self.compile_errors]

    def lang(self, sid, lang):
        return self.gen[sid]["langs"][lang]

    # ------------------------------------------------------------ Go driver
    def _emit_dispatch(self, sids):
        imports, bl, tl, cl = set(), [], [], []
        for sid in sids:
            lo = self.lang(sid, "go")
            for o in lo["objects"]:
                if o.get("ctor"):
                    imports.add('\t%s "%s/%s"' % (o["gopkg"], self.package_root, o["gopkg"]))
                    tl.append('\t"%s.%s": reflect.ValueOf(%s.New%s),' % (o["gopkg"], o["go"], o["gopkg"], o["go"]))
            for b in lo["names"]:
                imports.add('\t%s "%s/%s"' % (b["gopkg"], self.package_root, b["gopkg"]))
                bl.append('\t"%s.%s": reflect.ValueOf(%s.New%sBuilder),' % (b["gopkg"], b["go"], b["gopkg"], b["go"]))
                if self.converters:
                    cl.append('\t"%s.%s": reflect.ValueOf(%s.%sConverter),' % (b["gopkg"], b["go"], b["gopkg"], b["go"]))
        body = "package main\n\nimport (\n\t\"reflect\"\n" + "\n".join(sorted(imports)) + "\n)\n\n"
        body += "var builders = map[string]reflect.Value{\n" + "\n".join(sorted(set(bl))) + "\n}\n\n"
        body += "var types = map[string]reflect.Value{\n" + "\n".join(sorted(set(tl))) + "\n}\n\n"
        body += "var converters = map[string]reflect.Value{\n" + "\n".join(sorted(set(cl))) + "\n}\n"
        return body

    def _go_build(self, target, out):
        env = dict(core.GOENV, GOFLAGS="-mod=mod")
        return core.sh(["go", "build", "-o", out, target], cwd=self.module_dir, env=env, timeout=900)

    def build_go_driver(self, max_rounds=10):
        mod = self.module_dir
        os.makedirs(mod, exist_ok=True)
        with open(os.path.join(mod, "go.mod"), "w") as f:
            f.write("module %s\n\ngo 1.21\n" % self.package_root)
        ddir = os.path.join(mod, "cmd", "driver")
        os.makedirs(ddir, exist_ok=True)
        shutil.copy(GO_DRIVER, os.path.join(ddir, "main.go"))
        if self.converters and os.path.isdir(os.path.join(mod, "cog")):
            shutil.copy(GO_DUMP, os.path.join(mod, "cog", "dump_verif.go"))
        binp = os.path.join(self.root, "driver")
        for _ in range(max_rounds):
            sids = [s for s in self.ok_sids() if "go" in self.gen[s]["langs"]]
            with open(os.path.join(ddir, "dispatch.go"), "w") as f:
                f.write(self._emit_dispatch(sids))
            if not sids:
                self.driver = None
                return None
            rc, out = self._go_build("./cmd/driver", binp)
            if rc == 0:
                self.driver = binp
                return binp
            by_gopkg = {}
            for sid in sids:
                for o in self.lang(sid, "go")["objects"]:
                    by_gopkg[o["gopkg"]] = sid
            fixed = False
            for m in re.finditer(r"^(?:\./)?([A-Za-z0-9_]+/[A-Za-z0-9_]+\.go):(\d+):\d+: (\"[a-z/]+\") imported and not used", out, re.M):
                fpath = os.path.join(mod, m.group(1))
                lines_ = open(fpath).read().split("\n")
                ln = int(m.group(2)) - 1
                if 0 <= ln < len(lines_) and m.group(3) in lines_[ln]:
                    gp = m.group(1).split("/")[0]
                    if gp in by_gopkg:
                        self.import_fixups.setdefault(by_gopkg[gp], []).append(m.group(1) + ":" + m.group(3).strip('"'))
                    lines_[ln] = ""
                    with open(fpath, "w") as f:
                        f.write("\n".join(lines_))
                    fixed = True
            if fixed:
                continue
            bad = set()
            for m in re.finditer(r"^(?:\./)?([A-Za-z0-9_]+)/[A-Za-z0-9_]+\.go:\d+", out, re.M):
                if m.group(1) in by_gopkg:
                    bad.add(by_gopkg[m.group(1)])
            for m in re.finditer(r"^# %s/([A-Za-z0-9_]+)" % re.escape(self.package_root), out, re.M):
                if m.group(1) in by_gopkg:
                    bad.add(by_gopkg[m.group(1)])
            if not bad:
                raise RuntimeError("driver build failed and no generated package is to blame:\n" + out[-3000:])
            for sid in bad:
                gp = self.lang(sid, "go")["objects"][0]["gopkg"]
                errs = [ln for ln in out.split("\n") if ln.startswith(gp + "/") or ln.startswith("./" + gp + "/")]
                self.compile_errors[sid] = "\n".join(errs[:12]) or out[-800:]
        raise RuntimeError("driver build did not converge")

    # ------------------------------------------------------------ running drivers
    def _run(self, argv, jobs, timeout, env=None):
        lines = [dumps_job({k: v for k, v in j.items() if k != "sid"}) for j in jobs]
        n = len(lines)
        chunk = max(1, (n + core.NCPU - 1) // core.NCPU)
        outs = [None] * n

        def run_range(lo, hi, tmo):
            try:
                p = subprocess.run(argv, input="\n".join(lines[lo:hi]) + "\n", stdout=subprocess.PIPE,
                                   stderr=subprocess.PIPE, text=True, timeout=tmo, env=env or dict(os.environ, TZ="UTC"))
            except subprocess.TimeoutExpired:
                return False
            got = [x for x in p.stdout.split("\n") if x]
            if p.returncode == 0 and len(got) == hi - lo:
                outs[lo:hi] = got
                return True
            return False

        def solve(lo, hi, tmo):
            if run_range(lo, hi, tmo):
                return
            if hi - lo == 1:
                return
            mid = (lo + hi) // 2
            solve(lo, mid, max(20, tmo // 2))
            solve(mid, hi, max(20, tmo // 2))

        core.parallel(lambda r: solve(r[0], r[1], timeout), [(i, min(i + chunk, n)) for i in range(0, n, chunk)])
        return [None if o is None else json.loads(o, parse_float=Decimal) for o in outs]

    def run_go(self, jobs, timeout=600):
        if not self.driver:
            return [None] * len(jobs)
        return self._run([self.driver], jobs, timeout)

    def run_py(self, jobs, timeout=600):
        env = dict(os.environ, TZ="UTC", PYTHONDONTWRITEBYTECODE="1")
        return self._run(["python3", PY_DRIVER, self.out_dir, "python"], jobs, timeout, env=env)

    # ------------------------------------------------------------ C14 stage 2
    def stage2(self, exprs, name="stage2", timeout=600, chunk=400):
        """stage2_one on chunks of expressions, in parallel (one Go program per chunk)"""
        if len(exprs) <= chunk:
            return self.stage2_one(exprs, name=name, timeout=timeout)
        parts = [(k, exprs[i:i + chunk]) for k, i in enumerate(range(0, len(exprs), chunk))]
        res = core.parallel(lambda p: self.stage2_one(p[1], name="%s_%d" % (name, p[0]), timeout=timeout), parts,
                            workers=max(2, core.NCPU // 2))
        return [r for part in res for r in part]

    def stage2_one(self, exprs, name="stage2", timeout=600):
        """exprs: list of Go expression texts of builder type (what a converter returned).  Each is compiled into
        its own function of package main in <module>/cmd/<name>/; expressions that do not compile are isolated
        (reported as {"s": "compile-error", "msg"}) and the rest is rebuilt.  Returns a list of
        {"s": "ok"|"err"|"panic"|"compile-error", "paths": [...], "dump": DUMP, "json": ...} aligned with exprs."""
        mod = self.module_dir
        d = os.path.join(mod, "cmd", name)
        shutil.rmtree(d, ignore_errors=True)
        os.makedirs(d)
        src = open(GO_DRIVER).read()
        # reuse dump / marshal / errPaths / doBuild of the driver template
        keep = src[src.index("// ---------------------------------------------------------------- dump"):
                   src.index("// ---------------------------------------------------------------- programs")]
        keep += src[src.index("func errPaths"):src.index("func runProg")]
        gopkgs = sorted({o["gopkg"] for sid in self.ok_sids() for o in self.lang(sid, "go")["objects"]})
        head = ("package main\n\nimport (\n\t\"bufio\"\n\t\"encoding/json\"\n\t\"fmt\"\n\t\"os\"\n\t\"reflect\"\n\t\"sort\"\n"
                "\t\"strconv\"\n\t\"strings\"\n\t\"time\"\n\t\"unsafe\"\n)\n\n"
                "type buildRes struct {\n\tS string `json:\"s\"`\n\tErrors []string `json:\"errors\"`\n\tPaths []string `json:\"paths\"`\n\tDump any `json:\"dump\"`\n"
                "\tJSON json.RawMessage `json:\"json\"`\n}\n\nvar _ = sort.Strings\nvar _ = strconv.Itoa\nvar _ = strings.Index\n"
                "var _ = fmt.Sprint\nvar exprs = map[int]func() reflect.Value{}\n\n")
        main = ("func main() {\n\tout := bufio.NewWriter(os.Stdout)\n\tdefer out.Flush()\n\tn := %d\n"
                "\tfor i := 0; i < n; i++ {\n\t\tf, ok := exprs[i]\n\t\tvar res *buildRes\n\t\tif !ok {\n\t\t\tres = &buildRes{S: \"absent\"}\n"
                "\t\t} else {\n\t\t\tres = func() (r *buildRes) {\n\t\t\t\tdefer func() {\n\t\t\t\t\tif x := recover(); x != nil {\n"
                "\t\t\t\t\t\tr = &buildRes{S: \"panic\"}\n\t\t\t\t\t}\n\t\t\t\t}()\n\t\t\t\treturn doBuild(f())\n\t\t\t}()\n\t\t}\n"
                "\t\tb, _ := json.Marshal(res)\n\t\tout.Write(b)\n\t\tout.WriteByte('\\n')\n\t}\n}\n") % len(exprs)
        with open(os.path.join(d, "main.go"), "w") as f:
            f.write(head + keep + main)
        results = [None] * len(exprs)
        live = set(range(len(exprs)))

        def write_files():
            for fn in os.listdir(d):
                if fn.startswith("e_"):
                    os.remove(os.path.join(d, fn))
            for i in sorted(live):
                used = [g for g in gopkgs if re.search(r"\b%s\." % re.escape(g), exprs[i])]
                body = ("package main\n\nimport (\n\t\"reflect\"\n\t\"time\"\n\tcog \"%s/cog\"\n" % self.package_root
                        + "".join('\t%s "%s/%s"\n' % (g, self.package_root, g) for g in used)
                        + ")\n\nvar _ = time.Now\nvar _ cog.Builder[int]\n"
                        + "".join("var _ = %s.%s\n" % (g, self._any_symbol(g)) for g in used if self._any_symbol(g))
                        + "\nfunc init() {\n\texprs[%d] = func() reflect.Value {\n\t\treturn reflect.ValueOf(\n%s,\n\t\t)\n\t}\n}\n" % (i, exprs[i]))
                with open(os.path.join(d, "e_%05d.go" % i), "w") as f:
                    f.write(body)

        binp = os.path.join(self.root, name)
        for _ in range(12):
            write_files()
            rc, out = self._go_build("./cmd/" + name, binp)
            if rc == 0:
                break
            bad = {}
            for m in re.finditer(r"e_(\d+)\.go:\d+(?::\d+)?: ([^\n]*)", out):
                bad.setdefault(int(m.group(1)), m.group(2))
            if not bad:
                raise RuntimeError("stage-2 build failed outside the expressions:\n" + out[-3000:])
            for i, msg in bad.items():
                results[i] = {"s": "compile-error", "msg": msg[:300]}
                live.discard(i)
        else:
            raise RuntimeError("stage-2 build did not converge")
        p = subprocess.run([binp], stdout=subprocess.PIPE, stderr=subprocess.PIPE, text=True, timeout=timeout,
                           env=dict(os.environ, TZ="UTC"))
        got = [x for x in p.stdout.split("\n") if x]
        if p.returncode != 0 or len(got) != len(exprs):
            raise RuntimeError("stage-2 program failed: rc=%d %s" % (p.returncode, p.stderr[-1500:]))
        for i, ln in enumerate(got):
            if results[i] is None:
                results[i] = json.loads(ln, parse_float=Decimal)
        return results

    def _any_symbol(self, gopkg):
        for sid in self.ok_sids():
            for o in self.lang(sid, "go")["objects"]:
                if o["gopkg"] == gopkg and o["kind"] == "struct":
                    return "New" + o["go"]
        return None


# ====================================================================== cog's JSON IR
INT_RANGE = srcgen.INT_RANGE


class IR:
    """navigation over the JSON IR of one language context (harness/verifh_bld: schemas_json, builders_json)"""

    def __init__(self, lang_out):
        self.lo = lang_out
        self.objects = {}
        for s in lang_out["schemas_json"] or []:
            for name, o in (s.get("Objects") or {}).items():
                self.objects[(s["Package"], name)] = o
        self.builders = lang_out["builders_json"] or []
        self.names = {(n["pkg"], n["name"]): n for n in lang_out["names"]}
        self.summary = {(o["pkg"], o["name"]): o for o in lang_out["objects"]}

    def resolve(self, t, fuel=40):
        while t["Kind"] == "ref" and fuel > 0:
            o = self.objects.get((t["Ref"]["ReferredPkg"], t["Ref"]["ReferredType"]))
            if o is None:
                return t
            t = o["Type"]
            fuel -= 1
        return t

    def builders_for_ref(self, t):
        r = t["Ref"]
        return [b for b in self.builders if b["For"]["SelfRef"]["ReferredPkg"] == r["ReferredPkg"]
                and b["For"]["SelfRef"]["ReferredType"] == r["ReferredType"]]

    def has_builder(self, t, fuel=8):
        """languages.Context.ResolveToBuilder"""
        if fuel == 0:
            return False
        k = t["Kind"]
        if k == "array":
            return self.has_builder(t["Array"]["ValueType"], fuel - 1)
        if k == "map":
            return self.has_builder(t["Map"]["ValueType"], fuel - 1)
        if k == "disjunction":
            return any(self.has_builder(b, fuel - 1) for b in t["Disjunction"]["Branches"])
        if k != "ref":
            return False
        rt = self.resolve(t)
        if rt["Kind"] == "disjunction":
            return any(self.has_builder(b, fuel - 1) for b in rt["Disjunction"]["Branches"])
        return len(self.builders_for_ref(t)) != 0

    def builder(self, pkg, name):
        for b in self.builders:
            if b["For"]["SelfRef"]["ReferredPkg"] == pkg and b["Name"] == name:
                return b
        return None


def _constraints(t):
    return (t.get("Scalar") or {}).get("Constraints") or []


def _is_datetime(t):
    return "string_format_datetime" in (t.get("Hints") or {})


class Unsupported(Exception):
    pass


class ArgGen:
    """values for option arguments, generated from the IR type of the argument.

    gen(t, want) -> (ARG, facts)    want in {"valid", "bound", "elem", "alias", "nested", "nested-default"}
        ARG   = {"v": pyvalue} | {"nil": True} | {"b": {"pkg", "name", "ctor": [ARG], "calls": [(option, [ARG])]}}
              | {"l": [ARG]} | {"m": [(key, ARG)]}
        facts = set of fault tags actually injected (subset of {"bound", "elem", "alias", "nested"}); empty = the
                argument is meant to satisfy the schema.
    """

    def __init__(self, rng, ir, lang, max_depth=3):
        self.rng = rng
        self.ir = ir
        self.lang = lang
        self.max_depth = max_depth

    # ---- scalars
    def _bounds(self, cs):
        lo = hi = None
        lo_strict = hi_strict = False
        minlen = maxlen = None
        for c in cs:
            op, a = c["Op"], (c.get("Args") or [None])[0]
            if op == ">=" and (lo is None or a > lo):
                lo, lo_strict = a, False
            elif op == ">" and (lo is None or a >= lo):
                lo, lo_strict = a, True
            elif op == "<=" and (hi is None or a < hi):
                hi, hi_strict = a, False
            elif op == "<" and (hi is None or a <= hi):
                hi, hi_strict = a, True
            elif op == "minLength":
                minlen = a if minlen is None else max(minlen, a)
            elif op == "maxLength":
                maxlen = a if maxlen is None else min(maxlen, a)
            else:
                raise Unsupported("constraint " + op)
        return lo, lo_strict, hi, hi_strict, minlen, maxlen

    def scalar(self, t, violate=False):
        """-> (value, violated?); a value meant to be valid is checked against every constraint (the bounds of a
        generated schema may be unsatisfiable: then there is no valid argument)"""
        v, viol = self._scalar(t, violate)
        if not viol and not _satisfies(v, (t.get("Scalar") or {}).get("Constraints") or []):
            raise Unsupported("unsatisfiable constraints")
        return v, viol

    def _scalar(self, t, violate=False):
        r = self.rng
        sc = t["Scalar"]
        k = sc["ScalarKind"]
        if sc.get("Value") is not None:
            return sc["Value"], False
        cs = sc.get("Constraints") or []
        lo, los, hi, his, minlen, maxlen = self._bounds(cs)
        if k == "bool":
            return r.random() < 0.5, False
        if k == "string":
            if _is_datetime(t):
                s = "%04d-%02d-%02dT%02d:%02d:%02d" % (r.randint(1990, 2035), r.randint(1, 12), r.randint(1, 28),
                                                     r.randint(0, 23), r.randint(0, 59), r.randint(0, 59))
                if r.random() < 0.3:
                    s += "." + r.choice(["5", "250", "123456", "007"])
                return s + "Z", False
            a = int(minlen or 0)
            b = int(maxlen) if maxlen is not None else a + 6
            b = max(a, b)
            if violate and (minlen or maxlen is not None):
                if minlen and (maxlen is None or r.random() < 0.5):
                    n = int(minlen) - 1
                else:
                    n = int(maxlen) + 1
                return "".join(r.choice("abcxyzABC019 -_") for _ in range(n)), True
            n = r.choice([a, b, r.randint(a, b)])
            return "".join(r.choice("abcxyzABC019 -_") for _ in range(n)), False
        if k in INT_RANGE:
            tlo, thi = INT_RANGE[k]
            tlo, thi = max(tlo, -2 ** 53), min(thi, 2 ** 53)
            vlo = tlo if lo is None else max(tlo, int(lo) + (1 if los else 0))
            vhi = thi if hi is None else min(thi, int(hi) - (1 if his else 0))
            if violate:
                cands = []
                if lo is not None and vlo - 1 >= tlo:
                    cands.append(vlo - 1)
                if hi is not None and vhi + 1 <= thi:
                    cands.append(vhi + 1)
                if cands:
                    return r.choice(cands), True
            if vlo > vhi:
                return vlo, False
            a, b = max(vlo, -1000), min(vhi, 1000)
            if a > b:
                return r.choice([vlo, vhi]), False
            return r.choice([vlo, vhi, r.randint(a, b)]) if (lo is not None or hi is not None) else r.randint(a, b), False
        if k in ("float32", "float64"):
            if violate and (lo is not None or hi is not None):
                if lo is not None and (hi is None or r.random() < 0.5):
                    return _dnorm(Decimal(lo) - Decimal("0.5")), True
                return _dnorm(Decimal(hi) + Decimal("0.5")), True
            if lo is None and hi is None:
                d = 3 if k == "float32" else 5
                return _dnorm(Decimal(r.randint(-10 ** d, 10 ** d)) / (Decimal(10) ** r.randint(0, d - 1))), False
            flo = Decimal(lo) if lo is not None else Decimal(hi) - 50
            fhi = Decimal(hi) if hi is not None else Decimal(lo) + 50
            x = (flo + (fhi - flo) * Decimal(r.randint(1, 99)) / Decimal(100)).quantize(Decimal("0.001"))
            if lo is not None and (x < flo or (los and x <= flo)):
                x = flo + (Decimal("0.001") if los else 0)
            if hi is not None and (x > fhi or (his and x >= fhi)):
                x = fhi - (Decimal("0.001") if his else 0)
            return _dnorm(x), False
        if k == "any":
            return r.choice(["s", 1, 0, True, Decimal("1.5"), "", -3, ["a", 2], {"k": "v", "n": 1}]), False
        raise Unsupported("scalar kind " + k)

    # ---- everything
    def gen(self, t, want="valid", depth=0, plain=False):
        """plain: the value sits behind a reference the builder formatter does not look through (an alias of an
        array / map): no builders inside"""
        r = self.rng
        k = t["Kind"]
        if depth > self.max_depth + 12:
            raise Unsupported("nesting too deep")
        deep = depth > self.max_depth + 2
        if k == "scalar":
            v, viol = self.scalar(t, violate=(want == "bound"))
            return {"v": v}, ({"bound"} if viol else set())
        if k == "constant_ref":
            return {"v": t["ConstantReference"]["ReferenceValue"]}, set()
        if k == "enum":
            return {"v": r.choice(t["Enum"]["Values"])["Value"]}, set()
        if k == "array":
            et = t["Array"]["ValueType"]
            n = r.choice([0, 1, 2, 3]) if want == "valid" else r.choice([1, 2, 3])
            if deep and want == "valid":
                n = 0
            pos = r.randrange(n) if n else -1
            items, facts = [], set()
            for i in range(n):
                w = "valid"
                if i == pos:
                    w = {"elem": "bound", "nested": "nested", "nested-default": "nested-default", "alias": "alias"}.get(want, "valid")
                a, f = self.gen(et, w, depth + 1, plain)
                items.append(a)
                facts |= {("elem" if x == "bound" else x) for x in f}
            if self.ir.has_builder(t) and not plain:
                return {"l": items}, facts
            return {"v": [self._plain(a) for a in items]}, facts
        if k == "map":
            vt = t["Map"]["ValueType"]
            if t["Map"]["IndexType"]["Kind"] != "scalar" or t["Map"]["IndexType"]["Scalar"]["ScalarKind"] != "string":
                raise Unsupported("map index")
            keys = r.sample(["k", "a", "b", "n", "key with space", "Z"],
                            (0 if deep else r.choice([0, 1, 2])) if want == "valid" else r.choice([1, 2]))
            pos = r.choice(keys) if keys else None
            items, facts = [], set()
            for key in keys:
                w = "valid"
                if key == pos:
                    w = {"elem": "bound", "nested": "nested", "nested-default": "nested-default", "alias": "alias"}.get(want, "valid")
                a, f = self.gen(vt, w, depth + 1, plain)
                items.append((key, a))
                facts |= {("elem" if x == "bound" else x) for x in f}
            if self.ir.has_builder(t) and not plain:
                return {"m": items}, facts
            return {"v": {k_: self._plain(a) for k_, a in items}}, facts
        if k == "disjunction":
            bs = t["Disjunction"]["Branches"]
            return self.gen(r.choice(bs), want if want in ("nested", "nested-default") else "valid", depth + 1, plain)
        if k == "ref":
            rt = self.ir.resolve(t)
            if rt["Kind"] == "ref":
                raise Unsupported("dangling reference")
            if rt["Kind"] == "struct":
                bs = self.ir.builders_for_ref(t)
                if bs and not plain:
                    return self.gen_builder(r.choice(bs), want, depth + 1)
                if self.lang != "go":
                    raise Unsupported("plain struct argument")
                return {"v": self._plain_struct(rt, depth + 1)}, set()
            if rt["Kind"] == "disjunction":
                return self.gen(rt, want, depth + 1, plain)
            # alias of a scalar / enum / array / map: constraints behind the alias
            if rt["Kind"] == "scalar":
                v, viol = self.scalar(rt, violate=(want in ("alias", "bound")))
                return {"v": v}, ({"alias"} if viol else set())
            a, f = self.gen(rt, want, depth + 1, True)
            return a, f
        raise Unsupported("type kind " + k)

    def _plain(self, a):
        if "v" not in a:
            raise Unsupported("builder inside a plain collection")
        return a["v"]

    def _plain_struct(self, rt, depth):
        out = {}
        for f in rt["Struct"]["Fields"]:
            if not f["Required"] and (depth >= self.max_depth or self.rng.random() < 0.5):
                continue
            a, _ = self.gen(f["Type"], "valid", depth + 1, True)
            out[f["Name"]] = self._plain(a)
        return out

    def must_call(self, opt):
        """options whose arguments carry constraints or required nested objects: left alone, the default object
        of the nested builder may not validate"""
        for a in (opt.get("Args") or []):
            t = a["Type"]
            if t["Kind"] == "scalar" and _constraints(t):
                return True
            if t["Kind"] == "ref" and not t.get("Nullable") and self.ir.resolve(t)["Kind"] in ("struct", "scalar"):
                return True
        return False

    def gen_builder(self, b, want="valid", depth=0):
        """-> ({"b": program}, facts): a program over builder b"""
        r = self.rng
        if depth > self.max_depth + 4:
            raise Unsupported("required nesting too deep")
        pkg, name = b["For"]["SelfRef"]["ReferredPkg"], b["Name"]
        facts = set()
        ctor = []
        for a in (b.get("Constructor") or {}).get("Args") or []:
            x, f = self.gen(a["Type"], "valid", depth + 1)
            ctor.append(x)
        opts = b.get("Options") or []
        calls = []
        fault_opt = None
        if want == "nested":
            cands = [o for o in opts if any(self._can_violate(a["Type"]) for a in (o.get("Args") or []))]
            if cands:
                fault_opt = r.choice(cands)
        skip_must = want == "nested-default"
        for o in opts:
            must = self.must_call(o)
            if o is not fault_opt:
                if must and skip_must and r.random() < 0.8:
                    facts.add("nested-default")
                    continue
                if depth >= self.max_depth and not must:
                    continue
                if not must and r.random() < 0.55:
                    continue
            args = []
            try:
                injected = False
                for a in (o.get("Args") or []):
                    w = "valid"
                    if o is fault_opt and not injected and self._can_violate(a["Type"]):
                        w = "bound" if a["Type"]["Kind"] == "scalar" else "elem"
                    x, f = self.gen(a["Type"], w, depth + 1)
                    if f & {"bound", "elem"} and o is fault_opt:
                        injected = True
                        facts.add("nested")
                    args.append(x)
            except Unsupported:
                continue
            calls.append((o["Name"], args))
        return {"b": {"pkg": pkg, "name": name, "ctor": ctor, "calls": calls}}, facts

    def _can_violate(self, t):
        if t["Kind"] == "scalar":
            return bool(_constraints(t)) and t["Scalar"].get("Value") is None
        if t["Kind"] == "array":
            return self._can_violate(t["Array"]["ValueType"])
        if t["Kind"] == "map":
            return self._can_violate(t["Map"]["ValueType"])
        return False

    def can(self, t, want):
        """is the fault `want` expressible for an argument of type t?"""
        k = t["Kind"]
        if want == "bound":
            return k == "scalar" and self._can_violate(t)
        if want == "elem":
            return k in ("array", "map") and self._can_violate(t)
        if want == "alias":
            if k == "ref":
                rt = self.ir.resolve(t)
                return rt["Kind"] == "scalar" and self._can_violate(rt)
            if k == "array":
                return self.can(t["Array"]["ValueType"], "alias")
            if k == "map":
                return self.can(t["Map"]["ValueType"], "alias")
            return False
        if want in ("nested", "nested-default"):
            return self.ir.has_builder(t)
        return True


def _satisfies(v, cs):
    for c in cs:
        op, a = c["Op"], (c.get("Args") or [None])[0]
        try:
            if op in ("minLength", "maxLength"):
                if not isinstance(v, str):
                    continue
                n = len(v)
                ok = n >= a if op == "minLength" else n <= a
            elif isinstance(v, bool) or not isinstance(v, (int, Decimal)):
                continue
            else:
                x, y = Decimal(v), Decimal(a)
                ok = {">=": x >= y, ">": x > y, "<=": x <= y, "<": x < y, "==": x == y, "!=": x != y}.get(op, True)
        except Exception:
            continue
        if not ok:
            return False
    return True


def _dnorm(d):
    d = d.normalize()
    if d == d.to_integral_value():
        return Decimal(int(d))
    return d


# ====================================================================== renderers of ARGs
def go_arg(ir, a):
    if "b" in a:
        return {"b": go_prog(ir, a["b"])}
    if "l" in a:
        return {"l": [go_arg(ir, x) for x in a["l"]]}
    if "m" in a:
        return {"m": [[k, go_arg(ir, x)] for k, x in a["m"]]}
    if a.get("nil"):
        return {"nil": True}
    return {"v": _jsonable(a["v"])}


def _jsonable(v):
    """python document -> structure json.dumps can print exactly (Decimals become exact number tokens)"""
    return _Raw(srcgen.dumps(v))


class _Raw:
    def __init__(self, text):
        self.text = text


class _Enc(json.JSONEncoder):
    def default(self, o):
        if isinstance(o, _Raw):
            return json.loads(o.text)     # only reached by generic dumps (lossy for Decimals): not used for drivers
        if isinstance(o, Decimal):
            return float(o)
        return super().default(o)


def dumps_job(job):
    """JSON text of a driver job; _Raw values are spliced in as exact text"""
    marks = []

    def enc(o):
        if isinstance(o, _Raw):
            marks.append(o.text)
            return "\u0000RAW%d\u0000" % (len(marks) - 1)
        if isinstance(o, dict):
            return {k: enc(v) for k, v in o.items()}
        if isinstance(o, (list, tuple)):
            return [enc(v) for v in o]
        return o
    text = json.dumps(enc(job))
    for i, m in enumerate(marks):
        text = text.replace(json.dumps("\u0000RAW%d\u0000" % i), m)
    return text


def go_prog(ir, p):
    n = ir.names[(p["pkg"], p["name"])]
    return {"b": "%s.%s" % (n["gopkg"], n["go"]), "ctor": [go_arg(ir, a) for a in p["ctor"]],
            "calls": [{"m": n["go_options"][o], "args": [go_arg(ir, a) for a in args]} for o, args in p["calls"]]}


def py_arg(ir, a):
    if "b" in a:
        return {"b": py_prog(ir, a["b"])}
    if "l" in a:
        return {"l": [py_arg(ir, x) for x in a["l"]]}
    if "m" in a:
        return {"m": [[k, py_arg(ir, x)] for k, x in a["m"]]}
    return {"v": _jsonable(a.get("v"))}


def py_prog(ir, p):
    n = ir.names[(p["pkg"], p["name"])]
    return {"b": "%s.%s" % (n["pymod"], n["py"]), "ctor": [py_arg(ir, a) for a in p["ctor"]],
            "calls": [{"m": n["py_options"][o], "name": o, "args": [py_arg(ir, a) for a in args]} for o, args in p["calls"]]}


G = srcgen.g_str


def gallina_arg(a):
    if "b" in a:
        p = a["b"]
        return "(BBuild %s %s %s %s)" % (G(p["pkg"]), G(p["name"]), gencode.g_list(gallina_arg(x) for x in p["ctor"]),
                                         gallina_calls(p["calls"]))
    if "l" in a:
        return "(BList %s)" % gencode.g_list(gallina_arg(x) for x in a["l"])
    if "m" in a:
        return "(BMapB %s)" % gencode.g_list("(%s, %s)" % (G(k), gallina_arg(x)) for k, x in a["m"])
    if a.get("nil"):
        return "(BJson JNull)"
    return "(BJson %s)" % srcgen.doc_to_gallina(a["v"])


def gallina_calls(calls):
    return gencode.g_list("(%s, %s)" % (G(o), gencode.g_list(gallina_arg(x) for x in args)) for o, args in calls)


# ====================================================================== driver DUMP -> Gallina gval
def _dec_me(text):
    d = Decimal(text)
    if d == 0:
        return 0, 0
    sign, digits, exp = d.as_tuple()
    m = int("".join(str(x) for x in digits))
    while m % 10 == 0 and m != 0:
        m //= 10
        exp += 1
    return (-m if sign else m), exp


def dump_to_gallina(d, fields_of=None):
    """DUMP (drivers/go_bld/main.go, drivers/python_bld/driver.py) -> Gallina `gval`.
    fields_of: Python only: class name -> IR field names (members to_json() omits are None)"""
    k = d["k"]
    if k == "nil":
        return "GNil"
    if k == "bool":
        return "(GBool %s)" % ("true" if d["v"] else "false")
    if k == "int":
        return "(GInt %s)" % srcgen.g_z(int(d["v"]))
    if k == "float":
        t = str(d["v"])
        if t in ("inf", "-inf", "nan", "+Inf", "-Inf", "NaN"):
            return "(GStr %s)" % G("<" + t + ">")
        m, e = _dec_me(t)
        return "(GFloat %s %s)" % (srcgen.g_z(m), srcgen.g_z(e))
    if k == "str":
        return "(GStr %s)" % G(d["v"])
    if k == "time":
        return "(GTime %s %s)" % (G(d["v"]), "true" if d.get("local") else "false")
    if k == "ptr":
        return "(GPtr %s)" % dump_to_gallina(d["v"], fields_of)
    if k == "slice":
        return "(GSlice %s)" % gencode.g_list(dump_to_gallina(x, fields_of) for x in d["v"])
    if k == "map":
        return "(GMap %s)" % gencode.g_list("(%s, %s)" % (G(kk), dump_to_gallina(x, fields_of)) for kk, x in d["v"])
    if k == "struct":
        pairs = [(n, x) for n, x in d["v"]]
        if fields_of is not None:
            names = fields_of.get(d.get("cls"))
            if names is not None:
                have = dict(pairs)
                pairs = [(n, have.get(n, {"k": "nil"})) for n in names]
        return "(GStruct %s)" % gencode.g_list("(%s, %s)" % (G(n), dump_to_gallina(x, fields_of)) for n, x in pairs)
    if k == "any":
        return "(GAny (canon %s))" % srcgen.doc_to_gallina(_undecimal(d["v"]))
    return "(GStr %s)" % G("<other:%s>" % d.get("v"))


def _undecimal(v):
    if isinstance(v, Decimal):
        return _dnorm(v) if v == v.to_integral_value() and abs(v) < 10 ** 15 else v
    if isinstance(v, list):
        return [_undecimal(x) for x in v]
    if isinstance(v, dict):
        return {k: _undecimal(x) for k, x in v.items()}
    return v


# ====================================================================== serialisation of abstract ARGs (replays)
def arg_to_json(a):
    if "b" in a:
        return {"b": prog_to_json(a["b"])}
    if "l" in a:
        return {"l": [arg_to_json(x) for x in a["l"]]}
    if "m" in a:
        return {"m": [[k, arg_to_json(x)] for k, x in a["m"]]}
    if a.get("nil"):
        return {"nil": True}
    return {"vj": srcgen.dumps(a["v"])}


def prog_to_json(p):
    return {"pkg": p["pkg"], "name": p["name"], "ctor": [arg_to_json(a) for a in p["ctor"]],
            "calls": [[o, [arg_to_json(a) for a in args]] for o, args in p["calls"]]}


def arg_from_json(a):
    if "b" in a:
        return {"b": prog_from_json(a["b"])}
    if "l" in a:
        return {"l": [arg_from_json(x) for x in a["l"]]}
    if "m" in a:
        return {"m": [(k, arg_from_json(x)) for k, x in a["m"]]}
    if a.get("nil"):
        return {"nil": True}
    return {"v": srcgen.loads(a["vj"])}


def prog_from_json(p):
    return {"pkg": p["pkg"], "name": p["name"], "ctor": [arg_from_json(a) for a in p["ctor"]],
            "calls": [(o, [arg_from_json(a) for a in args]) for o, args in p["calls"]]}


def nested_progs(a):
    """the builder programs that are DIRECT constituents of an argument (not those inside other programs)"""
    if "b" in a:
        return [a["b"]]
    if "l" in a:
        return [p for x in a["l"] for p in nested_progs(x)]
    if "m" in a:
        return [p for _, x in a["m"] for p in nested_progs(x)]
    return []


# ====================================================================== the property, on real output
_TS = re.compile(r"^(\d{4}-\d\d-\d\dT\d\d:\d\d:\d\d)(\.\d+)?(Z|[+-]\d\d:\d\d)$")


def _norm_str(s):
    m = _TS.match(s)
    if m:
        frac = (m.group(2) or "").rstrip("0")
        if frac == ".":
            frac = ""
        return m.group(1) + frac + m.group(3)
    return s


def plain(d, fields_of=None):
    """DUMP -> pointer-erased python value: None / bool / int / Decimal / str / list / dict (structs and maps)"""
    k = d["k"]
    if k == "nil":
        return None
    if k == "bool":
        return bool(d["v"])
    if k == "int":
        return int(d["v"])
    if k == "float":
        return Decimal(str(d["v"]))
    if k == "str":
        return d["v"]
    if k == "time":
        return _norm_str(d["v"])
    if k == "ptr":
        return plain(d["v"], fields_of)
    if k == "slice":
        return [plain(x, fields_of) for x in d["v"]]
    if k == "map":
        return {kk: plain(x, fields_of) for kk, x in d["v"]}
    if k == "struct":
        out = {n: plain(x, fields_of) for n, x in d["v"]}
        if fields_of is not None and d.get("cls") in fields_of:
            for n in fields_of[d["cls"]]:
                out.setdefault(n, None)
        return out
    if k == "any":
        return d["v"]
    return "<other>"


def _empty(x):
    """nil, an empty collection, or an object all of whose members are empty (`{}` on the wire)"""
    if isinstance(x, dict):
        return all(_empty(v) for v in x.values())
    return x is None or x == []


class Env:
    """an envelope value: only the given fields are specified"""

    def __init__(self, fields):
        self.fields = fields


def same(a, b):
    """equality of pointer-erased values: numbers by value, nil == empty collection, a missing member == None,
    RFC 3339 strings up to trailing zeros of the fraction"""
    if isinstance(a, Env) or isinstance(b, Env):
        e, o = (a, b) if isinstance(a, Env) else (b, a)
        if not isinstance(o, dict):
            return False
        return all(same(v, o.get(k)) for k, v in e.fields.items())
    if _empty(a) and _empty(b):
        return True
    if isinstance(a, bool) or isinstance(b, bool):
        return isinstance(a, bool) and isinstance(b, bool) and a == b
    if isinstance(a, (int, Decimal)) and isinstance(b, (int, Decimal)):
        return Decimal(a) == Decimal(b)
    if isinstance(a, str) and isinstance(b, str):
        return _norm_str(a) == _norm_str(b)
    if isinstance(a, list) and isinstance(b, list):
        return len(a) == len(b) and all(same(x, y) for x, y in zip(a, b))
    if isinstance(a, dict) and isinstance(b, dict):
        return all(same(a.get(k), b.get(k)) for k in set(a) | set(b))
    return False


class SpecSkip(Exception):
    pass


def arg_expected(a, sub_results):
    """the value an ARG denotes; sub_results: iterator over the driver results of its direct nested programs"""
    if "b" in a:
        r = next(sub_results)
        if r is None or (r.get("build") or {}).get("s") != "ok":
            raise SpecSkip("nested builder does not build")
        return ("dump", r["build"]["dump"])
    if "l" in a:
        return [arg_expected(x, sub_results) for x in a["l"]]
    if "m" in a:
        return {k: arg_expected(x, sub_results) for k, x in a["m"]}
    if a.get("nil"):
        return None
    return a["v"]


def _resolve_dumps(v, fields_of):
    if isinstance(v, tuple) and v and v[0] == "dump":
        return plain(v[1], fields_of)
    if isinstance(v, list):
        return [_resolve_dumps(x, fields_of) for x in v]
    if isinstance(v, dict):
        return {k: _resolve_dumps(x, fields_of) for k, x in v.items()}
    return v


def spec_apply(ir, before, opt, argvals, defaults):
    """the property's reading of one option call on the pointer-erased object `before`: every assignment writes
    its value at its path (append: adds it at the end; index: sets the entry), intermediate objects that do not
    exist yet are the default objects of their types, nothing else changes.
    argvals: {argument name: value}; defaults: {(pkg, name): plain default object}"""
    import copy
    obj = copy.deepcopy(before)

    def fresh(t):
        k = t["Kind"]
        if k == "array":
            return []
        if k == "map":
            return {}
        if k == "ref":
            rt = ir.resolve(t)
            if rt["Kind"] == "struct":
                key = (t["Ref"]["ReferredPkg"], t["Ref"]["ReferredType"])
                if key not in defaults:
                    raise SpecSkip("no default object")
                return copy.deepcopy(defaults[key])
            return fresh(rt)
        raise SpecSkip("intermediate object of kind " + k)

    def value_of(val, into):
        if val.get("Argument"):
            n = val["Argument"]["Name"]
            if n not in argvals:
                raise SpecSkip("unknown argument")
            return argvals[n]
        if val.get("Envelope"):
            fields = {}
            for ev in val["Envelope"]["Values"]:
                fields[ev["Path"][0]["Identifier"]] = value_of(ev["Value"], ev["Path"][-1]["Type"])
            return Env(fields)
        if val.get("Constant") is not None:
            return val["Constant"]
        raise SpecSkip("assignment without value")

    def key_of(ix):
        if ix.get("Argument"):
            return argvals[ix["Argument"]["Name"]]
        return ix["Constant"]

    for asg in opt.get("Assignments") or []:
        path = asg["Path"]
        v = value_of(asg["Value"], path[-1]["Type"])
        # walk to the container of the last item
        steps = []           # (container, key)
        cur = obj
        for i, it in enumerate(path):
            last = i == len(path) - 1
            if it.get("Identifier"):
                if not isinstance(cur, dict):
                    raise SpecSkip("path through a non-object")
                steps.append((cur, it["Identifier"]))
                if it.get("Index"):
                    m = cur.get(it["Identifier"])
                    if m is None:
                        m = {}
                        cur[it["Identifier"]] = m
                    steps.append((m, key_of(it["Index"])))
            elif it.get("Index"):
                c, k = steps[-1]
                m = c.get(k)
                if m is None:
                    m = {}
                    c[k] = m
                steps.append((m, key_of(it["Index"])))
            else:
                raise SpecSkip("empty path item")
            if not last:
                c, k = steps[-1]
                nxt = c.get(k)
                if nxt is None:
                    nxt = fresh(it["Type"])
                    c[k] = nxt
                cur = nxt
        c, k = steps[-1]
        if asg["Method"] == "append":
            c[k] = list(c.get(k) or []) + [v]
        else:
            c[k] = v
    return obj


def assigned_prefixes(opt):
    """dotted field paths (indexes dropped) the option assigns"""
    out = []
    for asg in opt.get("Assignments") or []:
        out.append(".".join(it["Identifier"] for it in asg["Path"] if it.get("Identifier")))
    return out


def path_under(err_path, prefix):
    """is the BuildError path (a.b[0].c) at or below the assigned field path (a.b)?"""
    bare = re.sub(r"\[[^\]]*\]", "", err_path)
    return bare == prefix or bare.startswith(prefix + ".") or prefix.startswith(bare + ".")


# ====================================================================== Coq evaluation
PREAMBLE = ("From Coq Require Import List String ZArith Bool.\nFrom Cog Require Import Model.IR Model.Json Model.Builders "
            "Model.GoSem Model.BuilderEval Model.PyBuilderEval %s.\nImport ListNotations.\nLocal Open Scope string_scope.\n"
            "Definition A0 := attrs0.\n")


def eval_cases(ctx, name, imports, env_defs, cases, case_type, defs, shard=40, timeout=1800):
    """cases: [(env key, gallina term)]; env_defs: {env key: Gallina definitions text}; like gencode.eval_cases"""
    shards = [list(range(i, min(i + shard, len(cases)))) for i in range(0, len(cases), shard)]

    def do(k):
        ids = shards[k]
        keys = []
        for i in ids:
            if cases[i][0] not in keys:
                keys.append(cases[i][0])
        pre = PREAMBLE % imports + "".join(env_defs[x] for x in keys)
        pre += "Definition cases : list (%s) :=\n[%s].\n" % (case_type, ";\n".join(cases[i][1] for i in ids))
        pre += ("Fixpoint indices_from {A} (f : A -> bool) (l : list A) (i : nat) : list nat :=\n"
                "  match l with [] => [] | x :: r => if f x then i :: indices_from f r (S i) else indices_from f r (S i) end.\n")
        r = core.coq_eval_lists(ctx, "%s_%d" % (name, k), pre,
                                [(ident, "indices_from (%s) cases 0" % fn) for ident, fn in defs], timeout=timeout)
        return {ident: [ids[x] for x in r[ident]] for ident, _ in defs}

    parts = core.parallel(do, list(range(len(shards))))
    out = {ident: [] for ident, _ in defs}
    for p in parts:
        for k, v in p.items():
            out[k] += v
    for k in out:
        out[k].sort()
    return out


def env_def(sid, lang, lang_out, defaults):
    """Gallina definitions env_<sid>_<lang> : benv.  defaults: [(pkg, name, gallina gval)]"""
    tag = "%s_%s" % (sid, lang)
    return ("Definition ctx_%s : schemas := %s.\nDefinition bld_%s : list builder := %s.\n"
            "Definition env_%s : benv := mkBEnv ctx_%s bld_%s %s.\n"
            % (tag, lang_out["schemas"], tag, lang_out["builders"], tag, tag, tag,
               gencode.g_list("(%s, %s, %s)" % (G(p), G(n), v) for p, n, v in defaults)))


# ====================================================================== targeted scenarios
def _F(n, t, req=False, null=False):
    return {"name": n, "t": t, "req": req, "null": null}


def _scalar_arg(name, kind):
    return {"name": name, "type": {"kind": "scalar", "nullable": False, "scalar": {"scalar_kind": kind}}}


def _arg_assignment(path, name, kind):
    return {"path": path, "method": "direct", "value": {"argument": _scalar_arg(name, kind)}}


def scenarios(rng, prefix="t"):
    """hand-shaped schemas + veneers for builder / converter shapes the random generator reaches rarely or never
    (randomised in names, depth, format).  Each: {"schema": Src, "fmt", "veneers", "docs": {def: [documents]},
    "shape": label}.

      nested-optional : options added with the `add_option` builder veneer that assign at several depths under nested
                        OPTIONAL structs, the deepest assignment not first (nil checks per assignment prefix)
      shared-constant : several options carrying the same constant side-assignment (add_assignment veneers)
      union-list      : a list of a union exposed as one appending option per branch (array_to_append +
                        disjunction_as_options); documents interleave the branches
    """
    out = []
    fmts = list(srcgen.FORMATS)
    k = [0]

    def pkg():
        k[0] += 1
        return "%s%03d" % (prefix, k[0])

    names = ["options", "legend", "style", "axis", "grid", "frame"]
    # ---- nested-optional
    for variant in range(3):
        rng.shuffle(names)
        o, l, st = names[0], names[1], names[2]
        req_mid = variant == 1 and rng.random() < 0.5
        Style = {"name": "Style", "t": {"k": "struct", "fields": [_F("color", {"k": "string"}), _F("width", {"k": "int", "w": "int64"})]}}
        Legend = {"name": "Legend", "t": {"k": "struct", "fields": sorted([
            _F("pos", {"k": "string"}), _F("show", {"k": "bool"}), _F(st, {"k": "ref", "name": "Style"})], key=lambda f: f["name"])}}
        Options = {"name": "Options", "t": {"k": "struct", "fields": sorted([
            _F("title", {"k": "string"}), _F("n", {"k": "int", "w": "int64"}),
            _F(l, {"k": "ref", "name": "Legend"}, req=req_mid, null=req_mid)], key=lambda f: f["name"])}}
        Root = {"name": "Root", "t": {"k": "struct", "fields": sorted([
            _F("name", {"k": "string"}), _F(o, {"k": "ref", "name": "Options"})], key=lambda f: f["name"])}}
        if variant == 0:
            asg = [_arg_assignment("%s.title" % o, "title", "string"), _arg_assignment("%s.%s.show" % (o, l), "show", "bool")]
            args = [_scalar_arg("title", "string"), _scalar_arg("show", "bool")]
        elif variant == 1:
            asg = [_arg_assignment("%s.%s.pos" % (o, l), "pos", "string"), _arg_assignment("%s.%s.%s.color" % (o, l, st), "color", "string")]
            args = [_scalar_arg("pos", "string"), _scalar_arg("color", "string")]
        else:
            asg = [_arg_assignment("%s.n" % o, "n", "int64"), _arg_assignment("%s.%s.show" % (o, l), "show", "bool"),
                   _arg_assignment("%s.%s.%s.width" % (o, l, st), "width", "int64")]
            args = [_scalar_arg("n", "int64"), _scalar_arg("show", "bool"), _scalar_arg("width", "int64")]
        ven = {"builders": [{"add_option": {"by_object": "Root", "option": {"name": "configure", "arguments": args, "assignments": asg}}}]}
        schema = {"pkg": pkg(), "root": "Root", "defs": sorted([Style, Legend, Options, Root], key=lambda d: d["name"])}
        out.append({"schema": schema, "fmt": fmts[variant % 3], "veneers": ven, "shape": "nested-optional", "docs": {}})
    # ---- shared-constant
    for variant in range(3):
        mode, a, b = rng.choice([("mode", "min", "max"), ("kind", "lo", "hi"), ("scale", "from", "to")])
        const = rng.choice(["custom", "manual", "fixed"])
        num = {"k": "float", "w": "float64"} if variant != 1 else {"k": "int", "w": "int64"}
        fields = [_F("title", {"k": "string"}, True), _F(mode, {"k": "string"}, True), _F(a, dict(num), True), _F(b, dict(num), True)]
        rules = [{"add_assignment": {"by_name": "Root.%s" % x, "assignment": {"path": mode, "method": "direct", "value": {"constant": const}}}}
                 for x in (a, b)]
        if variant == 2:
            fields.append(_F("flag", {"k": "bool"}, True))
            rules.append({"add_assignment": {"by_name": "Root.flag", "assignment": {"path": mode, "method": "direct", "value": {"constant": const}}}})
        schema = {"pkg": pkg(), "root": "Root", "defs": [{"name": "Root", "t": {"k": "struct", "fields": sorted(fields, key=lambda f: f["name"])}}]}
        one = 1 if variant == 1 else Decimal("2.5")
        base = {"title": "demo", mode: "auto", a: 0, b: 0}
        docs = [dict(base), dict(base, **{mode: const, a: one, b: 7}), dict(base, **{mode: const}), dict(base, **{mode: "other", "title": "x"})]
        if variant == 2:
            docs = [dict(d, flag=False) for d in docs] + [dict(base, **{mode: const, "flag": True})]
        out.append({"schema": schema, "fmt": fmts[(variant + 1) % 3], "veneers": {"options": rules}, "shape": "shared-constant",
                    "docs": {"Root": docs}})
    # ---- union-list
    for variant in range(3):
        f = rng.choice(["items", "values", "parts"])
        second = [{"k": "bool"}, {"k": "int", "w": "int64"}, {"k": "bool"}][variant]
        fields = [_F("title", {"k": "string"}, True), _F(f, {"k": "array", "of": {"k": "union", "of": [{"k": "string"}, second]}}, variant != 2)]
        schema = {"pkg": pkg(), "root": "Root", "defs": [{"name": "Root", "t": {"k": "struct", "fields": sorted(fields, key=lambda x: x["name"])}}]}
        y, z = (True, False) if second["k"] == "bool" else (3, -4)
        docs = [{"title": "t", f: ["a", y, "b"]}, {"title": "t", f: [y, "a", z, "b", "c"]}, {"title": "t", f: ["x"]}, {"title": "t", f: [y, z]},
                {"title": "t", f: []}]
        rules = [{"array_to_append": {"by_name": "Root.%s" % f}}, {"disjunction_as_options": {"by_name": "Root.%s" % f}}]
        out.append({"schema": schema, "fmt": fmts[(variant + 2) % 3], "veneers": {"options": rules}, "shape": "union-list",
                    "docs": {"Root": docs}})
    # ---- cross-package-constant: a required field referring to a CONSTANT object of another package (retype_field
    #      schema transformation on a two-input pipeline), without / with an unrelated local constant of that name
    for variant in range(2):
        main, other = pkg(), pkg() + "k"
        cname = rng.choice(["Kind", "Flavor"])
        cval = rng.choice(["timeseries", "gauge", "table"])
        fields = [_F("kind", {"k": "string"}, True), _F("title", {"k": "string"}, True), _F("n", {"k": "int", "w": "int64"})]
        defs = [{"name": "Root", "t": {"k": "struct", "fields": sorted(fields, key=lambda f: f["name"])}}]
        if variant == 1:
            defs.append({"name": cname, "t": {"k": "const", "v": "local-" + cval}})
            defs[0]["t"]["fields"].append(_F("own", {"k": "ref", "name": cname}, True))
            defs[0]["t"]["fields"].sort(key=lambda f: f["name"])
        schema = {"pkg": main, "root": "Root", "defs": sorted(defs, key=lambda d: d["name"])}
        xtext = json.dumps({"$schema": "http://json-schema.org/draft-07/schema#", "$ref": "#/definitions/" + cname,
                            "definitions": {cname: {"type": "string", "const": cval}}})
        passes = [{"retype_field": {"field": "%s.Root.kind" % main,
                                    "as": {"kind": "ref", "ref": {"referred_pkg": other, "referred_type": cname}}}}]
        out.append({"schema": schema, "fmt": ["jsonschema", "cue"][variant], "veneers": None, "shape": "cross-package-constant",
                    "docs": {}, "extra_inputs": [(other, "jsonschema", xtext)], "passes": passes,
                    "expect_constants": {"Root": {"kind": cval}}})
    # ---- deep-merge: merge_into under a path of 1..6 optional segments, leaf struct with fields of different types
    depths = [3, 5, rng.choice([1, 2, 4, 6])]
    for variant, depth in enumerate(depths):
        seg = ["fieldConfig", "defaults", "custom", "inner", "core", "leafs"][:depth]
        Leaf = {"name": "Leaf", "t": {"k": "struct", "fields": [_F("fill", {"k": "string"}), _F("lineWidth", {"k": "int", "w": "int64"}),
                                                            _F("points", {"k": "bool"}), _F("ratio", {"k": "float", "w": "float64"})]}}
        defs = [Leaf]
        prev = "Leaf"
        for i in range(depth - 1, 0, -1):
            name = "L%d" % i
            defs.append({"name": name, "t": {"k": "struct", "fields": sorted([_F(seg[i], {"k": "ref", "name": prev}), _F("tag%d" % i, {"k": "string"})],
                                                                           key=lambda f: f["name"])}})
            prev = name
        defs.append({"name": "Root", "t": {"k": "struct", "fields": sorted([_F(seg[0], {"k": "ref", "name": prev}), _F("title", {"k": "string"})],
                                                                         key=lambda f: f["name"])}})
        ven = {"builders": [{"merge_into": {"destination": "Root", "source": "Leaf", "under_path": ".".join(seg)}}]}
        schema = {"pkg": pkg(), "root": "Root", "defs": sorted(defs, key=lambda d: d["name"])}
        out.append({"schema": schema, "fmt": fmts[variant % 3], "veneers": ven, "shape": "deep-merge", "docs": {}})
    # ---- multi-builder: one object with several builders told apart by a constructor constant, one constructor
    #      argument each (duplicate + rename + initialize + promote_options_to_constructor + omit)
    for variant in range(2):
        tf, nf, qf = rng.choice([("type", "name", "query"), ("kind", "id", "expr")])
        a, b2 = ("query", "custom") if variant == 0 else ("interval", "constant")
        Var = {"name": "Variable", "t": {"k": "struct", "fields": sorted([_F(tf, {"k": "string"}, True), _F(nf, {"k": "string"}, True),
                                                                        _F(qf, {"k": "string"}, True)], key=lambda f: f["name"])}}
        Root = {"name": "Root", "t": {"k": "struct", "fields": sorted([_F("title", {"k": "string"}, True),
                                                                    _F("variables", {"k": "array", "of": {"k": "ref", "name": "Variable"}}, True)],
                                                                   key=lambda f: f["name"])}}
        schema = {"pkg": pkg(), "root": "Root", "defs": [Root, Var]}
        A, B = "First" + "Variable", "Second" + "Variable"
        ven = {"builders": [{"duplicate": {"by_object": "Variable", "as": B}},
                            {"rename": {"by_name": "Variable", "as": A}},
                            {"initialize": {"by_name": A, "set": [{"property": tf, "value": a}]}},
                            {"initialize": {"by_name": B, "set": [{"property": tf, "value": b2}]}},
                            {"promote_options_to_constructor": {"by_name": A, "options": [nf]}},
                            {"promote_options_to_constructor": {"by_name": B, "options": [nf]}}],
               "options": [{"omit": {"by_builder": "%s.%s" % (x, y)}} for x in (A, B) for y in (tf, nf)]}
        v = lambda t, n, q: {tf: t, nf: n, qf: q}
        docs = [{"title": "d", "variables": [v(a, "q1", "up"), v(b2, "c1", "a,b")]},
                {"title": "d", "variables": [v(b2, "c1", "x"), v(b2, "", "y"), v(a, "n", "z")]},
                {"title": "d", "variables": [v(b2, "only", "w")]},
                {"title": "d", "variables": []}]
        out.append({"schema": schema, "fmt": fmts[(variant + 1) % 3], "veneers": ven, "shape": "multi-builder",
                    "docs": {"Root": docs, "Variable": [v(a, "q1", "up"), v(b2, "c1", "a,b")]}})
    return out
