"""Shared infrastructure of the "generated-code" properties (C13, C08, C01; reusable for C10, C12,
C11, C09, C14, C02): from construct-grammar schemas to RUNNING the code cog generated for them.

Pipeline of one batch (everything lives in the check's scratch directory; nothing is written under
/repo or /tmp; /repo is only read, through `go build -overlay`):

    Src schema (gen/srcgen.py)  --render-->  schema text (JSON Schema | OpenAPI 3.0 | CUE) + pipeline YAML
        --harness `verifh_gen gen` (overlay-built from core.REPO; per schema: codegen.PipelineFromFile,
          Pipeline.LoadSchemas, Pipeline.ContextForLanguage, Pipeline.Run = exactly what `cog generate` does)-->
              * pre-chain and post-chain IR as Gallina terms of coq/Model/IR.v
              * the generated Go package  <module>/<gopkg>/types_gen.go  (+ <module>/cog/ runtime)
              * a JSON summary of the post-chain objects (Go identifiers, kinds, field names)
        --drivers/go/main.go + generated dispatch.go, `go build` offline, ONE build per batch--> driver binary
        --JSON job lines--> per document: decode / strict decode / re-encode / Validate / Equals outcomes

===================================================== API =====================================================
harness(ctx) -> path
    build (once per run) the overlay harness /verif/harness/verifh_gen (commands: `gen`, `validate`).

Batch(ctx, name, go_opts=None, package_root="verifgen", output_opts=None)
    go_opts      : dict of YAML options of the Go jenny (default GO_OPTS_DEFAULT: generate_json_marshaller,
                   generate_strict_unmarshaller, generate_equal, generate_validate all true); any key of
                   golang.Config with a yaml tag may be given (e.g. {"any_as_interface": True}).
    output_opts  : extra keys of the pipeline `output:` section (e.g. {"builders": True}).
    .add(schema, fmt, closed=False, text=None) -> sid
                   register a schema as package schema["pkg"] (its own Go package); rendered with
                   srcgen.render unless `text` is given (hand-written schemas, replays).  For CUE the file is
                   <in>/<pkg>/<pkg>.cue and must start with `package <pkg>`.
    .generate()    run cog on every registered schema (parallel harness processes; a schema that kills the
                   process is isolated).  .gen[sid] = GenResult(status "OK"|"ERR"|"PANIC"|"FATAL", stage
                   "load"|"parse"|"chain"|"generate"|"write", message, pre_ir, post_ir, files, objects) where
                   objects = [{pkg, gopkg, name, go, kind, union ("scalars"|"refs"|""), fields}].
    .build_driver(extra_files=None)
                   write go.mod (module <package_root>, go 1.21), cmd/driver/main.go (template) and dispatch.go
                   (a `switch` over "<gopkg>.<GoType>" of every struct object), `go build`.  Packages that do
                   not compile are dropped and recorded in .compile_errors[sid]; an unused std import (a real
                   cog defect) is removed from the generated file and recorded in .import_fixups[sid] so that
                   the package can still be driven.  extra_files: {relative path: content} added to the module
                   (e.g. a helper package a later check needs).
    .run(jobs)     jobs: [{"id", "sid", "type" (IR object name), "docs": [json text...], "ops": [...]}] ->
                   list of result dicts, None where the driver process died.  ops subset of
                   "std","strict","validate","equals" (default: these four) and "ctor" (json.Marshal of the
                   generated New<Type>(), only on request).  Result format: drivers/go/main.go.
                   The driver runs with TZ=UTC.
    .ok_sids(), .struct_objects(sid), .type_key(sid, objname), .schema_path(sid), .module_dir, .schemas

Campaign(ctx, name, go_opts=None, closed=False)      the skeleton shared by checks/c13.py, c08.py, c01.py
    .add_schema(schema, fmt) / .add_schema_text(pkg, fmt, text);  .prepare()  (= generate + build_driver)
    .add_job(sid, objname, pydocs, meta=None) -> index;  .run();  .live()
    .evaluate(name, imports, defs, shard=50, select=None) -> {ident: [job indices]}
                   writes sharded scratch .v files (contexts as `ctx_<sid>`, one `gcase` per job, see
                   coq/Model/GoSem.v) and evaluates the boolean Coq functions `defs` = [(ident, function)] by
                   vm_compute; select = {job index: [document indices]} restricts cases to some documents.
    .job_payload(i)  replayable description {fmt, pkg, schema_text, type, docs, meta};  Campaign.replay_jobs(path)

ref_validate(ctx, items, jsonschema_go=False) -> [verdict string | None]
    items: [{"fmt", "path", "type", "docs": [json text]}]; one character per document, "1" accepted / "0"
    rejected; None when the validator could not load the schema.  jsonschema -> python `jsonschema` Draft7
    with date-time format checking (run with python3-vt); openapi -> kin-openapi VisitJSON (format validation
    on); cue -> CUE Unify + Validate(Concrete) (both inside the harness, they are cog dependencies).

build_cli(ctx) / cli_generate(ctx, cli, config_path, cwd)    the real `cog generate` CLI built from core.REPO.

Gallina side: PREAMBLE, ctx_defs(batch, sids), eval_cases(...), coq_print(...) (diagnosis), g_list, g_opt,
obs_term(result_doc) -> `docobs`, gcase_term(sid, pkg, objname, pydocs, result) -> `gcase`,
GCASE_DEFS (the model-vs-implementation comparisons of coq/Model/GoSem.v: mm_std, mm_strict, mm_validate,
mm_equals, mm_wt, mm_spec).

How to add a check for another generated-code property: generate schemas with srcgen.SrcGen (restrict
`features` / pass `fmt`), register them in a Campaign (choose go_opts), add jobs, extend the driver template
with a new op if the property needs another observation (constructors, builders: add a handler to
drivers/go/main.go and a case generator to Batch._emit_dispatch), model the op in a new coq/Model/GoSem*.v as a
function of the post-chain context, add mm_* / pf_* predicates next to coq/Model/GoSemChecks.v.
Dev aids: tools/try_gen.py, tools/try_model.py, tools/try_check.py (run a check body, list every PROPFAIL by
signature), tools/try_min.py (hand-written schema + documents -> what the generated code does).

Conventions: JSON documents travel as exact text (srcgen.dumps / srcgen.loads; Decimal numbers, DupObj for
duplicate member names); Go type keys are "<gopkg>.<GoType>"; every random choice is made by the caller's
random.Random (ctx.rng).
"""
import json
import os
import re
import shutil
import subprocess

from gen import srcgen
from vlib import core

GO_OPTS_DEFAULT = {
    "generate_json_marshaller": True,
    "generate_strict_unmarshaller": True,
    "generate_equal": True,
    "generate_validate": True,
}

DRIVER_TEMPLATE = os.path.join(core.VERIF, "drivers", "go", "main.go")

_harness_cache = {}


def harness(ctx):
    key = id(ctx)
    if key not in _harness_cache:
        _harness_cache[key] = core.build_harness(ctx, "verifh_gen")
    return _harness_cache[key]


class GenResult:
    def __init__(self, status, stage="", message="", pre_ir="", post_ir="", files=(), objects=()):
        self.status = status
        self.stage = stage
        self.message = message
        self.pre_ir = pre_ir
        self.post_ir = post_ir
        self.files = list(files)
        self.objects = list(objects)

    def __repr__(self):
        return "GenResult(%s %s %s)" % (self.status, self.stage, self.message[:80])


def _run_lines(binp, command, lines, timeout=600, workers=None):
    """run harness `command` over job lines in parallel chunks; a chunk that kills the process is
    bisected; returns list aligned with `lines` (None = job kills the harness)."""
    n = len(lines)
    workers = workers or core.NCPU
    chunk = max(1, (n + workers - 1) // workers)
    return core.run_harness_robust(binp, command, lines, timeout=timeout, chunk=chunk)


class Batch:
    def __init__(self, ctx, name, go_opts=None, package_root="verifgen", output_opts=None):
        self.ctx = ctx
        self.name = name
        self.root = os.path.join(ctx.scratch, name)
        self.in_dir = os.path.join(self.root, "in")
        self.module_dir = os.path.join(self.root, "mod")
        shutil.rmtree(self.root, ignore_errors=True)
        os.makedirs(self.in_dir)
        os.makedirs(self.module_dir)
        self.package_root = package_root
        self.go_opts = dict(GO_OPTS_DEFAULT if go_opts is None else go_opts)
        self.output_opts = dict(output_opts or {})
        self.schemas = {}      # sid -> (schema, fmt, path)
        self.gen = {}          # sid -> GenResult
        self.compile_errors = {}
        self.import_fixups = {}   # sid -> [unused std imports removed so that the package compiles]
        self.driver = None
        self.types = {}        # type key -> kind ("struct" | "plain")

    # ------------------------------------------------------------ inputs
    def add(self, schema, fmt, closed=False, text=None):
        sid = schema["pkg"]
        assert sid not in self.schemas, sid
        d = os.path.join(self.in_dir, sid)
        os.makedirs(d)
        if text is None:
            text = srcgen.render(schema, fmt, closed=closed)
        if fmt == "cue":
            path = os.path.join(d, sid + ".cue")
            inp = "  - cue:\n      entrypoint: '%s'\n      package: %s\n" % (d, sid)
        elif fmt == "jsonschema":
            path = os.path.join(d, "schema.json")
            inp = "  - jsonschema:\n      path: '%s'\n      package: %s\n" % (path, sid)
        elif fmt == "openapi":
            path = os.path.join(d, "openapi.json")
            inp = "  - openapi:\n      path: '%s'\n      package: %s\n" % (path, sid)
        else:
            raise ValueError(fmt)
        with open(path, "w") as f:
            f.write(text)
        out = "output:\n  directory: '.'\n  types: true\n"
        for k, v in self.output_opts.items():
            out += "  %s: %s\n" % (k, json.dumps(v))
        out += "  languages:\n    - go:\n        package_root: '%s'\n" % self.package_root
        for k, v in self.go_opts.items():
            out += "        %s: %s\n" % (k, json.dumps(v))
        cfg = os.path.join(self.in_dir, sid + ".yaml")       # outside the CUE entrypoint directory
        with open(cfg, "w") as f:
            f.write("inputs:\n" + inp + out)
        self.schemas[sid] = (schema, fmt, path, cfg)
        return sid

    def schema_path(self, sid):
        return self.schemas[sid][2]

    # ------------------------------------------------------------ cog
    def generate(self):
        binp = harness(self.ctx)
        sids = list(self.schemas)
        lines = [json.dumps({"id": sid, "config": self.schemas[sid][3], "outdir": self.module_dir}) for sid in sids]
        outs = _run_lines(binp, "gen", lines)
        for sid, ln in zip(sids, outs):
            if ln is None:
                self.gen[sid] = GenResult("FATAL", "process", "harness process died (fatal error or timeout)")
                continue
            parts = ln.split("\t")
            if parts[1] == "OK" and len(parts) >= 6:
                self.gen[sid] = GenResult("OK", pre_ir=parts[2], post_ir=parts[3],
                                          files=[p for p in parts[4].split(";") if p],
                                          objects=json.loads(parts[5]) or [])
            else:
                self.gen[sid] = GenResult(parts[1], parts[2] if len(parts) > 2 else "",
                                          parts[3] if len(parts) > 3 else "")
        return self.gen

    def ok_sids(self):
        return [s for s in self.schemas if self.gen.get(s) and self.gen[s].status == "OK"
                and s not in self.compile_errors]

    def struct_objects(self, sid):
        return [o for o in self.gen[sid].objects if o["kind"] == "struct"]

    def type_key(self, sid, objname):
        for o in self.gen[sid].objects:
            if o["name"] == objname:
                return "%s.%s" % (o["gopkg"], o["go"])
        raise KeyError((sid, objname))

    # ------------------------------------------------------------ driver
    def _emit_dispatch(self, sids):
        imports, cases = [], []
        self.types = {}
        for sid in sids:
            objs = self.gen[sid].objects
            gopkgs = sorted({o["gopkg"] for o in objs})
            for gp in gopkgs:
                imports.append('\t%s "%s/%s"' % (gp, self.package_root, gp))
            for o in objs:
                key = "%s.%s" % (o["gopkg"], o["go"])
                if key in self.types:
                    continue
                if o["kind"] == "struct":
                    self.types[key] = "struct"
                    cases.append('\tcase "%s":\n\t\treturn handleStruct[%s, *%s](j, %s.New%s)' % (key, key, key, o["gopkg"], o["go"]))
                elif o["kind"] in ("enum", "map", "array", "ref") or (o["kind"] == "scalar"):
                    # constants (`const X = ...`) are not types: the driver cannot instantiate them
                    self.types[key] = "plain"
            # plain types are only dispatched when they are real Go types: decided by the caller via
            # extra `plain` list to keep the default driver compiling for constant objects
        body = "package main\n\nimport (\n" + "\n".join(sorted(set(imports))) + "\n)\n\n"
        body += "func dispatch(j job) result {\n\tswitch j.T {\n" + "\n".join(cases)
        body += "\n\t}\n\treturn result{ID: j.ID, Known: false}\n}\n"
        return body

    def build_driver(self, extra_files=None, max_rounds=8):
        """emit go.mod + cmd/driver, build; drop packages that do not compile (recorded)."""
        mod = self.module_dir
        with open(os.path.join(mod, "go.mod"), "w") as f:
            f.write("module %s\n\ngo 1.21\n" % self.package_root)
        ddir = os.path.join(mod, "cmd", "driver")
        os.makedirs(ddir, exist_ok=True)
        tmpl = open(DRIVER_TEMPLATE).read().replace("PACKAGE_ROOT", self.package_root)
        with open(os.path.join(ddir, "main.go"), "w") as f:
            f.write(tmpl)
        for rel, content in (extra_files or {}).items():
            p = os.path.join(mod, rel)
            os.makedirs(os.path.dirname(p), exist_ok=True)
            with open(p, "w") as f:
                f.write(content)
        binp = os.path.join(self.root, "driver")
        env = dict(core.GOENV, GOFLAGS="-mod=mod")
        for _ in range(max_rounds):
            sids = self.ok_sids()
            with open(os.path.join(ddir, "dispatch.go"), "w") as f:
                f.write(self._emit_dispatch(sids))
            if not sids:
                self.driver = None
                return None
            rc, out = core.sh(["go", "build", "-o", binp, "./cmd/driver"], cwd=mod, env=env, timeout=900)
            if rc == 0:
                self.driver = binp
                return binp
            # generated code that imports a standard package it does not use (cog emits the import
            # from the template whether or not the loop that needs it is printed; goimports runs with
            # FormatOnly): recorded as a defect, then repaired here so the package can still be driven
            fixed = False
            for m in re.finditer(r"^(?:\./)?([A-Za-z0-9_]+/[A-Za-z0-9_]+\.go):(\d+):\d+: (\"[a-z/]+\") imported and not used",
                                 out, re.M):
                fpath = os.path.join(mod, m.group(1))
                lines_ = open(fpath).read().split("\n")
                ln = int(m.group(2)) - 1
                if 0 <= ln < len(lines_) and m.group(3) in lines_[ln]:
                    gp = m.group(1).split("/")[0]
                    for sid in sids:
                        if any(o["gopkg"] == gp for o in self.gen[sid].objects):
                            self.import_fixups.setdefault(sid, []).append(m.group(3).strip('"'))
                    lines_[ln] = ""
                    with open(fpath, "w") as f:
                        f.write("\n".join(lines_))
                    fixed = True
            if fixed:
                continue
            bad = set()
            by_gopkg = {}
            for sid in sids:
                for o in self.gen[sid].objects:
                    by_gopkg[o["gopkg"]] = sid
            for m in re.finditer(r"^(?:\./)?([A-Za-z0-9_]+)/[A-Za-z0-9_]+\.go:\d+", out, re.M):
                if m.group(1) in by_gopkg:
                    bad.add(by_gopkg[m.group(1)])
            for m in re.finditer(r"^# %s/([A-Za-z0-9_]+)" % re.escape(self.package_root), out, re.M):
                if m.group(1) in by_gopkg:
                    bad.add(by_gopkg[m.group(1)])
            if not bad:
                raise RuntimeError("driver build failed and no generated package is to blame:\n" + out[-3000:])
            for sid in bad:
                gp = [o["gopkg"] for o in self.gen[sid].objects][0]
                errs = [ln for ln in out.split("\n") if ln.startswith(gp + "/") or ln.startswith("./" + gp + "/")]
                self.compile_errors[sid] = "\n".join(errs[:12]) or out[-800:]
        raise RuntimeError("driver build did not converge")

    def run(self, jobs, timeout=600):
        """jobs: dict(id, sid, type, docs, ops?) -> list of result dicts / None"""
        if not self.driver:
            return [None] * len(jobs)
        lines = []
        for j in jobs:
            lines.append(json.dumps({"id": j["id"], "t": self.type_key(j["sid"], j["type"]), "docs": j["docs"],
                                     "ops": j.get("ops", [])}))
        n = len(lines)
        chunk = max(1, (n + core.NCPU - 1) // core.NCPU)
        outs = [None] * n

        def run_range(lo, hi, tmo):
            try:
                p = subprocess.run([self.driver], input="\n".join(lines[lo:hi]) + "\n", stdout=subprocess.PIPE,
                                   stderr=subprocess.PIPE, text=True, timeout=tmo, env=dict(os.environ, TZ="UTC"))
            except subprocess.TimeoutExpired:
                return False
            got = [x for x in p.stdout.split("\n") if x]
            if p.returncode == 0 and len(got) == hi - lo:
                outs[lo:hi] = got
                return True
            return False

        def solve(lo, hi, tmo):
            if run_range(lo, hi, tmo):
                return
            if hi - lo == 1:
                return
            mid = (lo + hi) // 2
            solve(lo, mid, max(20, tmo // 2))
            solve(mid, hi, max(20, tmo // 2))

        core.parallel(lambda r: solve(r[0], r[1], timeout), [(i, min(i + chunk, n)) for i in range(0, n, chunk)])
        res = []
        for o in outs:
            if o is None:
                res.append(None)
            else:
                res.append(json.loads(o, parse_float=srcgen.Decimal, object_pairs_hook=srcgen._pairs_hook))
        return res


# ---------------------------------------------------------------------- reference validators
_PY_VALIDATOR = r'''
import json, sys
from decimal import Decimal
import jsonschema
fc = jsonschema.FormatChecker()
import re
_dt = re.compile(r"^\d{4}-(0[1-9]|1[0-2])-(0[1-9]|[12]\d|3[01])[Tt]([01]\d|2[0-3]):[0-5]\d:([0-5]\d|60)(\.\d+)?([Zz]|[+-]([01]\d|2[0-3]):[0-5]\d)$")
@fc.checks("date-time")
def _is_dt(v):
    return not isinstance(v, str) or bool(_dt.match(v))
for line in sys.stdin:
    job = json.loads(line)
    try:
        schema = json.load(open(job["path"]))
        if job.get("type"):
            schema = dict(schema); schema["$ref"] = "#/definitions/" + job["type"]
        jsonschema.Draft7Validator.check_schema(schema)
        v = jsonschema.Draft7Validator(schema, format_checker=fc)
    except Exception as e:
        print("ERR " + repr(e)[:200].replace("\n", " ")); continue
    out = []
    for d in job["docs"]:
        try:
            doc = json.loads(d)      # binary floats: in Draft 7 a number with a zero fraction IS an integer
            out.append("1" if v.is_valid(doc) else "0")
        except Exception:
            out.append("0")
    print("OK " + "".join(out))
'''


def ref_validate(ctx, items, jsonschema_go=False):
    """items: list of dict(fmt, path, type, docs).  Returns a list of verdict strings (one char per
    document) or None where the schema could not be loaded by the validator."""
    res = [None] * len(items)
    js = [i for i, it in enumerate(items) if it["fmt"] == "jsonschema"]
    other = [i for i, it in enumerate(items) if it["fmt"] != "jsonschema" or jsonschema_go]
    if js:
        script = os.path.join(ctx.scratch, "_py_validator.py")
        with open(script, "w") as f:
            f.write(_PY_VALIDATOR)
        chunk = max(1, (len(js) + core.NCPU - 1) // core.NCPU)

        def run_py(rng):
            lines = [json.dumps({"path": items[i]["path"], "type": items[i].get("type"), "docs": items[i]["docs"]})
                     for i in rng]
            p = subprocess.run(["python3-vt", script], input="\n".join(lines) + "\n", stdout=subprocess.PIPE,
                               stderr=subprocess.PIPE, text=True, timeout=900)
            got = [x for x in p.stdout.split("\n") if x.startswith(("OK ", "ERR "))]
            if len(got) != len(rng):
                raise RuntimeError("python jsonschema validator failed: " + p.stderr[-1500:])
            for i, g in zip(rng, got):
                res[i] = g[3:] if g.startswith("OK ") else None

        core.parallel(run_py, [js[i:i + chunk] for i in range(0, len(js), chunk)])
    if other:
        binp = harness(ctx)
        lines = [json.dumps({"id": str(i), "format": items[i]["fmt"], "path": items[i]["path"],
                             "type": items[i]["type"], "docs": items[i]["docs"]}) for i in other]
        outs = _run_lines(binp, "validate", lines)
        for i, ln in zip(other, outs):
            v = None
            if ln is not None:
                parts = ln.split("\t")
                if parts[1] == "OK":
                    v = parts[2] if len(parts) > 2 else ""
            if items[i]["fmt"] == "jsonschema":
                items[i]["go_verdicts"] = v
            else:
                res[i] = v
    return res


# ---------------------------------------------------------------------- the real CLI
def build_cli(ctx):
    binp = os.path.join(ctx.scratch, "cog")
    rc, out = core.sh(["go", "build", "-o", binp, "./cmd/cli"], cwd=core.REPO, env=core.GOENV, timeout=900)
    if rc != 0:
        raise core.HarnessBuildError(out)
    return binp


def cli_generate(ctx, cli, config_path, cwd):
    """`cog generate --config <file>` with cwd (relative output.directory resolves against it)."""
    return core.sh([cli, "generate", "--config", config_path], cwd=cwd, env=core.GOENV, timeout=600)


def cli_crosscheck(ctx, batch, sids):
    """run the real `cog generate` CLI (built from core.REPO) on the pipeline files of `sids` and compare the
    files it writes with what the in-process harness produced for the same pipelines.
    Returns {"checked": n, "identical": n, "differences": [{sid, file, kind}]}."""
    cli = build_cli(ctx)
    out = {"checked": 0, "identical": 0, "differences": []}

    def one(sid):
        cfg = batch.schemas[sid][3]
        cwd = os.path.join(batch.root, "cli_" + sid)
        os.makedirs(cwd, exist_ok=True)
        rc, log = cli_generate(ctx, cli, cfg, cwd)
        diffs = []
        ok = batch.gen[sid].status == "OK"
        if (rc == 0) != ok:
            diffs.append({"sid": sid, "file": "", "kind": "cli rc=%d but harness status=%s" % (rc, batch.gen[sid].status)})
        if rc == 0 and ok:
            for rel in batch.gen[sid].files:
                a = os.path.join(cwd, rel)
                b = os.path.join(batch.module_dir, rel)
                if not os.path.exists(a):
                    diffs.append({"sid": sid, "file": rel, "kind": "missing from the CLI output"})
                elif rel.startswith("cog/") or sid in batch.import_fixups:
                    continue            # shared runtime file / file repaired by build_driver
                elif open(a, "rb").read() != open(b, "rb").read():
                    diffs.append({"sid": sid, "file": rel, "kind": "content differs"})
        return diffs

    for d in core.parallel(one, list(sids)):
        out["checked"] += 1
        if d:
            out["differences"] += d
        else:
            out["identical"] += 1
    return out


# ---------------------------------------------------------------------- Coq evaluation of cases
PREAMBLE = ("From Cog Require Import %s.\nImport ListNotations.\nLocal Open Scope string_scope.\n"
            "Definition A0 := attrs0.\n")


def ctx_defs(batch, sids):
    return "".join("Definition ctx_%s : schemas := %s.\n" % (sid, batch.gen[sid].post_ir) for sid in sids)


def eval_cases(ctx, name, imports, batch, cases, case_type, defs, shard=60, timeout=1800):
    """cases: list of (sid, gallina term of type `case_type` that may mention ctx_<sid>).
    defs: list of (ident, coq function case_type -> bool).  Returns {ident: [case indices]} where the
    function returned true.  One coqc per shard, shards in parallel; each shard file defines only the
    contexts it uses."""
    shards = [list(range(i, min(i + shard, len(cases)))) for i in range(0, len(cases), shard)]

    def do(k):
        ids = shards[k]
        sids = []
        for i in ids:
            if cases[i][0] not in sids:
                sids.append(cases[i][0])
        pre = PREAMBLE % imports + ctx_defs(batch, sids)
        pre += "Definition cases : list (%s) :=\n[%s].\n" % (case_type, ";\n".join(cases[i][1] for i in ids))
        pre += ("Fixpoint indices_from {A} (f : A -> bool) (l : list A) (i : nat) : list nat :=\n"
                "  match l with [] => [] | x :: r => if f x then i :: indices_from f r (S i) else indices_from f r (S i) end.\n")
        r = core.coq_eval_lists(ctx, "%s_%d" % (name, k), pre,
                                [(ident, "indices_from (%s) cases 0" % fn) for ident, fn in defs], timeout=timeout)
        return {ident: [ids[x] for x in r[ident]] for ident, _ in defs}

    parts = core.parallel(do, list(range(len(shards))))
    out = {ident: [] for ident, _ in defs}
    for p in parts:
        for k, v in p.items():
            out[k] += v
    for k in out:
        out[k].sort()
    return out


def g_list(xs):
    return "[" + "; ".join(xs) + "]"


def g_opt(x):
    return "None" if x is None else "(Some %s)" % x


def obs_term(x):
    """one element of a driver result's "res" list -> Gallina `docobs` (coq/Model/GoSem.v)"""
    enc = g_opt(srcgen.doc_to_gallina(x["enc"])) if x.get("std") == "ok" and x.get("encs") == "ok" else "None"
    senc = g_opt(srcgen.doc_to_gallina(x["senc"])) if x.get("strict") == "ok" and x.get("sencs") == "ok" else "None"
    if x.get("vals") == "ok":
        val = "(Some [])"
    elif x.get("vals") == "err":
        val = "(Some %s)" % g_list(srcgen.g_str(p) for p in (x.get("val") or []))
    elif x.get("vals") == "panic":
        val = '(Some ["<panic>"])'
    else:
        val = "None"
    return "(mkObs %s %s %s %s %s)" % (srcgen.g_str(x.get("std") or ""), enc, val, srcgen.g_str(x.get("strict") or ""), senc)


def gcase_term(sid, pkg, objname, pydocs, result):
    """Gallina `gcase` (coq/Model/GoSem.v): the context ctx_<sid>, the object, the documents and
    everything the driver observed (result = one dict returned by Batch.run)."""
    mat = g_list(g_list({"t": "(Some true)", "f": "(Some false)"}.get(c, "None") for c in row)
                 for row in (result.get("eq") or []))
    return "(ctx_%s, %s, %s, %s, %s, %s)" % (
        sid, srcgen.g_str(pkg), srcgen.g_str(objname), g_list(srcgen.doc_to_gallina(d) for d in pydocs),
        g_list(obs_term(x) for x in result["res"]), mat)


GCASE_DEFS = [("UNM", "case_unmodelled"), ("STD", "mm_std"), ("STRICT", "mm_strict"), ("VAL", "mm_validate"),
              ("EQ", "mm_equals"), ("WT", "mm_wt"), ("SPEC", "mm_spec")]


class Campaign:
    """One batch of schemas + driver jobs + their evaluation in Coq: the common skeleton of the
    generated-code checks.

        camp = Campaign(ctx, "b0")
        sid = camp.add_schema(schema, fmt)                 # or add_schema_text(pkg, fmt, text) for replays
        camp.prepare()                                     # cog + driver build
        camp.add_job(sid, "Root", pydocs, meta={...})      # only for sids in camp.batch.ok_sids()
        camp.run()                                         # driver; fills camp.results
        ev = camp.evaluate("cases_C13", "Model.GoSemChecks", [("MM_STD", "mm_std"), ...])
        camp.job_payload(i)                                # replayable description of job i
    """

    def __init__(self, ctx, name, go_opts=None, closed=False):
        self.ctx = ctx
        self.batch = Batch(ctx, name, go_opts=go_opts)
        self.closed = closed
        self.jobs = []
        self.results = []
        self.texts = {}

    def add_schema(self, schema, fmt):
        text = srcgen.render(schema, fmt, closed=self.closed)
        self.texts[schema["pkg"]] = text
        return self.batch.add(schema, fmt, text=text)

    def add_schema_text(self, pkg, fmt, text):
        self.texts[pkg] = text
        return self.batch.add({"pkg": pkg, "root": "Root", "defs": [], "fmt": fmt}, fmt, text=text)

    def prepare(self):
        self.batch.generate()
        self.batch.build_driver()
        return self.batch

    def add_job(self, sid, objname, pydocs, meta=None):
        self.jobs.append({"id": "j%d" % len(self.jobs), "sid": sid, "type": objname, "pydocs": list(pydocs),
                          "docs": [srcgen.dumps(d) for d in pydocs], "meta": meta or {}})
        return len(self.jobs) - 1

    def run(self):
        self.results = self.batch.run(self.jobs)
        return self.results

    def live(self):
        """indices of jobs whose driver process survived"""
        return [i for i, r in enumerate(self.results) if r is not None and r.get("known")]

    def evaluate(self, name, imports, defs, shard=50, select=None):
        """select: optional {job index: [document indices]} restricting each case to some of its documents
        (e.g. those the reference validator accepted); jobs absent from it are skipped.  The Equals matrix is
        dropped for restricted cases."""
        idx = self.live()
        if select is not None:
            idx = [i for i in idx if select.get(i)]
        cases = []
        for i in idx:
            j, r = self.jobs[i], self.results[i]
            pydocs = j["pydocs"]
            if select is not None:
                keep = select[i]
                pydocs = [pydocs[d] for d in keep]
                r = {"res": [r["res"][d] for d in keep], "eq": []}
            cases.append((j["sid"], gcase_term(j["sid"], j["sid"], j["type"], pydocs, r)))
        ev = eval_cases(self.ctx, name, imports, self.batch, cases, "gcase", defs, shard=shard)
        return {k: [idx[x] for x in v] for k, v in ev.items()}

    def job_payload(self, i):
        j = self.jobs[i]
        sid = j["sid"]
        return {"fmt": self.batch.schemas[sid][1], "pkg": sid, "schema_text": self.texts[sid], "type": j["type"],
                "docs": j["docs"], "meta": j["meta"]}

    @staticmethod
    def replay_jobs(path):
        rp = json.load(open(path))
        job = rp.get("job") or rp["first_mismatch"]["job"]
        return [job]


def coq_print(ctx, name, imports, batch, sids, body, timeout=600):
    """development/diagnosis aid: compile a scratch file with the given contexts + body (Eval/Print
    commands) and return coqc's output."""
    path = os.path.join(ctx.scratch, name + ".v")
    with open(path, "w") as f:
        f.write(PREAMBLE % imports + ctx_defs(batch, sids) + body)
    rc, out = core.coqc_file(path, timeout=timeout)
    return rc, out
