"""Shared plumbing of C03 / C07: the `sites` translator (built inside /repo's module through an
overlay so that golang.org/x/tools/go/packages from cog's own module cache is usable offline), the
two builds of the pipeline harness (plain = /repo's sources untouched; forced = every map range in
reachable code iterating in a harness-dictated order, build-time overlay only), case
materialisation and job running. /repo is never written."""
import json
import os
import subprocess

from vlib import core

SITES_PKG = "verifsites"
HARNESS = "verifh_pipe"


def _build(ctx, overlay, out, pkg, tags=None):
    ov = os.path.join(ctx.scratch, "overlay_%s.json" % os.path.basename(out))
    with open(ov, "w") as f:
        json.dump({"Replace": overlay}, f)
    cmd = ["go", "build", "-overlay", ov, "-o", out]
    if tags:
        cmd += ["-tags", tags]
    cmd.append(pkg)
    rc, log = core.sh(cmd, cwd=core.REPO, env=core.GOENV, timeout=1200)
    if rc != 0:
        raise core.HarnessBuildError(log)
    return out


def build_sites_tool(ctx):
    src = os.path.join(core.VERIF, "tools", "sites", "main.go")
    return _build(ctx, {os.path.join(core.REPO, "cmd", SITES_PKG, "main.go"): src},
                  os.path.join(ctx.scratch, SITES_PKG), "./cmd/" + SITES_PKG)


def run_sites(ctx, rewrite_dir=None):
    """-> dict(sites=[...], rewritten={repo file: rewritten copy}, helpers=[...], files_scanned, packages)"""
    binp = getattr(ctx, "_sites_bin", None) or build_sites_tool(ctx)
    ctx._sites_bin = binp
    cmd = [binp, core.REPO]
    if rewrite_dir:
        os.makedirs(rewrite_dir, exist_ok=True)
        cmd += ["-rewrite", rewrite_dir]
    p = subprocess.run(cmd, stdout=subprocess.PIPE, stderr=subprocess.PIPE, text=True, env=core.GOENV, cwd=core.REPO,
                       timeout=900)
    if p.returncode != 0:
        raise RuntimeError("sites translator failed: " + p.stderr[-3000:])
    return json.loads(p.stdout)


def site_id(s):
    return "%s:%s:%s#%d" % (s["file"], s["func"], s["operand"], s["ordinal"])


def harness_overlay():
    src = os.path.join(core.VERIF, "harness", HARNESS)
    ov = {}
    for f in sorted(os.listdir(src)):
        if f.endswith(".go"):
            ov[os.path.join(core.REPO, "cmd", HARNESS, f)] = os.path.join(src, f)
    return ov


def build_plain(ctx):
    return _build(ctx, harness_overlay(), os.path.join(ctx.scratch, HARNESS), "./cmd/" + HARNESS)


def build_forced(ctx, rewritten):
    ov = harness_overlay()
    ov[os.path.join(core.REPO, "internal", "verifhorder", "order.go")] = os.path.join(core.VERIF, "harness", HARNESS, "order", "order.go")
    ov.update(rewritten)
    return _build(ctx, ov, os.path.join(ctx.scratch, HARNESS + "_forced"), "./cmd/" + HARNESS, tags="veriforder")


def write_case(root, case):
    """case: dict(files={relative path: text}, config=relative path). Returns the absolute config path."""
    for rel, text in case["files"].items():
        p = os.path.join(root, rel)
        os.makedirs(os.path.dirname(p), exist_ok=True)
        with open(p, "w") as f:
            f.write(text)
    return os.path.join(root, case["config"])


def run_jobs(binp, command, jobs, workers=None, timeout=900):
    """One harness process per shard. A job that hangs is answered {"status": "Timeout"} by the
    harness watchdog and the jobs after it {"status": "Skipped"}: those are re-submitted to fresh
    processes. A job that kills its process yields None."""
    n = workers or core.NCPU
    out = [None] * len(jobs)
    todo = list(range(len(jobs)))
    for _ in range(12):
        if not todo:
            break
        lines = [json.dumps(jobs[i]) for i in todo]
        chunk = max(1, (len(lines) + n - 1) // n)
        res = core.run_harness_robust(binp, command, lines, timeout=timeout, chunk=chunk)
        again = []
        for i, x in zip(todo, res):
            v = json.loads(x) if x is not None else None
            if isinstance(v, dict) and v.get("skipped"):
                again.append(i)
            else:
                out[i] = v
        todo = again
    return out


TIMEOUT_VARIANT = {"status": "Timeout", "files": {}, "ir": {}, "files_sha": "timeout", "pkg_order": [], "count": 1}


def variants_of(r):
    """the list of distinct observables of a `run` result; a hung or crashed job is one pseudo-variant"""
    if r is None:
        return [dict(TIMEOUT_VARIANT, status="Crash")]
    if r.get("timeout"):
        return [dict(TIMEOUT_VARIANT)]
    return r["variants"]
