(* C09 — round-3 additions for coq/Props/C09.v (extra import: Proofs.BuilderEvalProofs3).
   Compiles stand-alone: coqc -Q coq Cog scratch_props_additions_C09_round3.v *)
From Coq Require Import List String ZArith Bool.
From Cog Require Import Model.IR Model.Json Model.Builders Model.BuildersEq Model.Spec16 Model.GoSem
  Model.BuilderEval Model.PyBuilderEval Model.BuilderSpec Proofs.BuilderEvalProofs Proofs.BuilderEvalProofs2
  Proofs.BuilderEvalProofs3.
Import ListNotations.
Local Open Scope string_scope.

(* ---- Python: nested builders ---- *)

(* Python build() cannot fail: the option sets exactly its field to the object the nested builder built *)
Theorem nested_builder_success_python : forall e f o fs old a p nm w,
  struct_field_to_option f = Ok o -> f_name f <> "" -> f_type f = TRef a p nm ->
  gmap_find fs (f_name f) = Some old ->
  exists fs', py_option e o (GStruct fs) [AVal w] = GOk (GStruct fs') /\
              gmap_find fs' (f_name f) = Some w /\
              (forall g, g <> f_name f -> gmap_find fs' g = gmap_find fs g) /\
              map fst fs' = map fst fs.
Proof. exact py_nested_builder_success_proof. Qed.
Print Assumptions nested_builder_success_python.

(* a nested builder "fails" in Python when one of ITS option calls raises: the whole argument expression raises ... *)
Theorem nested_builder_raises_python : forall k e p n ctor on args rest b cargs o0 o avs,
  locate_builder (be_builders e) p n = Some b ->
  List.length ctor = List.length (ct_args (b_ctor b)) ->
  omapM (py_arg k e) ctor = GOk cargs -> py_new_builder e b cargs = GOk o0 ->
  option_by_name b on = Some o -> omapM (py_arg k e) args = GOk avs ->
  py_option e o o0 avs = GPanic ->
  py_arg (S k) e (BBuild p n ctor ((on, args) :: rest)) = GPanic.
Proof. exact py_nested_builder_raises_proof. Qed.
Print Assumptions nested_builder_raises_python.

(* ... and is reported by the option call it is an argument of: that call (number k) raises, the trace stops
   before it and the object under construction is not touched *)
Theorem failing_nested_builder_reported_python : forall fuel e b obj on args rest k o,
  option_by_name b on = Some o ->
  omapM (py_arg fuel e) args = GPanic ->
  py_run fuel e b obj ((on, args) :: rest) k = GOk ([], Some k).
Proof. exact py_call_with_raising_argument_proof. Qed.
Print Assumptions failing_nested_builder_reported_python.

(* ---- Python: call sequences (counterpart of option_sequences) ---- *)
Theorem option_sequences_python : forall e b calls obj objn,
  derived_builder b -> is_struct_val obj = true ->
  py_calls e b obj calls = GOk objn ->
  forall f o, In o (b_options b) -> struct_field_to_option f = Ok o -> f_name f <> "" ->
    match last_call (f_name f) calls with
    | None => obj_field objn (f_name f) = obj_field obj (f_name f)
    | Some [AVal v] => obj_field objn (f_name f) = Some v
    | Some _ => True
    end.
Proof. exact py_sequence_last_write_proof. Qed.
Print Assumptions option_sequences_python.

(* ---- Go: invalid_reported for veneered options: a violated constraint of an APPENDED element
   (array_to_append) is reported by Build() at `field[index]` ... ---- *)
Theorem invalid_reported_append : forall e env b ob a dh fs f at_ ea k cs c arg v st fvs l cs0 old,
  locate_object (be_ctx e) (builder_for_pkg b) (builder_for_name b) = Some ob ->
  o_type ob = TStruct a dh fs -> nullable a = false ->
  In f fs -> NoDup (map f_name fs) -> f_name f <> "" ->
  f_type f = TArray at_ (TScalar ea k DNil cs) ->
  is_any (TScalar ea k DNil cs) = false -> nullable ea = false ->
  bs_obj st = GStruct fvs -> map fst fvs = map f_name fs ->
  gmap_find fvs (f_name f) = Some old -> (old = GNil /\ l = [] \/ old = GSlice l) ->
  arg_value e env arg = GOk (Some v) ->
  In c cs -> constraint_holds c v = Some false ->
  exists st',
    go_assignment e env st (mkAssignment [mkPathItem (f_name f) None (f_type f) None false]
                                         (AValue (Some arg) DNil None) "append" cs0 []) = GOk (st', true) /\
    exists ps, go_build e b st' = BRErr ps /\ In (f_name f ++ "[" ++ itoa (List.length l) ++ "]") ps.
Proof. exact go_append_violation_reported_proof. Qed.
Print Assumptions invalid_reported_append.

(* ... and of an element stored under a key (map_to_index) at `field[key]` *)
Theorem invalid_reported_index : forall e env b ob a dh fs f at_ kt ea k cs c karg key arg v st fvs kvs cs0 old,
  locate_object (be_ctx e) (builder_for_pkg b) (builder_for_name b) = Some ob ->
  o_type ob = TStruct a dh fs -> nullable a = false ->
  In f fs -> NoDup (map f_name fs) -> f_name f <> "" ->
  f_type f = TMap at_ kt (TScalar ea k DNil cs) ->
  is_any (TScalar ea k DNil cs) = false -> nullable ea = false ->
  bs_obj st = GStruct fvs -> map fst fvs = map f_name fs ->
  gmap_find fvs (f_name f) = Some old -> (old = GNil /\ kvs = [] \/ old = GMap kvs) ->
  env_find env (a_name karg) = Some (AVal (GStr key)) ->
  arg_value e env arg = GOk (Some v) ->
  In c cs -> constraint_holds c v = Some false ->
  exists st',
    go_assignment e env st
      (mkAssignment [mkPathItem (f_name f) None (f_type f) None false;
                     mkPathItem "" (Some (mkPathIndex (Some karg) DNil)) (TScalar ea k DNil cs) None false]
                    (AValue (Some arg) DNil None) "index" cs0
                    [mkNilCheck [mkPathItem (f_name f) None (f_type f) None false] (f_type f)]) = GOk (st', true) /\
    exists ps, go_build e b st' = BRErr ps /\ In (f_name f ++ "[" ++ key ++ "]") ps.
Proof. exact go_index_violation_reported_proof. Qed.
Print Assumptions invalid_reported_index.
