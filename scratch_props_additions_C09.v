(* C09 — additions for coq/Props/C09.v (needs the extra import Proofs.BuilderEvalProofs2).
   Compiles stand-alone: coqc -Q coq Cog scratch_props_additions_C09.v *)
From Coq Require Import List String ZArith Bool.
From Cog Require Import Model.IR Model.Json Model.Builders Model.BuildersEq Model.Spec16 Model.GoSem
  Model.BuilderEval Model.PyBuilderEval Model.BuilderSpec Proofs.BuilderEvalProofs Proofs.BuilderEvalProofs2.
Import ListNotations.
Local Open Scope string_scope.

(* ---- options that take a nested builder (the positive half of C09-go-nested-builder-error-dropped) ---- *)

(* what a nested builder expression evaluates to: the object its Build() returns, or AErr when Build() fails *)
Theorem nested_program_value : forall f' e t p n ctor calls b cargs st0 st,
  locate_builder (be_builders e) p n = Some b ->
  List.length ctor = List.length (ct_args (b_ctor b)) ->
  omapM (fun ta => go_arg f' e (a_type (fst ta)) (snd ta)) (combine (ct_args (b_ctor b)) ctor) = GOk cargs ->
  go_new_builder e b cargs = GOk st0 ->
  go_run f' e b st0 calls = GOk st ->
  go_arg (S f') e t (BBuild p n ctor calls) =
    GOk (match go_build e b (last_state (st0 :: st)) with BROk v => AVal v | BRErr _ => AErr end).
Proof. exact go_arg_of_nested_program_proof. Qed.
Print Assumptions nested_program_value.

(* the nested Build() succeeded with w: the option sets exactly its field to w (behind a pointer when the field
   is nullable), builder.errors is unchanged *)
Theorem nested_builder_success : forall e f o st fs old a p nm w,
  struct_field_to_option f = Ok o -> f_name f <> "" ->
  f_type f = TRef a p nm -> type_has_builder e (f_type f) = true ->
  bs_obj st = GStruct fs -> gmap_find fs (f_name f) = Some old ->
  exists fs', go_option e o st [AVal w] = GOk (mkBState (GStruct fs') (bs_errors st)) /\
              gmap_find fs' (f_name f) = Some (maybe_ptr (f_type f) w) /\
              (forall g, g <> f_name f -> gmap_find fs' g = gmap_find fs g) /\
              map fst fs' = map fst fs.
Proof. exact go_nested_builder_success_proof. Qed.
Print Assumptions nested_builder_success.

(* the nested Build() failed: the object is left as it was, the field's path is recorded in builder.errors,
   and Build() answers what it would have answered without the call *)
Theorem nested_builder_failure : forall e b f o st a p nm,
  struct_field_to_option f = Ok o ->
  f_type f = TRef a p nm -> type_has_builder e (f_type f) = true ->
  go_option e o st [AErr] = GOk (mkBState (bs_obj st) (bs_errors st ++ [f_name f])) /\
  go_build e b (mkBState (bs_obj st) (bs_errors st ++ [f_name f])) = go_build e b st.
Proof. exact go_nested_builder_failure_proof. Qed.
Print Assumptions nested_builder_failure.

(* ---- veneered options: a path of length 2 behind a nil check (struct_fields_as_options / _as_arguments,
   add_option, add_assignment) ---- *)

(* Go: the prefix field holds `mid` = what was there, or the guard's empty value (New<T>() / &T{}) when it was
   nil; inside it exactly the target field changes and holds the argument; every other top-level field is
   untouched; builder.errors is unchanged *)
Theorem option_sets_exactly_target_depth2 : forall e env st fs it1 it2 arg cs nct v x1 mid inner0 old,
  plain_item it1 -> plain_item it2 ->
  bs_obj st = GStruct fs -> gmap_find fs (pi_id it1) = Some x1 ->
  arg_value e env arg = GOk (Some v) ->
  (if is_nil x1 then go_empty_value e (non_null nct) = GOk mid else mid = x1) ->
  (mid = GPtr (GStruct inner0) \/ mid = GStruct inner0) ->
  gmap_find inner0 (pi_id it2) = Some old ->
  exists fs' inner',
    go_assignment e env st (mkAssignment [it1; it2] (AValue (Some arg) DNil None) "direct" cs [mkNilCheck [it1] nct])
      = GOk (mkBState (GStruct fs') (bs_errors st), true) /\
    gmap_find fs' (pi_id it1) = Some (match mid with GPtr _ => GPtr (GStruct inner') | _ => GStruct inner' end) /\
    gmap_find inner' (pi_id it2) = Some (maybe_ptr (pi_type it2) v) /\
    (forall g, g <> pi_id it2 -> gmap_find inner' g = gmap_find inner0 g) /\
    (forall g, g <> pi_id it1 -> gmap_find fs' g = gmap_find fs g).
Proof. exact go_depth2_assignment_proof. Qed.
Print Assumptions option_sets_exactly_target_depth2.

Theorem option_sets_exactly_target_depth2_python : forall e env fs it1 it2 arg nct v x1 inner0 old,
  plain_item it1 -> plain_item it2 ->
  gmap_find fs (pi_id it1) = Some x1 ->
  py_arg_value env arg = GOk v ->
  (if is_nil x1 then py_empty_value e nct = GOk (GStruct inner0) else GStruct inner0 = x1) ->
  gmap_find inner0 (pi_id it2) = Some old ->
  exists fs' inner',
    py_assignment e env (GStruct fs) (mkAssignment [it1; it2] (AValue (Some arg) DNil None) "direct" [] [mkNilCheck [it1] nct])
      = GOk (GStruct fs') /\
    gmap_find fs' (pi_id it1) = Some (GStruct inner') /\
    gmap_find inner' (pi_id it2) = Some v /\
    (forall g, g <> pi_id it2 -> gmap_find inner' g = gmap_find inner0 g) /\
    (forall g, g <> pi_id it1 -> gmap_find fs' g = gmap_find fs g).
Proof. exact py_depth2_assignment_proof. Qed.
Print Assumptions option_sets_exactly_target_depth2_python.
