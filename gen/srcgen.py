"""Construct-grammar schemas (`Src`), their three renderings, and documents for them.

A *Src schema* is a plain python dict (mirrored by the Gallina inductive of coq/Model/Src.v):

    schema := {"pkg": "s007", "root": "Root", "defs": [ {"name": "Root", "t": TYPE}, ... ]}
    TYPE   := {"k": "bool"}
            | {"k": "int",    "w": "int64"|"int32"|"int16"|"int8"|"uint8"|"uint16"|"uint32"|"uint64",
                              "ge": n?, "gt": n?, "le": n?, "lt": n?}              (bounds: python ints)
            | {"k": "float",  "w": "float64"|"float32", "ge"/"gt"/"le"/"lt": Decimal?}
            | {"k": "string", "minlen": n?, "maxlen": n?}
            | {"k": "datetime"} | {"k": "any"}
            | {"k": "const",  "v": str|int|bool}
            | {"k": "enum",   "vals": [str...] | [int...]}
            | {"k": "array",  "of": TYPE} | {"k": "map", "of": TYPE}            (string keys)
            | {"k": "ref",    "name": "Def"}
            | {"k": "struct", "fields": [ {"name": "f", "t": TYPE, "req": bool, "null": bool}, ... ]}
            | {"k": "union",  "of": [TYPE...]}          union of scalars (bool/int/float/string, arrays of them);
                                                        on a nullable field the null is one more branch of the union
                                                        ("nullform": "typearray" | "oneof" = how JSON Schema writes it)
            | {"k": "dunion", "of": ["DefA", "DefB"], "disc": "field"}  discriminated union of struct refs

All randomness comes from the random.Random passed in.  Documents are python values: dict /
DupObj (object with explicit member order, duplicates allowed) / list / str / bool / None /
int / Decimal; `dumps` prints them without ever going through binary floats.

Public API
    SrcGen(rng, max_depth=3, fmt=None, features=None).schema(pkg)      -> schema
    project(schema, fmt)                       the schema as expressible in format fmt ("jsonschema"|"openapi"|"cue")
    render(schema, fmt, closed=False)          -> text  (render_jsonschema / render_openapi / render_cue)
    DocGen(rng, schema).valid(defname)         -> document accepted by the schema (by construction)
    DocGen(rng, schema).faulty(defname)        -> (document, fault_kind, path) with exactly one injected fault
    DocGen(rng, schema).mutate_leaf(doc, defname) -> (document', path) differing in exactly one leaf (still valid)
    dumps(doc), loads(text)                    exact-decimal JSON printer / parser
    constructs(schema, doc, defname)           -> set of construct names the document exercises
    src_to_gallina(schema), doc_to_gallina(doc)   Gallina printers (coq/Model/Src.v, coq/Model/Json.v)
"""
import json
import re
from decimal import Decimal

FORMATS = ("jsonschema", "openapi", "cue")

INT_RANGE = {
    "int8": (-2 ** 7, 2 ** 7 - 1), "int16": (-2 ** 15, 2 ** 15 - 1), "int32": (-2 ** 31, 2 ** 31 - 1),
    "int64": (-2 ** 63, 2 ** 63 - 1), "uint8": (0, 2 ** 8 - 1), "uint16": (0, 2 ** 16 - 1),
    "uint32": (0, 2 ** 32 - 1), "uint64": (0, 2 ** 64 - 1),
}
# shapes that are OFF unless a check asks for them (SrcGen(..., features=ALL_FEATURES + EXTRA_FEATURES)):
#   case_twins      two properties of one object whose names differ only in letter case, exactly one required
#   nullable_union  `A | B | null` unions of scalars (the null is a branch: cog names the type AOrBOrNull)
#   repeat_union    the same union of scalars at several positions of a schema (one generated Go type reused);
#                   with nullable_union also "twins": the same nullable union in >= 2 required positions
#   nullable_typearray  a nullable scalar member written {"type": ["integer","null"], "minimum": 1} in JSON Schema
#                   (field flag "nullta"; cog's front-end drops the constraints of that shape: known finding)
#   alias_of_struct a definition that is a plain alias of a struct with a constrained member (`#Alias: #Child`,
#                   Go `type Alias = Child`) used as the type of a member / array item / map value
#   plural_twins    sibling members `rule: {...}` and `rules: [{...}]`: an inline struct and a list of inline structs
#                   with different properties whose names differ by the plural "s"
#   nullable_named_dunion  a nullable reference to a NAMED union of structs (`oneOf[$ref Shape, null]`, `#Shape | null`)
EXTRA_FEATURES = ("case_twins", "nullable_union", "repeat_union")
SHAPE_FEATURES = ("alias_of_struct", "plural_twins", "nullable_named_dunion")
FRONTEND_FEATURES = ("nullable_typearray",)
ALL_FEATURES = ("bool", "int", "float", "string", "datetime", "any", "const", "enum", "array", "map", "ref",
                "struct", "union", "dunion", "recursive", "nullable", "bounds", "widths", "alias")


class DupObj:
    """JSON object with explicit member list (order kept, duplicate keys allowed)."""

    def __init__(self, pairs):
        self.pairs = list(pairs)

    def __repr__(self):
        return "DupObj(%r)" % (self.pairs,)

    def __eq__(self, other):
        return isinstance(other, DupObj) and self.pairs == other.pairs


# ------------------------------------------------------------------ exact JSON text
def dumps(doc):
    if doc is None:
        return "null"
    if doc is True:
        return "true"
    if doc is False:
        return "false"
    if isinstance(doc, int):
        return str(doc)
    if isinstance(doc, Decimal):
        s = format(doc, "f")
        return s
    if isinstance(doc, float):
        raise TypeError("binary float in document; use Decimal")
    if isinstance(doc, str):
        return json.dumps(doc)
    if isinstance(doc, list):
        return "[" + ",".join(dumps(x) for x in doc) + "]"
    if isinstance(doc, dict):
        return "{" + ",".join(json.dumps(k) + ":" + dumps(v) for k, v in doc.items()) + "}"
    if isinstance(doc, DupObj):
        return "{" + ",".join(json.dumps(k) + ":" + dumps(v) for k, v in doc.pairs) + "}"
    raise TypeError(type(doc))


def _pairs_hook(pairs):
    keys = [k for k, _ in pairs]
    if len(set(keys)) != len(keys):
        return DupObj(pairs)
    return dict(pairs)


def loads(text):
    """JSON text -> document (ints stay ints, other numbers become Decimal, duplicate keys kept)."""
    return json.loads(text, parse_float=Decimal, parse_int=_parse_int, object_pairs_hook=_pairs_hook)


def _parse_int(s):
    return int(s)


def num_me(x):
    """number -> (m, e) as written: value = m * 10^e (ints have e = 0)."""
    if isinstance(x, bool):
        raise TypeError
    if isinstance(x, int):
        return x, 0
    sign, digits, exp = x.as_tuple()
    m = int("".join(str(d) for d in digits) or "0")
    return (-m if sign else m), int(exp)


# ------------------------------------------------------------------ Gallina printers
def g_str(s):
    return '"' + s.replace('"', '""') + '"'


def g_z(v):
    return "(%d)%%Z" % v if v < 0 else "%d%%Z" % v


def doc_to_gallina(doc):
    if doc is None:
        return "JNull"
    if doc is True:
        return "(JBool true)"
    if doc is False:
        return "(JBool false)"
    if isinstance(doc, (int, Decimal)):
        m, e = num_me(doc)
        return "(JNum %s %s)" % (g_z(m), g_z(e))
    if isinstance(doc, str):
        return "(JStr %s)" % g_str(doc)
    if isinstance(doc, list):
        return "(JArr [" + "; ".join(doc_to_gallina(x) for x in doc) + "])"
    if isinstance(doc, dict):
        return "(JObj [" + "; ".join("(%s, %s)" % (g_str(k), doc_to_gallina(v)) for k, v in doc.items()) + "])"
    if isinstance(doc, DupObj):
        return "(JObj [" + "; ".join("(%s, %s)" % (g_str(k), doc_to_gallina(v)) for k, v in doc.pairs) + "])"
    raise TypeError(type(doc))


def _g_opt(v, f):
    return "None" if v is None else "(Some %s)" % f(v)


def _g_dec(d):
    m, e = num_me(d)
    return "(%s, %s)" % (g_z(m), g_z(e))


def type_to_gallina(t):
    k = t["k"]
    if k == "bool":
        return "SBool"
    if k == "int":
        return "(SInt %s %s %s %s %s)" % (g_str(t["w"]), _g_opt(t.get("ge"), g_z), _g_opt(t.get("gt"), g_z),
                                         _g_opt(t.get("le"), g_z), _g_opt(t.get("lt"), g_z))
    if k == "float":
        return "(SFloat %s %s %s %s %s)" % (g_str(t["w"]), _g_opt(t.get("ge"), _g_dec), _g_opt(t.get("gt"), _g_dec),
                                           _g_opt(t.get("le"), _g_dec), _g_opt(t.get("lt"), _g_dec))
    if k == "string":
        return "(SString %s %s)" % (_g_opt(t.get("minlen"), g_z), _g_opt(t.get("maxlen"), g_z))
    if k == "datetime":
        return "SDateTime"
    if k == "any":
        return "SAny"
    if k == "const":
        v = t["v"]
        if isinstance(v, bool):
            return "(SConst (JBool %s))" % ("true" if v else "false")
        return "(SConst %s)" % doc_to_gallina(v)
    if k == "enum":
        return "(SEnum [" + "; ".join(doc_to_gallina(v) for v in t["vals"]) + "])"
    if k == "array":
        return "(SArray %s)" % type_to_gallina(t["of"])
    if k == "map":
        return "(SMap %s)" % type_to_gallina(t["of"])
    if k == "ref":
        return "(SRef %s)" % g_str(t["name"])
    if k == "struct":
        return "(SStruct [" + "; ".join(
            "(mkSField %s %s %s %s %s)" % (g_str(f["name"]), type_to_gallina(f["t"]), "true" if f["req"] else "false",
                                           "true" if f.get("null") else "false", "true" if f.get("nullta") else "false")
            for f in t["fields"]) + "])"
    if k == "union":
        return "(SUnion [" + "; ".join(type_to_gallina(b) for b in t["of"]) + "])"
    if k == "dunion":
        return "(SDUnion %s [%s])" % (g_str(t["disc"]), "; ".join(g_str(n) for n in t["of"]))
    raise ValueError(k)


def src_to_gallina(schema):
    return "(mkSrc %s %s [%s])" % (g_str(schema["pkg"]), g_str(schema["root"]), "; ".join(
        "(%s, %s)" % (g_str(d["name"]), type_to_gallina(d["t"])) for d in schema["defs"]))


# ------------------------------------------------------------------ generator
class SrcGen:
    """Mostly-valid, depth-controlled generator of Src schemas.

    fmt: when given, only constructs expressible in that format are produced (see `project`);
    features: iterable of feature names to allow (default ALL_FEATURES)."""

    def __init__(self, rng, max_depth=3, fmt=None, features=None):
        self.rng = rng
        self.max_depth = max_depth
        self.fmt = fmt
        self.features = set(features or ALL_FEATURES)
        self.defs = []
        self.names = set()
        self.struct_defs = []

    def has(self, f):
        return f in self.features

    def fresh(self, prefix):
        base = prefix
        i = 0
        while True:
            cand = base + (chr(ord("a") + i % 26) if i < 26 else "%s%d" % (chr(ord("a") + i % 26), i // 26))
            if cand not in self.names and cand.lower() not in {n.lower() for n in self.names}:
                self.names.add(cand)
                return cand
            i += 1

    # --- leaf types
    def t_int(self):
        r = self.rng
        w = "int64"
        if self.has("widths") and r.random() < 0.45:
            w = r.choice(list(INT_RANGE))
        t = {"k": "int", "w": w}
        lo, hi = INT_RANGE[w]
        if self.has("bounds") and r.random() < 0.55:
            a = r.randint(max(lo, -20), min(hi, 20))
            b = r.randint(a, min(hi, a + r.choice([0, 1, 3, 10, 100])))
            # every combination of an inclusive / exclusive / absent lower and upper bound
            lower, upper = r.choice([(x, y) for x in ("ge", "gt", None) for y in ("le", "lt", None) if x or y])
            if lower == "ge":
                t["ge"] = a
            elif lower == "gt":
                t["gt"] = a - 1 if a - 1 >= lo else a
            if upper == "le":
                t["le"] = b + 1 if (lower == "gt" and b + 1 <= hi) else b
            elif upper == "lt":
                t["lt"] = b + 2 if b + 2 <= hi else b + 1
        return t

    def t_float(self):
        r = self.rng
        w = "float64"
        if self.has("widths") and r.random() < 0.3:
            w = "float32"
        t = {"k": "float", "w": w}
        if w == "float64" and r.random() < 0.25:
            t["nofmt_candidate"] = True
        if self.has("bounds") and r.random() < 0.5:
            a = Decimal(r.randint(-40, 40)) / Decimal(r.choice([1, 2, 4, 10]))
            b = a + Decimal(r.randint(0, 40)) / Decimal(r.choice([1, 2, 4]))
            lower, upper = r.choice([(x, y) for x in ("ge", "gt", None) for y in ("le", "lt", None) if x or y])
            if lower:
                t[lower] = a
            if upper:
                t[upper] = b + 1 if upper == "lt" else b
        return t

    def t_string(self):
        r = self.rng
        t = {"k": "string"}
        if self.has("bounds") and r.random() < 0.5:
            a = r.randint(0, 4)
            c = r.random()
            if c < 0.35:
                t["minlen"] = max(1, a)
            elif c < 0.6:
                t["maxlen"] = a + r.randint(0, 6)
            else:
                t["minlen"] = max(1, a)
                t["maxlen"] = t["minlen"] + r.randint(0, 5)
        return t

    def t_enum(self):
        r = self.rng
        if r.random() < 0.7:
            pool = ["red", "green", "blue", "up", "down", "on", "off", "a", "b", "c"]
            n = r.randint(2, 4)
            return {"k": "enum", "vals": r.sample(pool, n)}
        n = r.randint(2, 4)
        return {"k": "enum", "vals": sorted(r.sample(range(0, 12), n))}

    def t_const(self):
        r = self.rng
        c = r.random()
        if c < 0.7:
            return {"k": "const", "v": r.choice(["k1", "fixed", "v", "kind-a", "x"])}
        if c < 0.9:
            return {"k": "const", "v": r.randint(0, 9)}
        return {"k": "const", "v": r.choice([True, False])}

    def scalar(self, for_union=False):
        r = self.rng
        opts = []
        if self.has("string"):
            opts += ["string"] * 3
        if self.has("int"):
            opts += ["int"] * 3
        if self.has("bool"):
            opts += ["bool"] * 2
        if self.has("float"):
            opts += ["float"] * 2
        if not for_union:
            if self.has("datetime"):
                opts += ["datetime"]
            if self.has("any"):
                opts += ["any"]
            if self.has("const"):
                opts += ["const"]
            if self.has("enum"):
                opts += ["enum"] * 2
        k = r.choice(opts or ["string"])
        return {"string": self.t_string, "int": self.t_int, "bool": lambda: {"k": "bool"}, "float": self.t_float,
                "datetime": lambda: {"k": "datetime"}, "any": lambda: {"k": "any"}, "const": self.t_const,
                "enum": self.t_enum}[k]()

    # --- composite types
    def union(self):
        """a union of scalars; the same branch list (=> the same generated Go type name) recurs: half of
        the time an earlier union of this schema is reused"""
        import copy
        if not self.has("repeat_union"):
            return self._fresh_union()
        pool = self.__dict__.setdefault("union_pool", [])
        if pool and self.rng.random() < 0.5:
            return copy.deepcopy(self.rng.choice(pool))
        u = self._fresh_union()
        pool.append(copy.deepcopy(u))
        return u

    def _fresh_union(self):
        r = self.rng
        kinds = r.sample(["string", "int", "bool", "float"], r.randint(2, 3))
        if "int" in kinds and "float" in kinds:
            kinds.remove(r.choice(["int", "float"]))
        if len(kinds) < 2:
            kinds.append("string" if "string" not in kinds else "bool")
        out = []
        for k in kinds:
            if k == "string":
                out.append({"k": "string"})
            elif k == "int":
                out.append({"k": "int", "w": "int64"})
            elif k == "bool":
                out.append({"k": "bool"})
            else:
                out.append({"k": "float", "w": "float64"})
        if r.random() < 0.2:
            out.append({"k": "array", "of": {"k": "string"}})
        return {"k": "union", "of": out}

    def dunion(self, depth):
        r = self.rng
        disc = r.choice(["kind", "type", "t"])
        n = r.randint(2, 3)
        names = []
        for i in range(n):
            name = self.fresh("V")
            fields = [{"name": disc, "t": {"k": "const", "v": "%s%d" % (name.lower(), i)}, "req": True, "null": False}]
            for _ in range(r.randint(0, 2)):
                fields.append(self.field(depth + 1, {f["name"] for f in fields}, simple=True))
            fields.sort(key=lambda f: f["name"])
            self.add_def(name, {"k": "struct", "fields": fields})
            names.append(name)
        return {"k": "dunion", "of": names, "disc": disc}

    def field(self, depth, taken, simple=False):
        r = self.rng
        pool = ["a", "b", "c", "d", "e", "id", "name", "tags", "meta", "size", "when", "opt", "val", "x", "y", "z",
                "count", "items", "ab", "aB"]
        name = r.choice([n for n in pool if n not in taken and n.lower() not in {x.lower() for x in taken}]
                        or ["f%d" % len(taken)])
        if name in ("ab", "aB") and r.random() < 0.5 and "ab" not in taken and "aB" not in taken:
            pass
        t = self.scalar() if simple else self.type(depth)
        req = r.random() < 0.55
        null = self.has("nullable") and r.random() < 0.25 and t["k"] not in (
            ("any", "const", "dunion") if self.has("nullable_union") else ("any", "const", "dunion", "union"))
        if null and t["k"] == "union":
            # `T1 | T2 | null`: how the null branch is written (JSON Schema: a type array or a oneOf branch)
            t["nullform"] = r.choice(["typearray", "oneof"]) if all(b["k"] != "array" for b in t["of"]) else "oneof"
        f = {"name": name, "t": t, "req": req, "null": null}
        if null and t["k"] in ("int", "float", "string", "bool") and self.has("nullable_typearray") and r.random() < 0.4:
            f["nullta"] = True
        return f

    def struct(self, depth):
        r = self.rng
        n = r.randint(1, 5 if depth == 0 else 3)
        fields = []
        for _ in range(n):
            fields.append(self.field(depth + 1, {f["name"] for f in fields}))
        taken = {f["name"].lower() for f in fields}
        if self.has("nullable_union") and self.has("repeat_union") and self.has("union") and self.has("nullable") \
                and r.random() < (0.3 if depth == 0 else 0.12):
            # the SAME nullable union of scalars at several positions (one generated Go type, reached again
            # through the "already generated" path of DisjunctionToType), at least two of them required
            import copy
            u = self.union()
            u.pop("nullform", None)
            form = r.choice(["typearray", "oneof"]) if all(b["k"] != "array" for b in u["of"]) else "oneof"
            names = [n_ for n_ in ("ua", "ub", "uc", "ud") if n_ not in taken][:r.choice([2, 2, 3])]
            for i, n_ in enumerate(names):
                fields.append({"name": n_, "t": dict(copy.deepcopy(u), nullform=form), "req": i < 2 or r.random() < 0.5,
                               "null": i < 2 or r.random() < 0.5})
                taken.add(n_)
        if self.has("alias_of_struct") and r.random() < (0.3 if depth == 0 else 0.08):
            child = self.fresh("S")
            cf = [{"name": "id", "t": {"k": "int", "w": "int64", "ge": 1}, "req": True, "null": False},
                  {"name": "label", "t": {"k": "string", "minlen": 2}, "req": r.random() < 0.5, "null": False}]
            self.add_def(child, {"k": "struct", "fields": cf})
            alias = self.fresh("A")
            self.defs.append({"name": alias, "t": {"k": "ref", "name": child}})
            ref = {"k": "ref", "name": alias}
            for n_, t_ in r.sample([("aliased", ref), ("aliasedList", {"k": "array", "of": ref}),
                                    ("aliasedMap", {"k": "map", "of": ref})], r.choice([1, 2, 3])):
                if n_.lower() not in taken:
                    fields.append({"name": n_, "t": t_, "req": r.random() < 0.6, "null": False})
                    taken.add(n_.lower())
        if self.has("plural_twins") and r.random() < (0.3 if depth == 0 else 0.08):
            one, many = r.choice([("rule", "rules"), ("target", "targets"), ("step", "steps")])
            if one not in taken and many not in taken:
                fields.append({"name": one, "req": r.random() < 0.7, "null": False, "t": {"k": "struct", "fields": [
                    {"name": "action", "t": {"k": "string"}, "req": r.random() < 0.5, "null": False},
                    {"name": "id", "t": {"k": "int", "w": "int64"}, "req": True, "null": False}]}})
                fields.append({"name": many, "req": r.random() < 0.7, "null": False, "t": {"k": "array", "of": {"k": "struct", "fields": [
                    {"name": "expr", "t": {"k": "string"}, "req": True, "null": False}]}}})
                taken |= {one, many}
        if self.has("nullable_named_dunion") and self.has("dunion") and self.fmt != "openapi" \
                and r.random() < (0.3 if depth == 0 else 0.08) and "shape" not in taken:
            du = self.dunion(depth)
            uname = self.fresh("U")
            self.defs.append({"name": uname, "t": du})
            fields.append({"name": "shape", "t": {"k": "ref", "name": uname}, "req": r.random() < 0.6, "null": True})
            taken.add("shape")
        if self.has("case_twins") and r.random() < (0.22 if depth == 0 else 0.1):
            # two properties whose names differ only in letter case, exactly one of them required
            a, b = r.choice([("userName", "username"), ("ID", "id"), ("fooBar", "foobar"), ("ab", "aB"), ("keyId", "keyid")])
            if a.lower() not in taken:
                first_req = r.random() < 0.5
                fields.append({"name": a, "t": self.scalar(), "req": first_req, "null": False})
                fields.append({"name": b, "t": self.scalar(), "req": not first_req, "null": False})
        fields.sort(key=lambda f: f["name"])
        return {"k": "struct", "fields": fields}

    def add_def(self, name, t):
        self.defs.append({"name": name, "t": t})
        if t["k"] == "struct":
            self.struct_defs.append(name)

    def named(self, depth, kind):
        """create a definition of the given kind and return a reference to it"""
        name = self.fresh({"struct": "S", "enum": "E", "map": "M", "array": "L", "string": "N", "int": "I",
                           "union": "U"}.get(kind, "T"))
        if kind == "struct":
            t = self.struct(depth)
        elif kind == "enum":
            t = self.t_enum()
        elif kind == "map":
            t = {"k": "map", "of": self.type(depth + 1, no_named=True)}
        elif kind == "array":
            t = {"k": "array", "of": self.type(depth + 1, no_named=True)}
        elif kind == "string":
            t = self.t_string()
        elif kind == "int":
            t = self.t_int()
        elif kind == "union":
            t = self.union()
        else:
            raise ValueError(kind)
        self.add_def(name, t)
        return {"k": "ref", "name": name}

    def type(self, depth, no_named=False):
        r = self.rng
        if depth >= self.max_depth:
            if self.has("ref") and self.struct_defs and r.random() < 0.2:
                return {"k": "ref", "name": r.choice(self.struct_defs)}
            return self.scalar()
        c = r.random()
        if c < 0.38:
            return self.scalar()
        if c < 0.50 and self.has("array"):
            return {"k": "array", "of": self.type(depth + 1)}
        if c < 0.58 and self.has("map"):
            return {"k": "map", "of": self.type(depth + 1)}
        if c < 0.70 and self.has("ref"):
            if self.struct_defs and r.random() < 0.35:
                return {"k": "ref", "name": r.choice(self.struct_defs)}
            if no_named:
                return self.scalar()
            return self.named(depth + 1, "struct")
        if c < 0.78 and self.has("struct"):
            return self.struct(depth + 1)
        if c < 0.84 and self.has("alias") and not no_named:
            return self.named(depth + 1, r.choice(["enum", "map", "array", "string", "int"]))
        if c < 0.90 and self.has("union"):
            if r.random() < 0.3 and not no_named:
                return self.named(depth + 1, "union")
            return self.union()
        if c < 0.95 and self.has("dunion") and not no_named:
            return self.dunion(depth)
        if c < 0.985 and self.has("ref") and self.has("array") and self.has("map") and not no_named:
            return self.nested_collection(depth)
        return self.scalar()

    def nested_collection(self, depth):
        """collections of collections of structs, and named collections of structs: the shapes whose
        generated strict decoder nests its array / map loops"""
        r = self.rng
        inner = self.named(depth + 1, "struct") if (not self.struct_defs or r.random() < 0.5) else \
            {"k": "ref", "name": r.choice([n for n in self.struct_defs if n != "Root"] or self.struct_defs)}
        if inner["name"] == "Root":
            inner = self.named(depth + 1, "struct")
        c = r.random()
        if c < 0.3:
            return {"k": "map", "of": {"k": "map", "of": inner}}
        if c < 0.55:
            return {"k": "array", "of": {"k": "array", "of": inner}}
        if c < 0.7:
            return {"k": "map", "of": {"k": "array", "of": inner}}
        if c < 0.8:
            return {"k": "array", "of": {"k": "map", "of": inner}}
        name = self.fresh("L")
        self.add_def(name, {"k": "array", "of": inner} if r.random() < 0.7 else {"k": "map", "of": inner})
        return {"k": "ref", "name": name}

    def schema(self, pkg):
        self.defs, self.names, self.struct_defs = [], {"Root"}, []
        self.union_pool = []
        r = self.rng
        self.struct_defs.append("Root") if self.has("recursive") and r.random() < 0.3 else None
        root = self.struct(0)
        if "Root" in self.struct_defs:
            # recursive references must be optional (or sit under a collection) to admit finite documents
            for f in root["fields"]:
                if _mentions(f["t"], "Root") and f["t"]["k"] == "ref":
                    f["req"] = False
        else:
            self.struct_defs.append("Root")
        self.defs.append({"name": "Root", "t": root})
        s = {"pkg": pkg, "root": "Root", "defs": sorted(self.defs, key=lambda d: d["name"])}
        _break_required_cycles(s)
        if self.fmt:
            s = project(s, self.fmt)
        return s


def _mentions(t, name):
    k = t["k"]
    if k == "ref":
        return t["name"] == name
    if k in ("array", "map"):
        return _mentions(t["of"], name)
    if k == "struct":
        return any(_mentions(f["t"], name) for f in t["fields"])
    if k == "union":
        return any(_mentions(b, name) for b in t["of"])
    if k == "dunion":
        return name in t["of"]
    return False


def _break_required_cycles(schema, through_nullable=False):
    """a required chain of struct references that loops admits no finite document: make the
    back edges optional."""
    defs = {d["name"]: d["t"] for d in schema["defs"]}

    def req_refs(t, acc):
        k = t["k"]
        if k == "ref":
            acc.append(t)
        elif k == "struct":
            for f in t["fields"]:
                if f["req"] and (through_nullable or not f.get("null")):
                    req_refs(f["t"], acc)
        elif k == "dunion":
            for n in t["of"]:
                acc.append({"k": "ref", "name": n})

    def visit(name, stack):
        t = defs[name]
        if t["k"] != "struct":
            acc = []
            req_refs(t, acc)
            for r in acc:
                if r["name"] in stack:
                    continue
                visit(r["name"], stack + [name])
            return
        for f in t["fields"]:
            if not f["req"] or (f.get("null") and not through_nullable):
                continue
            acc = []
            req_refs(f["t"], acc)
            for r in acc:
                if r["name"] in stack or r["name"] == name:
                    f["req"] = False
                    break
            else:
                for r in acc:
                    visit(r["name"], stack + [name])

    visit(schema["root"], [])
    for d in schema["defs"]:
        visit(d["name"], [])


# ------------------------------------------------------------------ projection onto a format
def project(schema, fmt):
    """The same schema restricted to what `fmt` can express (documented lossy mapping):
      jsonschema : integer widths -> int64, float widths -> float64
      openapi    : integer widths -> int32 | int64, float32 stays (format: float), float64 (format: double);
                   nullable only on scalar / array / map / inline-struct fields (a $ref cannot carry it);
                   const -> single-value enum is NOT used: string constants become pattern-free enums of one value
      cue        : everything expressible; int enums need member names (cog attribute)"""
    import copy
    s = copy.deepcopy(schema)
    if fmt == "cue":
        _break_required_cycles(s, through_nullable=True)   # `a: {x: #Root} | null` is a structural cycle in CUE

    def fix(t):
        k = t["k"]
        if k == "int":
            if fmt == "jsonschema":
                t["w"] = "int64"
            elif fmt == "openapi":
                t["w"] = "int32" if t["w"] in ("int8", "int16", "int32", "uint8", "uint16") else "int64"
                lo, hi = INT_RANGE[t["w"]]
            lo, hi = INT_RANGE[t["w"]]
            for b in ("ge", "gt", "le", "lt"):
                if b in t:
                    t[b] = max(lo, min(hi, t[b]))
            if fmt == "cue" and "ge" in t and t.get("le") == t["ge"]:
                # CUE simplifies `>=n & <=n` to the constant n, which cog then treats as a constant field
                if t["le"] < hi:
                    t["le"] += 1
                else:
                    t["ge"] -= 1
        elif k == "float":
            if fmt == "openapi" and t["w"] == "float64" and t.get("nofmt_candidate"):
                t["nofmt"] = True       # `type: number` without format is a double-precision number in OpenAPI
            t.pop("nofmt_candidate", None)
            if fmt == "jsonschema":
                t["w"] = "float64"
            elif fmt == "cue" and t["w"] == "float32" and any(b in t for b in ("ge", "gt", "le", "lt")):
                # cog's CUE front-end cannot infer the type of a bounded float32 (it answers with an error)
                t["w"] = "float64"
        elif k == "const":
            if fmt == "openapi" and isinstance(t["v"], bool):
                t["v"] = "yes" if t["v"] else "no"     # cog's OpenAPI front-end refuses boolean enums
        elif k in ("array", "map"):
            if fmt == "cue" and t["of"]["k"] == "enum" and not isinstance(t["of"]["vals"][0], str):
                t["of"] = {"k": "int", "w": "int64"}
            fix(t["of"])
        elif k == "struct":
            for f in t["fields"]:
                fix(f["t"])
                if fmt == "openapi" and f.get("null") and f["t"]["k"] in ("ref", "enum", "const", "datetime"):
                    f["null"] = False
                if fmt == "cue" and f.get("null") and f["t"]["k"] == "enum" and not isinstance(f["t"]["vals"][0], str):
                    f["null"] = False      # cog's CUE front-end refuses `(1 | 2) | null` with member names
        elif k == "union":
            for b in t["of"]:
                fix(b)

    for d in s["defs"]:
        fix(d["t"])
    if fmt == "openapi":
        _break_required_cycles(s)      # a nullable flag a $ref cannot carry was dropped: the cycle it broke is back
    s["fmt"] = fmt
    return s


# ------------------------------------------------------------------ renderers
def _js_type(t, refprefix, openapi=False, closed=False):
    k = t["k"]
    if k == "bool":
        return {"type": "boolean"}
    if k == "int":
        o = {"type": "integer"}
        if openapi:
            o["format"] = t["w"] if t["w"] in ("int32", "int64") else "int64"
        _bounds(o, t, openapi, lambda v: v)
        return o
    if k == "float":
        o = {"type": "number"}
        if openapi and not t.get("nofmt"):
            o["format"] = "float" if t["w"] == "float32" else "double"
        _bounds(o, t, openapi, lambda v: v)
        return o
    if k == "string":
        o = {"type": "string"}
        if "minlen" in t:
            o["minLength"] = t["minlen"]
        if "maxlen" in t:
            o["maxLength"] = t["maxlen"]
        return o
    if k == "datetime":
        return {"type": "string", "format": "date-time"}
    if k == "any":
        return {}
    if k == "const":
        v = t["v"]
        if openapi:
            ty = "boolean" if isinstance(v, bool) else "integer" if isinstance(v, int) else "string"
            return {"type": ty, "enum": [v]}
        ty = "boolean" if isinstance(v, bool) else "integer" if isinstance(v, int) else "string"
        return {"type": ty, "const": v}
    if k == "enum":
        if openapi:
            return {"type": "string" if isinstance(t["vals"][0], str) else "integer", "enum": list(t["vals"])}
        return {"enum": list(t["vals"])}
    if k == "array":
        return {"type": "array", "items": _js_type(t["of"], refprefix, openapi, closed)}
    if k == "map":
        return {"type": "object", "additionalProperties": _js_type(t["of"], refprefix, openapi, closed)}
    if k == "ref":
        return {"$ref": refprefix + t["name"]}
    if k == "struct":
        props = {}
        req = []
        for f in t["fields"]:
            ft = _js_type(f["t"], refprefix, openapi, closed)
            if f.get("null"):
                if openapi:
                    ft = dict(ft, nullable=True)
                elif f.get("nullta"):
                    ft = dict(ft, type=[ft["type"], "null"])
                elif f["t"]["k"] == "union":
                    # a flat union with a null branch (what cog names <A>Or<B>OrNull)
                    if f["t"].get("nullform") == "typearray":
                        ft = {"type": [_JS_SCALAR[b["k"]] for b in f["t"]["of"]] + ["null"]}
                    else:
                        word = [w for w in ("oneOf", "anyOf") if w in ft][0]
                        ft = {word: ft[word] + [{"type": "null"}]}
                else:
                    ft = {"oneOf": [ft, {"type": "null"}]}
            props[f["name"]] = ft
            if f["req"]:
                req.append(f["name"])
        o = {"type": "object", "properties": props}
        if req:
            o["required"] = req
        if closed:
            o["additionalProperties"] = False
        return o
    if k == "union":
        kinds = {b["k"] for b in t["of"]}
        word = "anyOf" if ("int" in kinds and "float" in kinds) else "oneOf"
        return {word: [_js_type(b, refprefix, openapi, closed) for b in t["of"]]}
    if k == "dunion":
        o = {"oneOf": [{"$ref": refprefix + n} for n in t["of"]]}
        if openapi:
            o["discriminator"] = {"propertyName": t["disc"]}
        return o
    raise ValueError(k)


_JS_SCALAR = {"string": "string", "bool": "boolean", "int": "integer", "float": "number"}


def _bounds(o, t, openapi, conv):
    def num(v):
        if isinstance(v, Decimal):
            return _JsonDecimal(v)
        return v
    if openapi:
        if "ge" in t:
            o["minimum"] = num(t["ge"])
        if "gt" in t:
            o["minimum"] = num(t["gt"])
            o["exclusiveMinimum"] = True
        if "le" in t:
            o["maximum"] = num(t["le"])
        if "lt" in t:
            o["maximum"] = num(t["lt"])
            o["exclusiveMaximum"] = True
    else:
        if "ge" in t:
            o["minimum"] = num(t["ge"])
        if "gt" in t:
            o["exclusiveMinimum"] = num(t["gt"])
        if "le" in t:
            o["maximum"] = num(t["le"])
        if "lt" in t:
            o["exclusiveMaximum"] = num(t["lt"])


class _JsonDecimal(float):
    """prints a Decimal exactly inside json.dumps output"""

    def __new__(cls, d):
        o = float.__new__(cls, float(d))
        o.d = d
        return o

    def __repr__(self):
        return format(self.d, "f")


def render_jsonschema(schema, closed=False):
    """draft-07 document as cog's JSON Schema front-end expects it: root is a $ref into definitions."""
    defs = {d["name"]: _js_type(d["t"], "#/definitions/", False, closed) for d in schema["defs"]}
    doc = {"$schema": "http://json-schema.org/draft-07/schema#", "$ref": "#/definitions/" + schema["root"],
           "definitions": defs}
    return json.dumps(doc, indent=1)


def render_openapi(schema, closed=False):
    defs = {d["name"]: _js_type(d["t"], "#/components/schemas/", True, closed) for d in schema["defs"]}
    doc = {"openapi": "3.0.0", "info": {"title": schema["pkg"], "version": "0.0"}, "paths": {},
           "components": {"schemas": defs}}
    return json.dumps(doc, indent=1)


def _cue_num(v):
    return format(v, "f") if isinstance(v, Decimal) else str(v)


def _cue_type(t, ind):
    k = t["k"]
    pad = "\t" * ind
    if k == "bool":
        return "bool"
    if k in ("int", "float"):
        base = t["w"]
        if k == "float" and base == "float64" and any(b in t for b in ("ge", "gt", "le", "lt")):
            base = "float"      # `float64 & >a & <b` loses its type name when CUE simplifies it; cog then errors
        parts = [base]
        for b, op in (("ge", ">="), ("gt", ">"), ("le", "<="), ("lt", "<")):
            if b in t:
                v = t[b]
                s = _cue_num(v)
                if k == "float" and "." not in s:
                    s += ".0"
                parts.append(op + (" " if s.startswith("-") else "") + s)
        return " & ".join(parts)
    if k == "string":
        parts = ["string"]
        if "minlen" in t:
            parts.append("strings.MinRunes(%d)" % t["minlen"])
        if "maxlen" in t:
            parts.append("strings.MaxRunes(%d)" % t["maxlen"])
        return " & ".join(parts)
    if k == "datetime":
        return "time.Time"
    if k == "any":
        return "_"
    if k == "const":
        v = t["v"]
        return "true" if v is True else "false" if v is False else json.dumps(v)
    if k == "enum":
        # int enums need the memberNames attribute, which only a field can carry: see _cue_attr
        return " | ".join(json.dumps(v) for v in t["vals"])
    if k == "array":
        inner = _cue_type(t["of"], ind)
        return "[...%s]" % (inner if " | " not in inner and " & " not in inner else "(" + inner + ")")
    if k == "map":
        return "{[string]: %s}" % _cue_type(t["of"], ind)
    if k == "ref":
        return "#" + t["name"]
    if k == "struct":
        lines = []
        for f in t["fields"]:
            ft = _cue_type(f["t"], ind + 1)
            attr = _cue_attr(f["t"])
            if f.get("null"):
                if f["t"]["k"] == "union":
                    ft = ft + " | null"
                else:
                    ft = "(" + ft + ") | null" if (" | " in ft or " & " in ft) else ft + " | null"
            lines.append("%s\t%s%s: %s%s" % (pad, f["name"], "" if f["req"] else "?", ft, attr))
        return "{\n" + "\n".join(lines) + "\n" + pad + "}"
    if k == "union":
        return " | ".join(_cue_type(b, ind) for b in t["of"])
    if k == "dunion":
        return " | ".join("#" + n for n in t["of"])
    raise ValueError(k)


def _cue_attr(t):
    if t["k"] == "enum" and not isinstance(t["vals"][0], str):
        return ' @cog(kind="enum",memberNames="%s")' % "|".join("N%d" % v for v in t["vals"])
    return ""


def render_cue(schema, closed=False):
    body = []
    text = ""
    for d in schema["defs"]:
        ct = _cue_type(d["t"], 0)
        body.append("#%s: %s%s\n" % (d["name"], ct, _cue_attr(d["t"])))
    text = "\n".join(body)
    imports = []
    if "strings." in text:
        imports.append('"strings"')
    if "time.Time" in text:
        imports.append('"time"')
    head = "package %s\n\n" % schema["pkg"]
    if imports:
        head += "import (\n" + "".join("\t%s\n" % i for i in imports) + ")\n\n"
    return head + text


def render(schema, fmt, closed=False):
    return {"jsonschema": render_jsonschema, "openapi": render_openapi, "cue": render_cue}[fmt](schema, closed)


# ------------------------------------------------------------------ documents
WORDS = ["", "a", "ab", "abc", "hello", "x y", "Zed", "0", "long-ish text", "ünï", "q", "tag", "abcd", "abcdef"]


class DocGen:
    """Documents for a Src schema: valid by construction, single-fault, single-leaf mutants."""

    def __init__(self, rng, schema, max_depth=6):
        self.rng = rng
        self.schema = schema
        self.defs = {d["name"]: d["t"] for d in schema["defs"]}
        self.max_depth = max_depth
        self.fmt = schema.get("fmt")

    # ---- valid values
    def v_int(self, t):
        r = self.rng
        lo, hi = INT_RANGE[t["w"]]
        if "ge" in t:
            lo = max(lo, t["ge"])
        if "gt" in t:
            lo = max(lo, t["gt"] + 1)
        if "le" in t:
            hi = min(hi, t["le"])
        if "lt" in t:
            hi = min(hi, t["lt"] - 1)
        # integers stay exactly representable in a float64 (they may travel through a Go `any`)
        lo, hi = max(lo, -2 ** 53), min(hi, 2 ** 53)
        if lo > hi:
            return lo
        c = r.random()
        if c < 0.2:
            return lo
        if c < 0.4:
            return hi
        a, b = max(lo, -1000), min(hi, 1000)
        if a > b:
            return r.choice([lo, hi])
        return r.randint(a, b)

    def v_float(self, t):
        x = self._v_float(t)
        if self.fmt == "cue" and x == x.to_integral_value():
            return Decimal(str(int(x)) + ".0")     # in CUE an integer literal is not a float
        return x

    def _v_float(self, t):
        r = self.rng
        digits = 4 if t["w"] == "float32" else 6
        lo = t.get("ge", t.get("gt"))
        hi = t.get("le", t.get("lt"))
        if lo is None and hi is None:
            if t["w"] == "float64" and r.random() < 0.3:
                digits = 12
            base = Decimal(r.randint(-10 ** digits, 10 ** digits)) / (Decimal(10) ** r.randint(0, digits - 1))
            return _dnorm(base)
        if lo is None:
            lo = hi - 50
        if hi is None:
            hi = lo + 50
        c = r.random()
        if c < 0.2 and "ge" in t:
            return _dnorm(Decimal(t["ge"]))
        if c < 0.4 and "le" in t:
            return _dnorm(Decimal(t["le"]))
        span = Decimal(hi) - Decimal(lo)
        x = Decimal(lo) + span * Decimal(r.randint(1, 99)) / Decimal(100)
        x = x.quantize(Decimal("0.001"))
        if "gt" in t and x <= t["gt"]:
            x = Decimal(t["gt"]) + Decimal("0.001")
        if "lt" in t and x >= t["lt"]:
            x = Decimal(t["lt"]) - Decimal("0.001")
        if "ge" in t and x < t["ge"]:
            x = Decimal(t["ge"])
        if "le" in t and x > t["le"]:
            x = Decimal(t["le"])
        return _dnorm(x)

    def v_string(self, t):
        r = self.rng
        lo = t.get("minlen", 0)
        hi = t.get("maxlen", lo + 8)
        if hi < lo:
            hi = lo
        n = r.choice([lo, hi, r.randint(lo, hi)])
        alphabet = "abcxyzABC019 -_é"
        return "".join(r.choice(alphabet) for _ in range(n))

    def v_datetime(self):
        r = self.rng
        s = "%04d-%02d-%02dT%02d:%02d:%02d" % (r.randint(1990, 2035), r.randint(1, 12), r.randint(1, 28),
                                             r.randint(0, 23), r.randint(0, 59), r.randint(0, 59))
        c = r.random()
        if c < 0.3:
            s += "." + r.choice(["5", "250", "000", "123456", "100", "007"])
        z = r.random()
        if z < 0.6:
            return s + "Z"
        if z < 0.8:
            return s + r.choice(["+02:00", "-05:00", "+10:00", "+01:00"])
        if z < 0.9:
            return s + "+00:00"
        return s + r.choice(["+05:30", "-03:30", "+09:45"])

    def v_any(self, depth):
        r = self.rng
        c = r.random()
        if depth > 2 or c < 0.5:
            return r.choice(["s", 1, 0, True, False, Decimal("1.5"), "", -3])
        if c < 0.7:
            return [self.v_any(depth + 1) for _ in range(r.randint(0, 3))]
        if c < 0.95:
            return {k: self.v_any(depth + 1) for k in r.sample(["k", "a", "b", "n"], r.randint(0, 3))}
        return None

    def valid_of(self, t, depth=0):
        r = self.rng
        k = t["k"]
        if k == "bool":
            return r.random() < 0.5
        if k == "int":
            return self.v_int(t)
        if k == "float":
            return self.v_float(t)
        if k == "string":
            return self.v_string(t)
        if k == "datetime":
            return self.v_datetime()
        if k == "any":
            return self.v_any(0)
        if k == "const":
            return t["v"]
        if k == "enum":
            return r.choice(t["vals"])
        if k == "array":
            n = 0 if depth >= self.max_depth else r.choice([0, 1, 1, 2, 3])
            return [self.valid_of(t["of"], depth + 1) for _ in range(n)]
        if k == "map":
            n = 0 if depth >= self.max_depth else r.choice([0, 1, 2, 2, 3])
            keys = r.sample(["a", "b", "k1", "key", "z", "A", ""], n)
            return {key: self.valid_of(t["of"], depth + 1) for key in keys}
        if k == "ref":
            return self.valid_of(self.defs[t["name"]], depth + 1)
        if k == "struct":
            out = {}
            fields = list(t["fields"])
            if r.random() < 0.3:
                r.shuffle(fields)
            for f in fields:
                if not f["req"]:
                    p = 0.55 if depth < self.max_depth else 0.0
                    if r.random() >= p:
                        continue
                if f.get("null") and (depth >= self.max_depth or       # required nullable recursion must end too
                                      r.random() < (0.45 if f["t"]["k"] == "union" else 0.3)):
                    out[f["name"]] = None
                    continue
                if not f["req"] and r.random() < 0.07:
                    out[f["name"]] = None   # optional property given as explicit null
                    continue
                out[f["name"]] = self.valid_of(f["t"], depth + 1)
            return out
        if k == "union":
            return self.valid_of(r.choice(t["of"]), depth + 1)
        if k == "dunion":
            return self.valid_of(self.defs[r.choice(t["of"])], depth + 1)
        raise ValueError(k)

    def valid(self, defname=None):
        return self.valid_of(self.defs[defname or self.schema["root"]])

    # ---- positions of a document (guided by the type)
    def positions(self, t, doc, path=()):
        """yield (path, type, value, parent_struct_field_or_None) for every typed position"""
        k = t["k"]
        yield path, t, doc, None
        if doc is None:
            return
        if k == "array" and isinstance(doc, list):
            for i, x in enumerate(doc):
                yield from self.positions(t["of"], x, path + (i,))
        elif k == "map" and isinstance(doc, dict):
            for key, x in doc.items():
                yield from self.positions(t["of"], x, path + (key,))
        elif k == "ref":
            for p in self.positions(self.defs[t["name"]], doc, path):
                if p[0] != path:
                    yield p
        elif k == "struct" and isinstance(doc, dict):
            for f in t["fields"]:
                if f["name"] in doc:
                    yield from self.positions(f["t"], doc[f["name"]], path + (f["name"],))
        elif k == "dunion" and isinstance(doc, dict):
            for n in t["of"]:
                st = self.defs[n]
                disc = [f for f in st["fields"] if f["name"] == t["disc"]][0]
                if doc.get(t["disc"]) == disc["t"]["v"]:
                    for p in self.positions(st, doc, path):
                        if p[0] != path:
                            yield p

    def resolve(self, t):
        while t["k"] == "ref":
            t = self.defs[t["name"]]
        return t

    @staticmethod
    def get(doc, path):
        for p in path:
            doc = doc[p]
        return doc

    @staticmethod
    def put(doc, path, value):
        """functional update; value=_DELETE removes the member"""
        import copy
        doc = copy.deepcopy(doc)
        if not path:
            return value
        cur = doc
        for p in path[:-1]:
            cur = cur[p]
        if value is _DELETE:
            del cur[path[-1]]
        else:
            cur[path[-1]] = value
        return doc

    # ---- single-fault documents
    FAULTS = ("unknown_key", "missing_required", "null_non_nullable", "wrong_type", "bound_off_by_one",
              "length_off_by_one")

    def faulty(self, defname=None, kinds=None):
        """(document, fault kind, path as tuple) or None when the schema offers no place for a fault"""
        r = self.rng
        root_t = self.defs[defname or self.schema["root"]]
        for _ in range(30):
            doc = self.valid_of(root_t)
            kind = r.choice(list(kinds or self.FAULTS))
            res = self._inject(root_t, doc, kind)
            if res is not None:
                return res[0], kind, res[1]
        return None

    def _struct_positions(self, root_t, doc):
        out = []
        for path, t, v, _ in self.positions(root_t, doc):
            rt = self.resolve(t)
            if rt["k"] == "struct" and isinstance(v, dict):
                out.append((path, rt, v))
            elif rt["k"] == "dunion" and isinstance(v, dict):
                for n in rt["of"]:
                    st = self.defs[n]
                    disc = [f for f in st["fields"] if f["name"] == rt["disc"]][0]
                    if v.get(rt["disc"]) == disc["t"]["v"]:
                        out.append((path, st, v))
        return out

    def _inject(self, root_t, doc, kind):
        r = self.rng
        if kind == "unknown_key":
            cands = self._struct_positions(root_t, doc)
            if not cands:
                return None
            path, st, v = r.choice(cands)
            names = {f["name"] for f in st["fields"]}
            key = r.choice([k for k in ("extra", "zz", "unknownField", "q9") if k not in names])
            return self.put(doc, path + (key,), r.choice([1, "x", None, True, [], {}])), path + (key,)
        if kind == "missing_required":
            cands = []
            for path, st, v in self._struct_positions(root_t, doc):
                for f in st["fields"]:
                    if f["req"] and f["name"] in v:
                        cands.append(path + (f["name"],))
            if not cands:
                return None
            p = r.choice(cands)
            return self.put(doc, p, _DELETE), p
        if kind == "null_non_nullable":
            cands = []
            for path, st, v in self._struct_positions(root_t, doc):
                for f in st["fields"]:
                    if f["req"] and not f.get("null") and f["name"] in v and f["t"]["k"] != "any":
                        cands.append(path + (f["name"],))
            if not cands:
                return None
            p = r.choice(cands)
            return self.put(doc, p, None), p
        if kind == "wrong_type":
            cands = []
            for path, t, v, _ in self.positions(root_t, doc):
                if not path or v is None:
                    continue
                rt = self.resolve(t)
                if rt["k"] in ("any", "union"):
                    continue
                cands.append((path, rt, v))
            if not cands:
                return None
            path, rt, v = r.choice(cands)
            return self.put(doc, path, self._other_type(rt, v)), path
        if kind == "bound_off_by_one":
            cands = []
            for path, t, v, _ in self.positions(root_t, doc):
                rt = self.resolve(t)
                if rt["k"] in ("int", "float") and v is not None and any(b in rt for b in ("ge", "gt", "le", "lt")):
                    cands.append((path, rt))
            if not cands:
                return None
            path, rt = r.choice(cands)
            b = r.choice([b for b in ("ge", "gt", "le", "lt") if b in rt])
            step = 1 if rt["k"] == "int" else Decimal("0.001")
            lim = rt[b]
            bad = {"ge": lim - step, "gt": lim, "le": lim + step, "lt": lim}[b]
            if rt["k"] == "int":
                lo, hi = INT_RANGE[rt["w"]]
                if not lo <= bad <= hi:
                    return None
            else:
                bad = _dnorm(Decimal(bad))
            return self.put(doc, path, bad), path
        if kind == "length_off_by_one":
            cands = []
            for path, t, v, _ in self.positions(root_t, doc):
                rt = self.resolve(t)
                if rt["k"] == "string" and v is not None and ("minlen" in rt or "maxlen" in rt):
                    cands.append((path, rt))
            if not cands:
                return None
            path, rt = r.choice(cands)
            b = r.choice([b for b in ("minlen", "maxlen") if b in rt])
            n = rt[b] - 1 if b == "minlen" else rt[b] + 1
            if n < 0:
                return None
            return self.put(doc, path, "é" * n if r.random() < 0.3 else "w" * n), path
        raise ValueError(kind)

    def _other_type(self, rt, v):
        r = self.rng
        k = rt["k"]
        if k in ("string", "datetime"):
            return r.choice([7, True, [], {"a": 1}])
        if k in ("int", "float"):
            return r.choice(["7", True, [], {}])
        if k == "bool":
            return r.choice(["true", 1, 0, []])
        if k == "const":
            return r.choice([[], {}, 3 if isinstance(rt["v"], str) else "s"])
        if k == "enum":
            return r.choice([[], {}, True])
        if k == "array":
            return r.choice(["x", 3, {"0": 1}, True])
        if k in ("map", "struct", "dunion"):
            return r.choice(["x", 3, [], True, [1]])
        return [[]]

    # ---- single-leaf mutation that keeps validity
    def mutate_leaf(self, doc, defname=None):
        """(document', path) differing from doc in exactly one scalar leaf / one collection
        membership, still valid; None if the document has no mutable leaf."""
        r = self.rng
        root_t = self.defs[defname or self.schema["root"]]
        cands = []
        for path, t, v, _ in self.positions(root_t, doc):
            rt = self.resolve(t)
            if v is None or not path:
                continue
            if rt["k"] in ("bool", "int", "float", "string", "enum", "datetime", "any", "array", "map", "union"):
                cands.append((path, rt, v))
        r.shuffle(cands)
        for path, rt, v in cands[:12]:
            for _ in range(6):
                if rt["k"] == "array" and isinstance(v, list):
                    nv = v + [self.valid_of(rt["of"], 3)] if (not v or r.random() < 0.5) else v[:-1]
                elif rt["k"] == "map" and isinstance(v, dict):
                    nv = dict(v)
                    c = r.random()
                    if v and c < 0.4:
                        # same size, one key renamed: the shape the map comparison is blind to
                        k0 = r.choice(list(v))
                        val = nv.pop(k0)
                        nv[k0 + "_"] = val
                    elif v and c < 0.6:
                        del nv[r.choice(list(v))]
                    else:
                        nv["new" + str(len(v))] = self.valid_of(rt["of"], 3)
                else:
                    nv = self.valid_of(rt, 3)
                if not _json_same(nv, v):
                    return self.put(doc, path, nv), path
        return None


    # ---- variants that must NOT change Equals (absent / null / empty collection; same instant)
    def empty_variant(self, doc, defname=None):
        """doc with optional empty collections dropped / absent optional collections given as empty /
        optional nulls dropped; still valid.  Returns None when nothing could be changed."""
        r = self.rng
        root_t = self.defs[defname or self.schema["root"]]
        out = doc
        changed = False
        for path, st, v in self._struct_positions(root_t, doc):
            for f in st["fields"]:
                if f["req"]:
                    continue
                rt = self.resolve(f["t"])
                cur = self.get(out, path)
                if rt["k"] in ("array", "map"):
                    empty = [] if rt["k"] == "array" else {}
                    if f["name"] in cur and cur[f["name"]] in ([], {}, None) and r.random() < 0.7:
                        out = self.put(out, path + (f["name"],), _DELETE)
                        changed = True
                    elif f["name"] not in cur and r.random() < 0.5:
                        out = self.put(out, path + (f["name"],), empty)
                        changed = True
                elif f["name"] in cur and cur[f["name"]] is None and r.random() < 0.7:
                    out = self.put(out, path + (f["name"],), _DELETE)
                    changed = True
        return out if changed else None

    def zeroish(self, t):
        """a valid document for t that decodes to the Go zero value of t's type, or _DELETE if none"""
        rt = self.resolve(t)
        k = rt["k"]
        if k == "string" and rt.get("minlen", 0) == 0:
            return ""
        if k == "int" and self._int_ok(rt, 0):
            return 0
        if k == "float" and self._float_ok(rt, Decimal(0)):
            return 0
        if k == "bool":
            return False
        if k == "array":
            return []
        if k == "map":
            return {}
        if k == "struct" and not any(f["req"] for f in rt["fields"]):
            return {}
        return _DELETE

    @staticmethod
    def _int_ok(t, v):
        return not (("ge" in t and v < t["ge"]) or ("gt" in t and v <= t["gt"]) or
                    ("le" in t and v > t["le"]) or ("lt" in t and v >= t["lt"]))

    _float_ok = _int_ok

    def map_key_variant(self, doc, defname=None):
        """doc with, in one map, a key renamed and its value replaced by the zero value of the value
        type: the pair the generated map comparison (len + lookups of self's keys) is blind to"""
        root_t = self.defs[defname or self.schema["root"]]
        cands = []
        for path, t, v, _ in self.positions(root_t, doc):
            rt = self.resolve(t)
            if rt["k"] == "map" and isinstance(v, dict) and v:
                z = self.zeroish(rt["of"])
                if z is not _DELETE:
                    cands.append((path, v, z))
        if not cands:
            return None
        path, v, z = self.rng.choice(cands)
        k0 = self.rng.choice(list(v))
        nv = {}
        for k, x in v.items():
            if k == k0:
                nv[k + "_r"] = z
            else:
                nv[k] = x
        return self.put(doc, path, nv)

    def intfrac_variant(self, doc, defname=None):
        """doc with one integer written with a zero fraction (7 -> 7.0): the same number in JSON"""
        root_t = self.defs[defname or self.schema["root"]]
        cands = []
        for path, t, v, _ in self.positions(root_t, doc):
            if self.resolve(t)["k"] == "int" and isinstance(v, int) and not isinstance(v, bool) and abs(v) < 10 ** 12:
                cands.append((path, v))
        if not cands:
            return None
        path, v = self.rng.choice(cands)
        return self.put(doc, path, Decimal(str(v) + ".0"))

    def time_variant(self, doc, defname=None):
        """doc with one UTC timestamp written with the other zone designator (Z <-> +00:00)"""
        root_t = self.defs[defname or self.schema["root"]]
        cands = []
        for path, t, v, _ in self.positions(root_t, doc):
            if self.resolve(t)["k"] == "datetime" and isinstance(v, str) and (v.endswith("Z") or v.endswith("+00:00")):
                cands.append((path, v))
        if not cands:
            return None
        path, v = self.rng.choice(cands)
        nv = v[:-1] + "+00:00" if v.endswith("Z") else v[:-6] + "Z"
        return self.put(doc, path, nv)


class _Delete:
    pass


_DELETE = _Delete()


def _dnorm(d):
    """a Decimal printed in plain notation with no superfluous trailing zeros"""
    d = d.normalize()
    if d == d.to_integral_value():
        return Decimal(int(d))
    return d


def _json_same(a, b):
    if isinstance(a, bool) or isinstance(b, bool):
        return a is b
    if isinstance(a, (int, Decimal)) and isinstance(b, (int, Decimal)):
        return Decimal(a) == Decimal(b)
    if type(a) is not type(b):
        return False
    if isinstance(a, list):
        return len(a) == len(b) and all(_json_same(x, y) for x, y in zip(a, b))
    if isinstance(a, dict):
        return a.keys() == b.keys() and all(_json_same(a[k], b[k]) for k in a)
    return a == b


def json_same(a, b):
    return _json_same(a, b)


_STRESS_TS = re.compile(r"^\d{4}-\d\d-\d\dT\d\d:\d\d:\d\d")


def stress_doc(rng, doc, p=0.25):
    """type-agnostic perturbations that exercise encoding/json corner cases (the result is usually NOT
    valid for the schema): a key renamed to a case variant, a scalar member duplicated with another
    value (DupObj), an array element replaced by null, an integer written as n.0, a null member added."""
    def walk(d):
        if isinstance(d, dict):
            items = [(k, walk(v)) for k, v in d.items()]
            if items and rng.random() < p:
                i = rng.randrange(len(items))
                k, v = items[i]
                c = rng.random()
                if c < 0.35 and k:
                    nk = rng.choice([k.upper(), k[0].upper() + k[1:], k.lower(), k.swapcase()])
                    if nk not in [k_ for k_, _ in items]:     # never create a duplicate with a container value
                        items[i] = (nk, v)
                elif c < 0.7 and not isinstance(v, (dict, list, DupObj)) and v is not None:
                    # the duplicate has the same JSON type: Go decodes a later duplicate INTO the earlier
                    # value (visible for disjunction structs), the model replaces it
                    # (a date-time stays a date-time: encoding/json decodes EVERY duplicate of a map[string]time.Time
                    # entry, so an ill-formed discarded duplicate fails the decode: outside the properties' domain)
                    other = (("2000-01-01T00:00:00Z" if _STRESS_TS.match(v) else "dup") if isinstance(v, str)
                             else (not v) if isinstance(v, bool) else 7)
                    pair = [(k, other), (k, v)] if rng.random() < 0.5 else [(k, v), (k, other)]
                    if rng.random() < 0.3 and k:
                        pair[0] = (k.upper(), pair[0][1])
                    items[i:i + 1] = pair
                else:
                    items.append((k + "x", None))
            keys = [k for k, _ in items]
            return dict(items) if len(set(keys)) == len(keys) else DupObj(items)
        if isinstance(d, list):
            out = [walk(x) for x in d]
            if out and rng.random() < p:
                out[rng.randrange(len(out))] = None
            return out
        if isinstance(d, int) and not isinstance(d, bool) and rng.random() < p / 2 and abs(d) < 10 ** 12:
            return Decimal(str(d) + ".0")
        return d
    return walk(doc)


# ------------------------------------------------------------------ coverage bookkeeping
def constructs(schema, doc, defname=None):
    """names of the constructs of `schema` that `doc` exercises (for the non-triviality rule)"""
    g = DocGen(None, schema)
    out = set()
    for path, t, v, _ in g.positions(g.defs[defname or schema["root"]], doc):
        k = t["k"]
        if v is None:
            out.add("null")
            continue
        out.add(k)
        if k == "int" and t["w"] != "int64":
            out.add("width")
        if k in ("int", "float") and any(b in t for b in ("ge", "gt", "le", "lt")):
            out.add("bound")
        if k == "string" and ("minlen" in t or "maxlen" in t):
            out.add("length")
        if k == "struct" and path:
            out.add("nested")
    return out


def schema_constructs(schema):
    out = set()

    def walk(t):
        out.add(t["k"])
        if t["k"] in ("array", "map"):
            walk(t["of"])
        elif t["k"] == "struct":
            for f in t["fields"]:
                walk(f["t"])
                if f.get("null"):
                    out.add("nullable")
                if not f["req"]:
                    out.add("optional")
        elif t["k"] == "union":
            for b in t["of"]:
                walk(b)
    for d in schema["defs"]:
        walk(d["t"])
    return out
