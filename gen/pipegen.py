"""Generator of whole-pipeline cases for C03 / C07: input schema files (JSON Schema, OpenAPI),
transformation files, and a pipeline configuration, as a dict of relative path -> text.

A case is described by a small JSON-serialisable SPEC (so that replay files carry everything) and
rendered by `render(spec)`. The shapes the two properties name are generated on purpose:
  * >= 3 packages, cross-package-free schemas with colliding definition names across packages;
  * a disjunction of references whose branches share TWO constant string fields
    (two candidate discriminator fields for DisjunctionInferMapping);
  * a fields_set_default transformation with two keys that match one field (case-insensitive match);
  * nested %param% values in the `parameters` block;
  * struct-typed fields with an object default holding >= 2 keys;
  * two inputs contributing to the same package: disjoint, equal redefinition, or conflicting;
  * builders / converters / api_reference on or off, any subset of the seven languages.
"""
import copy
import json

LANGS = ["go", "java", "jsonschema", "openapi", "php", "python", "typescript"]

LANG_CFG = {
    "go": {"package_root": "github.com/verif/%pkgroot%", "generate_json_marshaller": True, "generate_equal": True,
           "generate_validate": True},
    "java": {"package_path": "com.verif.gen", "generate_json_marshaller": True},
    "jsonschema": {},
    "openapi": {},
    "php": {"namespace_root": "Verif\\Gen", "generate_json_marshaller": True},
    "python": {"path_prefix": "verif_gen", "generate_json_marshaller": True},
    "typescript": {},
}

INTERSECTION_LANGS = ["java", "jsonschema", "openapi", "typescript"]

PKG_NAMES = ["alpha", "beta", "gamma", "delta", "epsilon"]
OBJ_NAMES = ["Config", "Options", "Target", "Panel", "Query", "Legend", "Axis", "Threshold"]
FIELD_NAMES = ["name", "title", "mode", "size", "enabled", "tags", "labels", "unit", "limit", "color"]


# ----------------------------------------------------------------------------- spec generation
def gen_field_type(rng, objs, depth=0):
    r = rng.random()
    if r < 0.22:
        return {"t": "string"}
    if r < 0.36:
        return {"t": "integer"}
    if r < 0.46:
        return {"t": "boolean"}
    if r < 0.54:
        return {"t": "number"}
    if r < 0.64 and objs:
        return {"t": "ref", "to": rng.choice(objs)}
    if r < 0.74 and depth < 2:
        return {"t": "array", "of": gen_field_type(rng, objs, depth + 1)}
    if r < 0.82 and depth < 2:
        return {"t": "map", "of": gen_field_type(rng, objs, depth + 1)}
    if r < 0.90:
        return {"t": "enum", "values": rng.sample(["up", "down", "left", "right", "auto"], rng.randint(2, 4))}
    return {"t": "string", "default": rng.choice(["x", "y", "hello"])}


def gen_struct(rng, objs, nfields=None):
    n = nfields or rng.randint(1, 5)
    names = rng.sample(FIELD_NAMES, n)
    fields = []
    for fn in names:
        fields.append({"name": fn, "type": gen_field_type(rng, objs), "required": rng.random() < 0.5})
    return {"kind": "struct", "fields": fields}


def gen_package(rng, pkg, shapes):
    """-> list of definitions [{name, def}], first one is the root."""
    nobj = rng.randint(2, 5)
    names = rng.sample(OBJ_NAMES, nobj)
    defs = []
    done = []
    for n in reversed(names):          # later objects may reference earlier generated ones
        defs.append({"name": n, "def": gen_struct(rng, list(done))})
        done.append(n)
    defs.reverse()
    root = defs[0]
    if shapes.get("two_discriminators"):
        # two branch structs sharing two constant string fields, and a disjunction field in the root
        for i, bn in enumerate(["ShapeCircle", "ShapeSquare"]):
            defs.append({"name": bn, "def": {"kind": "struct", "fields": [
                {"name": "kind", "type": {"t": "const", "value": "k%d" % i}, "required": True},
                {"name": "type", "type": {"t": "const", "value": "t%d" % i}, "required": True},
                {"name": "radius" if i == 0 else "side", "type": {"t": "number"}, "required": False}]}})
        root["def"]["fields"].append({"name": "shape", "type": {"t": "oneof", "refs": ["ShapeCircle", "ShapeSquare"]},
                                      "required": False})
    if shapes.get("intersection"):
        # allOf[$ref, inline struct]: the inline branch holds what language passes rewrite in place
        # (optional field, T | null, scalar disjunction)
        defs.append({"name": "InterBase", "def": {"kind": "struct", "fields": [
            {"name": "id", "type": {"t": "string"}, "required": True}]}})
        defs.append({"name": "InterExtended", "def": {"kind": "struct", "base": "InterBase", "fields": [
            {"name": "note", "type": {"t": "string"}, "required": False},
            {"name": "value", "type": {"t": "scalars", "types": ["string", "boolean"]}, "required": True},
            {"name": "maybe", "type": {"t": "scalars", "types": ["integer", "null"]}, "required": False}]}})
        root["def"]["fields"].append({"name": "extended", "type": {"t": "ref", "to": "InterExtended"}, "required": False})
    if shapes.get("struct_default"):
        root["def"]["fields"].append({"name": "weights", "type": {"t": "map", "of": {"t": "integer"}}, "required": False})
        defs.append({"name": "Point", "def": {"kind": "struct", "fields": [
            {"name": "x", "type": {"t": "integer"}, "required": True},
            {"name": "y", "type": {"t": "integer"}, "required": True},
            {"name": "z", "type": {"t": "integer"}, "required": False}]}})
        root["def"]["fields"].append({"name": "origin", "type": {"t": "ref", "to": "Point", "default": {"x": 1, "y": 2, "z": 3}},
                                      "required": False})
    link_unreferenced(defs)
    return defs


def refs_in(t, out):
    if t["t"] == "ref":
        out.add(t["to"])
    elif t["t"] == "oneof":
        out.update(t["refs"])
    elif t["t"] in ("array", "map"):
        refs_in(t["of"], out)


def link_unreferenced(defs):
    """the parsers only keep definitions reachable from the root: reference every other one from it"""
    root = defs[0]
    seen = set()
    for d in defs:
        if d["def"].get("base"):
            seen.add(d["def"]["base"])
        for f in d["def"]["fields"]:
            refs_in(f["type"], seen)
    for d in defs[1:]:
        if d["name"] not in seen:
            root["def"]["fields"].append({"name": "ref" + d["name"], "type": {"t": "ref", "to": d["name"]}, "required": False})


def gen_spec(rng, langs=None, npkgs=None, shapes=None, flags=None):
    shapes = dict(shapes or {})
    npkgs = npkgs or rng.randint(3, 4)
    pkgs = rng.sample(PKG_NAMES, npkgs)
    inputs = []
    for i, p in enumerate(pkgs):
        sh = {"intersection": shapes.get("intersection") and i == (1 if npkgs > 2 else 0),
              "two_discriminators": shapes.get("two_discriminators") and i == 0,
              "struct_default": shapes.get("struct_default") and i <= 1}
        inputs.append({"pkg": p, "format": "openapi" if (shapes.get("openapi") and i == npkgs - 1) else "jsonschema",
                       "file": "schemas/%s_%d.json" % (p, i), "defs": gen_package(rng, p, sh), "transforms": []})
    spec = {
        "inputs": inputs,
        "languages": list(langs) if langs else sorted(rng.sample(LANGS, rng.randint(2, 5))),
        "types": True, "builders": False, "converters": False, "api_reference": False,
        "parameters": {"pkgroot": "gen"},
        "common_transforms": [],
    }
    if flags:
        spec.update(flags)
    if shapes.get("case_twins"):
        # two definitions whose names differ only in letter case (legal in JSON Schema and OpenAPI), in a
        # JSON Schema input and in an OpenAPI input: their order must come from a total order on names.
        # Only the schema outputs accept them (identifiers colliding after casing are C02's finding).
        inputs[-1]["format"] = "openapi"
        for inp in (inputs[0], inputs[-1]):
            for n, k in (("status", "string"), ("Status", "integer")):
                inp["defs"].append({"name": n, "def": {"kind": "struct", "fields": [
                    {"name": "code", "type": {"t": k}, "required": True}]}})
            inp["defs"][0]["def"]["fields"] += [
                {"name": "statusLower", "type": {"t": "ref", "to": "status"}, "required": False},
                {"name": "statusUpper", "type": {"t": "ref", "to": "Status"}, "required": False}]
        spec["languages"] = ["jsonschema", "openapi"]
        spec["builders"] = spec["converters"] = spec["api_reference"] = False
    if shapes.get("intersection") and not shapes.get("case_twins"):
        # allOf with an inline struct branch is only generated successfully by these (go emits code
        # goimports rejects, php reports an unhandled kind, python panics)
        keep = [l for l in spec["languages"] if l in INTERSECTION_LANGS]
        spec["languages"] = keep if len(keep) >= 2 else list(INTERSECTION_LANGS)
    if shapes.get("nested_params"):
        # %outer% -> 'x%inner%' -> 'xgen': the result depends on which key is substituted first
        spec["parameters"] = {"pkgroot": "%outer%", "outer": "o%inner%", "inner": "gen"}
    if shapes.get("mutual_params"):
        # two parameters mentioning each other, and two placeholders sharing a '%': a single pass in a
        # fixed key order is deterministic; anything that expands "until nothing changes" while
        # ranging over the map is not
        spec["parameters"] = {"pkgroot": "%rootb%/x", "rootb": "%pkgroot%/y", "org": "acme", "project": "sdk"}
        spec.setdefault("lang_cfg", {}).setdefault("python", {})["path_prefix"] = "verif_%org%project%"
        spec["builders"] = True
    if shapes.get("veneer_levels") and spec.get("builders"):
        # veneers for `language: all` AND for one specific language, whose rules do not commute: the
        # common file renames an option, the language file omits the option under its NEW name
        p0 = inputs[0]
        root = p0["defs"][0]
        fld = root["def"]["fields"][0]["name"]
        specific = next((l for l in spec["languages"] if l in ("go", "python", "typescript", "java", "php")), None)
        if specific:
            spec.setdefault("veneers", []).append({"language": "all", "package": p0["pkg"], "options": [
                {"rename": {"by_name": "%s.%s" % (root["name"], fld), "as": "renamedByCommonVeneer"}}]})
            spec["veneers"].append({"language": specific, "package": p0["pkg"], "options": [
                {"omit": {"by_name": "%s.renamedByCommonVeneer" % root["name"]}}]})
    if shapes.get("set_default_twice"):
        p0 = inputs[0]
        root = p0["defs"][0]
        f = next((f for f in root["def"]["fields"] if f["type"]["t"] in ("string", "integer")), None)
        if f is None:
            f = {"name": "label", "type": {"t": "string"}, "required": False}
            root["def"]["fields"].append(f)
        v1, v2 = ("one", "two") if f["type"]["t"] == "string" else (1, 2)
        spec["common_transforms"].append({"fields_set_default": {"defaults": {
            "%s.%s.%s" % (p0["pkg"], root["name"], f["name"]): v1,
            "%s.%s.%s" % (p0["pkg"], root["name"].lower(), f["name"].upper()): v2}}})
    if shapes.get("rename_root"):
        # renaming the object the entry point names rewrites references in place
        spec["common_transforms"].append({"rename_object": {"from": "%s.%s" % (inputs[-1]["pkg"], inputs[-1]["defs"][0]["name"]),
                                                            "to": inputs[-1]["defs"][0]["name"] + "Renamed"}})
    if shapes.get("config_maps"):
        # maps of the configuration itself: templates_data, extra --parameters, typescript import map,
        # a hint_object transformation with two hints
        spec["templates_data"] = {"Version": "v-%pkgroot%", "Owner": "team %pkgroot%"}
        spec["extra_parameters"] = {"build": "1", "channel": "dev"}
        spec.setdefault("lang_cfg", {}).setdefault("typescript", {})["packages_import_map"] = {
            inputs[0]["pkg"]: "@verif/" + inputs[0]["pkg"], inputs[1]["pkg"]: "@verif/" + inputs[1]["pkg"]}
        spec["common_transforms"].append({"hint_object": {"object": "%s.%s" % (inputs[0]["pkg"], inputs[0]["defs"][0]["name"]),
                                                          "hints": {"verif_a": "1", "verif_b": "2"}}})
    if shapes.get("struct_default"):
        for inp in inputs[:2]:
            rn = inp["defs"][0]["name"]
            spec["common_transforms"].append({"fields_set_default": {"defaults": {
                "%s.%s.origin" % (inp["pkg"], rn): {"x": 1, "y": 2, "z": 3},
                "%s.%s.weights" % (inp["pkg"], rn): {"a": 1, "b": 2, "c": 3}}}})
    if shapes.get("same_package"):
        mode = shapes["same_package"]     # disjoint | equal | conflict
        base = inputs[0]
        extra = {"pkg": base["pkg"], "format": "jsonschema", "file": "schemas/%s_extra.json" % base["pkg"], "transforms": []}
        if mode == "disjoint":
            extra["defs"] = [{"name": "ExtraRoot", "def": gen_struct(rng, [], 2)},
                             {"name": "ExtraLeaf", "def": gen_struct(rng, [], 2)}]
            extra["defs"][0]["def"]["fields"].append({"name": "leaf", "type": {"t": "ref", "to": "ExtraLeaf"}, "required": False})
        else:
            shared = copy.deepcopy(base["defs"][-1])
            shared["def"]["fields"] = [f for f in shared["def"]["fields"] if f["type"]["t"] not in ("ref", "oneof")]
            if not shared["def"]["fields"]:
                shared["def"]["fields"] = [{"name": "name", "type": {"t": "string"}, "required": True}]
            base["defs"][-1] = copy.deepcopy(shared)
            if mode == "conflict":
                shared["def"]["fields"][0]["type"] = ({"t": "boolean"} if shared["def"]["fields"][0]["type"]["t"] != "boolean"
                                                      else {"t": "string"})
            extra["defs"] = [{"name": "ExtraRoot", "def": {"kind": "struct", "fields": [
                {"name": "shared", "type": {"t": "ref", "to": shared["name"]}, "required": False}]}}, shared]
        inputs.append(extra)
    if shapes.get("factories") and spec.get("builders"):
        for inp in inputs[:2]:
            spec.setdefault("veneers", []).append({"language": "all", "package": inp["pkg"], "builders": [
                {"add_factory": {"by_object": inp["defs"][0]["name"], "factory": {"name": "preset" + inp["pkg"].title()}}}]})
    if shapes.get("compose") and spec.get("builders"):
        inputs.append({"pkg": "dash", "format": "jsonschema", "file": "schemas/dash.json", "transforms": [], "defs": [
            {"name": "Panel", "def": {"kind": "struct", "fields": [
                {"name": "type", "type": {"t": "string"}, "required": True},
                {"name": "title", "type": {"t": "string"}, "required": False},
                {"name": "description", "type": {"t": "string"}, "required": False},
                {"name": "transparent", "type": {"t": "boolean"}, "required": False},
                {"name": "repeat", "type": {"t": "string"}, "required": False},
                {"name": "options", "type": {"t": "any"}, "required": False}]}}]})
        # five options are inherited from dash.Panel (not a power of two: a slice of them has spare
        # capacity); every plugin adds two or three of its own
        for ident, n in (("pluga", 2), ("plugb", 3)):
            inputs.append({"pkg": ident, "format": "jsonschema", "file": "schemas/%s.json" % ident, "transforms": [],
                           "metadata": {"kind": "composable", "variant": "panelcfg", "identifier": ident},
                           "defs": [{"name": "Options", "def": gen_struct(rng, [], n)}]})
        spec.setdefault("veneers", []).append({"language": "all", "package": "dash", "builders": [
            {"compose": {"by_variant": "panelcfg", "source_builder_name": "dash.Panel", "plugin_discriminator_field": "type",
                         "composition_map": {"Options": "options"}, "composed_builder_name": "Panel"}}]})
    if shapes.get("same_named_append") and spec.get("builders"):
        # two unrelated packages define an object of the same name with an array field of the same name,
        # and a veneer turns that option into an `append` option in both: same builder name, same
        # option name, same path needing a nil check - in different packages
        for inp in inputs[:2]:
            inp["defs"].append({"name": "Settings", "def": {"kind": "struct", "fields": [
                {"name": "title", "type": {"t": "string"}, "required": False},
                {"name": "tags", "type": {"t": "array", "of": {"t": "string"}}, "required": False}]}})
            link_unreferenced(inp["defs"])
            spec.setdefault("veneers", []).append({"language": "all", "package": inp["pkg"], "options": [
                {"array_to_append": {"by_name": "Settings.tags"}}]})
    if shapes.get("colliding_names"):
        # the same definition name (different content) in two different packages
        for inp in inputs[:2]:
            inp["defs"].append({"name": "Common", "def": gen_struct(rng, [], 2)})
            link_unreferenced(inp["defs"])
    if shapes.get("case_twins"):
        spec["builders"] = spec["converters"] = spec["api_reference"] = False
    return spec


# ----------------------------------------------------------------------------- rendering
def js_type(t, refprefix):
    k = t["t"]
    out = None
    if k in ("string", "integer", "boolean", "number"):
        out = {"type": k}
    elif k == "const":
        out = {"type": "string", "const": t["value"]}
    elif k == "ref":
        out = {"$ref": refprefix + t["to"]}
        if "default" in t:
            # a default next to $ref is ignored by draft-7 readers: wrap
            out = {"allOf": [{"$ref": refprefix + t["to"]}], "default": t["default"]}
            out = {"$ref": refprefix + t["to"], "default": t["default"]}
    elif k == "array":
        out = {"type": "array", "items": js_type(t["of"], refprefix)}
    elif k == "map":
        out = {"type": "object", "additionalProperties": js_type(t["of"], refprefix)}
    elif k == "enum":
        out = {"type": "string", "enum": list(t["values"])}
    elif k == "any":
        out = {}
    elif k == "scalars":
        out = {"type": list(t["types"])}
    elif k == "oneof":
        out = {"oneOf": [{"$ref": refprefix + r} for r in t["refs"]]}
    else:
        raise ValueError(k)
    if "default" in t and k != "ref":
        out["default"] = t["default"]
    return out


def js_def(d, refprefix):
    if d.get("base"):
        # an intersection: a reference and an INLINE struct branch
        inline = js_def({"fields": d["fields"]}, refprefix)
        return {"allOf": [{"$ref": refprefix + d["base"]}, inline]}
    props = {}
    req = []
    for f in d["fields"]:
        props[f["name"]] = js_type(f["type"], refprefix)
        if f["required"]:
            req.append(f["name"])
    out = {"type": "object", "properties": props}
    if req:
        out["required"] = req
    return out


def render_input(inp):
    defs = inp["defs"]
    if inp["format"] == "jsonschema":
        doc = {"$schema": "http://json-schema.org/draft-07/schema#", "$ref": "#/definitions/" + defs[0]["name"],
               "definitions": {d["name"]: js_def(d["def"], "#/definitions/") for d in defs}}
    else:
        doc = {"openapi": "3.0.0", "info": {"title": inp["pkg"], "version": "1.0.0"}, "paths": {},
               "components": {"schemas": {d["name"]: js_def(d["def"], "#/components/schemas/") for d in defs}}}
    return json.dumps(doc, indent=1, sort_keys=True) + "\n"


def yaml_scalar(v):
    return json.dumps(v)        # JSON scalars / flow collections are valid YAML


def render(spec):
    """-> case dict(files={rel: text}, config='cog.yaml')"""
    files = {}
    lines = ["parameters:"]
    for k, v in spec["parameters"].items():
        lines.append("  %s: %s" % (k, yaml_scalar(v)))
    lines.append("inputs:")
    for i, inp in enumerate(spec["inputs"]):
        files[inp["file"]] = render_input(inp)
        lines.append("  - %s:" % inp["format"])
        lines.append("      path: %s" % yaml_scalar("%__config_dir%/" + inp["file"]))
        lines.append("      package: %s" % inp["pkg"])
        if inp.get("metadata"):
            lines.append("      metadata: %s" % json.dumps(inp["metadata"]))
        if inp.get("transforms"):
            tf = "transforms/input_%d.yaml" % i
            files[tf] = "passes: " + json.dumps(inp["transforms"]) + "\n"
            lines.append("      transformations: [%s]" % yaml_scalar("%__config_dir%/" + tf))
    if spec.get("common_transforms"):
        files["transforms/common.yaml"] = "passes: " + json.dumps(spec["common_transforms"]) + "\n"
        lines.append("transformations:")
        lines.append("  schemas: [%s]" % yaml_scalar("%__config_dir%/transforms/common.yaml"))
    if spec.get("veneers"):
        for i, v in enumerate(spec["veneers"]):
            files["veneers/v%02d.yaml" % i] = json.dumps(v, indent=1) + "\n"
        if not spec.get("common_transforms"):
            lines.append("transformations:")
        lines.append("  builders: [%s]" % yaml_scalar("%__config_dir%/veneers"))
    lines.append("output:")
    lines.append("  directory: 'out/%l'")
    for k in ("types", "builders", "converters", "api_reference"):
        lines.append("  %s: %s" % (k, "true" if spec.get(k) else "false"))
    if spec.get("templates_data"):
        lines.append("  templates_data: " + json.dumps(spec["templates_data"]))
    lines.append("  languages:")
    for lang in spec["languages"]:
        cfg = copy.deepcopy(LANG_CFG[lang])
        cfg.update(spec.get("lang_cfg", {}).get(lang, {}))
        lines.append("    - %s: %s" % (lang, json.dumps(cfg)))
    files["cog.yaml"] = "\n".join(lines) + "\n"
    return {"files": files, "config": "cog.yaml"}


SHAPE_KEYS = ["two_discriminators", "struct_default", "nested_params", "set_default_twice", "colliding_names", "openapi",
              "factories", "compose", "config_maps", "rename_root", "intersection", "mutual_params", "veneer_levels",
              "same_named_append", "case_twins"]


def gen_case(rng, langs=None, shapes=None, flags=None, npkgs=None):
    if shapes is None:
        shapes = {k: rng.random() < 0.5 for k in SHAPE_KEYS}
    if flags is None:
        b = rng.random() < 0.6
        flags = {"builders": b, "converters": b and rng.random() < 0.5, "api_reference": rng.random() < 0.4}
    spec = gen_spec(rng, langs=langs, npkgs=npkgs, shapes=shapes, flags=flags)
    spec["shapes"] = {k: v for k, v in shapes.items() if v}
    return spec
