"""Generator of intermediate representations (harness JSON format, see harness/verifh/ir.go)
and of schema-transformation parameterisations.  Every random choice comes from the `rng`
passed in."""

PKGS = ["alpha", "beta", "gamma"]
OBJ_NAMES = ["Foo", "foo", "Bar", "BarBaz", "bar_baz", "Qux", "spec", "Spec", "metadata", "Alpha", "beta",
             "Options", "FooOptions", "Kind", "kind", "Item", "Ref2"]
FIELD_NAMES = ["id", "name", "Name", "kind", "type", "items", "options", "value", "extra", "tags", "Tags", "ref"]
SCALARS = ["string", "int64", "int32", "uint8", "float64", "float32", "bool", "any", "bytes", "uint64"]
COMMENTS = ["a comment", "second line", "TODO", ""]
CHAIN_OBJ_NAMES = ["CatA", "CatB", "CatC", "AliasOne", "AliasTwo", "Konst", "Choice", "ListOf", "Holder", "Level"]


def dstr(s):
    return {"t": "str", "v": s}


def dint(i, t="int64"):
    return {"t": t, "v": i}


def dfloat(s):
    return {"t": "float64", "v": s}


def dbool(b):
    return {"t": "bool", "v": b}


def gen_dyn(rng, depth=0):
    c = rng.random()
    if c < 0.25:
        return dstr(rng.choice(["x", "hello", " padded ", "", "a.b"]))
    if c < 0.45:
        return dint(rng.randint(-3, 100))
    if c < 0.55:
        return dfloat(rng.choice(["1.5", "0.25", "-2.5", "100"]))
    if c < 0.65:
        return dbool(rng.random() < 0.5)
    if c < 0.72:
        return {"t": "number", "v": rng.choice(["1.5", "42"])}
    if depth < 2 and c < 0.85:
        return {"t": "list", "v": [gen_dyn(rng, depth + 1) for _ in range(rng.randint(0, 3))]}
    if depth < 2:
        return {"t": "map", "v": {k: gen_dyn(rng, depth + 1) for k in rng.sample(["a", "b", "c"], rng.randint(0, 3))}}
    return None


class IRGen:
    def __init__(self, rng, max_depth=4, malformed=False, features=None):
        self.rng = rng
        self.max_depth = max_depth
        self.malformed = malformed
        self.features = features or {}
        self.universe = []  # (pkg, name) of objects that will exist

    # ---- types
    def attrs(self, t, allow_default=True):
        r = self.rng
        if r.random() < 0.15:
            t["null"] = True
        if allow_default and r.random() < 0.12:
            t["def"] = gen_dyn(r)
        if r.random() < 0.06:
            t["hints"] = {r.choice(["custom_hint", "implements_variant", "kind_hint"]): dstr(r.choice(["dataquery", "panelcfg", "v"]))}
        return t

    def scalar(self, kind=None, concrete=None):
        r = self.rng
        kind = kind or r.choice(SCALARS)
        t = {"k": "scalar", "sk": kind}
        if concrete is None:
            concrete = r.random() < 0.12
        if concrete:
            if kind == "string":
                t["val"] = dstr(r.choice(["const", "other-const", "a b"]))
            elif kind in ("int64", "int32", "uint8", "uint64"):
                t["val"] = dint(r.randint(0, 9), kind)
            elif kind == "bool":
                t["val"] = dbool(True)
            elif kind in ("float64", "float32"):
                t["val"] = {"t": kind, "v": "1.5"}
        if r.random() < 0.15 and kind in ("string", "int64", "int32", "float64", "uint8"):
            if kind == "string":
                t["cs"] = [{"op": r.choice(["minLength", "maxLength"]), "args": [dint(r.randint(0, 9), "int64")]}]
            else:
                t["cs"] = [{"op": r.choice([">=", "<", "<=", ">"]), "args": [dint(r.randint(0, 9), "int64")]}]
        return self.attrs(t)

    def ref(self, pkg):
        r = self.rng
        c = r.random()
        if self.universe and (c < 0.88 or (self.features.get("resolving") and c < 0.94)):
            same = [u for u in self.universe if u[0] == pkg]
            if same and r.random() < 0.7:
                p, n = r.choice(same)
            else:
                p, n = r.choice(self.universe)
        elif c < 0.94:
            p, n = pkg, r.choice(["Missing", "Gone"])          # dangling in a loaded package
        else:
            p, n = "notloaded", r.choice(["Ext", "Other"])      # package that is not loaded
        return self.attrs({"k": "ref", "pkg": p, "name": n}, allow_default=False)

    def enum(self):
        r = self.rng
        if r.random() < 0.7:
            names = r.sample(["a", "b", "c d", " lead", "x-y", "1", "N/A", "up", "Down"], r.randint(1, 4))
            vals = [{"type": {"k": "scalar", "sk": "string"}, "name": n if r.random() < 0.8 else n.upper(), "val": dstr(n)} for n in names]
        else:
            nums = r.sample([0, 1, 2, 5, -1, 10], r.randint(1, 4))
            vals = [{"type": {"k": "scalar", "sk": "int64"}, "name": r.choice(["n%d" % abs(n), str(abs(n)), "v_%d" % abs(n)]), "val": dint(n)} for n in nums]
        t = {"k": "enum", "values": vals}
        if r.random() < 0.2 and vals:
            t["def"] = vals[0]["val"]
        if r.random() < 0.1:
            t["null"] = True
        return t

    def struct(self, pkg, depth):
        r = self.rng
        names = r.sample(FIELD_NAMES, r.randint(0, 4))
        fields = []
        for n in names:
            f = {"name": n, "type": self.type(pkg, depth + 1), "req": r.random() < 0.6}
            if r.random() < 0.2:
                f["comments"] = [r.choice(COMMENTS)]
            fields.append(f)
        t = {"k": "struct", "fields": fields}
        if r.random() < 0.05:
            t["null"] = True
        return t

    def disj(self, pkg, depth):
        r = self.rng
        c = r.random()
        if c < 0.3:
            branches = [self.scalar(concrete=False) for _ in range(r.randint(2, 3))]
        elif c < 0.45:
            branches = [self.type(pkg, depth + 1), {"k": "scalar", "sk": "null"}]
            if r.random() < 0.4:
                branches.reverse()          # `null | T` is as legal as `T | null`
        elif c < 0.6:
            branches = [self.scalar("string", concrete=True) for _ in range(r.randint(2, 3))]
        elif c < 0.8:
            branches = [self.ref(pkg) for _ in range(r.randint(2, 3))]
        else:
            branches = [self.type(pkg, depth + 1) for _ in range(r.randint(1, 3))]
        t = {"k": "disj", "branches": branches}
        if r.random() < 0.25:
            t["disc"] = r.choice(["kind", "type"])
            if r.random() < 0.6:
                t["mapping"] = {r.choice(["a", "b", "c"]): (b.get("name", "X")) for b in branches if b.get("k") == "ref"}
        return self.attrs(t, allow_default=False)

    def type(self, pkg, depth=0):
        r = self.rng
        if self.features.get("chain") and depth < self.max_depth and r.random() < 0.22:
            return self.chain_type(pkg, depth)
        c = r.random()
        leaf = depth >= self.max_depth
        if leaf or c < 0.34:
            if c < 0.22 or not self.universe:
                return self.scalar()
            return self.ref(pkg)
        if c < 0.46:
            return self.attrs({"k": "array", "v": self.type(pkg, depth + 1)})
        if c < 0.56:
            idx = self.scalar("string", concrete=False) if r.random() < 0.85 else self.type(pkg, depth + 1)
            return self.attrs({"k": "map", "i": idx, "v": self.type(pkg, depth + 1)})
        if c < 0.70:
            return self.struct(pkg, depth)
        if c < 0.80:
            return self.enum()
        if c < 0.92:
            # the same union often occurs several times in a schema (required here, optional there)
            pool = self.__dict__.setdefault("union_pool", [])
            if pool and r.random() < 0.3:
                import copy as _copy
                u = _copy.deepcopy(r.choice(pool))
                u.pop("null", None)
                return u
            u = self.disj(pkg, depth)
            if len(pool) < 6:
                pool.append(u)
            return u
        if c < 0.96:
            return {"k": "inter", "branches": [self.type(pkg, depth + 1) for _ in range(r.randint(1, 3))]}
        if c < 0.98 and self.universe:
            p, n = r.choice(self.universe)
            return {"k": "cref", "pkg": p, "name": n, "val": gen_dyn(r)}
        return {"k": "slot", "variant": r.choice(["dataquery", "panelcfg"])}

    # ---- shapes the language-chain passes care about (features["chain"])
    def const_str(self, v=None):
        return {"k": "scalar", "sk": "string", "val": dstr(v if v is not None else self.rng.choice(["a", "b", "c", "const", "a b", ""]))}

    def odd_enum(self):
        """enum members with empty / signed / numeric names, empty values, mismatched or non-scalar member types"""
        r = self.rng
        if self.features.get("tame"):      # fewer inputs on which the passes panic
            return self.enum()
        vals = []
        for _ in range(r.randint(0, 4)):
            c = r.random()
            name = r.choice(["", "-1", "+5", "-x", "+", "-", "007", "12", "a", "Up", "a-b", "-12a", "99999999999999999999", "+0", "N1"])
            if c < 0.45:
                v = {"type": {"k": "scalar", "sk": "string"}, "name": name, "val": dstr(r.choice(["", "", "x", name]))}
            elif c < 0.8:
                v = {"type": {"k": "scalar", "sk": r.choice(["int64", "int64", "int32", "float64", "uint8"])}, "name": name, "val": dint(r.randint(-3, 9))}
            elif c < 0.88:
                v = {"type": {"k": "scalar", "sk": "string"}, "name": name, "val": r.choice([dint(3), None, dbool(True)])}
            elif c < 0.94:
                v = {"type": {"k": "scalar", "sk": "bool"}, "name": name, "val": dbool(True)}
            else:
                v = {"type": self.ref("alpha"), "name": name or "m", "val": dstr("x")}
            vals.append(v)
        t = {"k": "enum", "values": vals}
        if r.random() < 0.3:
            t["def"] = gen_dyn(r)
        if r.random() < 0.3:
            t["null"] = True
        if r.random() < 0.15:
            t["hints"] = {"custom_hint": dstr("v")}
        return t

    def const_scalar(self):
        r = self.rng
        kind = r.choice(["string", "string", "int64", "int64", "float64", "bool", "uint8", "bytes"])
        t = {"k": "scalar", "sk": kind}
        if kind == "string":
            t["val"] = dstr(r.choice(["a", "b", "c", "", "x y"]))
        elif kind in ("int64", "uint8"):
            t["val"] = dint(r.randint(0, 3), kind)
        elif kind == "float64":
            t["val"] = dfloat(r.choice(["1.5", "100", "0.25"]))
        elif kind == "bool":
            t["val"] = dbool(r.random() < 0.5)
        else:
            t["val"] = r.choice([dstr("raw"), dint(1)])
        if r.random() < 0.2:
            t["null"] = True
        return t

    def refs_named(self, pkg, names):
        return [{"k": "ref", "pkg": pkg, "name": n} for n in names]

    def family_refs(self, pkg):
        """references to the struct family (objects sharing a constant discriminator field) of `pkg`"""
        r = self.rng
        fam = [n for (p, n) in self.universe if p == pkg and n.startswith("Cat")]
        if not fam:
            return None
        names = [r.choice(fam) for _ in range(r.randint(1, 3))] if r.random() < 0.3 else r.sample(fam, r.randint(1, len(fam)))
        bs = self.refs_named(pkg, names)
        if r.random() < 0.15 and not self.features.get("tame"):
            bs.append(self.ref(pkg))
        for b in bs:
            if r.random() < 0.1:
                b["null"] = True
        return bs

    def anon_struct_branch(self, pkg, depth):
        r = self.rng
        t = self.struct(pkg, depth)
        if r.random() < 0.6:
            t["fields"].insert(r.randint(0, len(t["fields"])),
                               {"name": r.choice(["kind", "type", "my-kind"]), "type": r.choice([self.const_str(), self.const_scalar()]), "req": True})
        return t

    def chain_disj(self, pkg, depth):
        r = self.rng
        c = r.random()
        if c < 0.015 and not self.features.get("tame"):
            branches = [{"k": "scalar", "sk": "null"}, {"k": "scalar", "sk": "null"}]
        elif c < 0.16:
            branches = [{"k": "scalar", "sk": "null"}, self.type(pkg, depth + 1)]
            if r.random() < 0.3:
                branches.append(self.type(pkg, depth + 1))
        elif c < 0.30:       # constants, possibly through references / nested disjunctions / enums
            branches = []
            for _ in range(r.randint(1, 4)):
                d = r.random()
                if d < 0.5:
                    branches.append(self.const_scalar() if r.random() < 0.4 else self.const_str())
                elif d < 0.75:
                    branches.append(self.ref(pkg))
                elif d < 0.85:
                    branches.append(self.enum() if r.random() < 0.7 else self.odd_enum())
                else:
                    branches.append({"k": "disj", "branches": [self.const_str() for _ in range(r.randint(0, 2))]})
        elif c < 0.40:       # constant + plain scalar of (maybe) the same kind
            k = r.choice(["string", "int64", "bool"])
            a = {"k": "scalar", "sk": k, "val": dstr("dflt") if k == "string" else (dint(7) if k == "int64" else dbool(True))}
            b = self.scalar(k if r.random() < 0.8 else "string", concrete=r.random() < 0.15)
            branches = [a, b] if r.random() < 0.5 else [b, a]
        elif c < 0.62:       # references to a struct family
            branches = self.family_refs(pkg) or [self.ref(pkg) for _ in range(r.randint(0, 3))]
        elif c < 0.76:       # anonymous structs
            branches = [self.anon_struct_branch(pkg, depth + 1) if r.random() < 0.7 else self.type(pkg, depth + 1)
                        for _ in range(r.randint(1, 3))]
        elif c < 0.88:       # same-kind scalars, scalars through references, duplicates
            k = r.choice(SCALARS)
            branches = [self.scalar(k) if r.random() < 0.7 else self.ref(pkg) for _ in range(r.randint(1, 3))]
            if r.random() < 0.3:
                branches.append(dict(branches[0]))
        elif c < 0.94 and not self.features.get("tame"):
            branches = []
        else:                # nested
            branches = [self.chain_disj(pkg, depth + 1) if depth + 1 < self.max_depth else self.scalar() for _ in range(r.randint(1, 2))]
            branches.append(self.type(pkg, depth + 1))
        t = {"k": "disj", "branches": branches}
        d = r.random()
        if d < 0.3:
            t["disc"] = r.choice(["kind", "type", "absent"])
        if d < 0.2 or d > 0.92:
            t["mapping"] = {r.choice(["a", "b", "c"]): b.get("name", "X") for b in branches if b.get("k") == "ref"}
        if branches and all(b.get("k") == "ref" for b in branches) and r.random() < 0.45:
            t["disc"] = r.choice(["kind", "kind", "type"])
            t["mapping"] = {"abc"[i % 3] if r.random() < 0.9 else "a": b["name"] for i, b in enumerate(branches)}
        if r.random() < 0.2:
            t["def"] = gen_dyn(r)
        return self.attrs(t, allow_default=False)

    def chain_type(self, pkg, depth):
        r = self.rng
        c = r.random()
        if c < 0.55:
            return self.chain_disj(pkg, depth)
        if c < 0.70:
            return self.odd_enum()
        if c < 0.80:     # map whose index is an anonymous struct / enum
            return self.attrs({"k": "map", "i": r.choice([self.struct(pkg, depth + 1), self.enum()]), "v": self.type(pkg, depth + 1)})
        if c < 0.90 and self.universe:
            p, n = r.choice(self.universe)
            return {"k": "cref", "pkg": p, "name": n, "val": r.choice([dstr("a"), dstr("b"), dint(1), None])}
        t = self.struct(pkg, depth)
        if r.random() < 0.5:
            t["hints"] = {"implements_variant": r.choice([dstr("dataquery"), dstr("panelcfg"), dint(1)])}
        if r.random() < 0.3:
            t["def"] = gen_dyn(r)
        return t

    def chain_objects(self, pkg, names):
        """extra objects: a struct family with a shared constant field, aliases, constants, top-level disjunctions"""
        r = self.rng
        objs = []
        fam = [n for n in names if n.startswith("Cat")]
        amb = r.random() < 0.12      # two shared constant fields: map-order dependent inference
        for i, n in enumerate(fam):
            fields = []
            c = r.random()
            disc = r.choice(["kind", "kind", "type"]) if i == 0 else self._fam_disc
            self._fam_disc = disc
            if c < 0.8:
                fields.append({"name": disc, "type": self.const_str("abc"[i % 3] if r.random() < 0.85 else "a"), "req": True})
            elif c < 0.88:
                fields.append({"name": disc, "type": {"k": "cref", "pkg": pkg, "name": "Kind", "val": r.choice([dstr("abc"[i % 3]), dint(i)])}, "req": True})
            elif c < 0.94:
                fields.append({"name": disc, "type": r.choice([self.scalar("string", concrete=False), {"k": "scalar", "sk": "int64", "val": dint(i)}]), "req": True})
            if amb:
                fields.append({"name": "extra", "type": self.const_str("e%d" % i), "req": True})
            for fn in r.sample(["id", "name", "value", "items"], r.randint(0, 2)):
                fields.append({"name": fn, "type": self.type(pkg, 2), "req": r.random() < 0.5})
            if r.random() < 0.3:
                r.shuffle(fields)
            objs.append({"name": n, "type": {"k": "struct", "fields": fields}})
        for n in names:
            if n.startswith("Cat"):
                continue
            c = r.random()
            if c < 0.25:      # alias, possibly of a struct / array / itself / another alias
                t = {"k": "ref", "pkg": pkg, "name": r.choice(names + ["Foo", "Bar"])}
                if r.random() < 0.3:
                    t["hints"] = {"implements_variant": r.choice([dstr("dataquery"), dstr("panelcfg"), dint(2)])}
                if r.random() < 0.2:
                    t["null"] = True
            elif c < 0.40:
                t = self.const_scalar()
            elif c < 0.55:
                t = self.chain_disj(pkg, 0)
            elif c < 0.65:
                t = {"k": "array", "v": self.type(pkg, 1)}
            elif c < 0.75:
                t = self.odd_enum() if r.random() < 0.5 else self.enum()
            else:             # struct whose fields point at the aliases / family
                fields = [{"name": fn, "type": {"k": "ref", "pkg": pkg, "name": r.choice(names), "hints": {"h": dstr("v")}} if r.random() < 0.5 else self.type(pkg, 1),
                           "req": r.random() < 0.5, "comments": ["field comment"]} for fn in r.sample(FIELD_NAMES, r.randint(1, 3))]
                t = {"k": "struct", "fields": fields}
            o = {"name": n, "type": t}
            if r.random() < 0.4:
                o["comments"] = ["object comment"]
            objs.append(o)
        return objs

    # ---- schemas
    def schemas(self):
        r = self.rng
        npk = r.choice([1, 1, 2, 2, 3])
        pkgs = r.sample(PKGS, npk)
        plan = []
        chain = self.features.get("chain")
        extra = {}
        if chain and r.random() < 0.25:
            pkgs = (pkgs + ["common"]) if r.random() < 0.5 else (["common"] + pkgs)
        for p in pkgs:
            names = r.sample(OBJ_NAMES, r.randint(1, 6))
            if p == "common" and r.random() < 0.9:
                names.append("DataQuery")
            if chain:
                extra[p] = r.sample(CHAIN_OBJ_NAMES, r.randint(0, 6))
                r.shuffle(extra[p])
            plan.append((p, names))
            self.universe += [(p, n) for n in names + extra.get(p, [])]
        out = []
        for p, names in plan:
            objs = []
            if chain and r.random() < 0.5:
                objs += self.chain_objects(p, extra[p])
                extra[p] = []
            for n in names:
                c = r.random()
                if c < 0.5:
                    t = self.struct(p, 0)
                elif c < 0.62:
                    t = self.ref(p)            # alias
                    if self.features.get("acyclic_aliases"):
                        # aliases only point at objects that are not aliases themselves: no reference cycle
                        t = dict(t, name="__ALIAS_TARGET__")
                elif c < 0.72:
                    t = self.enum()
                elif c < 0.8:
                    t = self.scalar()
                else:
                    t = self.type(p, 0)
                o = {"name": n, "type": t}
                if n == "DataQuery" and r.random() < 0.85:
                    o["type"] = {"k": "struct", "fields": [{"name": fn, "type": self.scalar(), "req": True}
                                                           for fn in r.sample(["id", "name", "kind"], r.randint(0, 2))]}
                if r.random() < 0.3:
                    o["comments"] = [r.choice(COMMENTS) for _ in range(r.randint(1, 2))]
                objs.append(o)
            if chain:
                objs += self.chain_objects(p, extra[p])
                for o in objs:       # objects whose SelfRef differs from (package, name)
                    if r.random() < 0.02:
                        o["selfpkg"] = r.choice(PKGS + ["elsewhere"])
                    if r.random() < 0.02:
                        o["selfname"] = r.choice(OBJ_NAMES)
            s = {"pkg": p, "meta": {}, "entry": "", "objects": objs}
            if r.random() < 0.2:
                s["meta"] = {"kind": r.choice(["core", "composable"]), "variant": r.choice(["", "dataquery", "panelcfg"]), "id": r.choice(["", "ident", "Foo"])}
            if r.random() < 0.3 and names:
                ep = r.choice(names)
                s["entry"] = ep
                s["entrytype"] = {"k": "ref", "pkg": p, "name": ep}
            out.append(s)
        if self.features.get("twins") and out and r.random() < self.features["twins"]:
            # a second package with the same object names and shapes (references retargeted to itself):
            # exposes state leaking from one package to the next inside a pass
            import copy as _copy
            src = r.choice(out)
            twin = _copy.deepcopy(src)
            twin["pkg"] = "twin"

            def retarget(x):
                if isinstance(x, dict):
                    if x.get("k") in ("ref", "cref") and x.get("pkg") == src["pkg"]:
                        x["pkg"] = "twin"
                    for v in x.values():
                        retarget(v)
                elif isinstance(x, list):
                    for v in x:
                        retarget(v)
            retarget(twin["objects"])
            if twin.get("entrytype"):
                retarget(twin["entrytype"])
            out.insert(r.randrange(len(out) + 1), twin)
        if self.features.get("acyclic_aliases"):
            solid = [(s["pkg"], o["name"]) for s in out for o in s["objects"]
                     if not (o["type"]["k"] == "ref" and o["type"].get("name") == "__ALIAS_TARGET__")]
            for s in out:
                for o in s["objects"]:
                    if o["type"]["k"] == "ref" and o["type"].get("name") == "__ALIAS_TARGET__":
                        if solid:
                            o["type"]["pkg"], o["type"]["name"] = r.choice(solid)
                        else:
                            o["type"] = {"k": "scalar", "sk": "string"}
        return out


# ---------------------------------------------------------------- pass parameters
def all_objects(schemas):
    return [(s["pkg"], o["name"], o) for s in schemas for o in s["objects"]]


def all_fields(schemas):
    out = []
    for s in schemas:
        for o in s["objects"]:
            if o["type"]["k"] == "struct":
                for f in o["type"]["fields"]:
                    out.append((s["pkg"], o["name"], f["name"]))
    return out


def vary_case(rng, s):
    c = rng.random()
    if c < 0.6:
        return s
    if c < 0.75:
        return s.lower()
    if c < 0.9:
        return s.upper()
    return s.swapcase()


def pick_obj(rng, schemas):
    objs = all_objects(schemas)
    c = rng.random()
    if objs and c < 0.8:
        p, n, _ = rng.choice(objs)
        if rng.random() < 0.08:
            # the PACKAGE part of a reference is matched exactly: a package differing in letter case is absent
            q = p.capitalize() if p.capitalize() != p else p.upper()
            return q, n
        return p, vary_case(rng, n)
    if c < 0.9 and schemas:
        return rng.choice(schemas)["pkg"], "Absent"
    return "nopkg", "Foo"


def pick_field(rng, schemas):
    fs = all_fields(schemas)
    c = rng.random()
    if fs and c < 0.8:
        p, o, f = rng.choice(fs)
        if rng.random() < 0.08:
            return [p.capitalize() if p.capitalize() != p else p.upper(), o, f]
        return [p, vary_case(rng, o), vary_case(rng, f)]
    if fs and c < 0.9:
        p, o, f = rng.choice(fs)
        return [p, o, "absentField"]
    return ["nopkg", "Foo", "id"]


C15_PASSES = ["rename_object", "omit", "omit_fields", "add_fields", "add_object", "duplicate_object",
              "retype_object", "retype_field", "fields_set_required", "fields_set_not_required",
              "fields_set_default", "replace_reference", "constant_to_enum", "trim_enum_values",
              "hint_object", "schema_set_identifier", "schema_set_entry_point", "prefix_object_names",
              "append_comment_objects"]
C05_EXTRA = ["unspec", "filter_schemas", "name_anonymous_struct", "infer_entrypoint"]
CHAIN_PASSES = ["anonymous_structs_to_named", "not_required_field_as_nullable_type", "disjunction_with_null_to_optional",
                "disjunction_of_constants_to_enum", "anonymous_enum_to_explicit_type", "prefix_enum_values",
                "flatten_disjunctions", "disjunction_of_anonymous_structs_to_explicit", "disjunction_infer_mapping",
                "undiscriminated_disjunction_to_any", "disjunction_to_type", "remove_intersections",
                "sanitize_enum_member_names", "inline_objects_with_types", "rename_numeric_enum_values",
                "disjunction_with_constant_to_default", "dataquery_identification"]


def gen_pass(rng, schemas, kind, irgen):
    pkgs = [s["pkg"] for s in schemas] or ["alpha"]
    if kind == "rename_object":
        p, o = pick_obj(rng, schemas)
        to = rng.choice(["Renamed", "NewName", "Foo", "Bar"])
        return {"p": kind, "pkg": p, "obj": o, "to": to}
    if kind == "omit":
        return {"p": kind, "refs": [list(pick_obj(rng, schemas)) for _ in range(rng.randint(1, 2))]}
    if kind in ("omit_fields", "fields_set_required", "fields_set_not_required"):
        return {"p": kind, "refs": [pick_field(rng, schemas) for _ in range(rng.randint(1, 3))]}
    if kind == "add_fields":
        p, o = pick_obj(rng, schemas)
        fields = [{"name": rng.choice(FIELD_NAMES + ["added"]), "type": irgen.type(p, 2), "req": rng.random() < 0.5}
                  for _ in range(rng.randint(1, 3))]
        return {"p": kind, "pkg": p, "obj": o, "fields": fields}
    if kind == "add_object":
        p = rng.choice(pkgs + ["nopkg"])
        j = {"p": kind, "pkg": p, "obj": rng.choice(["Added", "Foo", "NewObj"]), "as": irgen.type(p, 2)}
        if rng.random() < 0.5:
            j["comments"] = [rng.choice(COMMENTS)]
        return j
    if kind == "duplicate_object":
        p, o = pick_obj(rng, schemas)
        j = {"p": kind, "pkg": p, "obj": o, "topkg": rng.choice(pkgs + ["nopkg"]), "to": rng.choice(["Copy", "Foo", "Dup"])}
        if rng.random() < 0.4:
            j["omit"] = [vary_case(rng, rng.choice(FIELD_NAMES)) for _ in range(rng.randint(1, 2))]
        return j
    if kind == "retype_object":
        p, o = pick_obj(rng, schemas)
        j = {"p": kind, "pkg": p, "obj": o, "as": irgen.type(p, 2)}
        if rng.random() < 0.4:
            j["comments"] = [rng.choice(COMMENTS)]
        return j
    if kind == "retype_field":
        p, o, f = pick_field(rng, schemas)
        j = {"p": kind, "pkg": p, "obj": o, "fld": f, "as": irgen.type(p, 2)}
        if rng.random() < 0.4:
            j["comments"] = [rng.choice(COMMENTS)]
        return j
    if kind == "fields_set_default":
        # never two keys matching the same field: that case is map-order dependent (C03)
        defs, seen = [], set()
        for _ in range(rng.randint(1, 3)):
            r = pick_field(rng, schemas)
            key = (r[0], r[1].lower(), r[2].lower())
            if key in seen:
                continue
            seen.add(key)
            defs.append({"ref": r, "val": gen_dyn(rng)})
        return {"p": kind, "defs": defs}
    if kind == "replace_reference":
        p, o = pick_obj(rng, schemas)
        tp, to = pick_obj(rng, schemas)
        return {"p": kind, "pkg": p, "obj": o, "topkg": tp, "to": to if rng.random() < 0.7 else "Elsewhere"}
    if kind == "constant_to_enum":
        return {"p": kind, "refs": [list(pick_obj(rng, schemas)) for _ in range(rng.randint(1, 2))]}
    if kind == "hint_object":
        p, o = pick_obj(rng, schemas)
        return {"p": kind, "pkg": p, "obj": o, "hints": {k: gen_dyn(rng) for k in rng.sample(["h1", "h2", "custom_hint"], rng.randint(1, 2))}}
    if kind == "schema_set_identifier":
        return {"p": kind, "pkg": rng.choice(pkgs + ["nopkg"]), "str": rng.choice(["ident", "X", ""])}
    if kind == "schema_set_entry_point":
        objs = all_objects(schemas)
        return {"p": kind, "pkg": rng.choice(pkgs + ["nopkg"]), "str": rng.choice([o[1] for o in objs] + ["Absent"])}
    if kind == "prefix_object_names":
        return {"p": kind, "str": rng.choice(["Pre", "x_", "", "v2"])}
    if kind == "append_comment_objects":
        return {"p": kind, "str": rng.choice(COMMENTS + ["generated"])}
    if kind == "filter_schemas":
        return {"p": kind, "refs": [list(pick_obj(rng, schemas)) for _ in range(rng.randint(1, 3))]}
    if kind == "name_anonymous_struct":
        p, o, f = pick_field(rng, schemas)
        return {"p": kind, "pkg": p, "obj": o, "fld": f, "to": rng.choice(["Named", "Foo", ""])}
    if kind == "inline_objects_with_types":
        choices = [["scalar", "array", "map", "disjunction"], ["scalar"], ["array", "map"], ["enum"]]
        if irgen.features.get("chain"):
            choices += [["struct", "enum"], ["ref", "disjunction", "intersection"], ["scalar", "array", "map", "disjunction"]]
        return {"p": kind, "kinds": rng.choice(choices)}
    return {"p": kind}
